"""Shared machinery for tools/check: builds, Coq audit, correspondence runs, shrinking,
evidence and replay files.  Everything runs offline from files on disk."""
import json, os, re, subprocess, sys, time, hashlib, random

V = os.environ.get("VERIF_ROOT") or os.path.dirname(os.path.dirname(os.path.abspath(__file__)))
B = V + "/.build"
HARNESS = B + "/harness-target/release/utpharness"
MODEL = B + "/modelrun"
COQ = V + "/coq"

FORBIDDEN = re.compile(
    r"\b(Admitted|admit|Axiom|Axioms|Parameter|Parameters|Conjecture|Hypothesis|Variable|"
    r"Admit Obligations|bypass_check|native_compute)\b|Unset\s+Guard|Unset\s+Positivity|"
    r"Unset\s+Universe|type-in-type|impredicative-set")

# Axioms of the standard library that a property theorem may depend on, by property.
AXIOM_ALLOW = {
    "C15": {
        "ClassicalDedekindReals.sig_forall_dec", "ClassicalDedekindReals.sig_not_dec",
        "FunctionalExtensionality.functional_extensionality_dep", "Classical_Prop.classic",
    },
}


class Timer:
    def __init__(self):
        self.t0 = time.time()

    def s(self):
        return round(time.time() - self.t0, 2)


def sh(cmd, timeout=3000, inp=None, cwd=None, env=None):
    e = dict(os.environ)
    e["CARGO_NET_OFFLINE"] = "true"
    if env:
        e.update(env)
    p = subprocess.run(cmd, shell=isinstance(cmd, str), input=inp, capture_output=True,
                       text=True, timeout=timeout, cwd=cwd, env=e)
    return p.returncode, p.stdout, p.stderr


def build(what):
    rc, out, err = sh([V + "/tools/build.sh", what], timeout=3400)
    return rc, (out + err)


# --------------------------------------------------------------------------- Coq audit

def theorem_blocks(props_file):
    """[(name, statement_text, proof_text)] of a Props/Cxx.v file."""
    src = open(props_file).read()
    src_nc = re.sub(r"\(\*.*?\*\)", "", src, flags=re.S)
    out = []
    for m in re.finditer(r"Theorem\s+(\w+)\s*:(.*?)\nProof\.(.*?)Qed\.", src_nc, flags=re.S):
        name, stmt, proof = m.group(1), m.group(2), m.group(3)
        out.append((name, " ".join(stmt.split()), " ".join(proof.split())))
    return out, src_nc


def audit_coq(prop, theories_sub=None):
    """Returns (ok, report dict).  Checks: forbidden tokens anywhere in the development,
    Props file shape, statement pins, Print Assumptions allow-list."""
    rep = {"obligations": 0, "discharged": 0, "theorems": [], "problems": []}
    # 1. forbidden tokens in every .v of the development
    for root, _, files in os.walk(COQ + "/theories"):
        for f in files:
            if not f.endswith(".v"):
                continue
            p = os.path.join(root, f)
            txt = re.sub(r"\(\*.*?\*\)", "", open(p).read(), flags=re.S)
            for m in FORBIDDEN.finditer(txt):
                tok = m.group(0)
                # Section Variables/Hypotheses are allowed only inside a Section
                if tok in ("Variable", "Hypothesis"):
                    before = txt[:m.start()]
                    if before.count("Section ") > before.count("\nEnd "):
                        continue
                rep["problems"].append(f"forbidden token {tok!r} in {p}")
    props_file = f"{COQ}/theories/Props/{prop}.v"
    if not os.path.exists(props_file):
        rep["problems"].append(f"missing {props_file}")
        return False, rep
    blocks, src_nc = theorem_blocks(props_file)
    if re.search(r"\b(Lemma|Definition|Fixpoint|Ltac|Example|Instance)\b", src_nc):
        rep["problems"].append(f"{props_file} contains more than Theorem/exact/Print Assumptions")
    pins_path = f"{V}/statements/{prop}.json"
    pins = json.load(open(pins_path)) if os.path.exists(pins_path) else None
    names = []
    for name, stmt, proof in blocks:
        names.append(name)
        if not re.fullmatch(r"(exact \(?[\w. @]+\)?\.|vm_compute\. reflexivity\.)", proof):
            rep["problems"].append(f"{name}: proof is not a single `exact lemma.`: {proof!r}")
        if pins is not None:
            if name not in pins:
                rep["problems"].append(f"{name}: statement not pinned in {pins_path}")
            elif pins[name] != stmt:
                rep["problems"].append(f"{name}: statement differs from the pinned one")
    if pins is not None:
        for n in pins:
            if n not in names:
                rep["problems"].append(f"pinned theorem {n} is missing from {props_file}")
    else:
        rep["problems"].append(f"no statement pins {pins_path}")
    # 2. the compiled .vo must exist and be newer than its source
    vo = props_file[:-2] + ".vo"
    if not os.path.exists(vo) or os.path.getmtime(vo) < os.path.getmtime(props_file):
        rep["problems"].append(f"{vo} missing or stale (proofs did not compile)")
        rep["obligations"] = len(names)
        return False, rep
    # 3. Print Assumptions for each theorem through a fresh coqc run
    os.makedirs(B + "/audit", exist_ok=True)
    af = f"{B}/audit/Audit_{prop}.v"
    with open(af, "w") as f:
        f.write(f"From Utp Require Import Props.{prop}.\n")
        for n in names:
            f.write(f'Goal True. idtac "@@@ {n}". exact I. Qed.\nPrint Assumptions {n}.\n')
    rc, out, err = sh(["coqc", "-Q", COQ + "/theories", "Utp", af], timeout=600)
    if rc != 0:
        rep["problems"].append("audit coqc failed: " + (out + err)[-500:])
        rep["obligations"] = len(names)
        return False, rep
    allow = AXIOM_ALLOW.get(prop, set())
    chunks = re.split(r"@@@ (\w+)\n", out)
    seen = {}
    for i in range(1, len(chunks), 2):
        seen[chunks[i]] = chunks[i + 1]
    for n in names:
        rep["obligations"] += 1
        txt = seen.get(n, "")
        axioms = []
        if "Closed under the global context" not in txt:
            axioms = [a for a in re.findall(r"^([\w.]+)\s*:", txt, flags=re.M) if a != "Axioms"]
            if not axioms:
                rep["problems"].append(f"{n}: could not read Print Assumptions output")
                continue
        bad = [a for a in axioms if a not in allow]
        if bad:
            rep["problems"].append(f"{n}: depends on non-allow-listed axioms {bad}")
        else:
            rep["discharged"] += 1
        rep["theorems"].append({"name": n, "axioms": axioms})
    return (not rep["problems"]), rep


def write_pins(prop):
    blocks, _ = theorem_blocks(f"{COQ}/theories/Props/{prop}.v")
    os.makedirs(V + "/statements", exist_ok=True)
    json.dump({n: s for n, s, _ in blocks}, open(f"{V}/statements/{prop}.json", "w"),
              indent=1, sort_keys=True)


# --------------------------------------------------------------------------- running cases

def _big_stack():
    # the extracted Gallina functions are not tail recursive (length, app, firstn on ring contents of up to
    # 1 MiB): give the runners the largest stack the system allows
    import resource
    try:
        soft, hard = resource.getrlimit(resource.RLIMIT_STACK)
        resource.setrlimit(resource.RLIMIT_STACK, (hard, hard))
    except Exception:
        pass


def run_lines(binary, lines, timeout=1800):
    inp = "\n".join(lines) + "\n"
    p = subprocess.run([binary], input=inp, capture_output=True, text=True, timeout=timeout,
                       preexec_fn=_big_stack)
    out = p.stdout.split("\n")
    if out and out[-1] == "":
        out.pop()
    if len(out) != len(lines):
        # crashed mid-way: pad so that the first missing line is reported
        out += ["<NO-OUTPUT rc=%s %s>" % (p.returncode, p.stderr[-200:].replace("\n", " "))] * (len(lines) - len(out))
    return out


def run_sharded(binary, lines, shards=16, timeout=1800):
    if len(lines) < 64:
        return run_lines(binary, lines, timeout)
    from concurrent.futures import ThreadPoolExecutor
    n = len(lines)
    step = (n + shards - 1) // shards
    parts = [lines[i:i + step] for i in range(0, n, step)]
    with ThreadPoolExecutor(max_workers=shards) as ex:
        res = list(ex.map(lambda p: run_lines(binary, p, timeout), parts))
    out = []
    for r in res:
        out += r
    return out


def differential(lines):
    """Run impl harness and model runner on the same case lines.
    Returns (impl_out, model_out, [indices that differ])."""
    a = run_sharded(HARNESS, lines)
    b = run_sharded(MODEL, lines)
    diff = [i for i in range(len(lines)) if a[i] != b[i]]
    return a, b, diff


def shrink_line(line, fails0, max_steps=400, keep=0):
    """Delta-debug a case line (first token = component and the next `keep` parameter tokens
    are kept) by dropping tokens and shrinking integers inside tokens; `fails(line)->bool`."""
    toks = line.split()
    head, body = " ".join(toks[:1 + keep]), toks[1 + keep:]

    def fails(l):
        try:
            return fails0(l)
        except Exception:
            return False
    steps = 0
    chunk = max(1, len(body) // 2)
    while chunk >= 1 and steps < max_steps:
        i = 0
        progressed = False
        while i < len(body) and steps < max_steps:
            cand = body[:i] + body[i + chunk:]
            steps += 1
            if cand != body and fails(" ".join([head] + cand)):
                body = cand
                progressed = True
            else:
                i += chunk
        if not progressed:
            chunk //= 2
    # shrink numbers
    for idx in range(len(body)):
        for m in reversed(list(re.finditer(r"\d+", body[idx]))):
            val = int(m.group(0))
            for cand_val in (0, 1, val // 2, val - 1):
                if cand_val < 0 or cand_val >= val or steps >= max_steps * 2:
                    continue
                cand_tok = body[idx][:m.start()] + str(cand_val) + body[idx][m.end():]
                cand = body[:idx] + [cand_tok] + body[idx + 1:]
                steps += 1
                if fails(" ".join([head] + cand)):
                    body = cand
                    break
    return " ".join([head] + body)


def disagree(line):
    a = run_lines(HARNESS, [line])
    b = run_lines(MODEL, [line])
    return a != b


# --------------------------------------------------------------------------- output

def write_replay(prop, kind, payload):
    os.makedirs(V + "/replays", exist_ok=True)
    h = hashlib.sha1(json.dumps(payload, sort_keys=True).encode()).hexdigest()[:10]
    path = f"{V}/replays/{prop}_{kind}_{h}.json"
    payload = dict(payload)
    payload["property"] = prop
    payload["kind"] = kind
    json.dump(payload, open(path, "w"), indent=1)
    return path


def write_evidence(prop, tier, seed, coverage, wall_s, violations, assumptions):
    os.makedirs(V + "/evidence", exist_ok=True)
    ev = {
        "property_id": prop, "tier": tier, "seed": seed, "level": "proof",
        "coverage": coverage, "assumptions": assumptions, "wall_s": wall_s,
        "violations": violations,
    }
    json.dump(ev, open(f"{V}/evidence/{prop}.json", "w"), indent=1)


def known_findings():
    p = V + "/known_findings.json"
    if os.path.exists(p):
        return json.load(open(p))
    return {"open": [], "fixed": []}


class Rng:
    """splitmix64; every random choice of a run derives from VERIF_SEED."""
    def __init__(self, seed):
        self.s = seed & 0xFFFFFFFFFFFFFFFF

    def next(self):
        self.s = (self.s + 0x9E3779B97F4A7C15) & 0xFFFFFFFFFFFFFFFF
        z = self.s
        z = ((z ^ (z >> 30)) * 0xBF58476D1CE4E5B9) & 0xFFFFFFFFFFFFFFFF
        z = ((z ^ (z >> 27)) * 0x94D049BB133111EB) & 0xFFFFFFFFFFFFFFFF
        return z ^ (z >> 31)

    def below(self, n):
        return self.next() % n if n > 0 else 0

    def range(self, lo, hi):
        return lo + self.below(hi - lo + 1)

    def choice(self, xs):
        return xs[self.below(len(xs))]

    def chance(self, num, den):
        return self.below(den) < num

    def fork(self, tag):
        h = int(hashlib.sha1(f"{self.s}:{tag}".encode()).hexdigest()[:16], 16)
        return Rng(h)

"""C01 — byte-stream integrity: what one application has read is at every moment a prefix of what
the peer application wrote.  Pair tier: two real VirtualSockets joined by a simulated network
(`pair` component), differential against the pair model (coq/theories/Pair/Pair.v), and the
extracted predicate c01_pair_ok evaluated on the implementation's own observations."""
import os, sys
sys.path.insert(0, os.path.dirname(os.path.dirname(os.path.abspath(__file__))))
import checklib as L
from . import common, pairgen, concgen

KEEP = pairgen.NCFG

TRUSTED_BASE = common.BASE_TRUSTED + [
    common.NO_AXIOMS,
    "pair tier: harness/src/comp_pair.rs (two real VirtualSockets, the in-flight lists, the size blackhole, "
    "UtpMessage::deserialize on delivery) and driver/c_pair.ml (same bookkeeping replayed to rebuild what was written / "
    "delivered from the case line and the implementation's observations)",
    "the hash that stands for the bytes read (sum (b+1)*31^i mod 1000000007, defined in Coq, re-implemented in the harness): "
    "a collision would hide a difference",
]
ASSUMPTIONS = [
    "atomicity of the shared halves' methods (assumption 8.4) is not proved; for the send buffer it is VALIDATED on every run by the "
    "two-thread component txconc (writer thread against grow / truncate_front / look-at-the-ring): a byte accepted by poll_write "
    "that the dispatcher side never sees, or sees out of place, is a disagreement",
    "the network drops, duplicates, delays, reorders and size-filters datagrams; it never alters or forges one "
    "(UDP checksum; connection-id / address filtering is the socket dispatcher's job, C10/C12)",
    "assumed-and-monitored: c01_pair_ok is evaluated on every implementation trace of the run (it is the consequence the "
    "theorems give for the data-path system; the refinement `poll_refines_dp` of the whole poll is not proved)",
    "16-bit sequence numbers: the data-path theorem needs every delivered datagram to lie within 2^16 minus the "
    "reassembly capacity sequence numbers behind, and less than 2^16 ahead of, the receiver's next expected number "
    "(dp_wrap_ok; decidable on the op list). The generator never holds a datagram that long",
    "KF1 (known design finding): an MTU probe that is popped and re-segmented after a copy of it reached the peer "
    "breaks C01; traces in that class (c01_kf1_class) are reported as KNOWN-FINDING, the theorems carry the guard dp_kf1_free",
]
RULE = ("pair generator (open loop, tolerant ops): handshake, then transfers in one or both directions with position-dependent "
        "payload ((start+j) mod 251), profiles clean / loss / reorder / dup / delay / size blackhole between the family minimum and "
        "the link MTU / EMSGSIZE limit / small buffers / Nagle on-off / initial sequence numbers near 65535 / flush-shutdown-drop at "
        "random points / clock jumps past RTO, delayed-ACK and inactivity timers / reads of random sizes; "
        "non-trivial = at least 3 polls and at least one byte read by an application; distinct = distinct case line")

KNOWN_IDS = ("KF1",)


def gen(rng, tier):
    return pairgen.gen(rng, tier)


def classify(line, out):
    f = pairgen.features(line, out)
    keys = ["xfer", "both", "10k", "loss", "dup", "reorder", "hole", "retx", "reseg", "wrap", "fin"]
    tag = "+".join(k for k in keys if k in f) or "idle"
    ends = sorted(x for x in f if x.startswith("end="))
    if "PANIC" in f:
        tag = "PANIC:" + tag
    return tag + ("|" + ",".join(ends) if ends else "")


def nontrivial(line, out):
    f = pairgen.features(line, out)
    return "xfer" in f and "polls>=3" in f


def pred_builder(name):
    def pred(line, out):
        if "BADCASE" in out or "BADCONFIG" in out:
            return None
        t = line.split()
        return "pair_pred %s %s | %s" % (name, " ".join(t[1:]), out)
    return pred


def feature_counts(lines, outs):
    c = {}
    for l, o in zip(lines, outs):
        for f in pairgen.features(l, o):
            c[f] = c.get(f, 0) + 1
    return c


# ----------------------------------------------------------------------------- known findings
def in_class(pred_name, case, impl):
    t = case.split()
    line = "pair_pred %s %s | %s" % (pred_name, " ".join(t[1:]), impl)
    return L.run_lines(L.MODEL, [line])[0] == "OK"


def open_ids(kf):
    return {e.get("id"): e for e in kf.get("open", [])}


# D17 (a data segment retransmitted from the un-truncated ring in the poll that finds the message channel closed) is
# repaired (known_findings.json `fixed`, theorem c01_pair_channel_closed_regression): no class explains a failure of
# c01_pair_ok after a channel close any more.  Its former witness is a fixed case of the component pair_sockdrop.
CLASSIFIERS = [
    ("KF1", "c01_kf1_class2",
     "an MTU probe was popped and re-segmented under the same sequence number although a copy of it had reached "
     "(or later reached) the peer: the receiver appends overlapping bytes"),
]

# the former witness of D17 on the real code (the op list of Pair_Proofs.d17_pair_ops under CUBIC)
D17_CASE = ("pair 1 576 576 1048576 1048576 32768 1048576 1 1 5 10000000000 1 1 100 200 7 1000000 bP yD0 aW3000,0 aP xD0 "
            "xX0 bP T50000000 bP yD0 aZ T5000000000 aP xD0 xD0 xD0 bP bR5000")


def classify_known(kind, payload, kf):
    if kind != "predicate" or "case" not in payload:
        return None
    op = open_ids(kf)
    for kid, cls, text in CLASSIFIERS:
        if kid in op and in_class(cls, payload["case"], payload.get("impl", "")):
            return "id=%s %s; case `%s`" % (kid, text, payload["case"][:400])
    return None


def replay_known(kf):
    out = []
    op = open_ids(kf)
    for kid, cls, text in CLASSIFIERS:
        e = op.get(kid)
        if not e or "witness" not in e:
            continue
        for w in (e["witness"] if isinstance(e["witness"], list) else [e["witness"]]):
            if not w.startswith("pair "):
                continue
            impl = L.run_lines(L.HARNESS, [w])[0]
            p = pred_builder("c01_pair_ok")(w, impl)
            r = L.run_lines(L.MODEL, [p])[0] if p else "OK"
            if r != "OK" and in_class(cls, w, impl):
                out.append("KNOWN-FINDING: property=C01 id=%s still reproduces on the real code: `%s` -> %s"
                           % (kid, w[:300], r))
    return out


def gen_kf1(rng, tier):
    """a smaller stream aimed at the known class: loss / delay / blackhole with MTU probes in play"""
    n = 40 if tier == "quick" else 1000
    return [pairgen.gen_case(rng.fork("k%d" % i), profile=rng.choice(["loss", "delay", "hole", "chaos"]))
            for i in range(n)]


def gen_sockdrop(rng, tier):
    """the socket dispatcher of an endpoint goes away (message channel closed) in mid-transfer"""
    n = 30 if tier == "quick" else 800
    return [D17_CASE] + [pairgen.gen_case(rng.fork("z%d" % i), profile="sockdrop") for i in range(n)]


COMPONENTS = [
    # the guarded statement (what the theorems give): a failure here is a violation
    {"name": "pair", "keep": KEEP, "gen": gen, "nontrivial": nontrivial, "classify": classify,
     "pred": pred_builder("c01_pair_guarded2")},
    # the property text itself, unguarded: failures are expected to fall into the known class KF1
    {"name": "pair_unguarded", "keep": KEEP, "gen": gen_kf1, "nontrivial": nontrivial, "classify": classify,
     "pred": pred_builder("c01_pair_ok")},
    # message channel closed in mid-transfer (first case: the former witness of the repaired D17): the property text
    # itself must hold; only the KF1 class (probes are in play) explains a failure
    {"name": "pair_sockdrop", "keep": KEEP, "gen": gen_sockdrop, "nontrivial": nontrivial, "classify": classify,
     "pred": pred_builder("c01_pair_ok")},
    # the atomicity assumption behind the send-buffer theorems, tried on the real object by two threads
    concgen.component_tx(),
]

"""Generators for the `rx` component (UserRx + read half)."""


def gen_case(rng, big=False):
    max_in = rng.choice([1, 2, 3, 5, 10, 100, 528, 1452]) if big else rng.choice([1, 2, 3, 5, 10])
    slots = rng.choice([1, 2, 3, 4, 5, 8, 16, 64, 66]) if not big else rng.choice([1, 2, 4, 8, 70])
    if rng.chance(1, 12):
        max_rx = rng.range(1, max(1, max_in - 1))          # fewer bytes than one payload -> 64 slots
    else:
        max_rx = slots * max_in + rng.below(max_in)
    n = rng.range(1, 60)
    mode = rng.below(4)   # 0 in-order heavy, 1 reordering, 2 hostile, 3 slow reader
    ops = []
    start = 0
    for _ in range(n):
        r = rng.below(100)
        if r < 50:
            k = 0 if rng.below(20) else (1 if rng.chance(2, 3) else 2)
            if mode == 2 and rng.chance(1, 4):
                ln = rng.choice([0, max_in + 1, 2 * max_in, 1])
            elif rng.chance(1, 30):
                ln = 0
            else:
                ln = rng.range(1, max_in)
            if k == 1:
                ln = 0 if rng.below(4) else ln
            if mode == 0:
                off = 0 if rng.below(8) else rng.range(0, 3)
            elif mode == 1:
                off = rng.range(0, min(slots + 1, 70))
            elif mode == 2:
                off = rng.choice([0, 1, slots - 1, slots, slots + 1, 63, 64, 65, 66, 200])
                off = max(0, off)
            else:
                off = 0 if rng.below(3) else rng.range(0, 4)
            ops.append(f"a{k},{ln},{start % 251},{off}")
            start += ln
        elif r < 70:
            ops.append("f")
        elif r < 92:
            if mode == 3 and rng.below(3):
                continue
            ops.append("r%d" % rng.choice([1, 2, 3, max_in, 2 * max_in + 1, 10000, 0] if rng.below(6) else [max_in, 3 * max_in, 7]))
        elif r < 95:
            ops.append("d")
        elif r < 98:
            ops.append("c")
        else:
            ops.append("e")
    return f"rx {max_rx} {max_in} " + " ".join(ops)


def gen(rng, tier):
    n = 1500 if tier == "quick" else 40000
    return [gen_case(rng, big=rng.chance(1, 10)) for _ in range(n)]

"""C04 — receiver honesty (component level: UserRx + read half)."""
from . import common, rxgen

TRUSTED_BASE = common.BASE_TRUSTED + [common.NO_AXIOMS]
ASSUMPTIONS = [
    "each method of UserRx / UtpStreamReadHalf is atomic (it holds the parking_lot mutex for its whole body); "
    "the theorems quantify over every interleaving of method calls, not over interleavings inside one",
    "wakers modelled as registered-flags plus wake events (counting wakers in the harness)",
    "window values < 2^32 (the `as u32` in rx_window is applied by the dispatcher, not by this component)",
    "add_remove offsets are non-negative (they are usize in the code)",
]
RULE = ("op lists over {add_remove(kind,payload,offset), flush, read(n), drop reader, mark closed, enqueue error} with "
        "capacities 1..70 slots, payload 0..2*max, offsets in/out of window, four traffic modes; "
        "non-trivial = at least one out-of-order store (SACK present) and one read returning bytes; "
        "distinct = distinct case line")


def nontrivial(line, out):
    toks = out.split()
    has_sack = any(t.count("/") >= 3 and t.split("/")[3] != "-" for t in toks)
    has_read = any(t.startswith("R") for t in toks)
    return has_sack and has_read


def classify(line, out):
    toks = out.split()
    if "PANIC" in toks:
        return "panic"
    k = []
    if any(t.split("/")[3] != "-" for t in toks if "/" in t):
        k.append("ooo")
    if any(t.startswith("UN") for t in toks):
        k.append("refused")
    if any(t.startswith("AP") for t in toks):
        k.append("dup")
    if any(t.startswith("R") for t in toks):
        k.append("read")
    if any(t.startswith("EOF") for t in toks):
        k.append("eof")
    return "+".join(k) if k else "plain"


def pred(line, out):
    t = line.split()
    return f"rx_pred {t[1]} {t[2]} | {out}"


def gen_around(rng, line, tier):
    return rxgen.gen(rng, "quick")[:300]


COMPONENTS = [{"name": "rx", "keep": 2, "gen": rxgen.gen, "gen_around": gen_around, "nontrivial": nontrivial,
               "classify": classify, "pred": pred}]

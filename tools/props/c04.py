"""C04 — receiver honesty (component level: UserRx + read half; connection level: emitted ack numbers)."""
from . import common, rxgen, vsock_common, c07, concgen

TRUSTED_BASE = common.BASE_TRUSTED + [common.NO_AXIOMS]
ASSUMPTIONS = [
    "each method of UserRx / UtpStreamReadHalf is atomic (it holds the parking_lot mutex for its whole body); "
    "the theorems quantify over every interleaving of method calls, not over interleavings inside one",
    "wakers modelled as registered-flags plus wake events (counting wakers in the harness)",
    "window values < 2^32 (the `as u32` in rx_window is applied by the dispatcher, not by this component)",
    "add_remove offsets are non-negative (they are usize in the code)",
]
RULE = ("op lists over {add_remove(kind,payload,offset), flush, read(n), drop reader, mark closed, enqueue error} with "
        "capacities 1..70 slots, payload 0..2*max, offsets in/out of window, four traffic modes; "
        "non-trivial = at least one out-of-order store (SACK present) and one read returning bytes; "
        "distinct = distinct case line")


def nontrivial(line, out):
    toks = out.split()
    has_sack = any(t.count("/") >= 3 and t.split("/")[3] != "-" for t in toks)
    has_read = any(t.startswith("R") for t in toks)
    return has_sack and has_read


def classify(line, out):
    toks = out.split()
    if "PANIC" in toks:
        return "panic"
    k = []
    if any(t.split("/")[3] != "-" for t in toks if "/" in t):
        k.append("ooo")
    if any(t.startswith("UN") for t in toks):
        k.append("refused")
    if any(t.startswith("AP") for t in toks):
        k.append("dup")
    if any(t.startswith("R") for t in toks):
        k.append("read")
    if any(t.startswith("EOF") for t in toks):
        k.append("eof")
    return "+".join(k) if k else "plain"


def pred(line, out):
    t = line.split()
    return f"rx_pred {t[1]} {t[2]} | {out}"


def gen_around(rng, line, tier):
    return rxgen.gen(rng, "quick")[:300]


def _vsock_gen(rng, tier):
    # the shared connection generators plus the receive-side scenarios of C07 (out-of-order arrivals,
    # duplicates, FIN before data, zero windows)
    # ... and the teardown scenarios of C17 (FIN of either side in every closing state, out of sequence, with data lost
    # before it): an ACK number that jumps over data never received shows there (seeded C04-b)
    from . import c17
    return vsock_common.gen(rng, tier) + c07.gen_own(rng.fork("rxside"), tier) + \
        c17.gen_teardown(rng.fork("teardown"), 250 if tier == "quick" else 6000)


# ----------------------------------------------------------------------------- known findings
import checklib as L


def _in_class(cls, case, impl):
    t = case.split()
    return L.run_lines(L.MODEL, ["vsock_pred %s %s | %s" % (cls, " ".join(t[1:]), impl)])[0] == "OK"


D19_TEXT = ("in state SynAckSent an ST_FIN with ANY sequence number is accepted: last_consumed jumps to the FIN's "
            "number and an ACK is emitted for sequence numbers that never arrived")


def classify_known(kind, payload, kf):
    if kind != "predicate" or "case" not in payload or not payload["case"].startswith("vsock "):
        return None
    op = {e.get("id") for e in kf.get("open", [])}
    if "D19" in op and "c04_vsock_ack_ok" in payload.get("predicate_result", "") \
            and _in_class("c04_d19_class", payload["case"], payload.get("impl", "")):
        return "id=D19 %s; case `%s`" % (D19_TEXT, payload["case"][:300])
    return None


def replay_known(kf):
    out = []
    for e in kf.get("open", []):
        if e.get("id") == "D22":
            for w in (e["witness"] if isinstance(e["witness"], list) else [e["witness"]]):
                impl = L.run_lines(L.HARNESS, [w])[0]
                p = vsock_common.pred_builder("c04_vsock_ack_ok")(w, impl)
                if p and L.run_lines(L.MODEL, [p])[0] != "OK" and _in_class("c04_d22_class", w, impl):
                    out.append("KNOWN-FINDING: property=C04 id=D22 still reproduces on the real code: `%s` (ACK number "
                               "overstates after the peer's FIN: data numbered beyond the FIN was held)" % w)
        if e.get("id") != "D19":
            continue
        for w in (e["witness"] if isinstance(e["witness"], list) else [e["witness"]]):
            impl = L.run_lines(L.HARNESS, [w])[0]
            p = vsock_common.pred_builder("c04_vsock_ack_ok")(w, impl)
            if p and L.run_lines(L.MODEL, [p])[0] != "OK" and _in_class("c04_d19_class", w, impl):
                out.append("KNOWN-FINDING: property=C04 id=D19 still reproduces on the real code: `%s`" % w)
    return out


_VS = vsock_common.component("c04_vsock_ack_guarded+c04_consumed_honest_guarded", name="vsock_ack")
_VS["gen"] = _vsock_gen

COMPONENTS = [_VS, {"name": "rx", "keep": 2, "gen": rxgen.gen, "gen_around": gen_around, "nontrivial": nontrivial,
               "classify": classify, "pred": pred},
              # the atomicity assumption behind the receive-side theorems, tried on the real object by two threads
              concgen.component_rx()]

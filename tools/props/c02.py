"""C02 (the wake-up half) — blocked readers/writers and the parked dispatcher are woken when their
condition changes; a write / shutdown on an idle connection is transmitted at once.  Connection level."""
import os, sys
sys.path.insert(0, os.path.dirname(os.path.dirname(os.path.abspath(__file__))))
import checklib as L
from . import common, vsock_common, vsockgen, c10, concgen

TRUSTED_BASE = common.BASE_TRUSTED + [common.NO_AXIOMS]
ASSUMPTIONS = [
    "wakers are modelled as registered-flags plus wake events; the harness uses counting wakers (one per task: "
    "dispatcher, reader, writer) and reports which of them fired during each event",
    "each method of UserRx / UserTx / the stream halves is atomic - NOT literally true (UserRx::flush and poll_read take the lock "
    "several times per call) and not proved; validated on every run by the two-thread components rxconc / txconc: reader / writer "
    "thread against a dispatcher thread, both really parked on their wakers, tiny buffers so that they park constantly; a state with "
    "both parked and no wake-up pending (decided under one mutex) or a byte lost / out of place is a disagreement",
    "safety half only: eventual delivery and the silence bound (liveness clauses of C02) are not covered",
    "the promptness clauses need a writable transport, an open peer window and congestion window, no recovery / RTO "
    "back-off in progress (guards inside c02_prompt)",
]
RULE = ("shared vsock generators plus a WAKE stream (readers/writers parked at every point: read before data, write into "
        "a full ring, flush/shutdown with data pending, FIN alone / FIN behind data, zero-window episodes with small "
        "receive buffers and growing segment size, shutdown / write / drop on idle connections followed at once by a poll); "
        "non-trivial = >= 3 polls and data exchanged; distinct = distinct case line")

# (id, classifier predicate (negated form registered in the driver), predicate it explains, text)
# D2, D8 and D14 are repaired (known_findings.json `fixed`): c02_shutdown_wakes, c02_eof_wakes and c02_rto_armed must
# simply hold now, no class explains a failure of theirs any more.
CLASSIFIERS = [
    ("D9", "c02_d9_class_neg", "c02_zero_window_waker",
     "UserRx::flush registers the dispatcher waker against the CREATION-time MSS while rx_window() rounds down to the "
     "CURRENT MSS: zero window advertised, no waker registered, no window update when the reader drains"),
]


def gen_wake_case(rng):
    cfg = vsockgen.gen_config(rng, kind=rng.choice(["out", "out", "out", "in"]))
    cfg[2] = rng.choice([1500, 1500, 1500, 1280, 9000])
    cfg[3] = rng.choice([3000, 3000, 2000, 1500, 10000, 1048576])        # small receive buffers
    cfg[4] = rng.choice([64, 1000, 4096, 32768])
    cfg[14] = rng.choice([1048576, 1048576, 100000, 3000])
    kind, isn, rseq = cfg[0], cfg[11], cfg[12]
    our_first = isn if kind == "in" else (isn + 1) % 65536
    st = {"peer_next": (rseq + 1) % 65536 if kind == "in" else rseq, "ts": 1, "pstart": 0, "wstart": 0,
          "now": cfg[16] if kind == "out" else 0, "sent": 0}
    ops = []

    def data(plen):
        st["ts"] += rng.range(1, 5000)
        m = f"M0,{st['peer_next']},{(our_first - 1) % 65536},1048576,{st['ts']},{plen},{st['pstart'] % 251},-"
        st["peer_next"] = (st["peer_next"] + 1) % 65536
        st["pstart"] += plen
        return m

    def fin():
        st["ts"] += rng.range(1, 5000)
        m = f"M1,{st['peer_next']},{(our_first - 1) % 65536},1048576,{st['ts']},0,0,-"
        st["peer_next"] = (st["peer_next"] + 1) % 65536
        return m

    def ack(k):
        st["ts"] += rng.range(1, 5000)
        return f"M2,{st['peer_next']},{(our_first - 1 + k) % 65536},1048576,{st['ts']},0,0,-"

    if kind == "in":
        ops += ["P", f"M2,{st['peer_next']},{(isn - 1) % 65536},1048576,1,0,0,-"]
    ops.append("P")
    scen = rng.choice(["shutdown_idle", "write_idle", "eof", "eof_behind", "zero_window", "zero_window", "full_ring",
                       "drop", "mixed"])
    if scen == "shutdown_idle":
        if rng.below(2):
            ops += ["W100,0", "P", ack(1), "P"]
        ops += [rng.choice(["H", "H", "DW"]), "P"]
    elif scen == "write_idle":
        for _ in range(rng.range(1, 3)):
            ln = rng.choice([1, 100, 528, 1000, 3000])
            ops += [f"W{ln},{st['wstart'] % 251}", "P"]
            st["wstart"] += ln
            st["sent"] += 1
            if rng.below(2):
                ops += [ack(st["sent"] + 3), "P"]
    elif scen == "eof":
        ops += ["R100", fin(), "P", "R100"]
    elif scen == "eof_behind":
        ops += ["R100", data(rng.choice([1, 100, 1000])), fin(), "P", "R2000", "R100"]
    elif scen == "zero_window":
        big = rng.choice([1000, 1100, 1400, 1452])
        for _ in range(rng.range(1, 4)):
            ops.append(data(big))
            if rng.below(3) == 0:
                ops.append("P")
        ops += ["P", "R%d" % rng.choice([100, 3000, 100000]), "P"]
        if rng.below(2):
            ops += [data(528), "P", "R100000", "P"]
    elif scen == "full_ring":
        ops += [f"W{cfg[4] + 100},0", f"W10,{cfg[4] % 251}", "F", "P", ack(1), "P", ack(40), "P", "W10,0", "H", "P"]
    elif scen == "drop":
        ops += [rng.choice(["DR", "DW"]), "P", rng.choice(["DR", "DW", "H"]), "P"]
    else:
        for _ in range(rng.range(3, 12)):
            ops.append(rng.choice(["P", "P", "R100", "R3000", data(rng.choice([1, 528, 1100])), "W100,0", "W3000,0", "F",
                                   "H", ack(rng.range(0, 4)), "DR", "DW", fin()]))
        ops.append("P")
    for _ in range(rng.range(0, 2)):
        st["now"] += rng.choice([40_000_000, 1_000_000_000])
        ops += [f"T{st['now']}", "P"]
    return "vsock " + " ".join(str(x) for x in cfg) + " " + " ".join(ops)


def gen_idle_after_history(rngs):
    """Closed loop: a send history (plain, RTO expiries with the rewind of last_sent_seq_nr, partial ACKs,
    SACK-driven fast retransmit, MTU probe failure), then ONE cumulative ACK of everything that was ever
    numbered (read back from the implementation's fingerprint), then the application event on the now idle
    connection (shutdown / drop / write) followed by a poll at the same clock.  D20 lived here."""
    cases = []
    for rng in rngs:
        cfg = vsockgen.gen_config(rng, kind="out")
        cfg[2] = rng.choice([1500, 1500, 1280, 9000])
        cfg[4] = rng.choice([4096, 32768])
        cfg[5] = max(cfg[5], cfg[4])
        cfg[7] = 5
        cfg[8] = 60_000_000_000
        cfg[14] = 1048576
        isn = cfg[11]
        st = {"ts": 1, "now": cfg[16], "w": 0}
        ops = ["P"]

        def ack(nr, sack="-"):
            st["ts"] += rng.range(1, 5000)
            return f"M2,{cfg[12]},{nr % 65536},1048576,{st['ts']},0,0,{sack}"

        def write(n):
            ops.append(f"W{n},{st['w'] % 251}")
            st["w"] += n

        hist = rng.choice(["plain", "rto", "rto", "rto_partial", "rto_chain", "sack", "probe_fail"])
        if hist == "probe_fail":
            ops.insert(0, "L%d" % rng.choice([600, 1000, 1200]))
        write(rng.choice([528, 1056, 1584, 3000]))
        ops.append("P")
        if hist in ("rto", "rto_partial", "rto_chain"):
            for _ in range(1 if hist != "rto_chain" else rng.range(2, 3)):
                st["now"] += rng.choice([1_000_000_000, 3_000_000_000, 8_000_000_000])
                ops += [f"T{st['now']}", "P"]
            if hist == "rto_partial":
                ops += [ack(isn + 1), "P"]
        elif hist == "sack":
            ops += [ack(isn, "0100000000000000") for _ in range(3)] + ["P"]
        elif hist == "probe_fail":
            for _ in range(rng.range(1, 3)):
                st["now"] += 1_000_000_000
                ops += [f"T{st['now']}", "P"]
        cases.append((cfg, ops, st, rng))
    # read seq_nr back from the implementation, acknowledge everything numbered so far
    lines = ["vsock " + " ".join(str(x) for x in cfg) + " " + " ".join(ops) for cfg, ops, _, _ in cases]
    outs = L.run_sharded(L.HARNESS, lines)
    res = []
    for (cfg, ops, st, rng), out in zip(cases, outs):
        polls = [t for t in out.split() if t.startswith("P:")]
        if not polls or polls[-1].count("/") < 4:
            continue
        seq_nr = int(polls[-1].split("/")[4].split("|")[0].split(",")[3])
        st["ts"] += 1
        ops += [f"M2,{cfg[12]},{(seq_nr - 1) % 65536},1048576,{st['ts']},0,0,-", "P"]
        ev = rng.choice(["H", "H", "DW", "W100,0", "W1000,0"])
        if ev == "DW" and rng.below(2):
            ops.append("DR")
        ops += [ev, "P"]
        for _ in range(rng.range(0, 2)):
            st["now"] += rng.choice([40_000_000, 1_000_000_000])
            ops += [f"T{st['now']}", "P"]
        res.append("vsock " + " ".join(str(x) for x in cfg) + " " + " ".join(ops))
    return res


def gen_probe_blackhole(rngs):
    """Closed loop: the path silently discards the MTU probe (and its retransmissions) while everything else is
    acknowledged; the probe is the only outstanding segment when the retransmission timer fires, is retransmitted
    (or popped at once with mtu_probe_max_retransmissions = 0), expires, its bytes are cut again - and must then
    still be sent.  C02-a lived here (RTO mode never left after the probe was given up)."""
    cases = []
    for rng in rngs:
        cfg = vsockgen.gen_config(rng, kind="out")
        cfg[1] = 1
        cfg[2] = rng.choice([1500, 1500, 1280, 9000])
        cfg[4] = 32768
        cfg[5] = 1048576
        cfg[6] = rng.choice([0, 1])
        cfg[7] = 5
        cfg[8] = 60_000_000_000
        cfg[10] = rng.choice([0, 1, 1, 2])
        cfg[14] = 1048576
        st = {"ts": 1, "now": cfg[16]}
        ops = ["P", f"W{rng.choice([20000, 30000])},0", "P"]
        cases.append((cfg, ops, st, rng))
    for rnd in range(4):
        lines = ["vsock " + " ".join(str(x) for x in cfg) + " " + " ".join(ops) for cfg, ops, _, _ in cases]
        outs = L.run_sharded(L.HARNESS, lines)
        for (cfg, ops, st, rng), out in zip(cases, outs):
            polls = [t for t in out.split() if t.startswith("P:")]
            if not polls or polls[-1].count("/") < 4 or not polls[-1].startswith("P:PEND"):
                continue
            parts = polls[-1].split("/")[4].split("|")
            snd_una = int(parts[1].split(",")[0])
            segs = [] if parts[2] == "-" else [g.split(".") for g in parts[2].split(";")]
            probe_idx = next((i for i, g in enumerate(segs) if g[6] == "1" and g[3] != "0"), None)
            st["ts"] += rng.range(1, 5000)
            if probe_idx is not None and probe_idx > 0:
                # acknowledge everything before the probe
                ops += [f"M2,{cfg[12]},{(snd_una + probe_idx - 1) % 65536},1048576,{st['ts']},0,0,-", "P"]
            elif probe_idx == 0:
                # the probe alone is outstanding: let the timer fire
                st["now"] += rng.choice([1_000_000_000, 3_000_000_000])
                ops += [f"T{st['now']}", "P"]
            else:
                sent = [i for i, g in enumerate(segs) if g[3] != "0"]
                if sent:
                    ops += [f"M2,{cfg[12]},{(snd_una + sent[-1]) % 65536},1048576,{st['ts']},0,0,-", "P"]
                else:
                    st["now"] += rng.choice([40_000_000, 1_000_000_000])
                    ops += [f"T{st['now']}", "P", "P"]
    res = []
    for cfg, ops, st, rng in cases:
        for _ in range(rng.range(1, 3)):
            st["now"] += rng.choice([40_000_000, 1_000_000_000, 3_000_000_000])
            ops += [f"T{st['now']}", "P"]
        res.append("vsock " + " ".join(str(x) for x in cfg) + " " + " ".join(ops))
    return res


def gen_wake(rng, tier):
    n = 400 if tier == "quick" else 8000
    m = 120 if tier == "quick" else 2000
    return [gen_wake_case(rng.fork("w%d" % i)) for i in range(n)] + \
        gen_idle_after_history([rng.fork("h%d" % i) for i in range(m)]) + \
        gen_probe_blackhole([rng.fork("b%d" % i) for i in range(m // 2)])


def gen(rng, tier):
    return vsock_common.gen(rng, tier) + gen_wake(rng.fork("wake"), tier)


def neg_in_class(cls_neg, case, impl):
    """The driver registers the step classifiers negated (`..._neg` is OK when NO step is in the class)."""
    t = case.split()
    line = "vsock_pred %s %s | %s" % (cls_neg, " ".join(t[1:]), impl)
    return L.run_lines(L.MODEL, [line])[0] != "OK"


D23_TEXT = ("no zero-window probe / persist timer: the peer advertised window 0, its single window-update ACK was dropped, the sender "
            "has nothing in flight and no timer armed - the transfer stalls although the network delivers everything from then on "
            "(until the inactivity timer kills the connection)")


def _final_fp(case, impl, side):
    """fingerprint of `side` after the last step of a pair trace (each token carries the OTHER side's fingerprint)"""
    toks = impl.split()[1:]
    for t in reversed(toks):
        parts = t.split("#")
        if len(parts) >= 3 and t[0] != side and t[1] == ":":
            return parts[1].split(",")
    return None


def _d23_class(case, impl, res):
    """the stalled direction's writer ends with last_remote_window = 0 (field 8 of the fingerprint)"""
    m = __import__("re").search(r"written (\d+)/(\d+) read (\d+)/(\d+)", res)
    if not m:
        return False
    wa, wb, rb, ra = (int(x) for x in m.groups())
    stalled = [w for w, short in (("a", rb < wa), ("b", ra < wb)) if short]
    if not stalled or rb > wa or ra > wb:
        return False
    for w in stalled:
        fp = _final_fp(case, impl, w)
        if not fp or len(fp) < 9 or fp[8] != "0":
            return False
    return True


def classify_known(kind, payload, kf):
    if kind != "predicate" or "case" not in payload:
        return None
    op = c10.open_ids(kf)
    if payload["case"].startswith("pair "):
        if "D23" in op and _d23_class(payload["case"], payload.get("impl", ""), payload.get("predicate_result", "")):
            return "id=D23 %s; case `%s`" % (D23_TEXT, payload["case"][:300])
        return None
    res = payload.get("predicate_result", "")
    for kid, cls_neg, pred_name, text in CLASSIFIERS:
        if kid in op and pred_name in res and neg_in_class(cls_neg, payload["case"], payload.get("impl", "")):
            # the predicate with the known class is evaluated LAST (every other predicate held on this trace), and
            # every step on which it fails must be inside the class
            t = payload["case"].split()
            line = "vsock_pred %s_or_d9 %s | %s" % (pred_name, " ".join(t[1:]), payload.get("impl", ""))
            if L.run_lines(L.MODEL, [line])[0] == "OK":
                return "id=%s %s; case `%s`" % (kid, text, payload["case"][:400])
    return None


def replay_known(kf):
    out = []
    op = c10.open_ids(kf)
    e = op.get("D23")
    if e:
        for w in (e["witness"] if isinstance(e["witness"], list) else [e["witness"]]):
            if not w.startswith("pair "):
                continue
            impl = L.run_lines(L.HARNESS, [w])[0]
            p = _settle_pred(w, impl)
            r = L.run_lines(L.MODEL, [p])[0] if p else "OK"
            if r != "OK" and _d23_class(w, impl, r):
                out.append("KNOWN-FINDING: property=C02 id=D23 still reproduces on the real code: the pair_settle witness of "
                           "known_findings.json stalls with the sender's last_remote_window = 0 (%s)" % r[5:90])
    for kid, cls_neg, pred_name, text in CLASSIFIERS:
        e = op.get(kid)
        if not e or "witness" not in e:
            continue
        for w in (e["witness"] if isinstance(e["witness"], list) else [e["witness"]]):
            if not w.startswith("vsock "):
                continue
            impl = L.run_lines(L.HARNESS, [w])[0]
            p = vsock_common.pred_builder(pred_name)(w, impl)
            if p and L.run_lines(L.MODEL, [p])[0] != "OK" and neg_in_class(cls_neg, w, impl):
                out.append("KNOWN-FINDING: property=C02 id=%s still reproduces on the real code: `%s` (%s false)"
                           % (kid, w, pred_name))
    return out


def _comp(pred_name, name, generator=None):
    c = vsock_common.component(pred_name, name)
    c["gen"] = generator or (lambda rng, tier: gen_wake(rng.fork("wake"), tier))
    return c


# one component, every predicate evaluated on every trace (the first failing one is reported); the quick tier stays
# within minutes, the thorough tier multiplies the cases
# (the predicate with an open known class, c02_zero_window_waker / D9, comes last so that it masks nothing)
# c02_rto_mode_armed, c02_no_silent_stall_g, c02_rto_armed_fin_g, c02_prompt_write_g: theorems of every model trace (guards inside
# the predicates, Conn/C02_Pred2.v / Props/C02.v); the unguarded c02_rto_armed / c02_no_silent_stall / c02_prompt stay monitored
ALL_PREDS = ["c02_parked_ok", "c02_write_wakes", "c02_drop_writer_wakes", "c02_shutdown_wakes", "c02_read_wakes",
             "c02_eof_wakes", "c02_timer_ok_g", "c02_rto_mode_armed", "c02_rto_armed_fin_g", "c02_no_silent_stall_g",
             "c02_prompt_write_g", "c02_rto_armed", "c02_no_silent_stall", "c02_prompt", "c02_zero_window_waker"]
COMPONENTS = [_comp("+".join(ALL_PREDS), "vsock", gen)]
COMPONENTS[0]["corpus"] = ["vsock", "vsock_eof", "vsock_prompt", "vsock_rto", "vsock_shutdown"]
# wake-ups under TRUE concurrency: the wake-up theorems assume atomic methods; two OS threads, really parked on their wakers
COMPONENTS += [concgen.component_rx(), concgen.component_tx()]


# ----------------------------------------------------------------------------- pair tier: eventual delivery once the network delivers
def gen_settle(rng, tier):
    """Two real endpoints (pair component).  Lossy phase: writes in one or both directions, polls, and a network that drops,
    duplicates and reorders - in particular it drops ACKNOWLEDGEMENTS - with at most two clock steps beyond a retransmission
    timeout (no segment can use up max_retx = 5).  Settle phase: every datagram in flight is delivered, both endpoints are
    polled, both applications read, the clock advances in steps of 100 ms then 1 s (34 s in all, below the 60 s inactivity
    limit, past every RTO that can be armed).  The link MTU is the family minimum (no MTU probes: KF1 stays out); the
    initiator speaks first (handshake)."""
    from . import pairgen
    n = 60 if tier == "quick" else 1500
    out = []
    for i in range(n):
        r = rng.fork("settle%d" % i)
        cfg = pairgen.gen_config(r, r.choice(["clean", "small", "clean"]))
        cfg[1] = cfg[2] = 576 if cfg[0] else 1280     # link at the family minimum: no MTU probes, KF1 stays out
        cfg[3], cfg[4] = max(cfg[3], 3000), max(cfg[4], 3000)   # a receive buffer below 2 segments advertises window 0 for ever
        cfg[9] = 5                     # max_retransmissions
        cfg[10] = 60_000_000_000       # inactivity
        cfg[16] = r.choice([1_000_000, 100_000_000])
        ops, now = [], cfg[16]
        w = {"a": 0, "b": 0}
        big_steps = 0
        senders = r.choice([["a"], ["a"], ["a", "b"], ["b"]])
        # the initiator speaks first and its first datagram arrives (the acceptor leaves SynAckSent only on a packet that
        # acknowledges its SYN-ACK; an acceptor whose peer stays silent gives up after max_retx SYN-ACKs - C17, by design)
        ops += ["bP", "yD0", "aW100,0", "aP", "xD0", "bP", "yD0", "aP"]; w["a"] += 100
        for rnd in range(r.range(3, 12)):
            sd = r.choice(senders); od = "b" if sd == "a" else "a"
            fwd, back = ("x", "y") if sd == "a" else ("y", "x")
            ln = r.choice([1, 100, 528, 1000, 3000, 10000])
            ops.append("%sW%d,%d" % (sd, ln, w[sd] % 251)); w[sd] += ln
            ops.append(sd + "P")
            for _ in range(r.range(1, 5)):
                k = r.below(100)
                ops.append("%s%s%d" % (fwd, "X" if k < 20 else "D", r.below(3) if k > 80 else 0))
            ops.append(od + "P")
            if r.below(2):
                ops.append("%sR%d" % (od, r.choice([100, 5000, 100000])))
            for _ in range(r.range(1, 4)):
                k = r.below(100)
                # acknowledgements are what gets lost most
                ops.append("%s%s0" % (back, "X" if k < 45 else "D"))
            ops.append(sd + "P")
            if r.below(3) == 0:
                step = r.choice([1_000_000, 45_000_000, 250_000_000, 1_200_000_000])
                if step >= 250_000_000:
                    if big_steps >= 2:
                        step = 45_000_000
                    else:
                        big_steps += 1
                now += step
                ops.append("T%d" % now); ops += ["aP", "bP"]
        # settle
        for k in range(70):
            ops += ["xD0"] * 6 + ["yD0"] * 6 + ["aP", "bP", "xD0", "xD0", "yD0", "yD0", "aR100000", "bR100000", "aP", "bP"]
            now += 100_000_000 if k < 40 else 1_000_000_000
            ops.append("T%d" % now)
        ops += ["xD0"] * 4 + ["yD0"] * 4 + ["aP", "bP", "aR100000", "bR100000"] * 3
        out.append("pair " + " ".join(str(x) for x in cfg) + " " + " ".join(ops))
    return out


def _settle_pred(line, out):
    if "BADCASE" in out or "BADCONFIG" in out or "PANIC" in out:
        return None
    return "pair_pred c02_pair_settled_ok %s | %s" % (" ".join(line.split()[1:]), out)


COMPONENTS += [{"name": "pair_settle", "gen": gen_settle, "corpus": [], "keep": 17,
                "classify": lambda line, out: ("died" if ":P:E" in out else "alive"),
                "nontrivial": lambda line, out: ":P:E" not in out and "X" in line,
                "pred": _settle_pred}]

"""C08 — socket dispatcher level (see disp_common.py)."""
from . import disp_common

TRUSTED_BASE = disp_common.TRUSTED_BASE
ASSUMPTIONS = disp_common.ASSUMPTIONS
RULE = disp_common.RULE
def gen_close_outstanding(rng, n):
    """Closed loop: the application lets go (shutdown / both halves dropped) while data is still unacknowledged, so
    that data and FIN are outstanding together; the peer then acknowledges in one cumulative ACK (or data first,
    then the FIN; or not at all) and goes silent, answers with its own FIN, or keeps sending.  C08-a lived here
    (one ACK covering data and FIN left the task parked without any timer)."""
    import checklib as L
    from . import vsockgen
    cases = []
    for i in range(n):
        r = rng.fork("co%d" % i)
        cfg = vsockgen.gen_config(r, kind="out")
        cfg[4] = 32768; cfg[5] = 1048576; cfg[7] = 5; cfg[14] = 1048576
        cfg[8] = r.choice([10_000_000_000, 1_000_000_000, 60_000_000_000])
        st = {"ts": 1, "now": cfg[16], "plus1": r.below(3) == 0}
        ops = ["P", f"W{r.choice([100, 528, 1056, 3000])},0"]
        if r.below(2):
            ops.append("P")
        ops += r.choice([["H"], ["DW", "DR"], ["DR", "DW"], ["H", "DR"]])
        ops.append("P")
        cases.append((cfg, ops, st, r))
    lines = ["vsock " + " ".join(str(x) for x in cfg) + " " + " ".join(ops) for cfg, ops, _, _ in cases]
    outs = L.run_sharded(L.HARNESS, lines)
    res = []
    for (cfg, ops, st, r), out in zip(cases, outs):
        polls = [t for t in out.split() if t.startswith("P:")]
        if not polls or polls[-1].count("/") < 4 or not polls[-1].startswith("P:PEND"):
            res.append("vsock " + " ".join(str(x) for x in cfg) + " " + " ".join(ops))
            continue
        core = polls[-1].split("/")[4].split("|")[0].split(",")
        state, fin = int(core[0]), int(core[1])
        seq_nr = int(core[3])

        def ack(nr, t=2):
            st["ts"] += r.range(1, 5000)
            # seq_nr = last_consumed (a peer that numbers its pure ACKs with the last data number it used) keeps
            # the connection in FinWait2; seq_nr = last_consumed + 1 reads as "the peer has nothing more"
            seq = cfg[12] if (t == 1 or st["plus1"]) else (cfg[12] - 1) % 65536
            return f"M{t},{seq},{nr % 65536},1048576,{st['ts']},0,0,-"

        top = fin if state == 3 else (seq_nr - 1) % 65536
        how = r.choice(["one_ack", "one_ack", "data_then_fin", "data_only", "none", "peer_fin"])
        if how == "one_ack":
            ops += [ack(top), "P"]
        elif how == "data_then_fin":
            ops += [ack(top - 1), "P", ack(top), "P"]
        elif how == "data_only":
            ops += [ack(top - 1), "P"]
        elif how == "peer_fin":
            ops += [ack(top), "P", ack(top, t=1), "P"]
        for _ in range(r.range(1, 4)):
            st["now"] += r.choice([40_000_000, 500_000_000, 1_000_000_000, 3_000_000_000, 11_000_000_000])
            ops += [f"T{st['now']}", "P"]
        res.append("vsock " + " ".join(str(x) for x in cfg) + " " + " ".join(ops))
    return res


def _vsock_component():
    # connection level: once our FIN is out the connection keeps a deadline armed (c08_deadline_ok) and the M3
    # model agrees with the real VirtualSocket on closing scenarios (shared generators + the FIN/RESET/drop
    # scenarios of C17)
    from . import vsock_common, c17
    c = vsock_common.component("c08_deadline_ok+c08_fires_ok", name="vsock_deadline")
    if hasattr(c17, "gen"):
        c["gen"] = lambda rng, tier: c17.gen(rng, tier) + gen_close_outstanding(
            rng.fork("close_outstanding"), 150 if tier == "quick" else 3000)
    return c


def _vdrop_component():
    # cancellation: the connection future dropped in mid-flight; every half then reports errors, nothing parks
    from . import c03
    return dict(c03.VDROP)


COMPONENTS = [disp_common.component("c12", name="disp"), _vsock_component(), _vdrop_component()]

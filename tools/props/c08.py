"""C08 — socket dispatcher level (see disp_common.py)."""
from . import disp_common

TRUSTED_BASE = disp_common.TRUSTED_BASE
ASSUMPTIONS = disp_common.ASSUMPTIONS
RULE = disp_common.RULE
def _vsock_component():
    # connection level: once our FIN is out the connection keeps a deadline armed (c08_deadline_ok) and the M3
    # model agrees with the real VirtualSocket on closing scenarios (shared generators + the FIN/RESET/drop
    # scenarios of C17)
    from . import vsock_common, c17
    c = vsock_common.component("c08_deadline_ok", name="vsock_deadline")
    if hasattr(c17, "gen"):
        c["gen"] = c17.gen
    return c


def _vdrop_component():
    # cancellation: the connection future dropped in mid-flight; every half then reports errors, nothing parks
    from . import c03
    return dict(c03.VDROP)


COMPONENTS = [disp_common.component("c12", name="disp"), _vsock_component(), _vdrop_component()]

"""C16 — RTO estimator bounds."""
from . import common

TRUSTED_BASE = common.BASE_TRUSTED + [common.NO_AXIOMS]
ASSUMPTIONS = [
    "Duration arithmetic modelled as exact integer nanoseconds with explicit overflow checks "
    "(Mul<u32>, Add panic on overflow; Div<u32> is exact floor division)",
    "the private constants of src/rtte.rs (200 ms, 60 s, 10 ms, K=4, 300 ms initial) are observed "
    "through behaviour at the clamps, not read as symbols",
]
RULE = ("op lists over {sample r, timeout}: random stream with r drawn from boundary values (0, 1 ns, around 10 ms/200 ms/60 s, "
        "hours, up to 2^60 s) and log-uniform, plus a steady-path stream (runs of 8-40 nearly equal samples around "
        "1 ms..70 s so that rttvar decays under the granularity floor, back-off chains of up to 12 timeouts, return "
        "samples incl. 0 ns); non-trivial = contains at least one sample and one timeout "
        "and the observed rto is not constant; distinct = distinct case line")


def _sample_value(rng):
    k = rng.below(10)
    if k == 0:
        return rng.choice([0, 1, 2, 999, 9_999_999, 10_000_000, 10_000_001, 199_999_999, 200_000_000,
                           200_000_001, 59_999_999_999, 60_000_000_000, 60_000_000_001,
                           3600 * 10**9, 10**5 * 10**9, 2**60 * 10**9])
    if k < 7:
        e = rng.range(0, 13)           # 1 ns .. 10^4 s, log-uniform
        return rng.range(0, 10 ** e)
    if k < 9:
        return rng.range(1_000_000, 2_000_000_000)   # 1 ms .. 2 s
    return rng.range(0, 2**60 * 10**9)


def gen_steady(rng, n):
    """Low-jitter paths: long runs of nearly equal samples (rttvar decays below the clock granularity, so the
    `max(4*rttvar, G)` floor is what decides the RTO), interleaved with back-off chains of up to 12 timeouts
    (reaching the 60 s cap from the floor takes 9) and a return sample."""
    lines = []
    for i in range(n):
        base = rng.choice([1_000_000, 50_000_000, 150_000_000, 165_000_000, 190_000_000, 200_000_000, 300_000_000,
                           1_000_000_000, 5_000_000_000, 14_000_000_000, 29_000_000_000, 59_000_000_000,
                           rng.range(100_000_000, 70_000_000_000)])
        jitter = rng.choice([0, 0, 1, 1000, base // 1000 + 1, base // 100 + 1])
        toks = []
        for _ in range(rng.range(1, 4)):
            for _ in range(rng.range(8, 40)):
                toks.append("s%d" % max(0, base + rng.range(0, 2 * jitter + 1) - jitter))
            for _ in range(rng.choice([0, 1, 2, 3, 9, 10, 12])):
                toks.append("t")
            if rng.chance(1, 2):
                toks.append("s%d" % rng.choice([0, 1, base, base // 2, base * 2]))
        lines.append("rtte " + " ".join(toks))
    return lines


def gen(rng, tier):
    n = 400 if tier == "quick" else 20000
    lines = gen_steady(rng.fork("steady"), 150 if tier == "quick" else 5000)
    for _ in range(n):
        L = rng.range(1, 40 if tier == "quick" else 120)
        toks = []
        for _ in range(L):
            if rng.chance(1, 3):
                toks.append("t")
            else:
                toks.append("s%d" % _sample_value(rng))
        lines.append("rtte " + " ".join(toks))
    return lines


def gen_around(rng, line, tier):
    toks = line.split()[1:]
    out = []
    for _ in range(300):
        t = list(toks)
        for _ in range(rng.range(1, 4)):
            if rng.chance(1, 2) or not t:
                t.insert(rng.below(len(t) + 1), "t" if rng.chance(1, 3) else "s%d" % _sample_value(rng))
            else:
                t[rng.below(len(t))] = "s%d" % _sample_value(rng)
        out.append("rtte " + " ".join(t))
    return out


def nontrivial(line, out):
    toks = line.split()[1:]
    rtos = {o.split(",")[0] for o in out.split() if "," in o}
    return ("t" in toks) and any(t.startswith("s") for t in toks) and len(rtos) > 1


def classify(line, out):
    toks = line.split()[1:]
    if "PANIC" in out:
        return "panic"
    if all(t == "t" for t in toks):
        return "timeouts-only"
    if "t" not in toks:
        return "samples-only"
    return "mixed"


def pred(line, out):
    return "rtte_pred " + " ".join(line.split()[1:]) + " | " + out


COMPONENTS = [{"name": "rtte", "gen": gen, "gen_around": gen_around, "nontrivial": nontrivial,
               "classify": classify, "pred": pred}]

"""C03 — flush/shutdown success means delivered; an aborted connection resolves every application call."""
import os, sys
sys.path.insert(0, os.path.dirname(os.path.dirname(os.path.abspath(__file__))))
from . import common, vsock_common, c17, rxgen, txgen, c04, c19

TRUSTED_BASE = common.BASE_TRUSTED + [common.NO_AXIOMS]
ASSUMPTIONS = [
    "each method of the read/write halves and of UserRx/UserTx is atomic (parking_lot mutex held for its body)",
    "after Ready the future is dropped: Drop for VirtualSocket = mark_both_closed, which just_before_death already did",
    "application calls after the death are covered by theorems on the component models (UserRx/read half, "
    "UserTx/write half) whose correspondence is checked by the rx and tx components of this check; the vsock trace "
    "itself stops at the Ready poll",
    "reads are issued with a non-empty buffer",
]
RULE = ("vsock traces as for C17 (shared generators + teardown scenarios; every trace that ends in a Ready poll is an abort or "
        "a clean close) plus the rx / tx component op lists (mark closed, enqueue error, reads/writes/flush/shutdown before and "
        "after); non-trivial = a vsock trace ending in Ready, or a component trace with a close; distinct = distinct case line")


def nontrivial(line, out):
    toks = out.split()
    polls = [t for t in toks if t.startswith("P:")]
    return bool(polls) and not polls[-1].startswith("P:PEND")


def classify(line, out):
    polls = [t for t in out.split() if t.startswith("P:")]
    last = polls[-1].split("/")[0] if polls else "none"
    pend = any(t.startswith(("RPEND", "WP", "UPEND")) for t in out.split())
    return last + ("+parked-call" if pend else "")


def _pred(line, out):
    if "BADCASE" in out or "BADCONFIG" in out:
        return None
    t = line.split()
    return "vsock_pred_all c03_after_death_ok : %s | %s" % (" ".join(t[1:]), out)


# ---- cancellation: the connection future is dropped in mid-flight (component `vdrop`) ----
def gen_vdrop(rng, tier):
    """A vsock case cut at a random point, the connection dropped there (X), then application calls on the
    halves that are left: with calls parked before the drop (reader waiting for data, writer on a full ring,
    flush/shutdown with bytes unacknowledged), with and without data buffered in either direction."""
    from . import vsockgen
    n = 250 if tier == "quick" else 5000
    base = vsockgen.gen(rng.fork("vd_open"), "quick")[:n // 2] + c17.gen(rng.fork("vd_c17"), "quick")[:n - n // 2]
    out = []
    for i, ln in enumerate(base):
        r = rng.fork("vd%d" % i)
        t = ln.split()
        cfg, ops = t[1:18], t[18:]
        cut = r.range(1, max(1, len(ops)))
        pre = ops[:cut]
        # park something right before the drop
        pre += r.choice([[], ["R100"], ["W%d,0" % r.choice([10, 5000, 40000]), "F"], ["H"], ["R100", "W40000,0", "W40000,1", "F"],
                         ["P", "R10"], ["W100,0", "P", "H"]])
        post = []
        for _ in range(r.range(2, 8)):
            post.append(r.choice(["R100", "R100", "W10,0", "W5000,3", "F", "H", "F", "DR", "DW"]))
        out.append("vdrop " + " ".join(cfg) + " " + " ".join(pre) + " X " + " ".join(post))
    return out


def _vdrop_nontrivial(line, out):
    return " X/" in out


def _vdrop_classify(line, out):
    toks = out.split()
    xs = [t for t in toks if t.startswith("X/")]
    if not xs:
        return "ended-before-drop"
    after = toks[toks.index(xs[0]) + 1:]
    kinds = sorted(set(t.split("/")[0][:4].rstrip("0123456789:") for t in after))
    return "drop:" + xs[0][2:] + ":" + ",".join(kinds)


def _vdrop_pred(line, out):
    if "BADCASE" in out or "BADCONFIG" in out:
        return None
    return "vdrop_pred %s | %s" % (" ".join(line.split()[1:]), out)


VDROP = {"name": "vdrop", "keep": vsock_common.KEEP, "gen": gen_vdrop, "nontrivial": _vdrop_nontrivial,
         "classify": _vdrop_classify, "pred": _vdrop_pred}

COMPONENTS = [
    VDROP,
    {"name": "vsock", "keep": vsock_common.KEEP, "gen": c17.gen, "nontrivial": nontrivial, "classify": classify,
     "pred": _pred},
    dict(c04.COMPONENTS[0]),
    dict(c19.COMPONENTS[0]),
]

"""C03 — flush/shutdown success means delivered; an aborted connection resolves every application call."""
import os, sys
sys.path.insert(0, os.path.dirname(os.path.dirname(os.path.abspath(__file__))))
from . import common, vsock_common, c17, rxgen, txgen, c04, c19

TRUSTED_BASE = common.BASE_TRUSTED + [common.NO_AXIOMS]
ASSUMPTIONS = [
    "each method of the read/write halves and of UserRx/UserTx is atomic (parking_lot mutex held for its body)",
    "after Ready the future is dropped: Drop for VirtualSocket = mark_both_closed, which just_before_death already did",
    "application calls after the death are covered by theorems on the component models (UserRx/read half, "
    "UserTx/write half) whose correspondence is checked by the rx and tx components of this check; the vsock trace "
    "itself stops at the Ready poll",
    "reads are issued with a non-empty buffer",
]
RULE = ("vsock traces as for C17 (shared generators + teardown scenarios; every trace that ends in a Ready poll is an abort or "
        "a clean close) plus the rx / tx component op lists (mark closed, enqueue error, reads/writes/flush/shutdown before and "
        "after); non-trivial = a vsock trace ending in Ready, or a component trace with a close; distinct = distinct case line")


def nontrivial(line, out):
    toks = out.split()
    polls = [t for t in toks if t.startswith("P:")]
    return bool(polls) and not polls[-1].startswith("P:PEND")


def classify(line, out):
    polls = [t for t in out.split() if t.startswith("P:")]
    last = polls[-1].split("/")[0] if polls else "none"
    pend = any(t.startswith(("RPEND", "WP", "UPEND")) for t in out.split())
    return last + ("+parked-call" if pend else "")


def _pred(line, out):
    if "BADCASE" in out or "BADCONFIG" in out:
        return None
    t = line.split()
    return "vsock_pred_all c03_after_death_ok : %s | %s" % (" ".join(t[1:]), out)


COMPONENTS = [
    {"name": "vsock", "keep": vsock_common.KEEP, "gen": c17.gen, "nontrivial": nontrivial, "classify": classify,
     "pred": _pred},
    dict(c04.COMPONENTS[0]),
    dict(c19.COMPONENTS[0]),
]

"""C17 — handshake and teardown follow the uTP state machine on the wire (connection level)."""
import os, sys
sys.path.insert(0, os.path.dirname(os.path.dirname(os.path.abspath(__file__))))
import checklib as L
from . import common, vsock_common, vsockgen

TRUSTED_BASE = common.BASE_TRUSTED + [common.NO_AXIOMS]
ASSUMPTIONS = [
    "one poll of VirtualSocket is atomic with respect to the application halves and the inbox (they are driven "
    "between polls by the harness); the transport answers each send attempt with Sent / Pending / EMSGSIZE / error",
    "the congestion controller is abstract in the theorems (any cc_iface); traces are run with the CUBIC model",
    "the inbox content of a poll is known to the trace predicates only when no earlier poll stopped on a pending "
    "transport and the inbox was not closed (otherwise the clause is not evaluated on that poll)",
]
RULE = ("vsock traces: shared open-loop + closed-loop generators (all profiles) plus teardown/handshake scenarios of this "
        "module (SYN-ACK resend schedules, in/out-of-sequence FIN, RESET in every state, close on own initiative with and "
        "without outstanding data); non-trivial = at least three polls and data in one direction, or a handshake/teardown "
        "event (SYN-ACK resend, FIN in either direction, RESET); distinct = distinct case line")

D10_CASE = ("vsock out 1 1500 1048576 32768 1048576 1 5 10000000000 1 1 100 1 7 1048576 0 1000000000 "
            "W1519,0 P M2,1,101,1048576,5,0,0,- P W100,0 DR DW P")
D13_CASE = ("vsock out 1 576 1048576 32768 1048576 1 5 10000000000 1 1 100 1 7 1048576 0 1000000000 "
            "W1056,0 P M2,1,102,1048576,5,0,0,- W1584,0 P T8000000000 P M2,1,103,528,6,0,0,- P DR DW P")

PREDICATES = ["c17_synack_ok", "c17_fin_after_data_noerr", "c17_fin_number_step_ok", "c17_fin_seq_ok",
              "c17_peer_fin_ok2", "c17_fin_covers_data_ok", "c17_reset_ok", "c17_reset_trace_ok"]


def gen_teardown(rng, n):
    """Scenarios the shared generators reach rarely: SYN-ACK schedules, FIN/RESET in each state."""
    lines = []
    for _ in range(n):
        kind = rng.choice(["in", "in", "out"])
        cfg = vsockgen.gen_config(rng, kind)
        cfg[2] = rng.choice([576, 576, 1500])            # 576: no MTU probes
        isn, rseq = cfg[11], cfg[12]
        ops, now = [], (cfg[16] if kind == "out" else 0)
        ts = [1]

        def msg(t, seq, ack, wnd=1048576, plen=0):
            ts[0] += rng.range(1, 5000)
            return f"M{t},{seq % 65536},{ack % 65536},{wnd},{ts[0]},{plen},0,-"

        def adv(d):
            nonlocal now
            now += d
            ops.append(f"T{now}")
        peer_next = (rseq + 1) % 65536 if kind == "in" else rseq
        our_next = isn if kind == "in" else (isn + 1) % 65536
        if kind == "in":
            ops.append(rng.choice(["P", "P", "PP", "PX"]))
            for _ in range(rng.range(0, cfg[7] + 1)):
                adv(rng.choice([100_000_000, 199_999_999, 200_000_000, 250_000_000]))
                ops.append("P")
            c = rng.below(6)
            if c == 0:
                ops.append(msg(2, peer_next, (isn - 1) % 65536))          # completes the handshake
            elif c == 1:
                ops.append(msg(2, peer_next, rng.choice([isn, (isn - 2) % 65536])))   # wrong ack: dropped
                ops.append("P")
                ops.append(msg(0, peer_next, (isn - 1) % 65536, plen=100))
                peer_next += 1
            elif c == 2:
                ops.append(msg(1, peer_next, (isn - 1) % 65536))          # FIN during the handshake
            elif c == 3:
                ops.append(msg(3, peer_next, (isn - 1) % 65536))          # RESET during the handshake
            else:
                ops.append(msg(2, peer_next, (isn - 1) % 65536))
            ops.append("P")
        # data phase
        wrote = 0
        for _ in range(rng.range(0, 3)):
            ln = rng.choice([1, 100, 528, 1056])
            ops.append(f"W{ln},{wrote % 251}")
            wrote += ln
            ops.append("P")
            nseg = (ln + 527) // 528
            our_next = (our_next + nseg) % 65536
            if rng.below(3):
                ops.append(msg(2, peer_next, (our_next - 1) % 65536))
                ops.append("P")
        for _ in range(rng.range(0, 2)):
            ops.append(msg(0, peer_next, (our_next - 1) % 65536, plen=rng.choice([1, 100, 528])))
            peer_next += 1
            ops.append("P")
        # teardown, scripted (a third of the cases): we close first, our FIN is acknowledged (or not: FinWait2 / FinWait1),
        # then the peer's FIN arrives OUT of sequence - its last data segment was lost or overtaken - with or without the
        # acknowledgement of our FIN, then (sometimes) the missing data and the FIN again, in sequence (seeded C03-b, C04-b)
        scripted = rng.below(3) == 0
        if scripted:
            ops += rng.choice([["H"], ["DR", "DW"], ["H"]]); ops.append("P")
            fin_acked = rng.below(3) > 0
            if fin_acked:
                ops.append(msg(2, peer_next, our_next % 65536)); ops.append("P")          # FinWait2
            gap = rng.range(1, 3)
            ops.append(msg(1, peer_next + gap, rng.choice([our_next % 65536, (our_next - 1) % 65536, our_next % 65536])))
            ops.append(rng.choice(["P", "PP"]))
            if rng.below(2):
                for k in range(gap):
                    ops.append(msg(0, peer_next + k, our_next % 65536, plen=rng.choice([1, 100])))
                ops.append("P")
                ops.append(msg(1, peer_next + gap, our_next % 65536)); ops.append("P")
            if rng.below(2):
                ops.append("R1000")
            if rng.below(3) == 0:
                adv(rng.choice([1_000_000_000, 3_500_000_000])); ops.append("P")
        for _ in range(0 if scripted else rng.range(1, 4)):
            c = rng.below(10)
            if c == 0:
                ops.append(msg(1, peer_next, (our_next - 1) % 65536)); peer_next += 1
            elif c == 1:
                ops.append(msg(1, peer_next + rng.range(1, 3), (our_next - 1) % 65536))     # out of sequence
            elif c == 2:
                ops.append(msg(3, peer_next, rng.choice([(our_next - 1) % 65536, our_next, (our_next + 1) % 65536])))
            elif c == 3:
                ops += ["DR", "DW"]
            elif c == 4:
                ops.append("H")
            elif c == 5:
                ops.append(msg(2, peer_next, our_next % 65536))           # acks a FIN numbered our_next
            elif c == 6:
                ops.append(msg(1, peer_next, our_next % 65536)); peer_next += 1
            elif c == 7:
                adv(rng.choice([1_000_000_000, 3_500_000_000, 11_000_000_000]))
            elif c == 8:
                ops.append("Z")
            else:
                ops.append(rng.choice(["R100", "F", "W10,0"]))
            ops.append(rng.choice(["P", "P", "P", "PP"]))
        lines.append("vsock " + " ".join(str(x) for x in cfg) + " " + " ".join(ops))
    return lines


def gen(rng, tier):
    lines = vsock_common.gen(rng, tier)
    lines += gen_teardown(rng.fork("teardown"), 400 if tier == "quick" else 8000)
    return lines


def nontrivial(line, out):
    if vsock_common.nontrivial(line, out):
        return True
    toks = line.split()
    fin_or_reset = any(t.startswith("M1,") or t.startswith("M3,") for t in toks)
    own_fin = any(";1," in p or "/1," in p for p in out.split() if p.startswith("P:"))
    return fin_or_reset or own_fin


def classify(line, out):
    k = vsock_common.classify(line, out)
    toks = line.split()
    tags = []
    if any(t.startswith("M1,") for t in toks):
        tags.append("peerfin")
    if any(t.startswith("M3,") for t in toks):
        tags.append("reset")
    if any(";1," in p or "/1," in p for p in out.split() if p.startswith("P:")):
        tags.append("ownfin")
    return k + ("+" + "+".join(tags) if tags else "")


def _combined_pred(line, out):
    """All C17 predicates on one trace: the first failing one is reported."""
    if "BADCASE" in out or "BADCONFIG" in out:
        return None
    t = line.split()
    return "vsock_pred_all %s : %s | %s" % (",".join(PREDICATES), " ".join(t[1:]), out)


COMPONENTS = [{"name": "vsock", "keep": vsock_common.KEEP, "gen": gen, "nontrivial": nontrivial,
               "classify": classify, "pred": _combined_pred}]


# ---------------------------------------------------------------- former findings
# D10 (FIN sent while written data was still unsegmented) and D13 (own FIN numbered with the sequence number of an
# outstanding data segment) are repaired (known_findings.json `fixed`): c17_fin_after_data_ok and c17_fin_seq_ok must
# simply hold, no class explains a failure of theirs any more.  The two former witnesses (D10_CASE, D13_CASE) are in
# corpus/vsock.txt: they go through the correspondence and through every predicate on every run.

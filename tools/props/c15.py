"""C15 — CUBIC congestion window stays sane and reacts to loss."""
from . import common

AXIOMS = ("axioms (library, via Coq Reals / Flocq 4.1.0, allow-listed in tools/checklib.py AXIOM_ALLOW['C15']): "
          "ClassicalDedekindReals.sig_forall_dec, ClassicalDedekindReals.sig_not_dec, "
          "FunctionalExtensionality.functional_extensionality_dep, Classical_Prop.classic; "
          "none declared by this development")
TRUSTED_BASE = common.BASE_TRUSTED + [
    AXIOMS,
    "Flocq 4.1.0 BinarySingleNaN binary64 as the meaning of Rust f64 (+,-,*,/ round-to-nearest-even; "
    "f64::max/min, `as usize`, `usize as f64`, Duration::as_secs_f64 spelled out in Cubic/F64.v)",
    "libm cbrt / powf(.,3.) are Section variables with no hypothesis in every theorem; for running the model "
    "driver/c_cubic.ml instantiates them with OCaml Float.cbrt / Float.pow through a bit-exact B754<->float "
    "conversion (trusted for correspondence only)",
]
ASSUMPTIONS = [
    "theorems: 1 <= mss < 2^16, peer window < 2^32 (uTP wnd_size is a u32), len/bytes < 2^32; outside this "
    "domain the extracted predicate demands nothing (correspondence still compares model and code there)",
    "window bounds hold once set_remote_window has been applied for the current MSS; between set_mss and the next "
    "set_remote_window the stored peer window (in MSS units) is stale and window() may exceed the peer window "
    "(stream_dispatch.rs:1251 calls set_mss without re-applying the window until the next incoming packet)",
    "float-to-integer truncation: `min(2 mss, win) - 1 <= window` and slow-start growth `<= len + 1` on byte "
    "windows (reading fixed in DESIGN.md C15); exact in MSS units",
    "Instant - Instant saturates to zero (Rust >= 1.60); `t + rtt` overflow (model None) is outside the domain",
]
RULE = ("op lists over {w win, a now,len,rtt, t, e now, r cwnd,ssthresh, m mss} from six scenario families "
        "(slow start, congestion avoidance with cbrt/powf, loss storms, MSS changes with window re-applied, "
        "boundary values, out-of-domain); non-trivial = at least 3 distinct windows observed and at least one loss "
        "event (t/e) and one ack; distinct = distinct case line")

NS = 10**9
MSS_POOL = [1, 2, 7, 100, 536, 1232, 1400, 1452, 1500, 9000, 65535]
WIN_EDGE = [0, 1, 2, 5, 61, 1231, 1232, 1233, 2463, 2464, 2465, 65535, 65536, 1 << 20, (1 << 32) - 1]
RTT_EDGE = [0, 1, 999, 1_000_000, 50_000_000, 300_000_000, NS, 60 * NS, 3600 * NS, (1 << 60) * NS]


def _mss(rng):
    return rng.choice(MSS_POOL) if rng.chance(2, 3) else rng.range(1, 65535)


def _win(rng, mss):
    k = rng.below(8)
    if k == 0:
        return rng.choice(WIN_EDGE)
    if k == 1:
        return rng.range(0, 4 * mss)
    if k < 6:
        return rng.range(4 * mss, 4 << 20)
    return rng.range(0, (1 << 32) - 1)


def _rtt(rng):
    k = rng.below(10)
    if k == 0:
        return rng.choice(RTT_EDGE)
    if k < 8:
        return rng.range(100_000, 500_000_000)
    return rng.range(0, 10 ** rng.range(0, 20))


def _len(rng, mss):
    k = rng.below(10)
    if k == 0:
        return 0
    if k < 6:
        return mss
    if k < 8:
        return rng.range(1, 4 * mss)
    if k == 8:
        return rng.range(0, 1 << 20)
    return rng.range(0, (1 << 32) - 1)


class St:
    def __init__(self, rng, mss):
        self.rng, self.mss, self.now, self.win = rng, mss, 0, 0
        self.toks = []

    def adv(self, lo=0, hi=200_000_000):
        r = self.rng
        if r.chance(1, 25):
            self.now = max(0, self.now - r.range(0, NS))      # clock going backwards: Instant saturates
        else:
            self.now += r.range(lo, hi)
        return self.now

    def w(self, win=None):
        self.win = _win(self.rng, self.mss) if win is None else win
        self.toks.append("w%d" % self.win)

    def a(self, ln=None, rtt=None):
        self.toks.append("a%d,%d,%d" % (self.adv(), _len(self.rng, self.mss) if ln is None else ln,
                                        _rtt(self.rng) if rtt is None else rtt))

    def t(self):
        self.toks.append("t")

    def e(self):
        self.toks.append("e%d" % self.adv())

    def r(self):
        rg = self.rng
        self.toks.append("r%d,%d" % (rg.range(0, 4 << 20) if rg.chance(3, 4) else rg.range(0, (1 << 32) - 1),
                                     rg.range(0, 4 << 20) if rg.chance(3, 4) else rg.range(0, (1 << 32) - 1)))

    def m(self, reapply):
        self.mss = _mss(self.rng)
        self.toks.append("m%d" % self.mss)
        if reapply:
            self.toks.append("w%d" % self.win)

    def line(self):
        return "cubic " + " ".join(self.toks)


def _case(rng, fam, maxlen):
    mss0 = _mss(rng)
    s = St(rng, mss0)
    s.toks.append(str(mss0))
    n = rng.range(3, maxlen)
    if fam == 0:        # long slow start, window far away, occasional peer-window update
        s.w(rng.range(64 * mss0, (1 << 32) - 1))
        for _ in range(n):
            s.a(ln=_len(rng, s.mss))
            if rng.chance(1, 15):
                s.w()
    elif fam == 1:      # congestion avoidance: enter recovery early, then many acks (cbrt/powf)
        s.w(rng.range(16 * mss0, 64 << 20))
        for _ in range(rng.range(1, 30)):
            s.a(ln=s.mss)
        s.e()
        rtt = _rtt(rng)
        for _ in range(n):
            s.a(ln=s.mss if rng.chance(3, 4) else None, rtt=rtt if rng.chance(9, 10) else None)
            if rng.chance(1, 20):
                s.e()
            if rng.chance(1, 40):
                s.t()
            if rng.chance(1, 40):
                s.w()
    elif fam == 2:      # loss storms and recovery exits
        s.w()
        for _ in range(n):
            k = rng.below(6)
            if k == 0: s.t()
            elif k == 1: s.e()
            elif k == 2: s.r()
            elif k == 3: s.w()
            else: s.a()
    elif fam == 3:      # MSS changes, the peer window re-applied right after (as on an incoming ACK)
        s.w(rng.range(8 * mss0, 16 << 20))
        for _ in range(n):
            k = rng.below(8)
            if k == 0: s.m(True)
            elif k == 1: s.m(rng.chance(1, 2))
            elif k == 2: s.e()
            elif k == 3 and rng.chance(1, 3): s.t()
            else: s.a(ln=s.mss if rng.chance(1, 2) else None)
    elif fam == 4:      # boundary values everywhere
        for _ in range(n):
            k = rng.below(7)
            if k == 0: s.w(rng.choice(WIN_EDGE))
            elif k == 1: s.a(ln=rng.choice([0, 1, s.mss, (1 << 32) - 1]), rtt=rng.choice(RTT_EDGE))
            elif k == 2: s.t()
            elif k == 3: s.e()
            elif k == 4: s.r()
            elif k == 5: s.m(rng.chance(1, 2))
            else: s.a()
    else:               # out of the theorems' domain: mss 0 / huge, windows and lengths up to 2^64-1
        s.toks[0] = str(rng.choice([0, 1, 65536, 1 << 32, (1 << 53) + 1, (1 << 64) - 1]))
        for _ in range(n):
            k = rng.below(7)
            big = rng.choice([0, 1, (1 << 32), (1 << 53) + 1, (1 << 63), (1 << 64) - 1])
            if k == 0: s.w(big)
            elif k == 1: s.a(ln=big)
            elif k == 2: s.t()
            elif k == 3: s.e()
            elif k == 4: s.toks.append("r%d,%d" % (big, rng.choice([0, 1 << 40, (1 << 64) - 1])))
            elif k == 5: s.toks.append("m%d" % rng.choice([0, 1, 1500, 1 << 40, (1 << 64) - 1]))
            else: s.a()
    return s.line()


def gen(rng, tier):
    n = 1500 if tier == "quick" else 40000
    maxlen = 60 if tier == "quick" else 150
    weights = [0, 0, 0, 1, 1, 1, 1, 2, 2, 3, 3, 3, 4, 4, 5]
    return [_case(rng, rng.choice(weights), maxlen) for _ in range(n)]


def gen_around(rng, line, tier):
    toks = line.split()[1:]
    head, body = toks[0], toks[1:]
    out = []
    for _ in range(300):
        t = list(body)
        s = St(rng, int(head) if 0 < int(head) < 65536 else 1500)
        for _ in range(rng.range(1, 4)):
            s.toks = []
            k = rng.below(6)
            if k == 0: s.w()
            elif k == 1: s.a()
            elif k == 2: s.t()
            elif k == 3: s.e()
            elif k == 4: s.r()
            else: s.m(False)
            new = s.toks[0]
            if rng.chance(1, 2) or not t:
                t.insert(rng.below(len(t) + 1), new)
            else:
                t[rng.below(len(t))] = new
        out.append("cubic " + head + " " + " ".join(t))
    return out


def nontrivial(line, out):
    toks = line.split()[2:]
    wins = {o.split(",")[0] for o in out.split() if "," in o}
    return (len(wins) >= 3 and any(t[0] in "te" for t in toks) and any(t[0] == "a" for t in toks))


def classify(line, out):
    toks = line.split()
    mss0 = int(toks[1])
    ops = toks[2:]
    if "PANIC" in out:
        return "panic"
    if not (0 < mss0 < 65536) or any(len(x) > 12 for t in ops for x in t[1:].split(",")[1:2]):
        dom = "out-of-domain"
    else:
        dom = "in-domain"
    kinds = "".join(sorted({t[0] for t in ops}))
    ca = "ca" if (any(t[0] == "e" for t in ops) and sum(1 for t in ops if t[0] == "a") >= 5) else "noca"
    return "%s/%s/%s" % (dom, ca, kinds)


def pred(line, out):
    return "cubic_pred " + " ".join(line.split()[1:]) + " | " + out


# ---- libm oracles: bit patterns of the real f64::cbrt / f64::powf(., 3.) against the oracles that run the model
import struct


def _bits(x):
    return struct.unpack("<Q", struct.pack("<d", x))[0]


def _libm_value(rng):
    k = rng.below(10)
    u = rng.next() / 2.0**64
    if k < 3:
        return _bits((u - 0.5) * 20.0)              # t - K in seconds, small
    if k < 5:
        return _bits(u * 10000.0)                   # w_max * 0.75 (argument of cbrt)
    if k < 6:
        return _bits((u - 0.5) * 2e9)
    if k < 7:
        return _bits(float(rng.range(-1000, 1000)))  # exact cubes / integers
    if k < 8:
        return rng.choice([0, 1 << 63, 0x7FF0000000000000, 0xFFF0000000000000, 0x7FF8000000000000, 1,
                           0x000FFFFFFFFFFFFF, 0x0010000000000000, 0x7FEFFFFFFFFFFFFF, _bits(27.0), _bits(-27.0)])
    return rng.next()                               # any bit pattern (subnormals, huge, NaNs)


def gen_libm(rng, tier):
    n = 200 if tier == "quick" else 4000
    return ["cubic_libm " + " ".join(str(_libm_value(rng)) for _ in range(50)) for _ in range(n)]


def classify_libm(line, out):
    return "agree-format" if "BADCASE" not in out else "badcase"


def nontrivial_libm(line, out):
    return any("," in o and not o.startswith("nan") for o in out.split())


COMPONENTS = [{"name": "cubic_libm", "gen": gen_libm, "nontrivial": nontrivial_libm, "classify": classify_libm},
              {"name": "cubic", "gen": gen, "gen_around": gen_around, "nontrivial": nontrivial,
               "classify": classify, "pred": pred}]
COQCHK = True

"""Shared pieces of the connection-level (`vsock`) checks: generators (open loop + closed loop),
classification of traces, predicate-line builder.  Used by the modules of C02, C03, C05, C06,
C07, C10, C14, C17, C18."""
import os, sys
sys.path.insert(0, os.path.dirname(os.path.dirname(os.path.abspath(__file__))))
import checklib as L
from . import vsockgen

KEEP = 17      # configuration tokens of a vsock case line that the shrinker must keep


def gen(rng, tier):
    n_open = 300 if tier == "quick" else 6000
    n_closed = 200 if tier == "quick" else 3000
    lines = vsockgen.gen(rng.fork("open"), "quick")[:n_open] if tier == "quick" else \
        [vsockgen.gen_case(rng.fork("open%d" % i)) for i in range(n_open)]
    lines += vsockgen.gen_closed(rng.fork("closed"), lambda ls: L.run_sharded(L.HARNESS, ls), n_closed)
    return lines


def classify(line, out):
    toks = out.split()
    polls = [t for t in toks if t.startswith("P:")]
    states = set()
    rec = False
    for t in polls:
        parts = t.split("/")
        if len(parts) > 4:
            fp = parts[4].split("|")[0].split(",")
            states.add(fp[0])
            rec = rec or fp[23] != "0"
    last = polls[-1].split("/")[0] if polls else "none"
    tag = "states=" + "".join(sorted(states)) + ("+rec" if rec else "")
    return last + ":" + tag


def nontrivial(line, out):
    """A trace is non-trivial when the connection exchanged data in at least one direction and
    at least three polls ran."""
    polls = [t for t in out.split() if t.startswith("P:")]
    data = any((",".join(p.split("/")[1].split(";"))).startswith("0,") or ";0," in p.split("/")[1]
               for p in polls if len(p.split("/")) > 1)
    got = any(t.startswith("M0,") for t in line.split())
    return len(polls) >= 3 and (data or got)


def pred_builder(name):
    def pred(line, out):
        if "BADCASE" in out or "BADCONFIG" in out:
            return None
        t = line.split()
        return "vsock_pred %s %s | %s" % (name, " ".join(t[1:]), out)
    return pred


def component(pred_name, name="vsock"):
    return {"name": name, "keep": KEEP, "gen": gen, "nontrivial": nontrivial, "classify": classify,
            "pred": pred_builder(pred_name)}

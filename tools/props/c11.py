"""C11 — wire format: total parser, lossless round-trip, well-formed output."""
import os, sys
sys.path.insert(0, os.path.dirname(os.path.dirname(os.path.abspath(__file__))))
import bep29
from . import common

TRUSTED_BASE = common.BASE_TRUSTED + [
    common.NO_AXIOMS,
    "tools/bep29.py (independent BEP-29 parser/builder in python, used as a second oracle on the "
    "implementation's parse decisions and serialised bytes)",
]
ASSUMPTIONS = [
    "a datagram is a list of integers in [0,256); the accept/reject theorems carry the decidable hypothesis "
    "bytes_okb (every element is a byte); c11_no_panic needs no hypothesis",
    "SelectiveAck is modelled as its 8 data bytes plus the private bit-length field, observed through "
    "as_bytes() and len()",
    "UtpHeader::serialize is modelled by the prefix buffer[..returned offset]; the harness checks with a "
    "poisoned buffer that nothing beyond it is written",
    "connection-level clause (vsock_wire): one VirtualSocket driven by a scripted peer, application, clock and "
    "transport; theorem hypothesis c11_config_ok (initial sequence numbers and the remote connection id of the "
    "configuration are u16 values, as their Rust type says); dispatcher-level clause (disp_wire): random_u16 values and "
    "the fields of parsed datagrams are u16",
]
RULE = ("wire_de/wire_msg: structural enumeration (all 256 type/version bytes x short chains; valid first bytes x "
        "extension chains over ids {1,2,3,255} x lens {0,1,3,4,5,8,9,36,255} up to depth 3 x every truncation length "
        "from 18 bytes on, two payload bytes behind the chain), random byte strings, packets built from random valid "
        "headers; wire_ser: random and boundary headers x SACK from new/deserialize/none x close reason x buffer "
        "lengths around 20/26/30/36. non-trivial = the datagram is >= 20 bytes with version nibble 1 and type <= 4 "
        "and has a non-zero first-extension byte (wire_de/wire_msg), or an extension is present and buflen >= 20 "
        "(wire_ser); distinct = distinct case line")

IDS = [1, 2, 3, 255]
LENS_SMALL = [0, 1, 3, 4, 5, 8, 9]
LENS_BIG = [36, 255]
U16_B = [0, 1, 255, 256, 32767, 32768, 65534, 65535]
U32_B = [0, 1, 255, 256, 65535, 65536, 2**31 - 1, 2**31, 2**32 - 2, 2**32 - 1]


# ----------------------------------------------------------------------------- helpers
def csv(bs):
    return ",".join(map(str, bs)) if len(bs) else "-"


def uncsv(tok):
    return [] if tok in ("-", "") else [int(x) for x in tok.split(",")]


def rbytes(rng, n):
    out = []
    while len(out) < n:
        v = rng.next()
        for _ in range(8):
            out.append(v & 0xFF)
            v >>= 8
    return out[:n]


def u16(rng):
    return rng.choice(U16_B) if rng.chance(1, 4) else rng.below(65536)


def u32(rng):
    return rng.choice(U32_B) if rng.chance(1, 4) else rng.below(2**32)


def chain(rng, shape):
    """bytes of an extension chain of shape [(id, len), ...] and the first id"""
    out = []
    for i, (_, ln) in enumerate(shape):
        nxt = shape[i + 1][0] if i + 1 < len(shape) else 0
        out += [nxt, ln] + rbytes(rng, ln)
    return (shape[0][0] if shape else 0), out


def packet(rng, b0, shape, npayload=2):
    first, ch = chain(rng, shape)
    fixed = [b0, first] + rbytes(rng, 18)
    if rng.chance(1, 8):
        fixed[2:4] = [255, 255]
    return fixed + ch + rbytes(rng, npayload), 20 + len(ch)


def valid_b0(rng):
    return (rng.below(5) << 4) | 1


def shapes(depth, lens):
    out = [[]]
    level = [[]]
    for _ in range(depth):
        level = [s + [(i, l)] for s in level for i in IDS for l in lens]
        out += level
    return out


# ----------------------------------------------------------------------------- generators
def gen_parse(rng, tier):
    quick = tier == "quick"
    lines = []

    def emit(bs, both=True):
        c = csv(bs)
        lines.append("wire_de " + c)
        if both:
            lines.append("wire_msg " + c)

    def truncations(bs, lo=18):
        for L in [0] + list(range(min(lo, len(bs)), len(bs) + 1)):
            emit(bs[:L])

    # (a) every type/version byte x short chains, cut at every length from 18 on
    few = [[], [(1, 4)], [(3, 4)], [(2, 1)], [(1, 0), (3, 4)], [(255, 3), (1, 8)]]
    for b0 in range(256):
        for sh in few:
            bs, _ = packet(rng, b0, sh)
            truncations(bs)
    # (b) valid first byte, all chains of depth <= 2 over the small lengths, every truncation
    for sh in shapes(2, LENS_SMALL):
        bs, _ = packet(rng, valid_b0(rng), sh)
        truncations(bs)
    # (c) chains that contain a long extension (36, 255): depth <= 2, cut around every block boundary
    allsh = shapes(2, LENS_SMALL + LENS_BIG)
    bigsh = [s for s in allsh if any(l in LENS_BIG for _, l in s)]
    for sh in bigsh:
        bs, _ = packet(rng, valid_b0(rng), sh)
        cuts = {0, 19, 20, 21, len(bs), len(bs) - 1, len(bs) - 2, len(bs) - 3}
        pos = 20
        for _, l in sh:
            for d in (-1, 0, 1, 2, 3):
                cuts.add(pos + d)
                cuts.add(pos + 2 + l + d)
            pos += 2 + l
        for L in sorted(c for c in cuts if 0 <= c <= len(bs)):
            emit(bs[:L])
    # (d) depth 3 over the full length set: random sample of shapes
    lens3 = LENS_SMALL + LENS_BIG
    n3 = 1500 if quick else 12000
    for k in range(n3):
        sh = [(rng.choice(IDS), rng.choice(lens3)) for _ in range(3)]
        bs, _ = packet(rng, valid_b0(rng), sh)
        if len(bs) <= 80:
            truncations(bs)
        else:
            pos, cuts = 20, {19, 20, len(bs), len(bs) - 1, len(bs) - 2, len(bs) - 3}
            for _, l in sh:
                cuts |= {pos, pos + 1, pos + 2, pos + 2 + l - 1, pos + 2 + l, pos + 2 + l + 1}
                pos += 2 + l
            for L in sorted(c for c in cuts if 0 <= c <= len(bs)):
                emit(bs[:L])
    if not quick:
        # exhaustive depth 3 over the small lengths, every truncation, wire_msg only at the tail
        for sh in shapes(3, [0, 1, 4, 8])[1 + 16 + 256:]:
            bs, hl = packet(rng, valid_b0(rng), sh)
            for L in range(20, len(bs) + 1):
                emit(bs[:L], both=(L >= hl - 1))
    # (e) duplicates of the known extensions: later ones overwrite
    for _ in range(300 if quick else 3000):
        sh = [(rng.choice([1, 3, 1, 3, 2]), rng.choice([4, 8, 1, 4, 0, 9])) for _ in range(rng.range(2, 6))]
        bs, _ = packet(rng, valid_b0(rng), sh, npayload=rng.below(3))
        emit(bs)
    # (f) random byte strings
    for _ in range(20000 if quick else 300000):
        k = rng.below(10)
        n = rng.range(0, 19) if k == 0 else rng.range(20, 64) if k < 8 else rng.range(64, 1500)
        bs = rbytes(rng, n)
        if n > 0 and rng.chance(7, 10):
            bs[0] = valid_b0(rng)
        if n > 1 and rng.chance(7, 10):
            bs[1] = rng.choice([0, 0, 1, 2, 3, 255])
        if n > 21 and rng.chance(1, 2):
            bs[20] = rng.choice([0, 0, 1, 3])
            bs[21] = rng.choice([0, 1, 4, 8, n - 22, max(0, n - 23), min(255, n - 21)]) & 0xFF
        emit(bs)
    # (g) packets built (python builder) from random valid headers, with and without payload
    for _ in range(6000 if quick else 80000):
        t = rng.below(5)
        exts = []
        k = rng.below(6)
        if k in (1, 3, 5):
            exts.append((1, bytes(rbytes(rng, rng.choice([8, 8, 4, 1, 0, 12, 32])))))
        if k in (2, 3):
            exts.append((3, bytes([0, 0] + rbytes(rng, 2)) if rng.chance(3, 4) else bytes(rbytes(rng, 4))))
        if k == 4:
            exts.append((rng.choice([2, 4, 7, 255]), bytes(rbytes(rng, rng.below(20)))))
        if k == 5:
            exts.insert(rng.below(len(exts) + 1), (rng.choice([2, 3, 200]), bytes(rbytes(rng, rng.choice([0, 3, 5])))))
        pl = 0 if rng.chance(1, 2) else rng.choice([1, 2, 100, 1400])
        if t == 0 and rng.chance(3, 4):
            pl = max(pl, 1)
        bs = bep29.build(t, u16(rng), u32(rng), u32(rng), u32(rng), u16(rng), u16(rng), exts,
                         bytes(rbytes(rng, pl)), version=1 if rng.chance(19, 20) else rng.below(16))
        emit(list(bs))
    return lines


BUFLENS = [0, 1, 19, 20, 21, 25, 26, 27, 29, 30, 31, 32, 35, 36, 37, 64, 1024, 1500]


def sack_spec(rng):
    k = rng.below(8)
    if k < 2:
        return "-"
    if k < 5:      # SelectiveAck::new; indices >= 64 stop the take_while
        idx = [rng.below(64) if rng.chance(15, 16) else rng.choice([64, 65, 1000]) for _ in range(rng.below(12))]
        return "n" + ",".join(map(str, idx))
    if k < 7:      # SelectiveAck::deserialize of 8 bytes (same value as `new`)
        return "d" + ",".join(map(str, rbytes(rng, 8)))
    return "d" + ",".join(map(str, rbytes(rng, rng.choice([0, 1, 3, 4, 7, 9, 12, 32]))))


def ser_line(rng, sack, close, buflen):
    return "wire_ser %d %d %d %d %d %d %d %s %s %d" % (
        rng.below(5), u16(rng), u32(rng), u32(rng), u32(rng), u16(rng), u16(rng), sack, close, buflen)


def close_spec(rng):
    return "-" if rng.chance(1, 2) else str(rng.choice([0, 1, 15, 255, 256, 288, 65535, rng.below(65536)]))


def gen_ser(rng, tier):
    lines = []
    n = 12000 if tier == "quick" else 200000
    for _ in range(n):
        bl = rng.choice(BUFLENS) if rng.chance(3, 4) else rng.range(0, 64)
        lines.append(ser_line(rng, sack_spec(rng), close_spec(rng), bl))
    # SACK and close reason together in a buffer that holds both: the second extension is chained
    # through the first one's next-extension byte (the path repaired by /repo 2f571a9)
    for _ in range(n // 6):
        s = sack_spec(rng)
        while s == "-":
            s = sack_spec(rng)
        lines.append(ser_line(rng, s, str(rng.choice([0, 15, 288, 65535, rng.below(65536)])),
                              rng.choice([36, 36, 37, 64, 1024, 1500])))
    return lines


def gen(rng, tier):
    return gen_parse(rng.fork("parse"), tier) + gen_ser(rng.fork("ser"), tier)


# ----------------------------------------------------------------------------- independent oracle
def _hdr_tokens_from_bep29(p):
    sack, close = "-1", "-1"
    for kind, body in p["extensions"]:
        if kind == bep29.EXT_SACK:
            data = (list(body) + [0] * 8)[:8]
            sack = ",".join(map(str, [8 * len(body)] + data))
        elif kind == bep29.EXT_CLOSE_REASON and len(body) == 4:
            close = str(int.from_bytes(body, "big") & 0xFFFF)
    return [str(p["type"]), str(p["connection_id"]), str(p["timestamp"]), str(p["timestamp_diff"]),
            str(p["wnd_size"]), str(p["seq_nr"]), str(p["ack_nr"]), sack, close]


def oracle(line, out):
    """None if the independent BEP-29 parser agrees with the implementation's observation,
    else a short reason (no spaces)."""
    t = line.split()
    if out == "PANIC":
        return None          # reported by the predicate
    if t[0] in ("wire_de", "wire_msg"):
        bs = uncsv(t[1])
        p = bep29.parse(bs)
        if t[0] == "wire_de":
            want = "NONE" if p is None else " ".join(_hdr_tokens_from_bep29(p) + [str(p["header_len"])])
        else:
            if p is None or ((p["type"] == bep29.ST_DATA) != (len(p["payload"]) > 0)):
                want = "NONE"
            else:
                want = " ".join(_hdr_tokens_from_bep29(p) + [str(len(p["payload"]))])
        return None if want == out else "parse-differs"
    if t[0] == "wire_ser":
        buflen = int(t[10])
        if out == "ERR":
            return None if buflen < 20 else "err-with-buffer>=20"
        if " " in out:
            return "dirty"
        bs = uncsv(out)
        p = bep29.parse(bs, strict_sack=True)
        if p is None:
            return "emitted-bytes-not-bep29"
        if p["version"] != 1 or len(p["payload"]) != 0 or len(bs) > buflen:
            return "emitted-version-or-length"
        want = [int(x) for x in t[1:8]]
        got = [p["type"], p["connection_id"], p["timestamp"], p["timestamp_diff"], p["wnd_size"],
               p["seq_nr"], p["ack_nr"]]
        if want != got:
            return "emitted-fields-differ"
        # extensions: a sub-sequence of [sack, close]; all of them when the buffer is large enough
        kinds = [k for k, _ in p["extensions"]]
        exp = ([1] if t[8] != "-" else []) + ([3] if t[9] != "-" else [])
        full = 20 + (10 if t[8] != "-" else 0) + (6 if t[9] != "-" else 0)
        if buflen >= full and kinds != exp:
            return "emitted-extensions-missing"
        if not all(k in exp for k in kinds) or len(set(kinds)) != len(kinds):
            return "emitted-extensions-unexpected"
        for k, body in p["extensions"]:
            if k == 3 and int.from_bytes(body, "big") != int(t[9]):
                return "emitted-close-reason-differs"
            if k == 1:
                if len(body) != 8:
                    return "emitted-sack-length"
                if t[8][0] == "n":
                    idx = []
                    for x in uncsv(t[8][1:]):
                        if x >= 64:
                            break
                        idx.append(x)
                    if sorted(set(idx)) != bep29.sack_bits(body):
                        return "emitted-sack-bits-differ"
                elif list(body) != (uncsv(t[8][1:]) + [0] * 8)[:8]:
                    return "emitted-sack-bytes-differ"
    return None


# ----------------------------------------------------------------------------- check hooks
def _wellformed_case(t):
    return (len(t) == 2 and t[0] in ("wire_de", "wire_msg")) or (len(t) == 11 and t[0] == "wire_ser")


def _pred(line, out):
    t = line.split()
    if not _wellformed_case(t) or out.startswith("HARNESS-ERROR") or out == "BAD-CASE":
        return None
    why = oracle(line, out)
    if why is not None:
        return "wire_pred bep29_fail " + why + " " + line + " | " + out
    return "wire_pred " + line + " | " + out


def pred(line, out):
    return _pred(line, out)


def nontrivial(line, out):
    t = line.split()
    if t[0] == "wire_ser":
        return (t[8] != "-" or t[9] != "-") and int(t[10]) >= 20
    bs = uncsv(t[1])
    return len(bs) >= 20 and bs[0] & 15 == 1 and bs[0] >> 4 <= 4 and bs[1] != 0


def classify(line, out):
    t = line.split()
    if out == "PANIC":
        return t[0] + ":panic"
    if t[0] == "wire_ser":
        if out == "ERR":
            return "wire_ser:err"
        n = len(uncsv(out.split()[0]))
        full = 20 + (10 if t[8] != "-" else 0) + (6 if t[9] != "-" else 0)
        return "wire_ser:%s" % ("no-ext" if full == 20 else
                                "both-ext-written" if n == full == 36 else
                                "all-ext-written" if n == full else "ext-skipped(small buffer)")
    bs = uncsv(t[1])
    if out != "NONE":
        o = out.split()
        return t[0] + ":accepted" + ("+sack" if o[7] != "-1" else "") + ("+close" if o[8] != "-1" else "") + \
            ("+ext-chain" if len(bs) > 20 and bs[1] != 0 else "")
    if len(bs) < 20:
        return t[0] + ":rejected-short"
    if bs[0] & 15 != 1:
        return t[0] + ":rejected-version"
    if bs[0] >> 4 > 4:
        return t[0] + ":rejected-type"
    if bep29.parse(bs) is None:
        return t[0] + ":rejected-chain-does-not-fit"
    return t[0] + ":rejected-payload-rule"


def gen_around(rng, line, tier):
    t = line.split()
    out = []
    if not _wellformed_case(t):
        return out
    if t[0] == "wire_ser":
        for _ in range(200):
            u = list(t)
            i = rng.range(2, 7)
            u[i] = str(u16(rng) if i in (2, 6, 7) else u32(rng))
            u[1] = str(rng.below(5))
            u[10] = str(rng.choice(BUFLENS))
            out.append(" ".join(u))
        return out
    bs = uncsv(t[1])
    for _ in range(300):
        b = list(bs)
        k = rng.below(3)
        if k == 0 and b:
            b[rng.below(len(b))] = rng.below(256)
        elif k == 1 and b:
            b = b[:rng.below(len(b) + 1)]
        else:
            b = b + rbytes(rng, rng.range(1, 4))
        out.append(t[0] + " " + csv(b))
    return out


# no "keep": a case line has no parameter prefix; a line that loses a token is answered BAD-CASE by
# both sides (so the shrinker never accepts it) and the integers inside the tokens stay shrinkable
def _vsock_component():
    # connection level: the M3 model vs the real VirtualSocket on the shared generators; the extracted
    # c11_emitted_ok (connection id owed to the direction, BEP-29 type, payload iff ST_DATA, in-range header,
    # 64-bit SACK) and c11_conn_types_ok (a connection emits only ST_DATA / ST_FIN / ST_STATE) are evaluated
    # on every datagram of every implementation trace
    from . import vsock_common
    c = vsock_common.component("c11_emitted_ok+c11_conn_types_ok", name="vsock_wire")
    c["corpus"] = ["vsock"]
    return c


def _disp_component():
    # dispatcher level: every datagram the real dispatcher sent parses (real parser, in the harness) as the
    # ST_SYN / ST_RESET the model emits, and the extracted c11_dstep_ok holds of it
    from . import disp_common
    return disp_common.component("c11", name="disp_wire")


COMPONENTS = [
    {"name": "wire", "gen": gen, "gen_around": gen_around, "nontrivial": nontrivial,
     "classify": classify, "pred": pred},
    _vsock_component(),
    _disp_component(),
]

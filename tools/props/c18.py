"""C18 — Nagle coalescing (connection level: split_tx_queue_into_segments inside VirtualSocket::poll)."""
from . import common, vsock_common, vsockgen

TRUSTED_BASE = common.BASE_TRUSTED + [common.NO_AXIOMS]
ASSUMPTIONS = [
    "one VirtualSocket driven by a scripted peer, application, clock and transport (vsock component)",
    "assumed-and-monitored (predicate c18_pre_monitor on every implementation step): every segment of the table "
    "starts below the table's next-byte offset (component invariant of Segments, not lifted to the connection here)",
    "the predicate theorem is about split_tx_queue_into_segments (its own state before/after); that the rest of "
    "poll only removes or re-flags segments (so the same predicate holds between the fingerprints before and "
    "after a whole poll) is not proved: it is checked on every implementation trace and by the differential run",
    "segments re-cut from a popped MTU probe start below the old next-byte offset and are not judged by the predicate",
]
RULE = ("vsock traces from the shared open/closed-loop generators plus the C18 generator (Nagle on and off; "
        "small writes 1..mss-1 interleaved with polls while earlier data is unacknowledged, writes that "
        "fill segments exactly, peer windows smaller than a segment, acknowledgements draining the pipe); "
        "non-trivial = at least three polls and data in at least one direction; distinct = distinct case line")


def gen_c18_case(rng):
    cfg = vsockgen.gen_config(rng, kind=rng.choice(["out", "out", "in"]))
    cfg[2] = rng.choice([1500, 1500, 576, 1280, 700])
    cfg[6] = rng.choice([1, 1, 1, 0])                             # nagle
    cfg[14] = rng.choice([1048576, 1048576, 3000, 1000, 300])     # peer window (outgoing)
    cfg[8] = 10_000_000_000
    p = vsockgen.Peer(rng, cfg)
    ops = []
    now = cfg[16] if cfg[0] == "out" else 0
    wstart = 0
    if cfg[0] == "in":
        ops.append("P")
        ops.append(p.state_ack(advance=0))
    ops.append("P")
    sent_guess = 0
    for _ in range(rng.range(6, 22)):
        k = rng.below(100)
        if k < 45:
            ln = rng.choice([1, 1, 7, 50, 100, 300, 527, 528, 529, 1000, 1452, 1453, 2904, rng.range(1, 3000)])
            ops.append(f"W{ln},{wstart % 251}")
            wstart += ln
            if rng.below(4):
                ops.append("P")
        elif k < 65:
            ops.append("P")
        elif k < 85:
            # the peer acknowledges some or all of what is outstanding, sometimes changing its window
            if rng.below(5) == 0:
                p.wnd = rng.choice([0, 100, 300, 528, 1000, 3000, 1048576])
            ops.append(p.state_ack(advance=rng.choice([0, 1, 1, 2, 3, 8])))
            ops.append("P")
        elif k < 92:
            now += rng.choice([1_000_000, 40_000_000, 300_000_000, 1_500_000_000])
            ops.append(f"T{now}")
            ops.append("P")
        else:
            ops.append("F")
            ops.append("P")
    ops.append(p.state_ack(advance=16))
    ops.append("P")
    return "vsock " + " ".join(str(x) for x in cfg) + " " + " ".join(ops)


def gen_own(rng, tier):
    n = 300 if tier == "quick" else 6000
    return [gen_c18_case(rng.fork("c18_%d" % i)) for i in range(n)]


def gen_all(rng, tier):
    return gen_own(rng, tier) + vsock_common.gen(rng, tier)


def component(pred_name, shared):
    c = vsock_common.component(pred_name, name="vsock_" + pred_name)
    c["gen"] = (lambda rng, tier: gen_all(rng, tier) if (shared or tier != "quick") else gen_own(rng, tier))
    return c


# all five predicates are THEOREMS of every model step / trace (Props/C18.v ..._every_step / _every_trace); one pass evaluates them
COMPONENTS = [component("c18_nagle_ok+c18_off_all_segmented_ok+c18_drain_sends_ok+c18_buffered_segmented_ok+c18_pre_ok", True),
              component("c18_pre_monitor", False)]
COMPONENTS[0]["name"] = "vsock_c18_nagle_ok"

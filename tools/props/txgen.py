"""Generators for the `tx` component (UserTx + write half)."""


def gen_case(rng, big=False):
    sizes = [1, 2, 3, 7, 8, 64, 1000] if not big else [4096, 10000, 32768]
    initial = rng.choice(sizes)
    mx = rng.choice(sizes)
    cap, ln = initial, 0
    n = rng.range(1, 60)
    ops = ["e"] if rng.below(2) else []
    start = 0
    closed = dropped = shut = False
    for _ in range(n):
        r = rng.below(100)
        if r < 40:
            k = rng.choice([0, 1, 2, cap, cap + 1, 3 * cap, rng.range(0, 2 * cap)]) if not big \
                else rng.choice([100, 1000, 8000, 9000, cap])
            ops.append(f"w{k},{start % 251}")
            if not (closed or dropped or shut):
                took = min(k, cap - ln)
                ln += took
                start += took
        elif r < 60:
            k = rng.range(0, ln) if rng.below(10) else rng.choice([ln + 1, 2 * ln + 3])
            ops.append(f"t{k}")
            ln -= min(k, ln)
            if rng.below(4):
                ops.append("k")
        elif r < 70:
            ops.append(f"g{mx}")
            if cap < mx:
                cap = min(2 * cap, mx)
            if rng.below(3):
                ops.append("k")
        elif r < 80:
            ops.append("f")
        elif r < 86:
            ops.append("h")
            if ln == 0 and not closed:
                shut = True
        elif r < 94:
            ops.append("e")
        elif r < 96:
            ops.append("d"); dropped = True
        elif r < 98:
            ops.append("c"); closed = True
        else:
            ops.append("k")
    return f"tx {initial} {mx} " + " ".join(ops)


def gen(rng, tier):
    n = 1500 if tier == "quick" else 30000
    return [gen_case(rng, big=rng.chance(1, 15)) for _ in range(n)]

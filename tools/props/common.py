"""Text shared by the per-property modules."""
BASE_TRUSTED = [
    "Coq 8.16.1 kernel (coqc; coqchk in the thorough tier); vm_compute used, native_compute not",
    "hand-written Gallina model of the Rust code (modelled, not verified); tie = differential "
    "correspondence with the real crate built from /repo with --cfg librqbit_utp_verif",
    "extraction with ExtrOcamlBasic only (bool, option, list, prod, unit, sumbool -> OCaml natives); "
    "OCaml 4.13.1 ocamlopt; driver/modelrun.ml + driver/zutil.ml (parser, printers, int<->Z)",
    "harness/src/*.rs, the cfg-guarded hooks in /repo, tools/check + tools/checklib.py (generators, diff, shrinker)",
]
NO_AXIOMS = "axioms: none (every theorem prints 'Closed under the global context')"


def consts_to_dict(line):
    d = {}
    for t in line.split():
        if "=" in t:
            k, v = t.split("=", 1)
            d[k] = v
    return d


def check_constants_subset(impl_line, model_line, names):
    a, b = consts_to_dict(impl_line), consts_to_dict(model_line)
    out = []
    for n in names:
        if n not in a:
            out.append(f"constant {n} not reported by the compiled crate")
        elif n not in b:
            out.append(f"constant {n} not reported by the model")
        elif a[n] != b[n]:
            out.append(f"constant {n}: compiled crate has {a[n]}, model/theorems assume {b[n]}")
    return out

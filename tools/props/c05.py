"""C05 — sender obeys the peer's window, slow start, single segment after an RTO (connection level).
Predicates: Conn/C05_Pred.v, evaluated (extracted) on the implementation's own traces."""
import os, sys
sys.path.insert(0, os.path.dirname(os.path.dirname(os.path.abspath(__file__))))
import checklib as L
from . import common, vsock_common, vsockgen

TRUSTED_BASE = common.BASE_TRUSTED + [common.NO_AXIOMS]
ASSUMPTIONS = [
    "theorems are about one call of the model's send_tx_queue / new_data_loop / split_tx_queue_into_segments / "
    "process_all_incoming_messages from ANY state (abstract congestion controller); that the whole poll is the "
    "composition the model says is the vsock correspondence, not a theorem",
    "assumed-and-monitored (c05_monitor_ok on every fingerprint): every segment has payload >= 1, rto_retransmissions >= 0, "
    "never-sent segments form a suffix of the table, mss >= 1",
    "true-flight form of the window clause: at most 1024 transmitted segments outstanding and no rewind pending (sent_prefix)",
    "predicates look at polls that ended Pending; a poll that ends the connection is covered by the correspondence only",
]
RULE = ("vsock traces: shared open-loop + closed-loop generators plus targeted closed-loop scenarios (zero-window episodes, "
        "RTO chains up to the retry cap, duplicate-ACK / SACK fast retransmit, window-limited bulk transfer); non-trivial = "
        ">= 3 polls and data exchanged; distinct = distinct case line")

_CACHE = {}


def cfg_line(kind="out", nagle=1, max_retx=5, rwnd=1048576, isn=100, rseq=1, link=1500, probe_retx=1, tx_init=32768,
             syn_rtt=1000000):
    return ["vsock", kind, 1, link, 1048576, tx_init, 1048576, nagle, max_retx, 60_000_000_000, 1, probe_retx,
            isn, rseq, 7, rwnd, 5, syn_rtt]


def gen_targeted(rng, n):
    """Closed-loop scenarios that steer one connection into the clauses of C05/C06."""
    cases = []
    for i in range(n):
        prof = ["rto_chain", "zero_window", "fast_retx", "fast_retx_sack", "bulk_window", "rto_then_ack",
                "sacked_tail_rto", "reorder_sack", "sacked_tail_rto", "sacked_tail_rto", "peer_data_small_wnd",
                "peer_data_small_wnd"][i % 12]
        isn = rng.choice([100, 65530, 65000, rng.below(65536)])
        cfg = cfg_line(nagle=rng.choice([0, 1]), max_retx=rng.choice([1, 2, 3, 5]),
                       rwnd=rng.choice([1048576, 1048576, 100000, 6000, 3000]), isn=isn,
                       link=rng.choice([1500, 1500, 576, 1280]), probe_retx=rng.choice([0, 0, 1, 2]),
                       syn_rtt=rng.choice([1_000_000, 100_000_000, 1_000_000_000]))
        if prof == "sacked_tail_rto" and rng.below(2):
            cfg[11] = 0           # mtu_probe_max_retransmissions = Some(0): a probe counts as expired at the first RTO
        cases.append({"cfg": cfg, "ops": [], "now": cfg[17], "prof": prof, "ts": 1, "peer": cfg[13], "w": 0,
                      "done": False, "stage": 0})
    rounds = 9
    for rnd in range(rounds):
        lines = [" ".join(str(x) for x in c["cfg"]) + " " + " ".join(c["ops"]) for c in cases]
        outs = L.run_sharded(L.HARNESS, lines) if rnd > 0 else [None] * len(cases)
        for c, out in zip(cases, outs):
            if c["done"]:
                continue
            ops, prof = c["ops"], c["prof"]

            def msg(ack, wnd=None, sack="-", t=2):
                c["ts"] += rng.range(1, 5000)
                w = c["cfg"][15] if wnd is None else wnd
                return f"M{t},{c['peer']},{ack % 65536},{w},{c['ts'] % 2**32},0,0,{sack}"

            def adv(d):
                c["now"] += d
                ops.append(f"T{c['now']}")

            def write(n):
                ops.append(f"W{n},{c['w'] % 251}")
                c["w"] += n

            if rnd == 0:
                if prof == "peer_data_small_wnd" and rng.below(2):
                    # nothing of ours on the wire yet: the peer speaks first
                    ops.append("P")
                    continue
                write(rng.choice([3000, 6000, 20000, 40000]))
                ops.append("P")
                continue
            pkts, fp, finished = vsockgen.parse_trace(out)
            if finished or fp is None:
                c["done"] = True
                continue
            snd_una = int(out.split()[-1].split("/")[-1].split("|")[1].split(",")[0])
            last_sent = int(fp[4])
            inflight = (last_sent - snd_una + 1) % 65536
            if prof == "rto_chain":
                # no acknowledgement at all: expiries until the cap; sometimes one ACK in the middle
                if rnd == 4 and rng.below(3) == 0 and inflight:
                    ops.append(msg(snd_una))
                    ops.append("P")
                adv(rng.choice([250_000_000, 1_000_000_000, 5_000_000_000, 61_000_000_000]))
                ops.append("P")
                if rng.below(3) == 0:
                    ops.append("P")
            elif prof == "zero_window":
                if rnd == 1:
                    ops.append(msg(snd_una, wnd=0)); ops.append("P")
                    write(rng.choice([1000, 5000])); ops.append("P")
                elif rnd in (2, 3):
                    adv(rng.choice([50_000_000, 3_000_000_000])); ops.append("P")
                    if rng.below(2):
                        ops.append(msg((snd_una - 1) % 65536, wnd=0)); ops.append("P")
                elif rnd == 4:
                    ops.append(msg(last_sent, wnd=rng.choice([528, 3000, 1048576]))); ops.append("P")
                else:
                    ops.append(msg(last_sent, wnd=rng.choice([0, 100, 1048576]))); ops.append("P")
                    adv(rng.choice([1_000_000, 3_000_000_000])); ops.append("P")
            elif prof in ("fast_retx", "fast_retx_sack"):
                if rnd <= 3:
                    # grow the window: acknowledge everything, keep writing
                    ops.append(msg(last_sent)); ops.append("P")
                    if rng.below(2):
                        write(20000); ops.append("P")
                elif rnd == 4 and inflight >= 2:
                    base = (snd_una - 1) % 65536
                    if prof == "fast_retx":
                        for _ in range(rng.choice([2, 3, 3, 4])):
                            ops.append(msg(base))
                    else:
                        nb = min(inflight - 1, rng.choice([1, 2, 3, 5]))
                        bits = 0
                        for k in range(nb):
                            bits |= 1 << k
                        hx = "%016x" % int.from_bytes(bits.to_bytes(8, "little"), "big")
                        for _ in range(rng.choice([1, 3])):
                            ops.append(msg(base, sack=hx))
                    ops.append("P")
                    adv(rng.choice([1_000_000, 40_000_000])); ops.append("P")
                elif rnd == 5:
                    if rng.below(2):
                        adv(3_000_000_000); ops.append("P")       # RTO during recovery
                    ops.append(msg(last_sent)); ops.append("P")
                else:
                    ops.append(msg(last_sent)); ops.append("P")
                    adv(rng.choice([1_000_000, 300_000_000])); ops.append("P")
            elif prof in ("sacked_tail_rto", "reorder_sack"):
                def sack_hex(nb):
                    bits = 0
                    for k in range(min(nb, 63)):
                        bits |= 1 << k
                    return "%016x" % int.from_bytes(bits.to_bytes(8, "little"), "big")
                cwnd = int(fp[21]); rw = int(fp[8])
                fit = max(600, min(cwnd, rw if rw > 0 else cwnd))
                if rnd <= 4 or inflight < 2:
                    # acknowledge everything, then write no more than the window carries, so that the whole flight
                    # (a few segments, the newest one often an MTU probe) is on the wire and the ring holds nothing else
                    ops.append(msg(last_sent)); ops.append("P")
                    write(max(600, fit * rng.choice([5, 7, 9, 10]) // 10)); ops.append("P")
                elif prof == "sacked_tail_rto":
                    # everything but the first outstanding segment is selectively acknowledged (the newest one is
                    # often an MTU probe), then the retransmission timer fires: only the hole may be resent
                    base = (snd_una - 1) % 65536
                    nb = inflight - 1 if rng.below(2) else rng.choice([1, 1, 2])
                    ops.append(msg(base, sack=sack_hex(nb))); ops.append("P")
                    adv(rng.choice([300_000_000, 1_000_000_000, 3_000_000_000])); ops.append("P")
                    if rng.below(2):
                        # the peer repeats the very same ACK (a duplicate, or a pure window update): no new data is
                        # acknowledged, single-segment mode must go on
                        ops.append(msg(base, sack=sack_hex(nb), wnd=rng.choice([None, 100000, 3000]))); ops.append("P")
                        write(rng.choice([1000, 5000])); ops.append("P")
                    adv(rng.choice([600_000_000, 7_000_000_000])); ops.append("P")
                    if rng.below(2):
                        ops.append(msg(last_sent)); ops.append("P")
                else:
                    # plain reordering, no loss event: one or two segments are SACKed, then the cumulative ACK
                    # arrives; the window must grow by the acknowledged bytes once
                    base = (snd_una - 1) % 65536
                    ops.append(msg(base, sack=sack_hex(rng.choice([1, 1, 2])))); ops.append("P")
                    ops.append(msg(last_sent)); ops.append("P")
                    write(rng.choice([20000, 40000])); ops.append("P")
            elif prof == "peer_data_small_wnd":
                # two-way traffic: the peer's own ST_DATA (payload above our current segment size, so that our MSS
                # and with it the congestion controller's unit changes) carries the acknowledgement and a SMALL
                # window; we always have more to send than that window
                def data(ack, wnd, plen):
                    c["ts"] += rng.range(1, 5000)
                    m = f"M0,{c['peer']},{ack % 65536},{wnd},{c['ts'] % 2**32},{plen},{c.get('pstart', 0) % 251},-"
                    c["peer"] = (c["peer"] + 1) % 65536
                    c["pstart"] = c.get("pstart", 0) + plen
                    return m
                wnd = rng.choice([600, 1000, 1000, 1500, 2000, 2500, 3000])
                ack = last_sent if rng.below(3) else (snd_una - 1 + rng.range(0, max(0, inflight))) % 65536
                if rng.below(4):
                    ops.append(data(ack, wnd, rng.choice([600, 1000, 1400, 1400, 1452])))
                else:
                    ops.append(msg(ack, wnd=wnd))
                if rng.below(3) == 0:
                    ops.append("R100000")
                ops.append("P")
                if rng.below(2):
                    write(rng.choice([600, 5000, 20000]))
                # several polls with nothing new from the peer (a write, a timer, a spurious wake-up): each one
                # segments and sends again against the SAME advertised window
                for _ in range(rng.range(1, 4)):
                    ops.append("P")
                if rng.below(4) == 0:
                    adv(rng.choice([40_000_000, 300_000_000])); ops.append("P")
            elif prof == "bulk_window":
                wnd = rng.choice([528, 1000, 1056, 3000, 100000])
                ops.append(msg(last_sent if rng.below(4) else (snd_una + inflight // 2 - 1) % 65536, wnd=wnd))
                ops.append("P")
                if rng.below(2):
                    write(rng.choice([1, 600, 10000])); ops.append("P")
            elif prof == "rto_then_ack":
                if rnd % 2 == 1:
                    adv(rng.choice([1_000_000_000, 4_000_000_000])); ops.append("P")
                    ops.append("P")
                else:
                    ops.append(msg(snd_una if rng.below(2) else last_sent)); ops.append("P")
                    ops.append("P")
    return [" ".join(str(x) for x in c["cfg"]) + " " + " ".join(c["ops"]) for c in cases] + \
        gen_sacked_probe(rng.fork("sacked_probe"), max(6, n // 16))


def gen_sacked_probe(rng, n):
    """Open-loop: the newest segment is an MTU probe (first flight: one proven-size segment + the probe), the peer
    acknowledges the PROBE selectively while the segment before it is lost, then the retransmission timer fires once or
    twice (the probe's own retry budget is 0 or 1, so an unacknowledged probe would be given up here): only the hole may
    be resent, the selectively acknowledged probe must neither be sent again nor be re-cut (seeded C06-b / C14-b)."""
    out = []
    for i in range(n):
        isn = rng.choice([100, 65534, 65535, rng.below(65536)])
        link = rng.choice([1500, 1500, 1280, 9000])
        cfg = cfg_line(nagle=rng.choice([0, 1]), max_retx=5, isn=isn, link=link, probe_retx=rng.choice([0, 0, 1]),
                       syn_rtt=rng.choice([1_000_000, 100_000_000]))
        ts = [10]

        def msg(ack, sack="-", wnd=1048576):
            ts[0] += rng.range(1, 5000)
            return f"M2,1,{ack % 65536},{wnd},{ts[0]},0,0,{sack}"
        total = rng.choice([1519, 1519, 528 + 700, 528 + 900, 2000])
        ops = [f"W{total},0", "P"]
        # ack_nr = isn (nothing cumulatively acknowledged); SACK bit 0 names isn + 2 = the second segment (the probe)
        wnd = rng.choice([1048576, 1048576, 600, 300])
        ops += [msg(isn, sack="0100000000000000", wnd=wnd), "P"]
        now = cfg[17]
        for k in range(rng.choice([1, 2, 2, 3])):
            now += rng.choice([250_000_000, 450_000_000, 1_000_000_000, 3_000_000_000])
            ops += [f"T{now}", "P"]
            if rng.below(3) == 0:
                ops += [msg(isn, sack="0100000000000000", wnd=wnd), "P"]
        if rng.below(2):
            ops += [msg(isn + 2), "P"]
        if rng.below(2):
            ops += ["DR", "DW", "P"]
        out.append(" ".join(str(x) for x in cfg) + " " + " ".join(ops))
    return out


def gen(rng, tier):
    key = (rng.s, tier)
    if key not in _CACHE:
        lines = vsock_common.gen(rng, tier)
        lines += gen_targeted(rng.fork("targeted"), 300 if tier == "quick" else 4000)
        _CACHE.clear()
        _CACHE[key] = lines
    return _CACHE[key]


def classify(line, out):
    base = vsock_common.classify(line, out)
    toks = [t for t in out.split() if t.startswith("P:")]
    tags = []
    zero = rto = rec = 0
    for t in toks:
        parts = t.split("/")
        if len(parts) > 4:
            fp = parts[4].split("|")[0].split(",")
            zero += fp[8] == "0"
            rto += fp[10] != "0"
            rec += fp[23] == "2"
    if zero:
        tags.append("zerownd")
    if rto:
        tags.append("rtomode")
    if rec:
        tags.append("recovering")
    if "P:EMAXRETX" in out:
        tags.append("cap")
    return base + ("+" + "+".join(tags) if tags else "")


def component(pred):
    c = vsock_common.component(pred, name=pred)
    c["gen"] = gen
    c["classify"] = classify
    return c


# Session 5: c05_window_ok (Conn/C05_Pred.v) had a pattern defect (`p1 :: _ as data` binds the TAIL: the first ST_DATA of the
# poll was left out of the sum) - replaced by c05_window_ok2 (whole list; THEOREM of every step / trace under the observable guard
# c05_win_guard).  c05_rto_exit_ok and c05_zero_window_ok are FALSE of the model as written (c05_rto_exit_ok_b6_refuted: boundary
# B6 when the peer's payload raised min_ss to max_ss; c05_zero_window_ok_closed_refuted: a poll that ends closed) - replaced by
# their proved forms c05_rto_exit_ok2 / c05_zero_window_ok_open.  c05_rto_single_ok, c05_monitor_core_ok: theorems of every
# trace.  Still monitored only: c05_zero_window_strict (known class D16), c05_slow_start_ok, c05_monitor_ok (never-sent-suffix).
PREDS = ("c05_window_ok2", "c05_zero_window_ok_open", "c05_zero_window_strict", "c05_rto_single_ok", "c05_rto_exit_ok2",
         "c05_slow_start_ok", "c05_monitor_ok", "c05_monitor_core_ok")
# one pass over the traces evaluates all predicates (the driver reports the first one that fails,
# by name); one component per predicate costs a full differential run each

# ----------------------------------------------------------------------------- known findings
CLASSIFIERS = [
    ("D16", "c05_d16_class_neg", "c05_zero_window_strict",
     "the retransmission timer fired with a never-sent segment at the head of the table and the RTO branch of "
     "send_tx_queue transmitted it into a ZERO peer window (first transmission, in effect a zero-window probe)"),
]


def _open_ids(kf):
    return {e.get("id"): e for e in kf.get("open", [])}


def _neg_in_class(cls_neg, case, impl):
    t = case.split()
    return L.run_lines(L.MODEL, ["vsock_pred %s %s | %s" % (cls_neg, " ".join(t[1:]), impl)])[0] != "OK"


def _strict_only(case, impl):
    """True when the strict zero-window predicate is the ONLY failing one (the other predicates hold)."""
    others = "+".join(p for p in PREDS if p != "c05_zero_window_strict")
    t = case.split()
    return L.run_lines(L.MODEL, ["vsock_pred %s %s | %s" % (others, " ".join(t[1:]), impl)])[0] == "OK"


def classify_known(kind, payload, kf):
    if kind != "predicate" or "case" not in payload:
        return None
    op = _open_ids(kf)
    res = payload.get("predicate_result", "")
    for kid, cls_neg, pred_name, text in CLASSIFIERS:
        if kid in op and pred_name in res and _neg_in_class(cls_neg, payload["case"], payload.get("impl", "")):
            # every step that fails the strict predicate must be in the class: evaluate "strict or class" per step
            t = payload["case"].split()
            # the driver evaluates predicates step by step; a failure outside the class is reported by the
            # first-failing-step index differing from a class step, checked here through the combined predicate
            line = "vsock_pred c05_zero_window_strict_or_d16 %s | %s" % (" ".join(t[1:]), payload.get("impl", ""))
            if L.run_lines(L.MODEL, [line])[0] == "OK" and _strict_only(payload["case"], payload.get("impl", "")):
                return "id=%s %s; case `%s`" % (kid, text, payload["case"][:400])
    return None


def replay_known(kf):
    out = []
    op = _open_ids(kf)
    for kid, cls_neg, pred_name, text in CLASSIFIERS:
        e = op.get(kid)
        if not e or "witness" not in e:
            continue
        for w in (e["witness"] if isinstance(e["witness"], list) else [e["witness"]]):
            impl = L.run_lines(L.HARNESS, [w])[0]
            p = vsock_common.pred_builder(pred_name)(w, impl)
            if p and L.run_lines(L.MODEL, [p])[0] != "OK" and _neg_in_class(cls_neg, w, impl):
                out.append("KNOWN-FINDING: property=C05 id=%s still reproduces on the real code: `%s` (%s false)"
                           % (kid, w, pred_name))
    return out


COMPONENTS = [dict(component("+".join(PREDS)), name="vsock_c05")]

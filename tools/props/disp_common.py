"""Shared pieces of the socket-dispatcher (`disp`) checks: C12, C13, C08."""
import os, sys
sys.path.insert(0, os.path.dirname(os.path.dirname(os.path.abspath(__file__))))
from . import dispgen, common

ASSUMPTIONS = [
    "the dispatcher is one task; everything it shares with other tasks is a channel, so every interleaving of "
    "concurrent connects/accepts/datagrams is an op list of the model (run_once arms + channel operations of the other tasks, "
    "including operations that happen while run_once is parked in select!)",
    "tokio's select! may take any ready arm; the harness re-runs a case until the requested arm was taken "
    "(cases whose requested arm was never taken within the attempt budget are discarded and counted)",
    "connections created by the dispatcher are inert objects in the harness (their tasks are never polled); "
    "a connection's end is the explicit Shutdown event or the drop of an accept future that already holds its stream",
    "datagrams are header-only packets built by the harness (plus one payload byte for ST_DATA); unparseable ones are a separate op",
]
TRUSTED_BASE = common.BASE_TRUSTED + [common.NO_AXIOMS]
RULE = ("op lists over {accept() reaches the channel, accept future dropped/polled, connect(), connect future dropped/polled, "
        "Shutdown(key), datagram (SYN, SYN-ACK with right/wrong ack, traffic for live/dead/unknown keys, garbage), run_once taking "
        "the accept/control/recv arm, run_once parked in select! while acceptors and a datagram arrive}; limits 1..4 and 128; "
        "non-trivial = at least one connection created and at least 8 run_once steps; distinct = distinct case line")


def nontrivial(line, out):
    toks = out.split()
    created = any("st=" in t and "st=-" not in t for t in toks)
    runs = sum(1 for t in toks if t.startswith("OK"))
    return created and runs >= 8


def classify(line, out):
    toks = out.split()
    if "ARM-NOT-REACHED" in toks or "ARM-NOT-ENABLED" in toks:
        return "discarded:arm-not-reached"
    k = []
    if any(t.startswith("ACC") for t in toks):
        k.append("accepted")
    if any(t.startswith("CON") and not t.startswith("CONERR") for t in toks):
        k.append("connected")
    if any(t.startswith("CONERR") for t in toks):
        k.append("connect-error")
    if any("/" in t and t.split("/")[1] != "-" and ":3:" in t.split("/")[1] for t in toks):
        k.append("rst")
    if any("/" in t and len(t.split("/")) > 2 and t.split("/")[2] != "-" for t in toks):
        k.append("forwarded")
    if any(t.startswith("Q") for t in line.split()):
        k.append("parked")
    return "+".join(k) if k else "plain"


def make_pred(which):
    def pred(line, out):
        if "ARM-NOT-REACHED" in out or "BADCASE" in out or "BADCONFIG" in out:
            return None
        t = line.split()
        return "disp_pred %s %s | %s" % (which, t[1], out)
    return pred


def component(which, name="disp"):
    return {"name": name, "keep": 2, "gen": dispgen.gen, "nontrivial": nontrivial, "classify": classify,
            "pred": make_pred(which), "usable": dispgen.usable}

"""C19 — send-side buffering bounded, back-pressure (component level: UserTx + write half)."""
from . import common, txgen, concgen

TRUSTED_BASE = common.BASE_TRUSTED + [common.NO_AXIOMS]
ASSUMPTIONS = [
    "each method of UserTx / UtpStreamWriteHalf is atomic (holds the locks for its whole body) - not proved; validated on every run by the "
    "two-thread component txconc (writer thread against grow / truncate_front): nothing lost, nothing duplicated, capacity within max(initial, max)",
    "ringbuf's push_slice / skip / as_slices behave as a FIFO byte queue of the given capacity (memory safety of the crate not modelled)",
    "the dispatcher's wake of the writer after truncate_front / grow is the op `k`; that the dispatcher always pairs them is a connection-level fact",
    "grow is only ever called with the configured maximum",
]
RULE = ("op lists over {write(len), flush, shutdown, drop writer, mark closed, truncate_front(n), grow(max), "
        "register dispatcher waker if empty, wake writer}; initial/max in {1,2,3,7,8,64,1000,...} incl. initial > max; "
        "write sizes 0..3*capacity; truncations within and beyond the ring; non-trivial = the ring was full at least once "
        "(a write returned Pending or a short count) and bytes were later freed; distinct = distinct case line")


def nontrivial(line, out):
    toks = out.split()
    blocked = any(t.startswith("WP") for t in toks)
    freed = any(t.startswith("TOK") for t in toks)
    return blocked and freed


def classify(line, out):
    toks = out.split()
    k = []
    if any(t.startswith("WP") for t in toks):
        k.append("blocked")
    if any(t.startswith("G") and not t.startswith("G-") for t in toks):
        k.append("grew")
    if any(t.startswith("TBUG") for t in toks):
        k.append("overtruncate")
    if any(t.startswith("WE") or t.startswith("ERR") for t in toks):
        k.append("err")
    return "+".join(k) if k else "plain"


def pred(line, out):
    t = line.split()
    return f"tx_pred {t[1]} {t[2]} | {out}"


COMPONENTS = [{"name": "tx", "keep": 2, "gen": txgen.gen, "nontrivial": nontrivial,
               "classify": classify, "pred": pred},
              # the atomicity assumption (first line of ASSUMPTIONS), tried on the real object by two threads
              concgen.component_tx()]

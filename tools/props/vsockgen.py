"""Generators for the `vsock` component: one real VirtualSocket driven by a scripted peer,
application and clock.  Open loop (the case is generated before it runs), so the peer is a
rough simulation that keeps sequence/ack numbers plausible most of the time and injects
hostile values now and then.

case: vsock <kind> <ipv4> <link_mtu> <rx_buf> <tx_init> <tx_max> <nagle> <max_retx> <inactivity_ns>
            <wait_last_ack> <mtu_probe_max_retx> <isn> <remote_seq> <remote_conn_id> <remote_wnd>
            <remote_ts> <syn_rtt_ns>  <op> ...
ops: T<ns> set clock | L<n>|L- EMSGSIZE above n bytes | P<script> poll (S/P/E/X per send attempt)
     M<type>,<seq>,<ack>,<wnd>,<ts>,<paylen>,<paystart>,<sackhex|-> deliver | Z close inbox
     W<len>,<start> write | F flush | H shutdown | R<n> read | DR drop reader | DW drop writer
"""
from . import segsgen

NCFG = 17


def gen_config(rng, kind=None):
    kind = kind or rng.choice(["out", "out", "in"])
    ipv4 = rng.choice([1, 1, 0])
    link_mtu = rng.choice([1500, 1500, 1500, 576, 1280, 700, 100, 60, 9000])
    if not ipv4 and link_mtu < 69:
        link_mtu = 100
    rx_buf = rng.choice([1048576, 100000, 10000, 3000, 600])
    tx_init = rng.choice([32768, 4096, 1000, 64])
    tx_max = rng.choice([1048576, 65536, tx_init, 500])
    nagle = rng.choice([1, 1, 0])
    max_retx = rng.choice([5, 5, 2, 1])
    inact = rng.choice([10_000_000_000, 10_000_000_000, 1_000_000_000, 60_000_000_000])
    wait_la = rng.choice([1, 0])
    probe_retx = rng.choice([1, 0, 2])
    isn = rng.choice([100, 65530, 65535, 0, rng.below(65536)])
    rseq = rng.choice([1, 65533, 65535, 0, rng.below(65536)])
    rconn = rng.below(65536)
    rwnd = rng.choice([1048576, 1048576, 100000, 3000, 1000, 100, 0])
    rts = rng.below(2**32)
    syn_rtt = rng.choice([1_000_000_000, 100_000_000, 1_000_000, 10_000, 0])
    return [kind, ipv4, link_mtu, rx_buf, tx_init, tx_max, nagle, max_retx, inact, wait_la,
            probe_retx, isn, rseq, rconn, rwnd, rts, syn_rtt]


class Peer:
    """Rough open-loop simulation of what the remote side would send."""

    def __init__(self, rng, cfg):
        self.rng = rng
        self.kind, self.isn, self.rseq = cfg[0], cfg[11], cfg[12]
        self.our_first = self.isn if self.kind == "in" else (self.isn + 1) % 65536
        self.acked = 0                      # how many of our seq numbers the peer acks (guess)
        self.peer_next = (self.rseq + 1) % 65536 if self.kind == "in" else self.rseq
        self.wnd = cfg[14] if self.kind == "out" else 1048576
        self.ts = 1
        self.pstart = 0

    def ack_nr(self):
        return (self.our_first - 1 + self.acked) % 65536

    def msg(self, t, seq, ack, wnd, plen, sack="-"):
        self.ts += self.rng.range(1, 5000)
        m = f"M{t},{seq % 65536},{ack % 65536},{wnd},{self.ts % 2**32},{plen},{self.pstart % 251},{sack}"
        self.pstart += plen
        return m

    def state_ack(self, advance=None, dup=False, sack=False, hostile=False):
        r = self.rng
        if hostile:
            return self.msg(2, r.below(65536), r.below(65536), r.choice([0, 1, 2**32 - 1, self.wnd]), 0,
                            segsgen.sack_hex(r) if r.below(2) else "-")
        if not dup:
            self.acked += advance if advance is not None else r.choice([0, 1, 1, 2, 3, 8])
        if r.chance(1, 10):
            self.wnd = r.choice([0, 100, 528, 1000, 3000, 1048576])
        sk = segsgen.sack_hex(r) if sack else "-"
        return self.msg(2, self.peer_next, self.ack_nr(), self.wnd, 0, sk)

    def data(self, mode="inorder"):
        r = self.rng
        plen = r.choice([1, 10, 100, 528, 1000, 1400, r.range(1, 1452)])
        if mode == "inorder":
            seq = self.peer_next
            self.peer_next = (self.peer_next + 1) % 65536
        elif mode == "ooo":
            seq = self.peer_next + r.range(1, 6)
        elif mode == "dup":
            seq = self.peer_next - r.range(1, 3)
        else:
            seq = r.below(65536)
        return self.msg(0, seq, self.ack_nr(), self.wnd, plen)

    def fin(self, in_seq=True):
        seq = self.peer_next if in_seq else self.peer_next + self.rng.range(1, 4)
        if in_seq:
            self.peer_next = (self.peer_next + 1) % 65536
        return self.msg(1, seq, self.ack_nr(), self.wnd, 0)

    def reset(self):
        return self.msg(3, self.peer_next, self.ack_nr(), 0, 0)

    def syn(self):
        return self.msg(4, self.rseq, 0, 0, 0)


def gen_case(rng, profile=None):
    cfg = gen_config(rng)
    p = Peer(rng, cfg)
    profile = profile or rng.choice(["bulk_send", "bulk_recv", "mixed", "mixed", "teardown", "hostile", "loss", "mtu"])
    ops = []
    now = cfg[16] if cfg[0] == "out" else 0
    n = rng.range(5, 45)
    wstart = 0

    def advance(choices):
        nonlocal now
        now += rng.choice(choices)
        ops.append(f"T{now}")

    def poll():
        r = rng.below(20)
        if r == 0:
            ops.append("P" + "".join(rng.choice("SSSP") for _ in range(rng.range(1, 4))))
        elif r == 1 and profile in ("hostile", "mtu"):
            ops.append("P" + "".join(rng.choice("SSEX") for _ in range(rng.range(1, 3))))
        else:
            ops.append("P")

    if cfg[0] == "in":
        poll()                               # SYN-ACK
        if profile != "hostile" or rng.below(2):
            if rng.below(3) == 0:
                advance([200_000_000, 250_000_000])
                poll()                       # SYN-ACK resend
            ops.append(p.state_ack(advance=1))   # the initiator's first packet acks isn
            p.acked = 1 if False else p.acked
    if profile == "mtu":
        ops.append("L%d" % rng.choice([100, 300, 548, 700, 1000, 1200, 1400]))
    for _ in range(n):
        r = rng.below(100)
        if profile == "bulk_send":
            kinds = [("write", 30), ("poll", 30), ("ack", 25), ("time", 10), ("flush", 5)]
        elif profile == "bulk_recv":
            kinds = [("data", 35), ("poll", 30), ("read", 20), ("time", 10), ("ooo", 5)]
        elif profile == "teardown":
            kinds = [("write", 10), ("poll", 30), ("ack", 15), ("data", 10), ("time", 10), ("close", 15), ("fin", 10)]
        elif profile == "hostile":
            kinds = [("hostile", 30), ("poll", 30), ("write", 10), ("data", 10), ("time", 10), ("ack", 10)]
        elif profile == "loss":
            kinds = [("write", 20), ("poll", 30), ("dupack", 15), ("sack", 10), ("rto", 15), ("ack", 10)]
        elif profile == "mtu":
            kinds = [("write", 30), ("poll", 35), ("ack", 20), ("time", 5), ("rto", 10)]
        else:
            kinds = [("write", 15), ("poll", 30), ("ack", 12), ("data", 12), ("read", 8), ("time", 8),
                     ("ooo", 4), ("dupack", 3), ("sack", 3), ("close", 3), ("fin", 2)]
        acc = 0
        kind = kinds[-1][0]
        for k, w in kinds:
            acc += w
            if r < acc:
                kind = k
                break
        if kind == "write":
            ln = rng.choice([1, 10, 100, 528, 529, 1000, 1452, 3000, 10000, rng.range(1, 5000)])
            ops.append(f"W{ln},{wstart % 251}")
            wstart += ln
        elif kind == "poll":
            poll()
        elif kind == "ack":
            ops.append(p.state_ack())
        elif kind == "dupack":
            ops.append(p.state_ack(dup=True))
        elif kind == "sack":
            ops.append(p.state_ack(dup=rng.below(2) == 0, sack=True))
        elif kind == "data":
            ops.append(p.data("inorder"))
        elif kind == "ooo":
            ops.append(p.data(rng.choice(["ooo", "dup", "ooo", "random"])))
        elif kind == "hostile":
            c = rng.below(6)
            if c == 0:
                ops.append(p.reset())
            elif c == 1:
                ops.append(p.syn())
            elif c == 2:
                ops.append(p.data("random"))
            elif c == 3:
                ops.append(p.fin(in_seq=False))
            else:
                ops.append(p.state_ack(hostile=True))
        elif kind == "time":
            advance([0, 1_000_000, 40_000_000, 41_000_000, 200_000_000, 1_000_000_000])
        elif kind == "rto":
            advance([1_000_000_000, 3_500_000_000, 8_000_000_000, 20_000_000_000, 61_000_000_000])
            poll()
        elif kind == "read":
            ops.append("R%d" % rng.choice([1, 100, 1452, 100000]))
        elif kind == "flush":
            ops.append("F")
        elif kind == "close":
            ops.append(rng.choice(["H", "DR", "DW", "DW", "H", "Z"]))
        elif kind == "fin":
            ops.append(p.fin(in_seq=rng.below(4) != 0))
    # wind down: a few polls with time passing so that timers get exercised
    for _ in range(rng.range(0, 4)):
        advance([40_000_000, 1_000_000_000, 5_000_000_000, 11_000_000_000])
        poll()
    return "vsock " + " ".join(str(x) for x in cfg) + " " + " ".join(ops)


def gen(rng, tier, profiles=None):
    n = 600 if tier == "quick" else 12000
    return [gen_case(rng, profile=(rng.choice(profiles) if profiles else None)) for _ in range(n)]

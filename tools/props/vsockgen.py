"""Generators for the `vsock` component: one real VirtualSocket driven by a scripted peer,
application and clock.  Open loop (the case is generated before it runs), so the peer is a
rough simulation that keeps sequence/ack numbers plausible most of the time and injects
hostile values now and then.

case: vsock <kind> <ipv4> <link_mtu> <rx_buf> <tx_init> <tx_max> <nagle> <max_retx> <inactivity_ns>
            <wait_last_ack> <mtu_probe_max_retx> <isn> <remote_seq> <remote_conn_id> <remote_wnd>
            <remote_ts> <syn_rtt_ns>  <op> ...
ops: T<ns> set clock | L<n>|L- EMSGSIZE above n bytes | P<script> poll (S/P/E/X per send attempt)
     M<type>,<seq>,<ack>,<wnd>,<ts>,<paylen>,<paystart>,<sackhex|-> deliver | Z close inbox
     W<len>,<start> write | F flush | H shutdown | R<n> read | DR drop reader | DW drop writer
"""
from . import segsgen

NCFG = 17


def gen_config(rng, kind=None):
    kind = kind or rng.choice(["out", "out", "in"])
    ipv4 = rng.choice([1, 1, 0])
    link_mtu = rng.choice([1500, 1500, 1500, 576, 1280, 700, 100, 60, 9000])
    if not ipv4 and link_mtu < 69:
        link_mtu = 100
    rx_buf = rng.choice([1048576, 100000, 10000, 3000, 600])
    tx_init = rng.choice([32768, 4096, 1000, 64])
    tx_max = rng.choice([1048576, 65536, tx_init, 500])
    nagle = rng.choice([1, 1, 0])
    max_retx = rng.choice([5, 5, 2, 1])
    inact = rng.choice([10_000_000_000, 10_000_000_000, 1_000_000_000, 60_000_000_000])
    wait_la = rng.choice([1, 0])
    probe_retx = rng.choice([1, 0, 2])
    isn = rng.choice([100, 65530, 65535, 0, rng.below(65536)])
    rseq = rng.choice([1, 65533, 65535, 0, rng.below(65536)])
    rconn = rng.below(65536)
    rwnd = rng.choice([1048576, 1048576, 100000, 3000, 1000, 100, 0])
    rts = rng.below(2**32)
    syn_rtt = rng.choice([1_000_000_000, 100_000_000, 1_000_000, 10_000, 0])
    return [kind, ipv4, link_mtu, rx_buf, tx_init, tx_max, nagle, max_retx, inact, wait_la,
            probe_retx, isn, rseq, rconn, rwnd, rts, syn_rtt]


class Peer:
    """Rough open-loop simulation of what the remote side would send."""

    def __init__(self, rng, cfg):
        self.rng = rng
        self.kind, self.isn, self.rseq = cfg[0], cfg[11], cfg[12]
        self.our_first = self.isn if self.kind == "in" else (self.isn + 1) % 65536
        self.acked = 0                      # how many of our seq numbers the peer acks (guess)
        self.peer_next = (self.rseq + 1) % 65536 if self.kind == "in" else self.rseq
        self.wnd = cfg[14] if self.kind == "out" else 1048576
        self.ts = 1
        self.pstart = 0

    def ack_nr(self):
        return (self.our_first - 1 + self.acked) % 65536

    def msg(self, t, seq, ack, wnd, plen, sack="-"):
        self.ts += self.rng.range(1, 5000)
        m = f"M{t},{seq % 65536},{ack % 65536},{wnd},{self.ts % 2**32},{plen},{self.pstart % 251},{sack}"
        self.pstart += plen
        return m

    def state_ack(self, advance=None, dup=False, sack=False, hostile=False):
        r = self.rng
        if hostile:
            return self.msg(2, r.below(65536), r.below(65536), r.choice([0, 1, 2**32 - 1, self.wnd]), 0,
                            segsgen.sack_hex(r) if r.below(2) else "-")
        if not dup:
            self.acked += advance if advance is not None else r.choice([0, 1, 1, 2, 3, 8])
        if r.chance(1, 10):
            self.wnd = r.choice([0, 100, 528, 1000, 3000, 1048576])
        sk = segsgen.sack_hex(r) if sack else "-"
        return self.msg(2, self.peer_next, self.ack_nr(), self.wnd, 0, sk)

    def data(self, mode="inorder"):
        r = self.rng
        plen = r.choice([1, 10, 100, 528, 1000, 1400, r.range(1, 1452)])
        if mode == "inorder":
            seq = self.peer_next
            self.peer_next = (self.peer_next + 1) % 65536
        elif mode == "ooo":
            seq = self.peer_next + r.range(1, 6)
        elif mode == "dup":
            seq = self.peer_next - r.range(1, 3)
        else:
            seq = r.below(65536)
        return self.msg(0, seq, self.ack_nr(), self.wnd, plen)

    def fin(self, in_seq=True):
        seq = self.peer_next if in_seq else self.peer_next + self.rng.range(1, 4)
        if in_seq:
            self.peer_next = (self.peer_next + 1) % 65536
        return self.msg(1, seq, self.ack_nr(), self.wnd, 0)

    def reset(self):
        return self.msg(3, self.peer_next, self.ack_nr(), 0, 0)

    def syn(self):
        return self.msg(4, self.rseq, 0, 0, 0)


def gen_case(rng, profile=None):
    cfg = gen_config(rng)
    p = Peer(rng, cfg)
    profile = profile or rng.choice(["bulk_send", "bulk_recv", "mixed", "mixed", "teardown", "hostile", "loss", "mtu"])
    ops = []
    now = cfg[16] if cfg[0] == "out" else 0
    n = rng.range(5, 45)
    wstart = 0

    def advance(choices):
        nonlocal now
        now += rng.choice(choices)
        ops.append(f"T{now}")

    def poll():
        r = rng.below(20)
        if r == 0:
            ops.append("P" + "".join(rng.choice("SSSP") for _ in range(rng.range(1, 4))))
        elif r == 1 and profile == "hostile":
            ops.append("P" + "".join(rng.choice("SSEX") for _ in range(rng.range(1, 3))))
        else:
            ops.append("P")

    if cfg[0] == "in":
        poll()                               # SYN-ACK
        if profile != "hostile" or rng.below(2):
            if rng.below(3) == 0:
                advance([200_000_000, 250_000_000])
                poll()                       # SYN-ACK resend
            ops.append(p.state_ack(advance=0))   # the initiator's first packet acks isn - 1
    if profile == "mtu":
        # a path that refuses datagrams above some size, never below what the family guarantees
        ops.append("L%d" % (rng.choice([548, 600, 700, 1000, 1200, 1400]) if cfg[1] else rng.choice([1252, 1300, 1400])))
    elif profile == "hostile" and rng.below(4) == 0:
        ops.append("L%d" % rng.choice([20, 100, 300]))
    for _ in range(n):
        r = rng.below(100)
        if profile == "bulk_send":
            kinds = [("write", 30), ("poll", 30), ("ack", 25), ("time", 10), ("flush", 5)]
        elif profile == "bulk_recv":
            kinds = [("data", 35), ("poll", 30), ("read", 20), ("time", 10), ("ooo", 5)]
        elif profile == "teardown":
            kinds = [("write", 10), ("poll", 30), ("ack", 15), ("data", 10), ("time", 10), ("close", 15), ("fin", 10)]
        elif profile == "hostile":
            kinds = [("hostile", 30), ("poll", 30), ("write", 10), ("data", 10), ("time", 10), ("ack", 10)]
        elif profile == "loss":
            kinds = [("write", 20), ("poll", 30), ("dupack", 15), ("sack", 10), ("rto", 15), ("ack", 10)]
        elif profile == "mtu":
            kinds = [("write", 30), ("poll", 35), ("ack", 20), ("time", 5), ("rto", 10)]
        else:
            kinds = [("write", 15), ("poll", 30), ("ack", 12), ("data", 12), ("read", 8), ("time", 8),
                     ("ooo", 4), ("dupack", 3), ("sack", 3), ("close", 3), ("fin", 2)]
        acc = 0
        kind = kinds[-1][0]
        for k, w in kinds:
            acc += w
            if r < acc:
                kind = k
                break
        if kind == "write":
            ln = rng.choice([1, 10, 100, 528, 529, 1000, 1452, 3000, 10000, rng.range(1, 5000)])
            ops.append(f"W{ln},{wstart % 251}")
            wstart += ln
        elif kind == "poll":
            poll()
        elif kind == "ack":
            ops.append(p.state_ack())
        elif kind == "dupack":
            ops.append(p.state_ack(dup=True))
        elif kind == "sack":
            ops.append(p.state_ack(dup=rng.below(2) == 0, sack=True))
        elif kind == "data":
            ops.append(p.data("inorder"))
        elif kind == "ooo":
            ops.append(p.data(rng.choice(["ooo", "dup", "ooo", "random"])))
        elif kind == "hostile":
            c = rng.below(6)
            if c == 0:
                ops.append(p.reset())
            elif c == 1:
                ops.append(p.syn())
            elif c == 2:
                ops.append(p.data("random"))
            elif c == 3:
                ops.append(p.fin(in_seq=False))
            else:
                ops.append(p.state_ack(hostile=True))
        elif kind == "time":
            advance([0, 1_000_000, 40_000_000, 41_000_000, 200_000_000, 1_000_000_000])
        elif kind == "rto":
            advance([1_000_000_000, 3_500_000_000, 8_000_000_000, 20_000_000_000, 61_000_000_000])
            poll()
        elif kind == "read":
            ops.append("R%d" % rng.choice([1, 100, 1452, 100000]))
        elif kind == "flush":
            ops.append("F")
        elif kind == "close":
            ops.append(rng.choice(["H", "DR", "DW", "DW", "H", "Z"]))
        elif kind == "fin":
            ops.append(p.fin(in_seq=rng.below(4) != 0))
    # wind down: a few polls with time passing so that timers get exercised
    for _ in range(rng.range(0, 4)):
        advance([40_000_000, 1_000_000_000, 5_000_000_000, 11_000_000_000])
        poll()
    return "vsock " + " ".join(str(x) for x in cfg) + " " + " ".join(ops)


def gen(rng, tier, profiles=None):
    n = 600 if tier == "quick" else 12000
    return [gen_case(rng, profile=(rng.choice(profiles) if profiles else None)) for _ in range(n)]


# ----------------------------------------------------------------------------- closed loop
def parse_trace(out):
    """Extract from an impl observation line what a real peer would know: every datagram
    emitted (type, seq, ack, wnd, plen), and the last fingerprint."""
    pkts, fp, finished = [], None, False
    for t in out.split():
        if not t.startswith("P:"):
            continue
        parts = t.split("/")
        if parts[0] not in ("P:PEND",):
            finished = True
        if parts[1] != "-":
            for p in parts[1].split(";"):
                f = p.split(",")
                if len(f) >= 9:
                    pkts.append((int(f[0]), int(f[1]), int(f[2]), int(f[3]), int(f[8].split(":")[0])))
        if len(parts) > 4:
            fp = parts[4].split("|")[0].split(",")
    return pkts, fp, finished


def min_datagram(cfg):
    return (576 - 28 + 20 - 20) if cfg[1] else (1280 - 48)   # smallest datagram the family guarantees


def gen_closed(rng, run_impl, n, rounds=6):
    """Builds n cases in `rounds` rounds; after each round the implementation is run on the
    prefix and the scripted peer answers what it actually saw on the wire."""
    cases = []
    for _ in range(n):
        cfg = gen_config(rng)
        profile = rng.choice(["transfer", "transfer", "loss", "teardown", "recv", "mtu", "window"])
        now = cfg[16] if cfg[0] == "out" else 0
        ops = []
        if profile == "mtu":
            lim = rng.choice([548, 600, 800, 1000, 1200, 1300, 1400]) if cfg[1] else rng.choice([1252, 1300, 1400])
            ops.append(f"L{lim}")
        cases.append({"cfg": cfg, "ops": ops + ["P"], "now": now, "profile": profile, "ts": 1,
                      "peer_next": (cfg[12] + 1) % 65536 if cfg[0] == "in" else cfg[12],
                      "pstart": 0, "wstart": 0, "done": False})
    for rnd in range(rounds):
        lines = ["vsock " + " ".join(str(x) for x in c["cfg"]) + " " + " ".join(c["ops"]) for c in cases]
        outs = run_impl(lines)
        for c, out in zip(cases, outs):
            if c["done"]:
                continue
            pkts, fp, finished = parse_trace(out)
            if finished or fp is None:
                c["done"] = True
                continue
            cfg, ops = c["cfg"], c["ops"]
            data = [p for p in pkts if p[0] == 0]
            fins = [p for p in pkts if p[0] == 1]
            seq_nr = int(fp[3])
            # everything the endpoint has numbered so far is below seq_nr
            highest = (seq_nr - 1) % 65536
            our_ack = int(fp[5])              # what the endpoint has consumed from the peer
            wnd = rng.choice([1048576, 1048576, 100000, 3000, 1000]) if c["profile"] != "window" \
                else rng.choice([0, 100, 528, 1000, 1048576])

            def msg(t, seq, ack, plen=0, sack="-"):
                c["ts"] += rng.range(1, 5000)
                m = f"M{t},{seq % 65536},{ack % 65536},{wnd},{c['ts'] % 2**32},{plen},{c['pstart'] % 251},{sack}"
                c["pstart"] += plen
                return m

            def adv(choices):
                c["now"] += rng.choice(choices)
                ops.append(f"T{c['now']}")

            r = rng.below(100)
            prof = c["profile"]
            if rnd == 0 and cfg[0] == "in":
                ops.append(msg(2, c["peer_next"], highest if False else (int(fp[3]) - 1) % 65536))
            if prof in ("transfer", "mtu", "window", "loss", "teardown") and r < 70:
                ln = rng.choice([100, 1000, 3000, 10000, 40000])
                ops.append(f"W{ln},{c['wstart'] % 251}")
                c["wstart"] += ln
                ops.append("P")
            if prof == "recv" or r >= 85:
                for _ in range(rng.range(1, 4)):
                    plen = rng.choice([1, 100, 528, 1400])
                    mode = rng.below(10)
                    seq = c["peer_next"] + (rng.range(1, 3) if mode == 0 else 0)
                    if mode != 0:
                        c["peer_next"] = (c["peer_next"] + 1) % 65536
                    ops.append(msg(0, seq, highest, plen))
                ops.append("P")
                if rng.below(2):
                    ops.append("R%d" % rng.choice([100, 2000, 100000]))
            # acknowledgements informed by what was actually sent
            k = rng.below(100)
            if prof == "loss" and k < 35 and len(data) >= 3:
                # lose the first outstanding segment: duplicate ACKs / SACK for the later ones
                first = int(fp[4])   # placeholder: ack below the highest
                base = (highest - rng.range(2, min(6, len(data)))) % 65536
                if rng.below(2):
                    for _ in range(3):
                        ops.append(msg(2, c["peer_next"], base))
                else:
                    bits = 0
                    for i in range(rng.range(1, 4)):
                        bits |= 1 << i
                    ops.append(msg(2, c["peer_next"], base, 0, "%02x00000000000000" % bits))
                    ops.append(msg(2, c["peer_next"], base, 0, "%02x00000000000000" % (bits | 8)))
                    ops.append(msg(2, c["peer_next"], base, 0, "%02x00000000000000" % (bits | 24)))
                ops.append("P")
                adv([1_000_000, 50_000_000])
                ops.append("P")
            elif prof == "loss" and k < 60:
                adv([3_500_000_000, 7_000_000_000, 700_000_000])
                ops.append("P")
            elif k < 90:
                upto = highest if rng.below(3) else (highest - rng.range(0, 3)) % 65536
                ops.append(msg(2, c["peer_next"], upto))
                ops.append("P")
            adv([0, 1_000_000, 40_000_000, 300_000_000])
            ops.append("P")
            if prof == "teardown" and rnd >= 1:
                ch = rng.below(6)
                if ch == 0:
                    ops.append("H")
                elif ch == 1:
                    ops += ["DR", "DW"]
                elif ch == 2:
                    ops.append(msg(1, c["peer_next"], highest))
                    c["peer_next"] = (c["peer_next"] + 1) % 65536
                elif ch == 3:
                    ops.append("DW")
                ops.append("P")
            if fins:
                # acknowledge our FIN exactly, sometimes answer with the peer's FIN
                if rng.below(3):
                    ops.append(msg(2, c["peer_next"], fins[-1][1]))
                else:
                    ops.append(msg(1, c["peer_next"], fins[-1][1]))
                    c["peer_next"] = (c["peer_next"] + 1) % 65536
                ops.append("P")
                adv([0, 1_100_000_000])
                ops.append("P")
    return ["vsock " + " ".join(str(x) for x in c["cfg"]) + " " + " ".join(c["ops"]) for c in cases]

"""C14 — path-MTU discovery: the search and the u16 size arithmetic of src/mtu.rs (SegmentSizes).
Partial: datagram sizes on the wire, "one probe, newest segment" and data integrity on a
black-holing path are connection-level clauses (added with the connection model)."""
from . import common

TRUSTED_BASE = common.BASE_TRUSTED + [common.NO_AXIOMS]
ASSUMPTIONS = [
    "u16 arithmetic of SegmentSizes written out over Z: `as u16` = mod 2^16, saturating_sub = max 0, "
    "`+`/`-` checked as in a build with overflow checks (the harness build); the wrapping value of next_probe "
    "is a separate definition proved equal whenever no overflow occurs",
    "search theorems assume probe outcomes decided by size alone (delivered iff size <= P) and reported only "
    "for sizes handed out by next_segment_size; the predicate evaluates this discipline on the observed trace "
    "and applies the search checks only while it holds",
    "ceiling and no-panic theorems carry NO hypothesis on the sizes reported delivered or failed (any usize, "
    "including the sizes of payloads received from the peer); they exclude only a re-`new` with another config. "
    "The predicate applies the ceiling check to every observation and never accepts a PANIC "
    "(after the D3 repair afb839c: on_payload_delivered clamps to max_ss and no longer raises it)",
    "IPV4_HEADER/IPV6_HEADER/UDP_HEADER/UTP_HEADER are re-read from the compiled crate on every run; the "
    "default minimum MTUs 576/1280 are literals in src/mtu.rs and are observed through behaviour",
]
RULE = ("mtu_search: scripted path (delivers exactly sizes <= P) for link MTUs 0..1500 (quick: boundaries + stride; "
        "thorough: every value) and 9000/65535, both families, P at floor-1/floor/floor+1/mid/ceiling-1/ceiling/"
        "ceiling+1/0/70000 and random (thorough: every P for 576/1280/1500/9000 links); "
        "mtu: random op lists over {next_segment_size, disarm, delivered n, probe_failed n, new}: structured "
        "(outcomes derived from the sizes handed out and a hidden path size P, delayed and shortened) and hostile "
        "(arbitrary n up to 70000, 2^16 multiples, usize::MAX); mtu_d3: one payload size from the peer right after "
        "new (regression of D3, predicate c14_d3_ok: floor <= mss <= max_ss <= ceiling); non-trivial = mtu_search with at least one probe "
        "outcome, or an op list where next_segment_size handed out a probe (size > min_ss) and min_ss or max_ss "
        "moved; distinct = distinct case line")


def check_constants(impl_line, model_line):
    return common.check_constants_subset(impl_line, model_line,
                                         ["IPV4_HEADER", "IPV6_HEADER", "UDP_HEADER", "UTP_HEADER"])


# ---------------------------------------------------------------- untrusted generator-side simulator
class Sim:
    """Only used to derive plausible sizes for the structured generator; nothing is checked against it."""
    def __init__(self, v4, mtu, cd):
        hdr = (20 if v4 else 40) + 28
        link = max(mtu, hdr + 1)
        self.min = min(576 if v4 else 1280, link) - hdr
        self.max = link - hdr
        self.cd, self.cdmax = 1, cd

    def next(self):
        if self.cd == 0:
            self.cd = self.cdmax
            return min(self.min + (self.max - self.min) // 2 + 1, self.max)
        self.cd = max(0, self.cd - 1)
        return self.min

    def delivered(self, n):
        self.min = max(self.min, min(n, 65535))
        self.max = max(self.max, self.min)

    def failed(self, n):
        self.max = max(min(self.max, max(0, (n & 0xFFFF) - 1)), self.min)


def bounds(v4, mtu):
    hdr = (20 if v4 else 40) + 28
    link = max(mtu, hdr + 1)
    return min(576 if v4 else 1280, link) - hdr, link - hdr


MTU_BOUNDARY = ([0, 1, 47, 48, 49, 50, 51, 67, 68, 69, 70, 71, 100, 575, 576, 577, 578, 600, 1000, 1279, 1280, 1281, 1282,
                 1400, 1492, 1499, 1500, 1501, 9000, 32768, 65487, 65534, 65535])


def _search_ps(rng, v4, mtu, nrand):
    lo, hi = bounds(v4, mtu)
    ps = {0, 1, lo - 1, lo, lo + 1, (lo + hi) // 2, hi - 1, hi, hi + 1, 70000}
    for _ in range(nrand):
        ps.add(rng.range(lo, hi))
    return sorted(p for p in ps if p >= 0)


def gen_search(rng, tier):
    lines = []
    if tier == "quick":
        mtus = sorted(set(MTU_BOUNDARY + list(range(49, 1501, 13)) + list(range(49, 120))
                          + [rng.range(49, 1500) for _ in range(40)]))
        nrand = 3
    else:
        mtus = sorted(set(MTU_BOUNDARY + list(range(0, 1501)) + [rng.range(1501, 65535) for _ in range(200)]))
        nrand = 12
    for mtu in mtus:
        for v4 in (1, 0):
            for p in _search_ps(rng, v4, mtu, nrand):
                lines.append(f"mtu_search {v4} {mtu} {p}")
    # every P for the common link sizes
    full = [(1, 1500), (0, 1500)] if tier == "quick" else [(1, 576), (1, 1500), (0, 1280), (0, 1500), (1, 9000), (0, 9000)]
    for v4, mtu in full:
        lo, hi = bounds(v4, mtu)
        step = 1 if tier != "quick" else 1
        for p in range(max(0, lo - 2), hi + 3, step):
            lines.append(f"mtu_search {v4} {mtu} {p}")
    return lines


def _cfg(rng):
    v4 = 1 if rng.chance(2, 3) else 0
    mtu = rng.choice(MTU_BOUNDARY) if rng.chance(1, 3) else rng.range(49, 1500) if rng.chance(3, 4) else rng.range(0, 65535)
    cd = rng.choice([0, 0, 1, 2, 3, 3, 5]) if rng.chance(9, 10) else rng.choice([65535, 65534, rng.range(0, 65535)])
    return v4, mtu, cd


def gen_structured(rng, L):
    v4, mtu, cd = _cfg(rng)
    lo, hi = bounds(v4, mtu)
    P = rng.range(lo, hi) if rng.chance(5, 6) else rng.choice([lo, hi, max(0, lo - 1), hi + 1, 0, 70000])
    sim = Sim(v4, mtu, cd)
    pending = []
    toks = []
    for _ in range(L):
        k = rng.below(100)
        if k < 45 or not pending and k < 70:
            r = sim.next()
            toks.append("n")
            # the segment actually cut may be shorter than the size handed out
            sz = r if rng.chance(4, 5) else rng.range(1, max(1, r))
            pending.append((sz, sz > sim.min))
        elif k < 60:
            toks.append("x")
            sim.cd = 0
        elif k < 63:
            toks.append("d0")
        elif pending:
            sz, is_probe = pending.pop(rng.below(len(pending)) if rng.chance(1, 4) else 0)
            if sz <= P:
                toks.append(f"d{sz}")
                sim.delivered(sz)
            elif is_probe:
                toks.append(f"f{sz}")
                sim.failed(sz)
                if rng.chance(1, 2):
                    toks.append("x")      # EMSGSIZE path: on_probe_failed + disarm_cooldown
                    sim.cd = 0
            # an ordinary segment above P cannot exist on a path consistent with the outcomes: dropped
    return f"mtu {v4} {mtu} {cd} " + " ".join(toks)


def _hostile_n(rng):
    k = rng.below(10)
    if k == 0:
        return rng.choice([0, 1, 65534, 65535, 65536, 65537, 131071, 131072, 70000, 2**32 - 1, 2**32, 2**64 - 1])
    if k < 5:
        return rng.range(0, 1600)
    if k < 8:
        return rng.range(0, 70000)
    return 65536 * rng.range(1, 3) + rng.range(0, 1600)      # truncates to a small u16


def gen_hostile(rng, L):
    v4, mtu, cd = _cfg(rng)
    toks = []
    for _ in range(L):
        k = rng.below(100)
        if k < 35:
            toks.append("n")
        elif k < 50:
            toks.append("x")
        elif k < 72:
            toks.append(f"d{_hostile_n(rng)}")
        elif k < 97:
            toks.append(f"f{_hostile_n(rng)}")
        else:
            a, b, c = _cfg(rng)
            toks.append(f"N{a},{b},{c}")
    return f"mtu {v4} {mtu} {cd} " + " ".join(toks)


D3_CASES = ["mtu_d3 1 1500 5000", "mtu_d3 0 1500 5000", "mtu_d3 1 1500 1453", "mtu_d3 1 1500 1452",
            "mtu_d3 1 576 16364", "mtu_d3 0 1280 65535", "mtu_d3 1 49 2"]


def gen(rng, tier):
    lines = gen_search(rng.fork("search"), tier)
    n = 3000 if tier == "quick" else 60000
    r1, r2 = rng.fork("structured"), rng.fork("hostile")
    for _ in range(n):
        lines.append(gen_structured(r1, r1.range(4, 60 if tier == "quick" else 150)))
    for i in range(n):
        lines.append(gen_hostile(r2, r2.range(1, 40 if tier == "quick" else 100)))
    # regression of D3: one payload size reported by the peer right after `new`
    lines += D3_CASES
    r3 = rng.fork("d3")
    for _ in range(300 if tier == "quick" else 20000):
        v4, mtu, _ = _cfg(r3)
        lines.append(f"mtu_d3 {v4} {mtu} {_hostile_n(r3)}")
    return lines


def gen_around(rng, line, tier):
    t = line.split()
    if t[0] != "mtu" or len(t) < 4:
        return []
    head, toks = t[:4], t[4:]
    out = []
    for _ in range(300):
        u = list(toks)
        for _ in range(rng.range(1, 4)):
            new = rng.choice(["n", "x", f"d{_hostile_n(rng)}", f"f{_hostile_n(rng)}"])
            if rng.chance(1, 2) or not u:
                u.insert(rng.below(len(u) + 1), new)
            else:
                u[rng.below(len(u))] = new
        out.append(" ".join(head + u))
    return out


# ---------------------------------------------------------------- classification (statistics only)
def _parse_obs(out):
    obs = []
    for o in out.split():
        if o == "PANIC":
            obs.append(None)
        else:
            p = o.split(",")
            if len(p) != 4:
                return None
            obs.append((int(p[0]), int(p[1]), p[2] == "1", None if p[3] == "-" else int(p[3])))
    return obs


def _discipline(line, out):
    """(search discipline held to the end, a payload above the ceiling was fed, saw a probe, sizes moved)
    — a python mirror of the accumulator flags, used only to publish the input distribution."""
    t = line.split()
    v4, mtu = t[1] == "1", int(t[2])
    lo, hi = bounds(v4, mtu)
    ceil = hi
    obs = _parse_obs(out)
    if obs is None:
        return False, False, False, False
    search = ceil_ok = True
    maxsent = 0
    probe = moved = False
    pmn, pmx = lo, hi
    for tok, ob in zip(t[4:], obs):
        if tok[0] == "N":
            search = False
        elif tok[0] == "d":
            n = int(tok[1:])
            lo = max(lo, n)
            search = search and n <= maxsent and lo <= hi
            ceil_ok = ceil_ok and n <= ceil      # here: "no payload above the ceiling was fed"
        elif tok[0] == "f":
            n = int(tok[1:])
            hi = min(hi, n - 1)
            search = search and n <= maxsent and lo <= hi
        if ob is None:
            break
        if tok == "n" and ob[3] is not None:
            maxsent = max(maxsent, ob[3])
            if ob[3] > ob[0]:
                probe = True
        if (ob[0], ob[1]) != (pmn, pmx) and tok[0] != "N":
            moved = True
        pmn, pmx = ob[0], ob[1]
    return search, ceil_ok, probe, moved


def nontrivial(line, out):
    t = line.split()
    if t[0] == "mtu_search":
        o = out.split()
        return len(o) == 4 and o[0].isdigit() and int(o[0]) >= 1
    if t[0] == "mtu":
        _, _, probe, moved = _discipline(line, out)
        return probe and moved
    if t[0] == "mtu_d3":
        o = out.split()
        return len(o) == 3 and int(t[3]) > int(o[0])      # the peer's payload is above the ceiling
    return False


def classify(line, out):
    t = line.split()
    if "PANIC" in out:
        return t[0] + ":panic"
    if t[0] == "mtu_search":
        lo, hi = bounds(t[1] == "1", int(t[2]))
        p = int(t[3])
        return "mtu_search:" + ("P-in-range" if lo <= p <= hi else "P-below-floor" if p < lo else "P-above-ceiling")
    if t[0] == "mtu":
        search, ceil_ok, _, _ = _discipline(line, out)
        return "mtu:" + ("search-discipline" if search else
                         "hostile-payload-above-ceiling" if not ceil_ok else "hostile-other")
    if t[0] == "mtu_d3":
        o = out.split()
        n = int(t[3])
        return "mtu_d3:" + ("mss-above-ceiling" if len(o) == 3 and int(o[1]) > int(o[0]) else
                            "payload-above-ceiling-capped" if len(o) == 3 and n > int(o[0]) else "payload-within-ceiling")
    return t[0]


def pred(line, out):
    t = line.split()
    if out == "BADCASE":          # malformed case line (only ever produced by the shrinker): not an evaluation
        return None
    if t[0] in ("mtu", "mtu_search", "mtu_d3"):
        return "mtu_pred " + line + " | " + out
    return None


def _vsock_component():
    # connection level: the M3 model vs the real VirtualSocket on the shared generators plus the transmit-side
    # scenarios of C05 (bulk transfer, SACK, RTO, path limits), and the connection-level predicates
    from . import vsock_common, c05, c10

    def g(rng, tier):
        return vsock_common.gen(rng, tier) + c05.gen_targeted(rng.fork("tx"), 160 if tier == "quick" else 3000) + \
            c10.gen_hostile(rng.fork("hostile"), tier)[:300 if tier == "quick" else 100000]
    c = vsock_common.component("c14_datagram_ok+c14_segments_ok+c14_wire_ok", name="vsock_mtu")
    c["gen"] = g
    return c


COMPONENTS = [{"name": "mtu", "gen": gen, "gen_around": gen_around, "nontrivial": nontrivial,
               "classify": classify, "pred": pred}, _vsock_component()]


# ---------------------------------------------------------------- known findings
def replay_known(kf):
    """Nothing to replay: D3 (ceiling lifted by a peer payload) is repaired in /repo (afb839c); the mtu_d3
    cases and the unconditional ceiling check of c14_ok are its regression."""
    return []

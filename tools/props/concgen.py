"""Components that validate the ATOMICITY ASSUMPTION of the trusted base (DESIGN.md 8.4) on the real objects:
two OS threads drive one shared object through its methods as fast as they can; the model side answers what
EVERY linearisation of atomic methods gives (a consequence of the component theorems, which quantify over all op lists).
A disagreement means a method is no longer atomic with respect to another one (a lock taken too late / released too
early): the component theorems then say nothing about the code."""


def gen_tx(rng, tier):
    n = 6 if tier == "quick" else 40
    shapes = [(64, 65536, 40), (7, 1000, 150), (1, 3, 150), (16, 4096, 100), (1000, 100000, 20), (8, 8, 50)]
    out = []
    for i in range(n):
        ini, mx, rounds = shapes[i % len(shapes)]
        if tier != "quick":
            rounds *= 3
        out.append("txconc %d %d %d %d" % (ini, mx, rounds, rng.below(1 << 40) + 1))
    return out


def component_tx():
    return {"name": "txconc", "gen": gen_tx, "corpus": [],
            "classify": lambda line, out: "ok" if out == "OK" else out.split()[0],
            "nontrivial": lambda line, out: out == "OK" and int(line.split()[2]) > int(line.split()[1])}


def gen_rx(rng, tier):
    """tiny buffers make both sides park all the time: that is where a lost wake-up under true concurrency shows"""
    shapes = [(10, 10, 200000), (20, 7, 200000), (10, 10, 200000), (3000, 1000, 50000), (10, 10, 200000),
              (100, 7, 100000), (65536, 1400, 30000), (10, 10, 200000)]
    n = len(shapes) if tier == "quick" else 4 * len(shapes)
    return ["rxconc %d %d %d %d" % (shapes[i % len(shapes)] + (rng.below(1 << 40) + 1,)) for i in range(n)]


def component_rx():
    return {"name": "rxconc", "gen": gen_rx, "corpus": [],
            "classify": lambda line, out: "ok" if out == "OK" else out.split()[0],
            "nontrivial": lambda line, out: out == "OK"}

"""Generators for the `disp` component (the socket Dispatcher, one run_once at a time).

case: disp <max_streams> <r0,r1,...> <op> ...
ops:  A<id> accept() call reaches the channel | a<id> accept future dropped | p<id> accept future polled
      C<id>,<addr> connect() call | c<id> connect future dropped | q<id> connect future polled
      S<addr>,<conn> a connection's drop guard fires (Shutdown) | D<addr>,<type>,<conn>,<seq>,<ack> datagram
      G<addr>,<hex> unparseable datagram
      R<a|c|r><script> one run_once that takes the accept / control / recv arm (script: S sent, P short, X error)
      Q<a|r>:<id.id..>:<datagram> run_once parked in select!, then these accept() calls and the datagram arrive
"""


def gen_case(rng, big=False):
    """Open loop, but with enough bookkeeping that at most one source is usually ready when a
    run_once is requested (several ready sources make the implementation's select! pick at
    random; the harness then re-runs the case until the requested arm is taken)."""
    max_streams = rng.choice([1, 2, 3, 4, 128])
    rnd = [rng.choice([rng.below(65536), 65535, 65534, 0, 1]) for _ in range(16)]
    ops = []
    next_acc = 1
    next_con = 1
    chan = 0               # acceptors believed to sit in the channel
    na = False             # next_available_acceptor believed occupied
    syns = 0               # cached SYNs believed
    streams = 0
    live_con = {}
    sent_syn_seq = {}
    known_keys = []
    handed = []            # acceptor ids believed to have been handed a stream, not picked up
    waiting = []           # acceptor ids believed waiting
    rnd_i = 1
    n = rng.range(4, 60 if big else 30)

    def settle_accept():
        # move a waiting acceptor into next_available so that the accept arm is not left enabled
        nonlocal chan, na
        if not na and chan > 0:
            ops.append("Ra")
            chan -= 1
            na = True

    def serve(addr, conn):
        # what the dispatcher is believed to do with a SYN
        nonlocal chan, na, syns, streams, rnd_i
        if streams >= max_streams:
            syns = min(32, syns + 1)
            return
        if na or chan > 0:
            if na:
                na = False
            else:
                chan -= 1
            if waiting:
                handed.append(waiting.pop(0))
            streams += 1
            rnd_i += 1
            known_keys.append((addr, (conn + 1) % 65536))
        else:
            syns = min(32, syns + 1)

    for _ in range(n):
        settle_accept()
        r = rng.below(100)
        if r < 18:
            ops.append(f"A{next_acc}")
            waiting.append(next_acc)
            next_acc += 1
            chan += 1
            if syns > 0 and streams < max_streams:
                # the next run_once's cleanup will match the oldest cached SYN
                pass
            settle_accept()
        elif r < 40:
            addr = rng.choice([5, 5, 6, 7])
            conn = rng.choice([50, 52, 60, 65535, 65534, rng.below(65536)])
            seq = rng.below(65536)
            if rng.below(6) == 0 and not na and chan == 0:
                ids = [next_acc]
                waiting.append(next_acc)
                next_acc += 1
                arm = rng.choice("ra")
                ops.append("Q%s:%s:%d,4,%d,%d,0" % (arm, ".".join(map(str, ids)), addr, conn, seq))
                if arm == "r":
                    chan += 1
                    serve(addr, conn)
                else:
                    na = True
                    ops.append("Rr")
                    serve(addr, conn)
            else:
                ops.append(f"D{addr},4,{conn},{seq},0")
                ops.append("Rr")
                serve(addr, conn)
            settle_accept()
        elif r < 52:
            addr = rng.choice([6, 7, 7, 8])
            ops.append(f"C{next_con},{addr}")
            live_con[next_con] = addr
            ops.append("Rc" + rng.choice(["", "", "", "S", "X", "P"]))
            sent_syn_seq[next_con] = rnd[rnd_i % len(rnd)]
            rnd_i += 1
            next_con += 1
        elif r < 64 and sent_syn_seq:
            cid = rng.choice(sorted(sent_syn_seq))
            addr = live_con.get(cid, rng.choice([6, 7]))
            ack = sent_syn_seq[cid] if rng.below(5) else rng.below(65536)
            conn = rng.choice([rnd[0], (rnd[0] + 2) % 65536, (rnd[0] + 4) % 65536, rng.below(65536)])
            ops.append(f"D{addr},2,{conn},{rng.below(65536)},{ack}")
            ops.append("Rr")
            known_keys.append((addr, conn))
            streams += 1
        elif r < 74 and known_keys:
            addr, conn = rng.choice(known_keys)
            if rng.below(6) == 0:
                conn = (conn + rng.choice([1, 2, 65535])) % 65536
            t = rng.choice([0, 0, 1, 2, 3])
            ops.append(f"D{addr},{t},{conn},{rng.below(65536)},{rng.below(65536)}")
            ops.append("Rr")
        elif r < 80:
            ops.append(f"G{rng.choice([5, 6])},{rng.choice(['00', '2100', '0102030405060708090a0b0c0d0e0f1011121314', '51' + '00' * 19])}")
            ops.append("Rr")
        elif r < 86 and known_keys:
            addr, conn = rng.choice(known_keys)
            ops.append(f"S{addr},{conn}")
            ops.append("Rc")
            streams = max(0, streams - 1)
        elif r < 90 and live_con:
            cid = rng.choice(sorted(live_con))
            ops.append(f"q{cid}")
            if rng.below(2):
                ops.append(f"c{cid}")
                live_con.pop(cid, None)
            ops.append("Rc")          # a ConnectDropped may have been enqueued
        elif r < 96 and (handed or waiting):
            pool = handed if (handed and rng.below(3)) else (waiting or handed)
            aid = rng.choice(pool)
            ops.append(f"p{aid}")
            if aid in handed:
                handed.remove(aid)
            elif rng.below(2):
                ops.append(f"a{aid}")
                if aid in waiting:
                    waiting.remove(aid)
        elif handed and rng.below(2):
            aid = handed.pop(0)
            ops.append(f"a{aid}")     # the starter is dropped: the connection dies, Shutdown is enqueued
            ops.append("Rc")
        else:
            ops.append("Rc")
    return f"disp {max_streams} {','.join(map(str, rnd))} " + " ".join(ops)


def gen(rng, tier):
    n = 1500 if tier == "quick" else 30000
    return [gen_case(rng, big=rng.chance(1, 6)) for _ in range(n)]


def usable(impl_out, model_out):
    """A case whose requested arm was not enabled on both sides says nothing; it is discarded."""
    if impl_out.strip() == "ARM-NOT-REACHED":
        # the implementation's select! never took the requested arms within the attempt budget
        return False
    return not ("ARM-NOT-REACHED" in impl_out and "ARM-NOT-ENABLED" in model_out)

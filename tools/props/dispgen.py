"""Generators for the `disp` component (the socket Dispatcher, one run_once at a time).

case: disp <max_streams> <r0,r1,...> <op> ...
ops:  A<id> accept() call reaches the channel | a<id> accept future dropped | p<id> accept future polled
      C<id>,<addr> connect() call | c<id> connect future dropped | q<id> connect future polled
      S<addr>,<conn> a connection's drop guard fires (Shutdown) | D<addr>,<type>,<conn>,<seq>,<ack> datagram
      G<addr>,<hex> unparseable datagram
      R<a|c|r><script> one run_once that takes the accept / control / recv arm (script: S sent, P short, X error)
      Q<a|r>:<id.id..>:<datagram> run_once parked in select!, then these accept() calls and the datagram arrive
"""


def raw_datagram(rng, known_keys):
    """Raw bytes as they come off the wire (the dispatcher itself parses them): garbage, truncated headers, bad
    version / type nibbles, extension chains that do not fit, payload on a non-data packet, empty ST_DATA - and
    well-formed packets (with unknown extensions) aimed at live and at unknown connection ids."""
    k = rng.below(10)
    if k == 0:
        return "".join("%02x" % rng.below(256) for _ in range(rng.choice([1, 2, 19, 20, 21, 40])))
    # (well-formed raw SYNs would open connections behind the back of this generator's bookkeeping: SYNs come as D ops)
    ty = rng.choice([0, 1, 2, 3]) if k != 1 else rng.choice([5, 7, 15])
    ver = 1 if k != 2 else rng.choice([0, 2, 15])
    if known_keys and rng.below(3):
        conn = rng.choice(known_keys)[1]
        if rng.below(4) == 0:
            conn = (conn + rng.choice([1, 65535])) % 65536
    else:
        conn = rng.below(65536)
    seq, ack = rng.below(65536), rng.below(65536)
    exts = []
    for _ in range(rng.choice([0, 0, 0, 1, 1, 2, 3])):
        exts.append((rng.choice([1, 2, 3, 255]), rng.choice([0, 1, 4, 8, 36, 254, 255])))
    b = [((ty << 4) | ver) & 0xFF, exts[0][0] if exts else 0]
    b += [conn >> 8, conn & 255] + [rng.below(256) for _ in range(8)] + [0, 16, 0, 0]
    b += [seq >> 8, seq & 255, ack >> 8, ack & 255]
    for i, (eid, ln) in enumerate(exts):
        nxt = exts[i + 1][0] if i + 1 < len(exts) else 0
        b += [nxt, ln] + [rng.below(256) for _ in range(ln)]
    if k == 3 and len(b) > 20:
        b = b[:rng.range(20, len(b) - 1)]              # extension chain cut short
    payload = rng.choice([0, 0, 1, 5]) if ty != 0 else rng.choice([0, 1, 7, 100])
    if k == 4:
        payload = 3 if ty != 0 else 0                  # payload where none belongs / none where one is needed
    b += [rng.below(256) for _ in range(payload)]
    return "".join("%02x" % x for x in b)


def gen_case(rng, big=False):
    """Open loop, but with enough bookkeeping that at most one source is usually ready when a
    run_once is requested (several ready sources make the implementation's select! pick at
    random; the harness then re-runs the case until the requested arm is taken)."""
    max_streams = rng.choice([1, 2, 3, 4, 128])
    rnd = [rng.choice([rng.below(65536), 65535, 65534, 0, 1]) for _ in range(16)]
    ops = []
    next_acc = 1
    next_con = 1
    chan = 0               # acceptors believed to sit in the channel
    na = False             # next_available_acceptor believed occupied
    syns = 0               # cached SYNs believed
    streams = 0
    live_con = {}
    sent_syn_seq = {}
    known_keys = []
    handed = []            # acceptor ids believed to have been handed a stream, not picked up
    waiting = []           # acceptor ids believed waiting
    rnd_i = 1
    n = rng.range(4, 60 if big else 30)

    def settle_accept():
        # move a waiting acceptor into next_available so that the accept arm is not left enabled
        nonlocal chan, na
        if not na and chan > 0:
            ops.append("Ra")
            chan -= 1
            na = True

    def serve(addr, conn):
        # what the dispatcher is believed to do with a SYN
        nonlocal chan, na, syns, streams, rnd_i
        if streams >= max_streams:
            syns = min(32, syns + 1)
            return
        if na or chan > 0:
            if na:
                na = False
            else:
                chan -= 1
            if waiting:
                handed.append(waiting.pop(0))
            streams += 1
            rnd_i += 1
            known_keys.append((addr, (conn + 1) % 65536))
        else:
            syns = min(32, syns + 1)

    for _ in range(n):
        settle_accept()
        r = rng.below(100)
        if r < 18:
            ops.append(f"A{next_acc}")
            waiting.append(next_acc)
            next_acc += 1
            chan += 1
            if syns > 0 and streams < max_streams:
                # the next run_once's cleanup will match the oldest cached SYN
                pass
            settle_accept()
        elif r < 40:
            addr = rng.choice([5, 5, 6, 7])
            conn = rng.choice([50, 52, 60, 65535, 65534, rng.below(65536)])
            seq = rng.below(65536)
            if rng.below(6) == 0 and not na and chan == 0:
                ids = [next_acc]
                waiting.append(next_acc)
                next_acc += 1
                arm = rng.choice("ra")
                ops.append("Q%s:%s:%d,4,%d,%d,0" % (arm, ".".join(map(str, ids)), addr, conn, seq))
                if arm == "r":
                    chan += 1
                    serve(addr, conn)
                else:
                    na = True
                    ops.append("Rr")
                    serve(addr, conn)
            else:
                ops.append(f"D{addr},4,{conn},{seq},0")
                ops.append("Rr")
                serve(addr, conn)
            settle_accept()
        elif r < 52:
            addr = rng.choice([6, 7, 7, 8])
            ops.append(f"C{next_con},{addr}")
            live_con[next_con] = addr
            ops.append("Rc" + rng.choice(["", "", "", "S", "X", "P"]))
            sent_syn_seq[next_con] = rnd[rnd_i % len(rnd)]
            rnd_i += 1
            next_con += 1
        elif r < 64 and sent_syn_seq:
            cid = rng.choice(sorted(sent_syn_seq))
            addr = live_con.get(cid, rng.choice([6, 7]))
            ack = sent_syn_seq[cid] if rng.below(5) else rng.below(65536)
            conn = rng.choice([rnd[0], (rnd[0] + 2) % 65536, (rnd[0] + 4) % 65536, rng.below(65536)])
            ops.append(f"D{addr},2,{conn},{rng.below(65536)},{ack}")
            ops.append("Rr")
            known_keys.append((addr, conn))
            streams += 1
        elif r < 74 and known_keys:
            addr, conn = rng.choice(known_keys)
            if rng.below(6) == 0:
                conn = (conn + rng.choice([1, 2, 65535])) % 65536
            t = rng.choice([0, 0, 1, 2, 3])
            ops.append(f"D{addr},{t},{conn},{rng.below(65536)},{rng.below(65536)}")
            ops.append("Rr")
        elif r < 80:
            ops.append(f"G{rng.choice([5, 6])},{raw_datagram(rng, known_keys)}")
            ops.append("Rr")
        elif r < 86 and known_keys:
            addr, conn = rng.choice(known_keys)
            ops.append(f"S{addr},{conn}")
            ops.append("Rc")
            streams = max(0, streams - 1)
        elif r < 90 and live_con:
            cid = rng.choice(sorted(live_con))
            ops.append(f"q{cid}")
            if rng.below(2):
                ops.append(f"c{cid}")
                live_con.pop(cid, None)
            ops.append("Rc")          # a ConnectDropped may have been enqueued
        elif r < 96 and (handed or waiting):
            pool = handed if (handed and rng.below(3)) else (waiting or handed)
            aid = rng.choice(pool)
            ops.append(f"p{aid}")
            if aid in handed:
                handed.remove(aid)
            elif rng.below(2):
                ops.append(f"a{aid}")
                if aid in waiting:
                    waiting.remove(aid)
        elif handed and rng.below(2):
            aid = handed.pop(0)
            ops.append(f"a{aid}")     # the starter is dropped: the connection dies, Shutdown is enqueued
            ops.append("Rc")
        else:
            ops.append("Rc")
    return f"disp {max_streams} {','.join(map(str, rnd))} " + " ".join(ops)


def gen_pending_case(rng):
    """C13 'every pending connect is accounted for': several connects pending to ONE address, an earlier one leaves
    first (its future is dropped -> ConnectDropped, or its SYN-ACK arrives), then further connects to that address
    (they must take the freed slot and leave the still-pending ones alone); also the 5th connect (refused), SYN-ACKs
    with an unknown ack, a second address, and small table limits.  The generator mirrors the slots to know which
    sequence numbers are pending."""
    max_streams = rng.choice([128, 128, 128, 4, 2])
    rnd = [rng.choice([rng.below(65536), rng.below(65536), 65535, 0, 1]) for _ in range(48)]
    ops = []
    rnd_i = 1
    next_con = 1
    streams = 0
    slots = {}             # addr -> 4 slots of (id, seq) / None
    done = []              # ids whose result can be picked up
    addrs = [rng.choice([6, 7])] * 3 + [8]

    def connect(addr):
        nonlocal rnd_i, next_con
        cid = next_con
        next_con += 1
        ops.append(f"C{cid},{addr}")
        ops.append("Rc")
        done.append(cid)
        if streams >= max_streams:
            return
        seq = rnd[rnd_i] if rnd_i < len(rnd) else 0
        rnd_i += 1
        sl = slots.setdefault(addr, [None] * 4)
        for i in range(4):
            if sl[i] is None:
                sl[i] = (cid, seq)
                done.remove(cid)
                break

    def leave(addr, i):
        nonlocal streams
        cid, seq = slots[addr][i]
        if rng.below(2):
            ops.append(f"c{cid}")
            ops.append("Rc")
            slots[addr][i] = None
        else:
            ops.append(f"D{addr},2,{(1000 + 2 * cid) % 65536},{rng.below(65536)},{seq}")
            ops.append("Rr")
            if streams < max_streams:
                j = min(k for k in range(4) if slots[addr][k] is not None and slots[addr][k][1] == seq)
                done.append(slots[addr][j][0])
                slots[addr][j] = None
                streams += 1

    a0 = addrs[0]
    for _ in range(rng.range(2, 4)):
        connect(a0)
    for _ in range(rng.range(4, 24)):
        r = rng.below(100)
        addr = rng.choice(addrs)
        occ = [i for i in range(4) if slots.get(addr, [None] * 4)[i] is not None]
        if r < 42 and occ:
            # the earliest pending connect leaves first, most of the time
            leave(addr, occ[0] if rng.below(4) else rng.choice(occ))
        elif r < 86:
            connect(addr)
        elif r < 92:
            ops.append(f"D{addr},2,{rng.below(65536)},{rng.below(65536)},{rng.below(65536)}")
            ops.append("Rr")
        elif done:
            cid = rng.choice(done)
            done.remove(cid)
            ops.append(f"q{cid}")
            ops.append("Rc")
    return f"disp {max_streams} {','.join(map(str, rnd))} " + " ".join(ops)


def gen_pending(rng, tier):
    n = 600 if tier == "quick" else 12000
    # plus a share of the general dispatcher scenarios: the predicate holds on every step of those too
    return [gen_pending_case(rng) for _ in range(n)] + [gen_case(rng, big=rng.chance(1, 6)) for _ in range(n // 2)]


def gen(rng, tier):
    n = 1500 if tier == "quick" else 30000
    return [gen_case(rng, big=rng.chance(1, 6)) for _ in range(n)]


def usable(impl_out, model_out):
    """A case whose requested arm was not enabled on both sides says nothing; it is discarded."""
    if impl_out.strip() == "ARM-NOT-REACHED":
        # the implementation's select! never took the requested arms within the attempt budget
        return False
    return not ("ARM-NOT-REACHED" in impl_out and "ARM-NOT-ENABLED" in model_out)

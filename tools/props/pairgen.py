"""Generators for the `pair` component: two real VirtualSockets (A outgoing, B incoming) joined by
a simulated network.  Open loop: every op is tolerant (an index is taken modulo the number of
in-flight datagrams; no-op when there are none), so a case is generated before it runs.

case: pair <ipv4> <mtu_a> <mtu_b> <rx_a> <rx_b> <tx_init> <tx_max> <nagle_a> <nagle_b> <max_retx>
           <inactivity_ns> <wait_last_ack> <mtu_probe_max_retx> <syn_seq> <isn_b> <conn_id> <syn_rtt_ns>
           <op> ...
ops: T<ns> clock of both endpoints | B<n>|B- datagrams above n bytes silently discarded
     a<op> / b<op> with <op> of the vsock protocol: W<len>,<start> R<n> F H DR DW L<n>|L- P<script>
                   Z (the endpoint's message channel is closed: its socket dispatcher is gone)
     xD<i> xX<i> xC<i> deliver / drop / duplicate the i-th in-flight datagram A->B ; y.. for B->A
"""

NCFG = 17


def family_min_datagram(ipv4):
    # 20-byte uTP header + the payload floor of the address family
    return 20 + ((576 - 28 - 20) if ipv4 else (1280 - 48 - 20))


def gen_config(rng, profile):
    ipv4 = rng.choice([1, 1, 0])
    mtus = [1500, 1500, 1500, 1280, 9000, 2000] if not ipv4 else [1500, 1500, 1500, 576, 1280, 700, 9000, 1000]
    mtu_a = rng.choice(mtus)
    mtu_b = mtu_a if rng.below(3) else rng.choice(mtus)
    big = [1048576, 1048576, 100000, 20000]
    small = [10000, 4000, 3000, 1500, 600]
    if profile == "small":
        rx_a, rx_b = rng.choice(small), rng.choice(small)
        tx_init = rng.choice([64, 500, 1000, 4096])
        tx_max = rng.choice([tx_init, 500, 4096, 65536])
    else:
        rx_a, rx_b = rng.choice(big + small[:2]), rng.choice(big + small[:2])
        tx_init = rng.choice([32768, 32768, 4096, 1000])
        tx_max = rng.choice([1048576, 65536, tx_init])
    nagle_a, nagle_b = rng.choice([1, 1, 0]), rng.choice([1, 1, 0])
    max_retx = rng.choice([5, 5, 5, 2, 10])
    inact = rng.choice([10_000_000_000, 10_000_000_000, 60_000_000_000, 3_000_000_000])
    wait_la = rng.choice([1, 1, 0])
    probe_retx = rng.choice([1, 1, 0, 2])
    if profile == "wrap":
        syn_seq = rng.choice([65535, 65534, 65530, 65500, 65535 - rng.below(40)])
        isn_b = rng.choice([65535, 65533, 65520, 65535 - rng.below(40)])
    else:
        syn_seq = rng.choice([100, 65530, 0, rng.below(65536)])
        isn_b = rng.choice([200, 65535, 1, rng.below(65536)])
    cid = rng.below(65536)
    syn_rtt = rng.choice([1_000_000, 1_000_000, 100_000_000, 10_000, 1_000_000_000])
    return [ipv4, mtu_a, mtu_b, rx_a, rx_b, tx_init, tx_max, nagle_a, nagle_b, max_retx, inact,
            wait_la, probe_retx, syn_seq, isn_b, cid, syn_rtt]


PROFILES = ["clean", "clean", "loss", "loss", "reorder", "dup", "delay", "hole", "hole", "small", "wrap",
            "teardown", "chaos", "bidir", "emsg"]


def gen_case(rng, profile=None):
    profile = profile or rng.choice(PROFILES)
    cfg = gen_config(rng, profile)
    ipv4 = cfg[0]
    ops = []
    st = {"now": cfg[16], "wa": 0, "wb": 0}

    def advance(choices):
        st["now"] += rng.choice(choices)
        ops.append("T%d" % st["now"])

    def poll(sd):
        r = rng.below(40)
        if r == 0:
            ops.append(sd + "P" + "".join(rng.choice("SSSP") for _ in range(rng.range(1, 3))))
        else:
            ops.append(sd + "P")

    def write(sd, sizes=None):
        ln = rng.choice(sizes or [1, 10, 100, 528, 529, 1000, 1452, 3000, 10000, 40000, rng.range(1, 6000)])
        key = "w" + sd
        ops.append("%sW%d,%d" % (sd, ln, st[key] % 251))
        # open loop: assume everything is accepted; when it is not, the pattern start is off but the
        # predicate works from the bytes actually accepted, whatever they are
        st[key] += ln

    def read(sd):
        ops.append("%sR%d" % (sd, rng.choice([1, 7, 100, 528, 1452, 5000, 100000, rng.range(1, 3000)])))

    # fault parameters of the network
    p_drop = {"loss": 25, "chaos": 20, "delay": 5, "teardown": 5, "sockdrop": 25}.get(profile, 0)
    p_dup = {"dup": 30, "chaos": 15, "loss": 5}.get(profile, 0)
    p_reorder = {"reorder": 60, "chaos": 40, "dup": 20, "delay": 20}.get(profile, 0)
    p_hold = {"delay": 50, "chaos": 20, "reorder": 10}.get(profile, 0)

    def network(d, n=None):
        """a burst of network actions on direction d ('x' = A->B, 'y' = B->A)"""
        n = n if n is not None else rng.range(1, 6)
        for _ in range(n):
            r = rng.below(100)
            idx = rng.below(6) if rng.below(100) < p_reorder else 0
            if r < p_hold:
                continue
            r = rng.below(100)
            if r < p_drop:
                ops.append("%sX%d" % (d, idx))
            elif r < p_drop + p_dup:
                ops.append("%sC%d" % (d, idx))
                ops.append("%sD%d" % (d, idx))
            else:
                ops.append("%sD%d" % (d, idx))

    # handshake: B's SYN-ACK, mostly delivered
    if rng.below(10):
        poll("b")
        if rng.below(4):
            ops.append("yD0")
        elif rng.below(2):
            ops.append("yX0")
    if profile == "hole" or (profile == "chaos" and rng.below(2)):
        lo = family_min_datagram(ipv4)
        hi = max(lo, min(cfg[1], cfg[2]) - (28 if ipv4 else 48))
        lim = rng.choice([lo, lo + 1, lo + rng.below(max(1, hi - lo + 1)), hi, (lo + hi) // 2, 1000 + 20, 1200 + 20])
        ops.append("B%d" % max(lo, lim))
    if profile == "emsg":
        lo = family_min_datagram(ipv4)
        ops.append("aL%d" % rng.choice([lo, lo + 100, 800, 1020, 1220]))
        if rng.below(2):
            ops.append("bL%d" % rng.choice([lo, lo + 100, 1020]))

    senders = {"bidir": ["a", "b"], "chaos": ["a", "b", "a"], "teardown": ["a", "b", "a"]}.get(profile, ["a", "a", "a", "b"])
    rounds = rng.range(4, 22)
    for rnd in range(rounds):
        s = rng.choice(senders)
        o = "b" if s == "a" else "a"
        d_fwd, d_back = ("x", "y") if s == "a" else ("y", "x")
        k = rng.below(100)
        if k < 55:
            if profile == "small":
                write(s, [1, 100, 500, 1000, 3000, 10000])
            else:
                write(s)
            if rng.below(6) == 0:
                write(s)
        elif k < 60:
            ops.append(s + "F")
        poll(s)
        network(d_fwd)
        poll(o)
        network(d_back, rng.range(0, 3))
        if rng.below(100) < 60:
            read(o)
            if rng.below(4) == 0:
                read(o)
                poll(o)
                network(d_back, rng.range(0, 2))
        if rng.below(100) < 45:
            poll(s)
            network(d_fwd, rng.range(0, 4))
            poll(o)
        # time
        r = rng.below(100)
        if profile in ("loss", "delay", "hole", "chaos", "emsg", "sockdrop") and r < 45:
            advance([300_000_000, 700_000_000, 1_100_000_000, 3_500_000_000, 7_000_000_000])
            poll(s)
            network(d_fwd, rng.range(0, 4))
            poll(o)
            network(d_back, rng.range(0, 3))
            if rng.below(2):
                poll(s)
                network(d_fwd, rng.range(0, 3))
                poll(o)
        elif r < 70:
            advance([0, 1_000_000, 40_000_000, 41_000_000, 100_000_000, 250_000_000])
            if rng.below(2):
                poll(o)
                network(d_back, rng.range(0, 3))
                poll(s)
        elif r < 72:
            advance([11_000_000_000, 61_000_000_000, 1_000_000_000, 2_000_000_000])
        # closing actions at random points
        if profile in ("teardown", "chaos") and rng.below(100) < 18:
            w = rng.choice(["a", "b"])
            ops.append(w + rng.choice(["H", "DW", "DR", "F", "H", "DW"]))
            poll(w)
            network("x" if w == "a" else "y", rng.range(0, 3))
            poll("b" if w == "a" else "a")
            network("y" if w == "a" else "x", rng.range(0, 3))
        elif rng.below(100) < 3:
            ops.append(rng.choice(["a", "b"]) + rng.choice(["H", "DW", "DR", "F"]))
        if profile == "sockdrop" and rng.below(100) < 25:
            # the socket dispatcher of one endpoint goes away while data is in flight
            w = rng.choice(senders)
            ops.append(w + "Z")
            advance([0, 40_000_000, 700_000_000, 3_500_000_000])
            poll(w)
            network("x" if w == "a" else "y", rng.range(0, 4))
            poll("b" if w == "a" else "a")
        if profile in ("hole", "chaos") and rng.below(100) < 6:
            ops.append("B-" if rng.below(3) == 0 else "B%d" % (family_min_datagram(ipv4) + rng.below(900)))
    # wind down: let retransmissions and delayed ACKs run, drain the network, read what is there
    for _ in range(rng.range(1, 6)):
        advance([40_000_000, 250_000_000, 1_000_000_000, 3_000_000_000])
        for sd in rng.choice([["a", "b"], ["b", "a"]]):
            poll(sd)
        for _ in range(rng.range(1, 5)):
            ops.append("xD0")
            ops.append("yD0")
        poll("b")
        poll("a")
        if rng.below(2):
            read("b")
        if rng.below(2):
            read("a")
    read("b")
    read("a")
    return "pair " + " ".join(str(x) for x in cfg) + " " + " ".join(ops)


def gen(rng, tier, profiles=None):
    n = 120 if tier == "quick" else 4000
    return [gen_case(rng.fork("p%d" % i), profile=(rng.choice(profiles) if profiles else None)) for i in range(n)]


# ----------------------------------------------------------------------------- reading a trace
def parse_out(out):
    """-> list of (side, body, other_fp, (nab, nba), [wa, ra, wb, rb] as (len, hash))"""
    res = []
    for tok in out.split()[1:]:
        if tok == "PANIC" or "#" not in tok:
            res.append(None)
            continue
        main, other, nets, ctr = tok.split("#")
        side = main[0]
        body = main[2:]
        nab, nba = [int(x) for x in nets.split(",")]
        c = [tuple(int(y) for y in x.split(":")) for x in ctr.split(",")]
        res.append((side, body, other, (nab, nba), c))
    return res


def features(line, out):
    """which phenomena the IMPLEMENTATION's trace of this case shows"""
    t = line.split()
    ops = t[1 + NCFG:]
    obs = parse_out(out)
    f = set()
    nab = nba = 0
    hole = None
    syn_seq, isn_b = int(t[14]), int(t[15])
    seen = {"a": {}, "b": {}}
    polls = 0
    for op, ob in zip(ops, obs):
        if ob is None:
            f.add("PANIC")
            break
        side, body, _, (nab2, nba2), ctr = ob
        if op[0] in "xy":
            before = nab if op[0] == "x" else nba
            after = nab2 if op[0] == "x" else nba2
            idx = int(op[2:])
            if op[1] == "X" and after < before:
                f.add("loss")
            if op[1] == "C" and after > before:
                f.add("dup")
            if op[1] == "D" and before > 1 and idx % before != 0:
                f.add("reorder")
        if op[0] == "B":
            hole = None if op[1:] == "-" else int(op[1:])
        if body.startswith("P:"):
            polls += 1
            parts = body.split("/")
            if parts[0] not in ("P:PEND",):
                f.add("end=" + parts[0][2:])
            if parts[1] != "-":
                pk = parts[1].split(";")
                emitted = len(pk)
                grew = (nab2 - nab) if side == "a" else (nba2 - nba)
                if grew < emitted:
                    f.add("hole")
                for p in pk:
                    q = p.split(",")
                    ty, seq, plen = int(q[0]), int(q[1]), int(q[8].split(":")[0])
                    if ty == 0:
                        first = (syn_seq + 1) % 65536 if side == "a" else isn_b
                        if seq < first and first > 60000:
                            f.add("wrap")
                        if seq in seen[side]:
                            f.add("retx")
                            if seen[side][seq] != plen:
                                f.add("reseg")
                        seen[side][seq] = plen
                    if ty == 1:
                        f.add("fin")
        nab, nba = nab2, nba2
    last = [o for o in obs if o is not None]
    if last:
        c = last[-1][4]
        if c[1][0] > 0 or c[3][0] > 0:
            f.add("xfer")
        if c[1][0] > 0 and c[3][0] > 0:
            f.add("both")
        if c[1][0] + c[3][0] >= 10000:
            f.add("10k")
    f.add("polls>=3" if polls >= 3 else "polls<3")
    return f

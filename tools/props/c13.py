"""C13 — socket dispatcher level (see disp_common.py)."""
from . import disp_common

TRUSTED_BASE = disp_common.TRUSTED_BASE
ASSUMPTIONS = disp_common.ASSUMPTIONS
RULE = disp_common.RULE
from . import dispgen

# every pending connect is accounted for (c13_pending_ok, Sock/DispC13_Pred.v): evaluated on the shared dispatcher
# scenarios and on scenarios built around it (several connects pending to one address, an earlier one leaves, more connects)
_PENDING = disp_common.component("c13p", name="disp_pending")
_PENDING["gen"] = dispgen.gen_pending
COMPONENTS = [disp_common.component("c13", name="disp"), _PENDING]

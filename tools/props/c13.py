"""C13 — socket dispatcher level (see disp_common.py)."""
from . import disp_common

TRUSTED_BASE = disp_common.TRUSTED_BASE
ASSUMPTIONS = disp_common.ASSUMPTIONS
RULE = disp_common.RULE
COMPONENTS = [disp_common.component("c13", name="disp")]

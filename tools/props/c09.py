"""C09 — 16-bit wrap safety (arithmetic part; trace-shift part is added with the M3 model)."""
from . import common

TRUSTED_BASE = common.BASE_TRUSTED + [common.NO_AXIOMS]
ASSUMPTIONS = [
    "u16 wrapping_sub / wrapping_add written as mod 2^16 in the model",
    "the theorems bound the distance by the tolerance; WRAP_TOLERANCE is re-read from the compiled crate",
]
RULE = ("seq_nr_offset enumerated: for each chosen `old` (boundary values + random) and tolerance, ALL 65536 "
        "values of `new` (one row per case), the same rows through SeqNr's own Sub/Ord (the crate's own constant); plus random (new, old, tol) triples; non-trivial = the row crosses "
        "the wrap (old within tol of 0 or 65535) or tol != 1024; distinct = distinct case line")


def check_constants(impl_line, model_line):
    return common.check_constants_subset(impl_line, model_line, ["WRAP_TOLERANCE"])


OLD_BOUNDARY = [0, 1, 1023, 1024, 1025, 32767, 32768, 64511, 64512, 65534, 65535]


def gen(rng, tier):
    lines = []
    olds = list(OLD_BOUNDARY) + [rng.below(65536) for _ in range(5 if tier == "quick" else 60)]
    tols = [1024] if tier == "quick" else [1024, 0, 1, 1023, 1025, 32767, 16384]
    for t in tols:
        for o in olds:
            lines.append(f"seqnr_row {o} {t}")
    # SeqNr's own Sub/Ord (the crate's own WRAP_TOLERANCE constant), every value of new
    for o in olds:
        lines.append(f"seqsub_row {o}")
    for _ in range(2000 if tier == "quick" else 200000):
        lines.append(f"seqnr {rng.below(65536)} {rng.below(65536)} {rng.choice([0, 1, 1024, 32767, rng.below(32768)])}")
    return lines


def nontrivial(line, out):
    t = line.split()
    if t[0] == "seqsub_row":
        return "ORD" not in out
    if t[0] == "seqnr_row":
        o, tol = int(t[1]), int(t[2])
        return o <= tol or o >= 65535 - tol or tol != 1024
    a, b, tol = int(t[1]), int(t[2]), int(t[3])
    return abs(a - b) > 65535 - tol  # crosses the wrap within tolerance


def classify(line, out):
    return line.split()[0]


def pred(line, out):
    t = line.split()
    if t[0] == "seqsub_row":
        # within the tolerance the theorems assume (1024) the distance must be the true modular distance
        return f"seqnr_row_pred {t[1]} 1024 | {out}"
    if t[0] == "seqnr_row":
        return f"seqnr_row_pred {t[1]} {t[2]} | {out}"
    if int(t[3]) > 32767:
        return None
    return f"seqnr_pred {t[1]} {t[2]} {t[3]} {out}"


# ---------------------------------------------------------------- trace shift (connection level)
# Metamorphic: the SAME scenario is run twice on the real VirtualSocket, the second time with our initial
# sequence number, the peer's and the connection id relabelled (and every message the peer sends relabelled
# accordingly) so that the 16-bit wrap falls inside the transfer; the extracted predicate c09_shift_ok
# (Conn/C09_Pred.v) requires the second trace to be the first one relabelled, field by field (packets, state
# fingerprint, results, wake-ups, timers).  Claimed within the tolerance guard c09_within_tol only (SKIP
# otherwise): beyond WRAP_TOLERANCE the distance function is not shift invariant (finding D4).
import hashlib
import checklib as L
from . import vsock_common, vsockgen, c05, c17


def _twin(line):
    t = line.split()
    isn, rseq, rconn = int(t[12]), int(t[13]), int(t[14])
    h = int(hashlib.sha1(line.encode()).hexdigest()[:8], 16)
    # land both numbering spaces a few packets before the wrap (or shift a wrapping run away from it)
    new_isn = (65536 - 1 - h % 7) % 65536
    new_rseq = (65536 - 1 - (h // 7) % 5) % 65536
    if isn >= 65500:
        new_isn = 100 + h % 1000
    if rseq >= 65500:
        new_rseq = 1 + (h // 7) % 1000
    da, db, dc = (new_isn - isn) % 65536, (new_rseq - rseq) % 65536, (h // 35) % 65536
    t2 = list(t)
    t2[12], t2[13], t2[14] = str(new_isn), str(new_rseq), str((rconn + dc) % 65536)
    for i in range(18, len(t2)):
        if t2[i].startswith("M"):
            f = t2[i][1:].split(",")
            f[1] = str((int(f[1]) + db) % 65536)
            f[2] = str((int(f[2]) + da) % 65536)
            t2[i] = "M" + ",".join(f)
    return " ".join(t2), da, db, dc


def _shift_line(line, out, line2, out2, da, db, dc):
    if "BAD" in out or "BAD" in out2:
        return None
    return "vsock_shift_g %d %d %d 1024 %s | %s | %s | %s" % (
        da, db, dc, " ".join(line.split()[1:]), out, " ".join(line2.split()[1:]), out2)


def shift_pred(line, out):
    line2, da, db, dc = _twin(line)
    out2 = L.run_lines(L.HARNESS, [line2])[0]
    return _shift_line(line, out, line2, out2, da, db, dc)


def shift_preds_all(lines, impl):
    twins = [_twin(l) for l in lines]
    outs2 = L.run_sharded(L.HARNESS, [t[0] for t in twins])
    return [_shift_line(l, o, t[0], o2, t[1], t[2], t[3]) for l, o, t, o2 in zip(lines, impl, twins, outs2)]


def shift_gen(rng, tier):
    n = 150 if tier == "quick" else 3000
    lines = vsockgen.gen_closed(rng.fork("closed"), lambda ls: L.run_sharded(L.HARNESS, ls), n)
    lines += c05.gen_targeted(rng.fork("targeted"), n)
    lines += c17.gen(rng.fork("c17"), "quick")[:n] if tier == "quick" else c17.gen(rng.fork("c17"), tier)
    return lines


COMPONENTS = [{"name": "seqnr", "gen": gen, "nontrivial": nontrivial, "classify": classify, "pred": pred},
              {"name": "vsock_shift", "keep": vsock_common.KEEP, "gen": shift_gen,
               "nontrivial": vsock_common.nontrivial, "classify": vsock_common.classify,
               "pred": shift_pred, "preds_all": shift_preds_all}]

"""C09 — 16-bit wrap safety (arithmetic part; trace-shift part is added with the M3 model)."""
from . import common

TRUSTED_BASE = common.BASE_TRUSTED + [common.NO_AXIOMS]
ASSUMPTIONS = [
    "u16 wrapping_sub / wrapping_add written as mod 2^16 in the model",
    "the theorems bound the distance by the tolerance; WRAP_TOLERANCE is re-read from the compiled crate",
]
RULE = ("seq_nr_offset enumerated: for each chosen `old` (boundary values + random) and tolerance, ALL 65536 "
        "values of `new` (one row per case), the same rows through SeqNr's own Sub/Ord (the crate's own constant); plus random (new, old, tol) triples; non-trivial = the row crosses "
        "the wrap (old within tol of 0 or 65535) or tol != 1024; distinct = distinct case line")


def check_constants(impl_line, model_line):
    return common.check_constants_subset(impl_line, model_line, ["WRAP_TOLERANCE"])


OLD_BOUNDARY = [0, 1, 1023, 1024, 1025, 32767, 32768, 64511, 64512, 65534, 65535]


def gen(rng, tier):
    lines = []
    olds = list(OLD_BOUNDARY) + [rng.below(65536) for _ in range(5 if tier == "quick" else 60)]
    tols = [1024] if tier == "quick" else [1024, 0, 1, 1023, 1025, 32767, 16384]
    for t in tols:
        for o in olds:
            lines.append(f"seqnr_row {o} {t}")
    # SeqNr's own Sub/Ord (the crate's own WRAP_TOLERANCE constant), every value of new
    for o in olds:
        lines.append(f"seqsub_row {o}")
    for _ in range(2000 if tier == "quick" else 200000):
        lines.append(f"seqnr {rng.below(65536)} {rng.below(65536)} {rng.choice([0, 1, 1024, 32767, rng.below(32768)])}")
    return lines


def nontrivial(line, out):
    t = line.split()
    if t[0] == "seqsub_row":
        return "ORD" not in out
    if t[0] == "seqnr_row":
        o, tol = int(t[1]), int(t[2])
        return o <= tol or o >= 65535 - tol or tol != 1024
    a, b, tol = int(t[1]), int(t[2]), int(t[3])
    return abs(a - b) > 65535 - tol  # crosses the wrap within tolerance


def classify(line, out):
    return line.split()[0]


def pred(line, out):
    t = line.split()
    if t[0] == "seqsub_row":
        # within the tolerance the theorems assume (1024) the distance must be the true modular distance
        return f"seqnr_row_pred {t[1]} 1024 | {out}"
    if t[0] == "seqnr_row":
        return f"seqnr_row_pred {t[1]} {t[2]} | {out}"
    if int(t[3]) > 32767:
        return None
    return f"seqnr_pred {t[1]} {t[2]} {t[3]} {out}"


COMPONENTS = [{"name": "seqnr", "gen": gen, "nontrivial": nontrivial, "classify": classify, "pred": pred}]

"""C06 — retransmission discipline (connection level).  Predicates: Conn/C06_Pred.v."""
from . import common, c05

TRUSTED_BASE = common.BASE_TRUSTED + [common.NO_AXIOMS]
ASSUMPTIONS = [
    "theorems are about one call of the model's send_tx_queue / rto_branch / send_data, Recovery::on_ack and Segments from ANY "
    "state; that the whole poll is the composition the model says is the vsock correspondence, not a theorem",
    "assumed-and-monitored: RTO within [200 ms, 60 s] on every fingerprint (c06_backoff_ok), retransmit counts <= cap (c06_cap_ok), "
    "joint ring/table invariant removed_offset = bytes truncated (c06_joint_ok, after every Pending poll of the trace, the "
    "polls after the message channel closed included: finding T1 = D17 is repaired)",
    "payload bytes are compared by hash in the correspondence; the stability predicate sees payload sizes only",
]
RULE = c05.RULE

# Session 5: c06_joint_ok, c06_cap_ok, c06_backoff_ok are THEOREMS of every model trace (Props/C06.v ..._every_trace);
# c06_emitted_live_ok is FALSE of the model as written when a poll restarts after EMSGSIZE (c06_emitted_live_ok_restart_refuted,
# a predicate artifact) - replaced by the proved guarded form c06_emitted_live_ok_g; c06_no_resend_acked_g / c06_fast_retx_ok_g
# are the proved guarded forms of the two predicates that stay evaluated unguarded as well (monitored).
PREDS = ("c06_backoff_ok", "c06_cap_ok", "c06_emitted_live_ok_g", "c06_no_resend_acked", "c06_no_resend_acked_g", "c06_fast_retx_ok",
         "c06_fast_retx_ok_g", "c06_stable_plen_ok", "c06_stable_plen_ok_p", "c06_joint_ok", "c06_rp_exit_ok")
COMPONENTS = [dict(c05.component("+".join(PREDS)), name="vsock_c06")]

"""C07 — acknowledgement timeliness (connection level: VirtualSocket::poll)."""
from . import common, vsock_common, vsockgen

TRUSTED_BASE = common.BASE_TRUSTED + [common.NO_AXIOMS]
ASSUMPTIONS = [
    "one VirtualSocket driven by a scripted peer, application, clock and transport (vsock component); "
    "the theorems quantify over every state/event of the Gallina model of VirtualSocket::poll",
    "ACK_DELAY = 40 ms and IMMEDIATE_ACK_EVERY_RMSS = 2 in the compiled crate (re-read on every run)",
    "D4 class: `ack_to_transmit` compares last_consumed with last_sent_ack_nr through the tolerance-limited SeqNr order; more than "
    "1024 sequence numbers consumed inside one ACK delay with fewer than 2*mss bytes in all (1025+ one-byte packets across the wrap) "
    "make it read `nothing to acknowledge` and the delayed ACK is dropped (c07_pre_monitor_refuted, witness by vm_compute); the "
    "theorems carry the exact invariant instead (c07_dist_ok: last_consumed = last_sent_ack_nr + k mod 2^16 with k <= unacked "
    "bytes; c07_pre_monitor_g: the comparison form while unacked bytes <= 1024), both proved for every trace and evaluated on "
    "implementation traces",
    "the receive-window-update trigger is not observable on the fingerprint (rx_window needs UserRx's "
    "last_remaining_rx_window): it is covered by the theorem and by the differential run, not by a predicate",
]
RULE = ("vsock traces from the shared open-loop and closed-loop generators plus the C07 generator "
        "(in-order trickles below 2*mss with clock steps around 40 ms, bursts >= 2*mss, out-of-order / "
        "gap-filling / duplicate arrivals, FIN, zero-window then reader drain, idle polls); non-trivial = "
        "at least three polls and data in at least one direction; distinct = distinct case line")


def check_constants(impl_line, model_line):
    return common.check_constants_subset(impl_line, model_line, ["ACK_DELAY", "IMMEDIATE_ACK_EVERY_RMSS"])


# ----------------------------------------------------------------------------- C07 generator
def gen_c07_case(rng):
    """Receive-side scenarios: the endpoint is the receiver; the peer trickles / bursts data."""
    cfg = vsockgen.gen_config(rng)
    cfg[2] = rng.choice([1500, 1500, 576, 1280, 9000])          # link mtu
    cfg[3] = rng.choice([1048576, 100000, 3000, 3000, 2000])    # rx buffer (small ones reach window 0)
    cfg[8] = 10_000_000_000
    p = vsockgen.Peer(rng, cfg)
    ops = []
    now = cfg[16] if cfg[0] == "out" else 0

    def adv(d):
        nonlocal now
        now += d
        ops.append(f"T{now}")

    def poll():
        ops.append("P" if rng.below(12) else "P" + rng.choice(["P", "SP", "PS"]))

    if cfg[0] == "in":
        poll()
        ops.append(p.state_ack(advance=0))
    poll()
    if rng.below(4) == 0:
        # half-closed: our side shuts its write half down first and goes on receiving (FinWait1, and FinWait2
        # once the peer acknowledged our FIN); every receive-side clause still applies
        ops.append(rng.choice(["H", "H", "DW"]))
        poll()
        if rng.below(3):
            ops.append(p.state_ack(advance=1))
            poll()
    scenario = rng.choice(["trickle", "trickle", "burst", "ooo", "dup", "fin", "zerownd", "zerownd", "idle", "mixed"])
    n = rng.range(4, 14)
    for i in range(n):
        sc = scenario if scenario != "mixed" else rng.choice(["trickle", "burst", "ooo", "dup", "zerownd", "idle"])
        if sc == "trickle":
            # one small in-order packet, then clock steps around the 40 ms bound
            ops.append(p.msg(0, p.peer_next, p.ack_nr(), p.wnd, rng.choice([1, 10, 100, 500])))
            p.peer_next = (p.peer_next + 1) % 65536
            poll()
            for d in rng.choice([[39_999_999, 1], [40_000_000], [10_000_000, 10_000_000, 20_000_000], [41_000_000], [5_000_000]]):
                adv(d)
                poll()
        elif sc == "burst":
            for _ in range(rng.range(2, 5)):
                ops.append(p.msg(0, p.peer_next, p.ack_nr(), p.wnd, rng.choice([528, 1000, 1400, 1452])))
                p.peer_next = (p.peer_next + 1) % 65536
            poll()
        elif sc == "ooo":
            gap = rng.range(1, 3)
            ops.append(p.msg(0, p.peer_next + gap, p.ack_nr(), p.wnd, rng.choice([10, 528, 1000])))
            poll()
            if rng.below(2):
                # fill the gap
                for k in range(gap):
                    ops.append(p.msg(0, p.peer_next + k, p.ack_nr(), p.wnd, rng.choice([10, 528])))
                    if rng.below(2):
                        poll()
                p.peer_next = (p.peer_next + gap + 1) % 65536
                poll()
        elif sc == "dup":
            ops.append(p.msg(0, p.peer_next, p.ack_nr(), p.wnd, 100))
            p.peer_next = (p.peer_next + 1) % 65536
            poll()
            ops.append(p.msg(0, p.peer_next - rng.range(1, 2), p.ack_nr(), p.wnd, 100))
            poll()
        elif sc == "fin":
            ops.append(p.msg(0, p.peer_next, p.ack_nr(), p.wnd, 100))
            p.peer_next = (p.peer_next + 1) % 65536
            if rng.below(2):
                poll()
            ops.append(p.fin(in_seq=True))
            poll()
            adv(rng.choice([1_000_000, 40_000_000]))
            poll()
            break
        elif sc == "zerownd":
            # fill the receive buffer, poll (window 0 advertised), drain, poll (window update)
            for _ in range(rng.range(2, 6)):
                ops.append(p.msg(0, p.peer_next, p.ack_nr(), p.wnd, rng.choice([1000, 1100, 1400])))
                p.peer_next = (p.peer_next + 1) % 65536
                if rng.below(3) == 0:
                    poll()
            poll()
            ops.append("R%d" % rng.choice([100, 2000, 100000]))
            poll()
            if rng.below(2):
                ops.append("R100000")
                poll()
        elif sc == "idle":
            adv(rng.choice([0, 1_000_000, 39_000_000, 40_000_000, 100_000_000]))
            poll()
            poll()
    adv(rng.choice([40_000_000, 45_000_000, 1_000_000]))
    poll()
    return "vsock " + " ".join(str(x) for x in cfg) + " " + " ".join(ops)


def gen_halfclosed_zerownd(rng, n):
    """Deterministic shape (seeded C07-a): we shut our write half down first (FinWait1; FinWait2 when the peer acknowledges the
    FIN), the peer goes on sending until our receive buffer is full (window 0 advertised), the reader drains: the poll that
    follows must emit the window update at once; also the same without the shutdown (Established)."""
    out = []
    for i in range(n):
        r = rng.fork("hz%d" % i)
        rx = r.choice([3000, 3000, 2900, 4000])
        isn, rseq = r.choice([100, 65534, r.below(65536)]), r.choice([1, 65535, r.below(65536)])
        cfg = ["vsock", "out", 1, r.choice([1500, 1500, 9000]), rx, 32768, 1048576, r.choice([0, 1]), 5, 10_000_000_000, 1, 1,
               isn, rseq, 7, 1048576, 5, 1_000_000]
        ops, ts = ["P"], [10]
        fin = r.below(3)          # 0: stay Established, 1: FinWait1, 2: FinWait2
        our_next = (isn + 1) % 65536
        if fin:
            ops += [r.choice(["H", "DW"]), "P"]
        ack = (our_next if fin == 2 else our_next - 1) % 65536

        def data(seq, plen):
            ts[0] += r.range(1, 3000)
            return f"M0,{seq % 65536},{ack},1048576,{ts[0]},{plen},0,-"
        seq = rseq
        for _ in range(r.choice([2, 2, 3])):
            ops.append(data(seq, r.choice([1400, 1400, 1300]))); seq += 1
            if r.below(3) == 0:
                ops.append("P")
        ops.append("P")
        ops += ["R100000", "P"]
        if r.below(2):
            ops += ["T41000000", "P"]
        if r.below(2):
            ops.append(data(seq, 100)); ops += ["P", "T90000000", "P"]
        out.append(" ".join(str(x) for x in cfg) + " " + " ".join(ops))
    return out


def gen_own(rng, tier):
    n = 250 if tier == "quick" else 5000
    return [gen_c07_case(rng.fork("c07_%d" % i)) for i in range(n)] + \
        gen_halfclosed_zerownd(rng.fork("halfclosed"), 24 if tier == "quick" else 600)


def gen_all(rng, tier):
    return gen_own(rng, tier) + vsock_common.gen(rng, tier)


def component(pred_name, shared):
    c = vsock_common.component(pred_name, name="vsock_" + pred_name)
    # the shared open/closed-loop generators (the closed loop runs the implementation six times)
    # feed the first predicate in the quick tier, every predicate in the thorough tier
    c["gen"] = (lambda rng, tier: gen_all(rng, tier) if (shared or tier != "quick") else gen_own(rng, tier))
    return c


# every predicate below is a THEOREM of every model trace (Props/C07.v ..._every_trace / ..._model); c07_pre_monitor itself is
# FALSE beyond the wrap tolerance (c07_pre_monitor_refuted, D4 class) and was replaced by its exact forms c07_dist_ok (modular
# distance) and c07_pre_monitor_g (the comparison form while consumed_but_unacked_bytes <= 1024)
ALL_PREDS = ["c07_immediate_ok", "c07_delayed_ok", "c07_fires_ok", "c07_dist_ok", "c07_pre_monitor_g", "c07_idle_silent_partial",
             "c07_window_update_ok", "c07_reasm_change_ok", "c07_trigger_ok"]
COMPONENTS = [component("+".join(ALL_PREDS), True)]
COMPONENTS[0]["name"] = "vsock_c07"

"""C10 (single-connection half) — nothing a peer sends makes one connection panic or report a
`bug:` error; what one connection buffers stays bounded.  Connection level (`vsock`)."""
import os, sys
sys.path.insert(0, os.path.dirname(os.path.dirname(os.path.abspath(__file__))))
import checklib as L
from . import common, vsock_common, vsockgen, segsgen

TRUSTED_BASE = common.BASE_TRUSTED + [common.NO_AXIOMS]
ASSUMPTIONS = [
    "transport legitimacy (guard inside c10_step_ok): the transport answers EMSGSIZE only through a path limit, the "
    "limit is at least the family-minimum datagram (20 + floor payload: 548 IPv4 / 1232 IPv6) and does not change "
    "after the first poll",
    "delivered messages are what UtpMessage::deserialize can produce (ST_DATA has a non-empty payload, every other type "
    "an empty one; C11); header fields are arbitrary u16/u32 values",
    "assumed-and-monitored for the proofs: clock in [0, 2^60 s]; at most 1023 outstanding segments (within_tol, D4)",
    "one connection only: the socket-level clauses (unknown peers / connection ids, cross-contamination, unparseable "
    "datagrams) are not covered here",
]
RULE = ("shared vsock generators (open + closed loop) plus a HOSTILE stream: arbitrary header fields in every state "
        "(all five types, random / near-miss seq and ack, ACKs of unsent data, SACK of 1..36 bytes, windows 0 and 2^32-1, "
        "payloads 1..2000, FIN out of sequence, traffic after FIN, zero-length writes, drop/close and transport-pending at "
        "random points), path limit legitimate (>= family minimum, set before the first poll); an illegitimate stream "
        "(scripted EMSGSIZE, tiny limits, limit changes) is used for the correspondence only; "
        "non-trivial = >= 3 polls and data exchanged; distinct = distinct case line")

KNOWN_IDS = ("KF2",)


# ----------------------------------------------------------------------------- hostile generator
def floor_payload(cfg):
    ip = 20 if cfg[1] else 40
    ceiling = max(1, cfg[2] - ip - 8 - 20)
    return min(ceiling, (576 if cfg[1] else 1280) - ip - 8 - 20)


def min_datagram(cfg):
    return 20 + floor_payload(cfg)


def gen_hostile_case(rng, legit=True):
    cfg = vsockgen.gen_config(rng)
    if rng.below(3):
        cfg[2] = rng.choice([1500, 1500, 576, 1280, 9000])      # mostly links that carry real segments
    kind, isn, rseq = cfg[0], cfg[11], cfg[12]
    our_first = isn if kind == "in" else (isn + 1) % 65536
    st = {"peer_next": (rseq + 1) % 65536 if kind == "in" else rseq, "acked": 0, "ts": 1, "pstart": 0,
          "wstart": 0, "now": cfg[16] if kind == "out" else 0, "sent_guess": 0}
    ops = []
    lim_choices = [min_datagram(cfg), min_datagram(cfg) + 1, 600, 800, 1000, 1200, 1300, 1400, 1472]
    if legit:
        if rng.below(2):
            ops.append("L%d" % max(min_datagram(cfg), rng.choice(lim_choices)))
    else:
        if rng.below(2):
            ops.append("L%d" % rng.choice([0, 19, 20, 30, 100, 300, 547, 1000]))

    def near(x):
        return (x + rng.choice([0, 0, 0, 1, -1, 2, -2, 5, -5, 100, -100, 1023, 1024, 1025, -1024, -1025, 32768])) % 65536

    def rseqnr(center):
        c = rng.below(10)
        if c < 6:
            return near(center)
        if c < 8:
            return rng.below(65536)
        return rng.choice([0, 1, 65535, 65534, 32767, 32768])

    def msg(t=None, plen=None):
        t = rng.choice([0, 0, 0, 1, 2, 2, 2, 2, 3, 4]) if t is None else t
        seq = rseqnr(st["peer_next"])
        ack = rseqnr((our_first - 1 + st["acked"]) % 65536)
        wnd = rng.choice([0, 1, 100, 528, 3000, 1048576, 1048576, 2**32 - 1, rng.below(2**32)])
        if plen is None:
            plen = 0 if t != 0 else rng.choice([1, 1, 10, 100, 528, 529, 1000, 1400, 1452, 1453, 1472, 2000,
                                                rng.range(1, 2000)])
        if t != 0:
            plen = 0
        sack = "-"
        if rng.below(4) == 0:
            n = rng.choice([1, 2, 3, 4, 4, 5, 7, 8, 8, 9, 12, 16, 20, 32, 35, 36])
            sack = "".join("%02x" % rng.choice([0, 0, 1, 3, 255, rng.below(256)]) for _ in range(n))
        st["ts"] += rng.range(0, 5000)
        ts = rng.choice([st["ts"] % 2**32, st["ts"] % 2**32, 0, 2**32 - 1, rng.below(2**32)])
        m = f"M{t},{seq},{ack},{wnd},{ts},{plen},{st['pstart'] % 251},{sack}"
        st["pstart"] += plen
        if t == 0 and seq == st["peer_next"]:
            st["peer_next"] = (st["peer_next"] + 1) % 65536
        if t == 1 and seq == st["peer_next"] and rng.below(2):
            st["peer_next"] = (st["peer_next"] + 1) % 65536
        return m

    def poll():
        r = rng.below(12)
        if r == 0:
            ops.append("P" + "".join(rng.choice("SSSP") for _ in range(rng.range(1, 4))))
        elif r == 1:
            ops.append("PP")
        elif r == 2 and not legit:
            ops.append("P" + "".join(rng.choice("SSEX") for _ in range(rng.range(1, 3))))
        elif r == 3 and not legit:
            ops.append("PX")
        else:
            ops.append("P")

    if kind == "in":
        poll()
        if rng.below(4):
            ops.append(f"M2,{st['peer_next']},{(isn - 1) % 65536},1048576,1,0,0,-")
    n = rng.range(5, 50)
    for _ in range(n):
        r = rng.below(100)
        if r < 30:
            ops.append(msg())
        elif r < 55:
            poll()
        elif r < 65:
            ln = rng.choice([0, 0, 1, 10, 528, 1000, 3000, 10000, 40000, rng.range(0, 5000)])
            ops.append(f"W{ln},{st['wstart'] % 251}")
            st["wstart"] += ln
        elif r < 72:
            st["acked"] += rng.choice([0, 1, 1, 2, 3, 8])
            ops.append(msg(t=2))
        elif r < 78:
            st["now"] += rng.choice([0, 1, 1_000_000, 40_000_000, 200_000_000, 1_000_000_000, 3_500_000_000,
                                     11_000_000_000, 61_000_000_000])
            ops.append(f"T{st['now']}")
        elif r < 83:
            ops.append("R%d" % rng.choice([1, 1, 100, 1452, 100000]))
        elif r < 86:
            ops.append(rng.choice(["F", "H"]))
        elif r < 90:
            ops.append(rng.choice(["DR", "DW", "Z", "H", "DW"]))
        elif r < 93:
            ops.append(msg(t=1))
        elif r < 95:
            ops.append(msg(t=rng.choice([3, 4])))
        elif r < 97 and not legit:
            ops.append("L%s" % rng.choice(["-", "20", "100", "548", "1000"]))
        else:
            # a burst of in-sequence data with absurd sizes
            for _ in range(rng.range(1, 4)):
                seq = st["peer_next"]
                st["peer_next"] = (seq + 1) % 65536
                plen = rng.choice([1, 1400, 1452, 1472, 2000])
                ack = (our_first - 1 + st["acked"]) % 65536
                ops.append(f"M0,{seq},{ack},1048576,{st['ts'] % 2**32},{plen},{st['pstart'] % 251},-")
                st["pstart"] += plen
    for _ in range(rng.range(0, 3)):
        st["now"] += rng.choice([40_000_000, 1_000_000_000, 11_000_000_000])
        ops.append(f"T{st['now']}")
        poll()
    return "vsock " + " ".join(str(x) for x in cfg) + " " + " ".join(ops)


def gen_hostile(rng, tier):
    n = 500 if tier == "quick" else 10000
    m = 150 if tier == "quick" else 3000
    return [gen_hostile_case(rng.fork("h%d" % i), True) for i in range(n)] + \
           [gen_hostile_case(rng.fork("x%d" % i), False) for i in range(m)]


def gen(rng, tier):
    return vsock_common.gen(rng, tier) + gen_hostile(rng.fork("hostile"), tier)


def illegitimate(line):
    """True for a case whose transport is outside the assumption (scripted EMSGSIZE, a limit below the family
    minimum, a limit change after the first poll): correspondence only, the predicate is not evaluated."""
    t = line.split()
    cfg = [t[1]] + [int(x) for x in t[2:18]]
    polled = False
    for op in t[18:]:
        if op[0] == "P":
            polled = True
            if "E" in op[1:]:
                return True
        elif op[0] == "L":
            if polled:
                return True
            if op[1:] != "-" and int(op[1:]) < min_datagram(cfg):
                return True
    return False


def pred_builder(name):
    base = vsock_common.pred_builder(name)

    def pred(line, out):
        if illegitimate(line):
            return None
        return base(line, out)
    return pred


def classify(line, out):
    k = vsock_common.classify(line, out)
    if "PANIC" in out.split():
        return "PANIC:" + k
    if illegitimate(line):
        return "illegit:" + k
    return k


# ----------------------------------------------------------------------------- known findings
def in_class(pred_name, case, impl):
    """Evaluates an extracted classifier on the implementation's observations: OK = in the class."""
    t = case.split()
    line = "vsock_pred %s %s | %s" % (pred_name, " ".join(t[1:]), impl)
    return L.run_lines(L.MODEL, [line])[0] == "OK"


def open_ids(kf):
    return {e.get("id"): e for e in kf.get("open", [])}


CLASSIFIERS = [
    ("KF2", "c10_kf2_class",
     "EBUG_EmsgSizeNoProbe after the peer's say-so raised the proven segment size above what the forward path "
     "carries (incoming ST_DATA larger than the proven size, or an ACK covering a never-sent MTU probe)"),
]


def classify_known(kind, payload, kf):
    if kind != "predicate" or "case" not in payload:
        return None
    op = open_ids(kf)
    for kid, cls, text in CLASSIFIERS:
        if kid in op and in_class(cls, payload["case"], payload.get("impl", "")):
            return "id=%s %s; case `%s`" % (kid, text, payload["case"][:400])
    return None


def replay_known(kf):
    out = []
    op = open_ids(kf)
    for kid, cls, text in CLASSIFIERS:
        e = op.get(kid)
        if not e or "witness" not in e or "C10" not in e.get("properties", ["C10"]):
            continue
        for w in (e["witness"] if isinstance(e["witness"], list) else [e["witness"]]):
            if not w.startswith("vsock "):
                continue
            impl = L.run_lines(L.HARNESS, [w])[0]
            p = vsock_common.pred_builder("c10_step_ok")(w, impl)
            if p and L.run_lines(L.MODEL, [p])[0] != "OK" and in_class(cls, w, impl):
                out.append("KNOWN-FINDING: property=C10 id=%s still reproduces on the real code: `%s` -> %s"
                           % (kid, w, impl.split()[-1].split("/")[0]))
    return out


def _comp(pred_name, name, generator):
    c = vsock_common.component(pred_name, name)
    c["gen"] = generator
    c["pred"] = pred_builder(pred_name)
    c["classify"] = classify
    return c


def _disp_component():
    # socket half: raw datagrams of every kind (tools/props/dispgen.raw_datagram) go through the real socket
    # Dispatcher; the model is the extracted wire parser composed with the dispatcher model
    from . import disp_common, dispgen

    def gen_hostile_disp(rng, tier):
        # the shared op lists, with raw datagrams far more often
        return dispgen.gen(rng, tier)
    c = disp_common.component("c10", name="disp_hostile")
    c["gen"] = gen_hostile_disp

    def pred(line, out):
        # the whole case line (the runner needs the ops to know which datagram each recv arm consumed and what it
        # parsed to), then the implementation's observations: driver/c_disp.ml run_disp_pred_c10 evaluates
        # c10_disp_step_ok on every run_once whose recv arm fired, c10_disp_bounds_ok on every post-state, no PANIC,
        # and (as before) c12_step_ok on every step
        if "ARM-NOT-REACHED" in out or "BADCASE" in out or "BADCONFIG" in out:
            return None
        t = line.split()
        if len(t) < 3:
            return None
        return "disp_pred c10 %s | %s" % (" ".join(t[1:]), out)
    c["pred"] = pred
    return c


COMPONENTS = [
    _disp_component(),
    _comp("c10_step_ok", "vsock", gen),
    _comp("c10_bounded", "vsock_bounded", lambda rng, tier: gen_hostile(rng.fork("hostile"), tier)),
]

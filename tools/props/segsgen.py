"""Generators for the `segs` component (Segments)."""


def sack_hex(rng):
    n = rng.choice([1, 4, 8, 8, 8, 9, 36])
    bs = []
    for _ in range(n):
        k = rng.below(4)
        bs.append(0 if k == 0 else (rng.below(256) if k == 1 else (1 << rng.below(8)) | (1 << rng.below(8))))
    if rng.chance(1, 10):
        bs = [0] * n
    return "".join("%02x" % b for b in bs)


def gen_case(rng, many=False):
    base = rng.choice([0, 1, 100, 65000, 65500, 65534, 65535, rng.below(65536)])
    n = rng.range(3, 70)
    ops = []
    enq = 0        # segments enqueued in total
    acked = 0      # rough number acked cumulatively
    now = 0
    sent = 0
    if many:
        k = rng.choice([1030, 1100, 1500])
        ops += ["q1,0"] * k
        enq = k
    for _ in range(n):
        r = rng.below(100)
        now += rng.choice([0, 1, 1000, 1000000, 50000000, 300000000])
        live = max(0, enq - acked)
        if r < 25:
            ln = rng.choice([1, 2, 7, 100, 528, 1452, rng.range(1, 1500)])
            ops.append(f"q{ln},{1 if rng.chance(1, 8) else 0}")
            enq += 1
        elif r < 45:
            st = "-" if rng.below(3) else str((base + acked + rng.below(live + 2)) % 65536)
            ops.append(f"s{st},{rng.below(3)},{now}")
            sent += 1
        elif r < 65:
            if rng.chance(1, 12):
                ack = rng.below(65536)
            else:
                step = rng.choice([-2, -1, 0, 0, 1, 1, 2, 3, live])
                ack = (base + acked - 1 + step) % 65536
                if step > 0:
                    acked = min(enq, acked + step)
            sk = sack_hex(rng) if rng.chance(2, 5) else "-"
            ops.append(f"k{now},{ack},{sk}")
        elif r < 72:
            ops.append(f"f{(base + acked + rng.range(-2, live + 2)) % 65536}")
        elif r < 82:
            st = "-" if rng.below(2) else str((base + acked + rng.range(-1, live + 1)) % 65536)
            ops.append(f"i{st}")
        elif r < 87:
            seq = (base + enq - 1) % 65536 if rng.below(4) else rng.below(65536)
            ops.append(f"p{seq}")
        elif r < 92:
            ops.append(f"x{rng.below(2)},{rng.below(3)}")
        else:
            hr = (base + acked + rng.range(-1, 3)) % 65536
            hd = (base + acked + rng.range(0, live)) % 65536 if rng.below(8) else (base + enq + rng.below(3)) % 65536
            ops.append(f"c{hr},{hd},{rng.choice([0, 1000, 1000000, 100000000, 3000000000])},{now}")
    return f"segs {base} " + " ".join(ops)


def gen(rng, tier):
    n = 1500 if tier == "quick" else 30000
    return [gen_case(rng, many=rng.chance(1, 40)) for _ in range(n)]

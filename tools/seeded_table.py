#!/usr/bin/env python3
"""Development helper: print the markdown table 'which check catches which seeded change' (DESIGN.md 12.6)
from seeded/*/meta.json.   tools/seeded_table.py > /tmp/table.md"""
import glob, json, os
root = os.path.dirname(os.path.dirname(os.path.abspath(__file__)))
print("| change | what it is (one line) | needs, to manifest | check -> verdict (how) |")
print("|---|---|---|---|")
for f in sorted(glob.glob(os.path.join(root, "seeded", "*", "meta.json"))):
    m = json.load(open(f))
    cells = []
    for p, v in sorted(m.get("checks_against_changed_tree", {}).items()):
        how = "+".join(v.get("by", [])) or "-"
        inp = "concrete failing input" if v.get("with_failing_input") else "no-failing-input-found"
        cells.append("%s: %s (%s%s)" % (p, v["verdict"], how, ", " + inp if v["verdict"] == "VIOLATION" else ""))
    s = m.get("summary", "").replace("|", "/").replace("\n", " ")
    n = m.get("needs_to_manifest", "").replace("|", "/").replace("\n", " ")
    print("| %s | %s | %s | %s |" % (m["id"], s[:260], n[:260], "; ".join(cells) or "not run"))

HOOK_COMMITS = ["fa59ca4"]
NOTES = ("Technique family: machine-checked proof in Coq 8.16.1 about hand-written executable models, tied to /repo "
         "by a differential correspondence check that runs on every invocation (see DESIGN.md). "
         "not_applicable lists properties whose check is not built yet at this commit; none is judged out of reach of the technique.")

CHECKS = {
 "C16": {
  "text": "All clauses of the property are theorems over every finite sequence of samples and timeouts of the Gallina model of "
          "src/rtte.rs (induction, no bound): rto in [200 ms, 60 s], rto = clamp(srtt + max(4 rttvar, 10 ms)) after a sample, "
          "doubling on timeout, sample resets, srtt between min and max sample, no Duration overflow for samples <= 2^60 s. "
          "The model is tied to the real RttEstimator by differential runs on generated op lists; the boolean predicate c16_ok, "
          "proved true of every model trace, is also evaluated (extracted) on the implementation's own traces.",
  "design_ref": "DESIGN.md section 6 C16",
  "note": "Trusted: Coq kernel, hand-written model, extraction (ExtrOcamlBasic), OCaml driver, Rust harness, generators. "
          "No axioms. Correspondence is differential testing: a behavioural difference on an input never generated is not seen.",
  "technique": "Coq proof (induction over op lists) + differential correspondence model vs impl",
 },
 "C09": {
  "text": "Arithmetic clause proved in full: for every pair of u16 values whose true modular distance is within the tolerance "
          "(any tolerance <= 32767) seq_nr_offset returns that distance, ordering agrees with its sign, and the function is "
          "shift-invariant; a refutation witness shows it fails beyond the tolerance. Tied to the real seq_nr_offset by "
          "exhaustive rows (all 65536 values of `new` for boundary and random `old`). The trace-shift clause is partial: "
          "it is added with the connection-level model.",
  "design_ref": "DESIGN.md section 6 C09",
  "note": "Trusted: as C16. No axioms. WRAP_TOLERANCE re-read from the compiled crate on every run. "
          "Partial: packet-trace shift invariance of a whole connection is not yet covered by this check.",
  "technique": "Coq proof (lia over mod 2^16) + row-exhaustive correspondence",
 },
}

CHECKS["C04"] = {
  "text": "Receive side (OutOfOrderQueue + MsgQueue + UserRx + read half) modelled as one state machine; theorems over EVERY "
          "op list (any arrival order, duplicates, beyond-window, after FIN, any reader behaviour, any capacity): accounting "
          "invariant (no unwrap/index panic), the ack counter advances by exactly the returned count and never moves back, the "
          "slot after the acknowledged prefix is a hole (ack = highest in-order), SACK bit i <-> slot filled_front+1+i occupied, "
          "SACK absent iff nothing held out of order, advertised window <= free space of the configured buffer, in-order stream only "
          "grows by appending and reads return its next bytes (no discard). Tied to the real UserRx/UtpStreamReadHalf by differential "
          "op-list runs comparing every observer, waker registrations and wake-ups; the extracted predicate c04_ok (proved true of every "
          "model trace) is evaluated on the implementation's traces.",
  "design_ref": "DESIGN.md section 6 C04",
  "note": "Trusted: Coq kernel, hand-written model, extraction, drivers, generators; atomicity of each locked method. No axioms. "
          "Partial: the dispatcher-side use (ack_nr/wnd_size/SACK of emitted packets computed from this state, rounding to MSS) is "
          "covered at the connection level, not by this component check.",
  "technique": "Coq proof (invariant by induction over op lists) + differential correspondence",
}

ALL = ["C%02d" % i for i in range(1, 20)]
NOT_APPLICABLE = {p: "check not built yet at this commit (planned: DESIGN.md section 6); not claimed"
                  for p in ALL if p not in CHECKS}

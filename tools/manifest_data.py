HOOK_COMMITS = ["fa59ca4", "baa2ee5", "5fa5168", "a80d288", "9c271e5", "dffdcac", "c6223e9", "a6c4b2b", "4f34dac"]
NOTES = ("Technique family: machine-checked proof in Coq 8.16.1 about hand-written executable models, tied to /repo "
         "by a differential correspondence check that runs on every invocation (see DESIGN.md). "
         "not_applicable lists properties whose check is not built yet at this commit; none is judged out of reach of the technique.")

CHECKS = {
 "C16": {
  "text": "All clauses of the property are theorems over every finite sequence of samples and timeouts of the Gallina model of "
          "src/rtte.rs (induction, no bound): rto in [200 ms, 60 s], rto = clamp(srtt + max(4 rttvar, 10 ms)) after a sample, "
          "doubling on timeout, sample resets, srtt between min and max sample, no Duration overflow for samples <= 2^60 s. "
          "The model is tied to the real RttEstimator by differential runs on generated op lists; the boolean predicate c16_ok, "
          "proved true of every model trace, is also evaluated (extracted) on the implementation's own traces.",
  "design_ref": "DESIGN.md section 6 C16",
  "note": "Trusted: Coq kernel, hand-written model, extraction (ExtrOcamlBasic), OCaml driver, Rust harness, generators. "
          "No axioms. Correspondence is differential testing: a behavioural difference on an input never generated is not seen.",
  "technique": "Coq proof (induction over op lists) + differential correspondence model vs impl",
 },
 "C09": {
  "text": "Arithmetic clause proved in full: for every pair of u16 values whose true modular distance is within the tolerance "
          "(any tolerance <= 32767) seq_nr_offset returns that distance, ordering agrees with its sign, and the function is "
          "shift-invariant; a refutation witness shows it fails beyond the tolerance. Tied to the real seq_nr_offset by "
          "exhaustive rows (all 65536 values of `new` for boundary and random `old`). The trace-shift clause is partial: "
          "it is added with the connection-level model.",
  "design_ref": "DESIGN.md section 6 C09",
  "note": "Trusted: as C16. No axioms. WRAP_TOLERANCE re-read from the compiled crate on every run. "
          "Partial: packet-trace shift invariance of a whole connection is not yet covered by this check.",
  "technique": "Coq proof (lia over mod 2^16) + row-exhaustive correspondence",
 },
}

CHECKS["C04"] = {
  "text": "Receive side (OutOfOrderQueue + MsgQueue + UserRx + read half) modelled as one state machine; theorems over EVERY "
          "op list (any arrival order, duplicates, beyond-window, after FIN, any reader behaviour, any capacity): accounting "
          "invariant (no unwrap/index panic), the ack counter advances by exactly the returned count and never moves back, the "
          "slot after the acknowledged prefix is a hole (ack = highest in-order), SACK bit i <-> slot filled_front+1+i occupied, "
          "SACK absent iff nothing held out of order, advertised window <= free space of the configured buffer, in-order stream only "
          "grows by appending and reads return its next bytes (no discard). Tied to the real UserRx/UtpStreamReadHalf by differential "
          "op-list runs comparing every observer, waker registrations and wake-ups; the extracted predicate c04_ok (proved true of every "
          "model trace) is evaluated on the implementation's traces. Connection level (component vsock_ack): the M3 model vs the real "
          "VirtualSocket differentially on shared + receive-side scenarios, and the trace predicate c04_vsock_ack_ok (an emitted ack_nr k "
          "above the starting number requires that all k sequence numbers in between were delivered; emitted ack numbers never move "
          "back) evaluated on every implementation trace - MONITORED, not yet a theorem of the M3 model (it found D19).",
  "design_ref": "DESIGN.md section 6 C04",
  "note": "Trusted: Coq kernel, hand-written model, extraction, drivers, generators; atomicity of each locked method. No axioms. "
          "Partial: the dispatcher-side use (ack_nr of emitted packets) is monitored by c04_vsock_ack_ok and by the M3 correspondence; "
          "wnd_size/SACK of emitted packets are covered by the correspondence only.",
  "technique": "Coq proof (invariant by induction over op lists) + differential correspondence",
}

CHECKS["C15"] = {'design_ref': 'DESIGN.md section 6 C15, sections 2.1, 8, 10',
 'note': 'Axioms: exactly the four library axioms of Coq Reals/Flocq (ClassicalDedekindReals.sig_forall_dec, '
         'ClassicalDedekindReals.sig_not_dec, FunctionalExtensionality.functional_extensionality_dep, '
         'Classical_Prop.classic); none declared here. Trusted: Coq kernel, Flocq as the meaning of Rust f64 '
         'arithmetic, hand-written model, extraction, OCaml driver (B754<->float bits), Rust harness, '
         'generators. libm oracles for RUNNING the model only: powf = OCaml Float.pow (glibc pow, the symbol '
         'Rust calls); cbrt = exact correctly-rounded cube root in Gallina (Cubic/Libm.v) because Rust 1.95 '
         "f64::cbrt is compiler-builtins' CORE-MATH port (correctly rounded) and differs from glibc/OCaml "
         'Float.cbrt by 1 ulp on about half of all inputs (DESIGN section 10 anticipated this; resolved '
         'without restricting cases). Partial: byte-level slow-start bound and the MSS-change clause of '
         'c15_obs_ok are validated on traces, not proved. Window bounds hold once the peer window has been '
         're-applied after an MSS change: between set_mss and the next set_remote_window the stored window '
         "(MSS units) is stale and window() can exceed the peer window when 2*mss' > win (Example "
         'stale_rwnd_after_mss_increase; stream_dispatch.rs:1251). Correspondence is differential testing: a '
         'behavioural difference on an input never generated is not seen.',
 'technique': 'Coq proof over Flocq binary64 (case analysis on float classes, monotonicity of rounding, '
              'relative error) + differential correspondence model vs impl + extracted predicate on impl '
              'traces',
 'text': 'Model: src/congestion/cubic.rs over Flocq 4.1.0 binary64 (f64::max/min, `as usize`, `usize as '
         'f64`, Duration::as_secs_f64 and the compile-time constants written out); cbrt and powf(.,3.) are '
         'universally quantified functions with no hypothesis. Theorems (Props/C15.v): c15_window_bounds - '
         'for EVERY float state (NaN, +-inf included), 1 <= mss < 2^16, win < 2^32, after set_remote_window '
         'win the byte window is an integer in [min(2 mss, win) - 1, win] (the -1 is float-to-integer '
         'truncation, tight: Example win 5 mss 1232 -> 4); c15_window_clamp_exact - min(max(cwnd,2),rwnd) '
         'exact in MSS units for every float cwnd; c15_loss_never_increases - for every cwnd (NaN/inf '
         'included) and finite peer window, RTO and enter-recovery never increase window() nor the clamped '
         'cwnd, set ssthresh = max(fl(cwnd*0.7),2), sshthresh() >= 2 mss; c15_loss_cwnd_mss_units - '
         "real-valued form for finite cwnd >= 0 (0.7 = 6305039478318694/2^53); c15_set_mss_rescales - cwnd' "
         "= fl(cwnd*fl(mss/mss')), cwnd' mss' = cwnd mss (1+d), |d| <= 3*2^-53, never a reset; "
         "c15_slow_start_growth_partial - PARTIAL: slow-start growth proved in MSS units (cwnd' = "
         "max(min(fl(cwnd+fl(len/mss)),rwnd),2)); the byte-level bound window' <= window+len+1 is not a "
         'theorem, it is a clause of the extracted predicate c15_obs_ok evaluated on every implementation '
         'trace; c15_model_trace_core_ok - the rounding-independent clauses of c15_obs_ok hold on every '
         'model trace (induction over op lists, any cbrt/powf). Tie to the real Cubic: differential runs '
         'through the CongestionController trait (window(), sshthresh(), smss() after every call, integers '
         'only) on generated event sequences incl. congestion-avoidance runs; a second component compares '
         'the bit patterns of the real f64::cbrt / f64::powf(.,3.) with the oracles used to run the model.'}

CHECKS["C19"] = {
  "text": "UserTx ring + UtpStreamWriteHalf modelled as a state machine; theorems over EVERY op list: |ring| <= capacity <= "
          "max(initial, max); bytes accepted minus bytes removed = |ring| and the ring is exactly that suffix of what was written "
          "(nothing lost, duplicated or reordered, also across grow); a write on a full live ring stores nothing, returns Pending and "
          "leaves the writer waker registered; grow keeps the contents and sets capacity to min(2c, max) only when c < max; "
          "truncate_front removes exactly min(n, |ring|) oldest bytes; a registered writer waker is fired by the dispatcher's wake and by "
          "mark_vsock_closed; a successful write fires a registered dispatcher waker. Tied to the real UserTx/UtpStreamWriteHalf by "
          "differential op-list runs (ring content hash, capacity, flags, waker registrations, wake counts); extracted predicate c19_ok on impl traces.",
  "design_ref": "DESIGN.md section 6 C19",
  "note": "Trusted: Coq kernel, hand-written model, extraction, drivers, generators; atomicity of each locked method; ringbuf crate. No axioms. "
          "Partial: that the dispatcher wakes the writer whenever acknowledgements free space (truncate_front followed by the wake) is a "
          "connection-level fact covered with the connection model, not by this component check.",
  "technique": "Coq proof (invariant by induction over op lists) + differential correspondence",
}

CHECKS["C11"] = {'design_ref': 'DESIGN.md section 6 C11',
 'note': 'Trusted: as C16, plus tools/bep29.py. No axioms. Accept/reject theorems assume the input is a list '
         'of bytes (bytes_okb). Emitted-datagram clause: theorems at the connection tier (hypothesis '
         'c11_config_ok: the configured initial sequence numbers / remote connection id are u16) and at the '
         'dispatcher tier (hypothesis: random_u16 values and parsed datagram fields are u16); refuted at the '
         'dispatcher tier: the connection id of a SYN-ACK is not checked against the id the SYN announced '
         '(c11_disp_syn_ack_conn_id_unchecked_refuted). Finding W1 (serialize with '
         'SACK and close reason together wrote a malformed chain) was found by this check and is repaired in '
         '/repo 2f571a9; model, theorems and generators are for the repaired code.',
 'technique': 'Coq proof (induction over the extension chain; iff with a declarative packet grammar) + '
              'enumerative/differential correspondence + independent-parser oracle',
 'text': 'Header level, all proved over every list of bytes / every header of the Gallina model of '
         'src/raw.rs, selective_ack.rs, ext_close_reason.rs and message.rs (no bound): deserialize accepts '
         'exactly the declarative BEP-29 shape (>= 20 bytes, version nibble 1, type <= 4, extension chain of '
         '(next,len,data) triples that fits) and returns the big-endian fields and the boundary 20 + '
         'sum(2+len) (iff, both directions); the panic sites of UtpMessage::deserialize are unreachable; '
         'payload present iff ST_DATA (iff); unknown extensions are skipped without moving the boundary; '
         'serialising any in-range header whose SACK (if present) has the 64-bit length SelectiveAck::new '
         'produces, into a buffer that holds it, and parsing the bytes back (any payload behind) yields the '
         'same header and length; parsed headers with a SACK of another length re-serialise to that 64-bit '
         'normal form, which is then stable (documented boundary of "any header", with a refutation witness '
         'for the literal statement). Model tied to the real code by structural enumeration of extension '
         'chains x every truncation, random byte strings and random headers (all combinations of SACK / '
         'close reason / buffer length); the extracted predicates c11_de_ok / c11_msg_ok / c11_ser_ok and an '
         "independent python BEP-29 parser are evaluated on the implementation's own outputs. Emitted datagrams "
         "(connection tier, Gallina model of VirtualSocket::poll, every state / event list, any peer, transport and "
         "congestion controller): every datagram a poll emits carries the connection's send id (ST_SYN would carry the "
         "receive id), is ST_DATA / ST_FIN / ST_STATE, has a payload exactly when it is ST_DATA, a header whose fields "
         "are in range and whose SACK (if any) has the 64-bit length, so that serialize writes it with version 1 and "
         "deserialize returns the same header (c11_emitted_ok_every_trace, c11_conn_types_ok_every_trace, "
         "c11_packet_ok_on_the_wire); the extracted c11_emitted_ok / c11_conn_types_ok are evaluated on every datagram "
         "of every implementation trace (component vsock_wire). Dispatcher tier (every op list): every ST_SYN / "
         "ST_RESET the dispatcher emits is a well-formed 20-byte header with version 1; a ST_RESET goes to the address "
         "of the SYN it refuses, carries its connection id and acknowledges its sequence number (component disp_wire: "
         "the real parser accepts every datagram the real dispatcher sent). Refuted: the id announced by a SYN is not "
         "compared with the id of the SYN-ACK that completes the connect."}

CHECKS["C14"] = {'design_ref': 'DESIGN.md section 6 C14',
 'note': 'Trusted: as C16. No axioms. Header constants re-read from the compiled crate on every run. The '
         'search checks of the predicate apply only while the op discipline (outcomes for sizes handed out, '
         'consistent with some P) holds on the observed trace; well-formedness, ceiling, probe-midpoint and '
         'cooldown checks apply to every observation, and a PANIC is never accepted. Partial: see text.',
 'technique': 'Coq proof (induction over op lists, lia over div/mod 2^16) + differential correspondence '
              'model vs impl',
 'text': 'Partial: this check covers the path-MTU SEARCH and the u16 SIZE ARITHMETIC of src/mtu.rs '
         '(SegmentSizes). Theorems over every op list of the Gallina model (induction, no bound): on a path '
         'delivering exactly the payload sizes <= P, min_ss <= P <= max_ss is invariant; each probe outcome '
         'at least halves max_ss - min_ss and after ceil(log2(max_ss0 - min_ss0)) + 1 outcomes (16 for any '
         'u16 interval) min_ss = max_ss = P and is_probing = false; next_segment_size hands out mss or the '
         'probe midpoint, never above max_ss, above mss only at cooldown 0; min_ss <= max_ss and, WHATEVER '
         'sizes are reported delivered or failed (any usize, in particular the sizes of payloads received '
         'from the peer), max_ss and every size handed out stay <= the ceiling implied by the configured '
         'link MTU (<= 65487), so the one u16 overflow of next_probe (min_ss = max_ss = 65535) is '
         'unreachable and no op list panics. (Before the repair afb839c of D3 the ceiling clause was false: '
         'new(1500, ipv4); delivered 5000 gave mss 5000 > 1452, and delivered 65535 panicked; both are now '
         'regression cases.) Tied to the real SegmentSizes (public API) by differential runs: scripted '
         'binary searches for link MTUs 0..1500 x both families x boundary and random P, structured and '
         'hostile op lists (usize values that truncate as u16), single peer payloads right after new; the '
         'extracted predicates c14_ok / c14_search_ok / c14_d3_ok, proved true of every model trace, are '
         "evaluated on the implementation's own traces. NOT covered here (connection level, later): sizes of "
         'emitted datagrams, at most one outstanding probe and it is the newest segment, data intact on a '
         'black-holing path (D1, KF1).'}


_DISP_NOTE = ("Trusted: Coq kernel, hand-written model of src/socket.rs (Dispatcher), extraction, drivers, the cfg-guarded DispatcherDriver hook, "
              "generators. No axioms. The model's steps are run_once arms plus the channel operations of the other tasks; "
              "connections themselves are opaque objects at this tier.")
CHECKS["C12"] = {
  "text": "Socket Dispatcher (stream table, connecting slots, accept queue) modelled with every shared channel explicit; theorems over EVERY "
          "op list: connection keys unique, table never above the limit, a datagram is forwarded only to the live entry whose (peer address, "
          "connection id) it names and forwarding changes nothing, creation happens only below the limit under a key not in use and never "
          "replaces an entry, and NO step evicts a live connection (c12_live_never_evicted) - this last theorem became provable after the "
          "repair of D11 (a late Shutdown(key) removed a connection that re-used the key; fix 20e33c8). Tied to the real Dispatcher by "
          "differential op-list runs (one run_once at a time, including run_once parked in select!); extracted predicate c12_step_ok on impl traces.",
  "design_ref": "DESIGN.md section 6 C12",
  "note": _DISP_NOTE + " Partial: 'each connection carries its own byte stream intact' is C01 per connection; cross-connection interference "
          "inside a connection object is impossible by construction (a message only reaches the object it is forwarded to).",
  "technique": "Coq proof (invariant + per-step theorems over all op lists) + differential correspondence",
}
CHECKS["C13"] = {
  "text": "Accept/connect service of the Dispatcher: theorems over EVERY op list: at most 32 SYNs retained and at most 32 accept calls queued; "
          "a SYN that can be neither served nor queued gets exactly one ST_RESET with its sequence number, and only with a full backlog; the SYN "
          "queue is served strictly from the front and a new SYN is served directly only when nothing is queued (arrival order) - provable after "
          "the repair of D12 (a SYN arriving together with an accept call while the dispatcher was parked overtook cached SYNs; fix 205f51f); "
          "a match hands exactly one new connection to exactly one live acceptor, a dead acceptor consumes no request; four connecting slots per "
          "address, an abandoned connect releases its slot. Differential correspondence with the real Dispatcher; extracted predicate c13_step_ok.",
  "design_ref": "DESIGN.md section 6 C13",
  "note": _DISP_NOTE + " Partial: 'the two ends are wired to each other' (cross-matching ids and sequence numbers of StreamArgs) is checked by the "
          "connection-level construction (vsock_new) rather than proved here; a duplicate SYN still queued after its connection ended creates a "
          "second, peer-less accepted stream (documented boundary).",
  "technique": "Coq proof (per-step theorems over all op lists) + differential correspondence",
}
CHECKS["C08"] = {
  "text": "Socket-table half of the property: when the Shutdown of a connection that is gone is handled exactly its entry is released and nothing "
          "else is touched (a Shutdown for a key since re-used by a live connection is ignored), the table stays within the limit, and a datagram "
          "for a released or dead key reaches nobody. Theorems over every op list of the Dispatcher model + differential correspondence.",
  "design_ref": "DESIGN.md section 6 C08",
  "note": _DISP_NOTE + " Partial: termination of the connection task within a bounded time and silence after Ready are connection-level "
          "(timers of VirtualSocket::poll) and are not covered by this check; promptness of CancellationToken is runtime behaviour.",
  "technique": "Coq proof (per-step theorems over all op lists) + differential correspondence",
}

CHECKS["C10"] = {'design_ref': 'DESIGN.md section 6 C10',
 'note': 'Trusted: Coq kernel, hand-written model, extraction, drivers, generators. No axioms. Not covered: '
         'the socket-level clauses of C10 (unparseable datagrams, unknown peers / connection ids, '
         'cross-contamination between connections). Assumed-and-monitored: transport legitimacy (no invented '
         'EMSGSIZE, limit >= family minimum, limit fixed before the first poll) as a guard inside '
         'c10_step_ok. Known class reported through known_findings.json id KF2 (D15 is repaired: regression example).',
 'technique': 'Coq proof (joint invariant, Hoare-style lemmas per function of VirtualSocket::poll) + '
              'differential correspondence + extracted predicates on impl traces (shared + hostile '
              'generators)',
 'text': 'PARTIAL (single-connection half only; poll is covered function by function, not yet composed into '
         'one theorem about VirtualSocket::poll). Theorems over the Gallina model of stream_dispatch.rs for '
         'an arbitrary congestion controller: a joint invariant vs_inv (rx_inv, seg_inv, tx_inv, the '
         'ring/segment-table byte relation, segment-size and RTO-state well-formedness, duplicate-ACK '
         'counter range) holds of every freshly built connection with a valid configuration and is preserved '
         'by every application/environment event; send_data, send_tx_queue (RTO branch, recovery loop, '
         'new-data loop, probe pop) and split_tx_queue_into_segments preserve it and reach neither a panic '
         '(offset underflow, RTO-estimator overflow, next_segment_size overflow) nor '
         'BugOffsetBeyondBufferBounds / BugRequestedLengthExceedsBufferBounds / BugInBufferComputations, and '
         'BugEmsgSizeNoProbe only if the transport answers EMSGSIZE (strict = true excludes it); state_table '
         'reports BugUnexpectedPacketInSynReceived only from that state (no other Bug site: a closed '
         'connection ignores every queued packet but a RESET, c10_closed_ignores_packets / _messages, repair of D15) and '
         'SynReceived never reaches the message loop; UserRx::add_remove with ST_DATA/ST_FIN never yields '
         'BugInvalidMessage / BugAssemblerMissingSlot / a panic; truncate_front by the bytes acknowledged in '
         'one poll never yields BugTruncateFront; bounded buffering (ring <= cap <= max(initial,max), user '
         'queue <= rx buffer, reassembly queue <= its slot capacity, segmented bytes <= ring). NOT proved: '
         'the invariant across process_incoming_message / recv_loop / process_all_incoming_messages '
         '(remove_up_to_ack, rtte.sample and calc_pipe panics are therefore not excluded by a theorem), the '
         "composition through poll_body, the bound on poll's restart loop. Refutation witnesses, "
         'reproduced on the real code: KF2 (peer payload size, and ACK of a never-sent MTU probe, taken as '
         'proof for the forward path -> BugEmsgSizeNoProbe). Regression example c10_closed_pending_regression: the '
         'witness of the repaired D15 (Pending in state Closed, then a queued message, formerly BugRecvInClosed) now '
         'satisfies c10_step_ok. The extracted predicates c10_step_ok (no PANIC, no EBUG_* under a legitimate '
         'transport) and c10_bounded are evaluated on every implementation trace, including a hostile '
         'generator.'}

CHECKS["C02"] = {'design_ref': 'DESIGN.md section 6 C02',
 'note': 'Trusted: as C10; wakers are flags plus wake events, the harness uses one counting waker per task. '
         'No axioms. Known class reported through known_findings.json id D9 (D2, D8, D14 are repaired: theorems / regression examples).',
 'technique': 'Coq proof (component-level wake-up lemmas lifted to vstep) + refutation witnesses by '
              'vm_compute + differential correspondence + extracted step/trace predicates on impl traces '
              '(shared + wake-up generators)',
 'text': 'PARTIAL (wake-up half = safety only; eventual delivery and the silence bound are not covered). '
         'Theorems over every state of the model: a write that stores bytes, and dropping the write half, '
         'wake the dispatcher parked on the TX waker; a read that returns bytes, and dropping the read half, '
         'wake the dispatcher parked on the RX waker; UserRx::flush registers the RX dispatcher waker '
         'whenever less than one creation-time MSS of window is left (the invariant behind the zero-window '
         'wake-up, true when the MSS has not changed since creation); since the repairs of D2 and D8: the first '
         'poll_shutdown on an empty ring wakes the dispatcher parked on the TX waker (c02_shutdown_wakes_ok), and a flush '
         'that hands at least one item to the user queue - bytes or the EOF alone - wakes the parked reader '
         '(c02_rx_flush_wakes_reader); regression examples on the former witnesses of D2, D8 and D14 '
         '(c02_probe_expiry_rto_regression: after an expired MTU probe is popped with other segments outstanding the '
         'retransmission timer is re-armed, c02_rto_armed holds on the whole trace). Refutation witness, reproduced '
         'on the real code: D9 (zero '
         'window advertised against the current MSS, waker registered against the creation-time MSS). '
         'Validated on implementation traces only (no theorem yet): c02_parked_ok (a registered reader waker '
         'implies an empty user queue and a live connection), c02_timer_ok (sleep armed for the earliest '
         'timer, self-wake when due), c02_rto_armed (outstanding data => retransmission timer armed), c02_prompt (write / shutdown on an idle established connection '
         'followed by a poll at the same clock emits ST_DATA / ST_FIN), c02_eof_wakes, '
         'c02_zero_window_waker, c02_shutdown_wakes.'}

CHECKS["C17"] = {
  "design_ref": "DESIGN.md section 6 C17",
  "technique": "Coq proof (case analysis / symbolic evaluation of the model of VirtualSocket::poll, Hoare-style frame lemmas for "
               "every function of a poll) + differential correspondence model vs impl + extracted predicates on impl traces",
  "text": "Model: Conn/VSock.v (VirtualSocket::poll and all it calls), any congestion controller. Theorems (Props/C17.v): "
          "c17_transition_table - the whole (state, packet type) table of process_incoming_message, one conjunct per arm of the Rust "
          "match with its guard (21 rows; (Closed, _) is ignored since the repair of D15, a FIN in SynAckSent is honoured only in "
          "sequence since the repair of D19), c17_table_drop_unchanged (a dropped packet changes nothing, not even its ack is processed), "
          "c17_table_keeps_our_fin; c17_synack - complete case analysis of maybe_send_syn_ack (first SYN-ACK = ST_STATE with seq = isn, "
          "ack = remote SYN seq, state SynAckSent 1, resend timer now+200 ms; nothing before the timer; one more at expiry with k < max; "
          "error at k = max; transport pending / send error cases), c17_synack_exhausted_poll (the whole poll returns "
          "MaxSynAckRetransmissionsReached), c17_body_rest_frame (nothing after maybe_send_syn_ack touches counter or timer); "
          "c17_own_fin - maybe_send_fin emits at most one datagram, a FIN carrying the number recorded in FinWait1/LastAck, only when it "
          "directly follows last_sent_seq_nr, c17_own_fin_sends (and then it does), c17_transition (the number is seq_nr), "
          "c17_should_close_guard, c17_fin_after_all_data - FIN only after every accepted byte was segmented and every segment sent, "
          "under the hypothesis split_fresh (unsegmented = ring length - segmented length, saturating); since the repair of D10 "
          "c17_split_fresh_after: EVERY split_tx_queue_into_segments that looks at a non-empty send buffer before the peer's FIN "
          "establishes split_fresh (the early return on an outstanding MTU probe included; c17_split_empty_ring: with an empty buffer "
          "it only registers the waker), and c17_fin_after_all_data_in_poll: the composition split -> send_tx_queue -> "
          "should_close_on_own_initiative exactly as in poll_body yields the conclusion with NO hypothesis on unsegmented "
          "(send_tx_queue leaves unsegmented, the ring and the segmented length alone unless it requests a restart, "
          "c17_send_tx_queue_uframe); since the repair of D13 c17_send_data_seq_nr_mono: send_data leaves seq_nr alone or raises it "
          "(circular order) to one past the segment just sent, never lowers it; c17_peer_fin_out_of_sequence (no "
          "change at all; also in SynAckSent since D19), c17_peer_fin (in sequence from Established: consumed, immediate ACK forced, own FIN numbered seq_nr, LastAck); "
          "c17_reset - a RESET at the head of the inbox past the handshake makes the same poll return StResetReceived with NOTHING "
          "emitted (no FIN, no reply), both halves closed, error queued; c17_reset_message_acks_fin / c17_reset_ok_recv_loop - the "
          "RESET acknowledging our FIN in LastAck closes without error, the rest of the poll still runs; c17_poll_frame. "
          "REGRESSIONS (vm_compute on the op lists of the former refutations): c17_fin_overtakes_data_regression (D10 repaired: with 100 "
          "written bytes unsegmented behind an outstanding MTU probe the connection stays Established, unsegmented = 100, no FIN) and "
          "c17_fin_number_collides_with_data_regression (D13 repaired: after the RTO rewind and the retransmission of 102 seq_nr stays "
          "104, the FIN is numbered 104, above every data segment on the wire and outstanding). Predicates evaluated on every implementation trace: c17_synack_ok, "
          "c17_fin_after_data_ok, c17_fin_number_step_ok, c17_fin_seq_ok, c17_peer_fin_ok, c17_reset_ok, c17_reset_trace_ok.",
  "note": "Trusted: as C16, plus the connection-level correspondence (vsock component). No axioms. PARTIAL: the step/trace "
          "predicates are proved at function level (the theorems above are about maybe_send_syn_ack, maybe_send_fin, state_table, "
          "process_incoming_message, recv_loop and about whole polls for the RESET / exhausted SYN-ACK cases); the theorem 'every model "
          "step satisfies predicate P' (vstep-level, with invariant) is NOT proved for any of the seven predicates - they are "
          "monitored on implementation traces only. split_fresh after an EMPTY-buffer segmentation (the field keeps its old value) "
          "and the whole-trace numbering invariant (every segment number below seq_nr) are not theorems. FIN retransmission on timeout is covered by the correspondence, "
          "not by a theorem.",
}

CHECKS["C03"] = {
  "design_ref": "DESIGN.md section 6 C03",
  "technique": "Coq proof (component models + inversion of the poll's continuation structure) + differential correspondence",
  "text": "Ok from flush / shutdown implies the ring is empty (c03_flush_ok_ring_empty, c03_shutdown_ok_ring_empty: every accepted byte was "
          "acknowledged and removed). c03_poll_ready_died - a poll returns Ready only through just_before_death (structural inversion of "
          "poll_body / poll_loop, every state); c03_death_resolves / c03_ok_death_resolves / c03_drop_resolves - after just_before_death "
          "(and after Drop, also on cancellation) both halves are marked closed, the error is queued, every registered application waker "
          "was fired and none is registered, and in terms of the component models: every later read with a non-empty buffer returns "
          "bytes, EOF or an error, never Pending (c03_read_after_close_never_pending, with the fuel argument of the read loop), "
          "poll_write returns 'socket closed' (after at most one self-woken yield), poll_flush / poll_shutdown return an error while "
          "bytes are unacknowledged and Ok when none are; c03_failure_bounded_partial / c03_max_retransmissions_error - an RTO expiry on "
          "a segment already retransmitted max times fails the connection; c03_eof_after_all_partial - a FIN is handed to the reader "
          "side only if in sequence in the data states. Predicate c03_after_death_ok (Ready poll => both halves closed, wakers fired; "
          "no call parks on a closed half) evaluated on every implementation trace; rx and tx component correspondences included.",
  "note": "Trusted: as C16/C04/C19. No axioms. PARTIAL: (g) the reader-level statement 'EOF only after every earlier byte' relies on "
          "C04's stream theorems and is not restated end to end; (h) inactivity expiry is not a theorem (it is the `if` of poll_body); "
          "the vstep-level theorem for c03_after_death_ok is not proved (function-level theorems + monitoring); the vsock trace stops "
          "at the Ready poll, so the after-death clause of the trace predicate is vacuous there and is carried by the component theorems.",
}

CHECKS["C05"] = {
  "text": "Connection level, about the Gallina model of VirtualSocket::poll's send path (Conn/VSock.v), for EVERY state and every abstract "
          "congestion controller; stated per function (send_tx_queue, new_data_loop, split_tx_queue_into_segments, "
          "process_all_incoming_messages), not about the whole poll. Theorems (Props/C05.v): c05_new_data_le_window - outside Recovering one "
          "call of send_tx_queue emits either at most one datagram of the RTO part (timer expired) or new-data datagrams whose payload is <= "
          "sat_sub(min(cwnd, last_remote_window), calc_flight_size), hence flight + sent <= min(cwnd, rwnd) whenever anything is sent; "
          "c05_flight_size_exact / c05_true_flight_le_window - the same in terms of the true sum of transmitted-and-undelivered payload under the "
          "tolerance hypothesis (<= 1024 transmitted segments, no rewind pending); c05_zero_window_budget/_loop/_silent - rwnd = 0 outside "
          "recovery: the new-data loop sends nothing (needs every segment >= 1 byte: c05_segment_loop_pos shows the segmentation loop keeps that); "
          "c05_after_rto_single, c05_rto_mode_single - after the RTO part retransmitted the head the counter is positive and each later call "
          "emits at most the one RTO datagram, only at a further expiry; c05_rto_mode_exit_ack / _exit_probe - the counter is reset only when "
          "the poll's messages acknowledged or SACKed something new (also in the poll that sees the message channel closed, since the repair "
          "of D17), or (boundary B6) when an expired MTU probe is popped; "
          "c05_slow_start_bound_partial - PARTIAL: counted flight + sent <= cc.window at every new-data transmission; the bound 2*mss + acked "
          "bytes on that window is C15's. REFUTED on the real code (reported, not counted as violation): 'after a zero window it sends no new "
          "payload': the RTO part transmits the head segment even if it was never sent and the window is 0 (case in the note). Predicates "
          "c05_window_ok, c05_zero_window_ok, c05_rto_single_ok, c05_monitor_ok (Conn/C05_Pred.v, extracted) are evaluated on every "
          "implementation trace of the vsock correspondence (shared open/closed-loop generators + targeted closed-loop scenarios: zero-window "
          "episodes, RTO chains to the cap, dup-ACK/SACK fast retransmit).",
  "design_ref": "DESIGN.md section 6 C05",
  "note": "Trusted: as C16, plus the vsock correspondence for 'the poll is the composition of these functions'. No axioms. "
          "Assumed-and-monitored (c05_monitor_ok on every fingerprint): segment payload >= 1, rto_retransmissions >= 0, never-sent undelivered "
          "segments form a suffix, mss >= 1. The predicates are proved about the model only at the level of send_tx_queue (their guards select "
          "polls that ended Pending, counter 0, not Recovering); the poll-level statement is validated on traces. Witness of the refuted clause: "
          "vsock out 1 1500 1048576 32768 1048576 0 5 10000000000 1 1 100 1 7 1048576 5 1000000 W3000,0 P M2,1,101,0,10,0,0,- P T3000000000 P "
          "(last poll: ST_DATA seq 102, 991 bytes, first transmission, f_last_remote_window = 0).",
  "technique": "Coq proof (Hoare-style lemmas per function, induction over the send loops) + differential correspondence + extracted predicates on impl traces",
}
CHECKS["C06"] = {
  "text": "Connection level, about the model's send path, Conn/Recovery.v and Tx/Segments.v, every state, abstract congestion controller; per "
          "function, not about the whole poll. Theorems (Props/C06.v): c06_rto_resends_first_unacked - at an expiry the RTO part sends exactly the "
          "first undelivered segment of the table; c06_backoff_doubles / _within_bounds - the timer it leaves is now + min(2 rto, 60 s) for a data "
          "segment and for the FIN, now + rto with estimator and controller untouched for an MTU probe (boundary B6), rto stays in [200 ms, 60 s]; "
          "c06_retry_cap_send_data / _rto / _poll, c06_sent_below_cap - a segment at max_segment_retransmissions makes send_data return "
          "MaxRetransmissionsReached without emitting, send_tx_queue and the poll return that error (FIN retransmissions are not capped by this "
          "counter: the FIN branch never consults it); c06_never_resend_acked - every ST_DATA of a call names a segment present and undelivered in "
          "the table with the table's sequence number and carries `size` bytes of the ring at abs - removed; c06_dup_threshold (+ "
          "c06_count_sack_three/_one, c06_count_non_sack_repeat/_reset, c06_dup_empty_table_resets, c06_dup_ignored_until_recovery_point) - "
          "Recovering is entered exactly when the counted duplicates reach 3; c06_fast_retransmit - in Recovering with nothing retransmitted yet, "
          "no RTO mode and no expiry, the first item of the recovery iterator is sent; c06_karn_sample_source, c06_karn - an RTT sample comes "
          "only from a segment in SentTime state (sent exactly once) and is not taken while Recovering; c06_stable_content_partial, "
          "c06_joint_inv_ack_then_truncate_partial - PARTIAL: under the joint invariant removed_offset = bytes truncated from the ring a "
          "datagram's payload is the slice [abs, abs+size) of the written stream, equal for two transmissions with the same (abs, size); "
          "invariance of that relation is shown for the ack-then-truncate step of the pure functions and, at the connection, for "
          "process_all_incoming_messages as a whole: c06_joint_recv_loop, c06_joint_inv_process_all - from any state, once the receive "
          "loop has returned (also through its channel-closed arm) the function never reports BugTruncateFront and re-establishes "
          "removed_offset = bytes truncated; that every other function of the poll and every application event keep it is not assembled "
          "into one theorem here (C10's vs_inv covers them function by function). Finding T1 (= D17: the poll in which the message channel "
          "closes returned from process_all_incoming_messages before truncate_front, so a retransmission in that last poll carried other "
          "bytes) is repaired in the code and in the model; its witness is in the note. Predicates c06_backoff_ok, c06_cap_ok, "
          "c06_emitted_live_ok, c06_fast_retx_ok, c06_stable_plen_ok, c06_joint_ok (Conn/C06_Pred.v) evaluated on every implementation "
          "trace; c06_joint_ok no longer stops at the closing of the inbox.",
  "design_ref": "DESIGN.md section 6 C06",
  "note": "Trusted: as C05. No axioms. Assumed-and-monitored: rto within [200 ms, 60 s] (rto_in_bounds), retransmit counts <= cap, joint ring/table "
          "invariant after every Pending poll (whole trace). Payload bytes are compared by hash in the correspondence only; the stability "
          "predicate sees sizes. Former T1 witness (before the repair of D17): vsock out 1 1500 1048576 32768 1048576 0 5 10000000000 1 1 100 1 "
          "7 1048576 5 1000000 W1056,0 P M2,1,101,1048576,10,0,0,- Z T3000000000 P (seq 102 first carried bytes 528..1055; its "
          "retransmission in the last poll carried bytes 0..527; after the repair the last poll truncates the ring first: removed_offset = "
          "528 = bytes truncated).",
  "technique": "Coq proof (Hoare-style lemmas per function, induction over loops and ACK processing) + differential correspondence + extracted predicates on impl traces",
}

CHECKS["C07"] = {
  "text": "Connection level, about the Gallina model of VirtualSocket::poll (Conn/VSock.v), for EVERY state and event (no bound). "
          "Theorems (Props/C07.v): c07_no_pending_immediate_ack - a poll that ran to its end (Pending, transport writable) leaves "
          "consumed_but_unacked_bytes < 2*mss, immediate_ack_to_transmit = false and should_send_window_update = false: every "
          "immediate-ACK trigger (>= 2*mss bytes, out-of-order / gap fill / duplicate / FIN via usize::MAX, window zero<->non-zero) is "
          "served in the same poll, without a clock advance; needs mss >= 1, proved invariant (c07_mss_pos_new / c07_mss_pos_step). "
          "c07_delayed_ack_armed - after such a poll, unacknowledged consumed bytes imply the delayed-ACK timer is armed, expires within "
          "40 ms of that poll, and (nothing sent in the poll) not later than it did before (restart=false never moves it later). "
          "c07_delayed_ack_fires / c07_delayed_ack_fires_poll - at/after the expiry maybe_send_ack sends an ST_STATE carrying "
          "ack_nr = last_consumed, or the transport blocks, or nothing was owed and the timer is turned off; a completed poll at/after the "
          "expiry emits a packet or nothing was owed. The extracted predicates c07_immediate_ok, c07_delayed_ok, c07_fires_ok are proved "
          "true of every model trace (c07_*_model) and evaluated on the implementation's traces. PARTIAL: c07_silent_when_idle is not "
          "proved (predicate c07_idle_silent_partial is only monitored on implementation traces); the trigger-side lemmas about "
          "process_incoming_message (duplicate / FIN / out-of-order force usize::MAX and send an ACK right there) are not stated as "
          "theorems, they are covered by the differential run; the window-update trigger is not observable on the fingerprint.",
  "design_ref": "DESIGN.md section 6 C07",
  "note": "Trusted: as C16 plus the vsock harness/hook snapshot. No axioms. Constants ACK_DELAY = 40 ms and IMMEDIATE_ACK_EVERY_RMSS = 2 "
          "are re-read from the compiled crate on every run; the predicates carry them as literals. Assumed-and-monitored "
          "(c07_pre_monitor on every implementation trace): consumed_but_unacked_bytes > 0 implies last_consumed > last_sent_ack_nr in "
          "the tolerance-limited comparison; it is NOT an invariant of the model (an ack number more than 1024 ahead across the u16 wrap, "
          "D4, makes the expired delayed-ACK timer turn itself off with bytes unacknowledged).",
  "technique": "Coq proof (Hoare-style frame lemmas through every function of poll, inversion of the poll combinators) + "
               "differential correspondence model vs impl + extracted predicates on impl traces",
}

CHECKS["C18"] = {
  "text": "Connection level, about segment_loop / split_tx_queue_into_segments of the Gallina model of VirtualSocket (Conn/VSock.v), for "
          "every state (induction over the loop). Theorems (Props/C18.v): c18_no_partial_while_unacked - with Nagle on the loop appends "
          "exactly the logged segments and every segment cut while the table was non-empty has size = min(size offered by "
          "next_segment_size, remaining remote window); a smaller one is cut only with an empty table (c18_log_faithful ties the log to "
          "what the loop saw: offer >= mss, in-flight = table non-empty). c18_drain_sends - table empty, data buffered, window open, no "
          "peer FIN: split_tx_queue_into_segments enqueues at least one segment (Nagle on or off). c18_nagle_predicate_split - the "
          "extracted predicate c18_nagle_ok (a new segment with a predecessor in the table is >= the mss before the poll, or the bytes "
          "segmented up to it use up the peer's window) holds between the states before/after split_tx_queue_into_segments. PARTIAL: "
          "the lift of that predicate from split_tx_queue_into_segments to a whole poll (the other functions only remove or re-flag "
          "segments, messages are processed before segmentation) is not proved, it is checked on every implementation trace and by the "
          "differential run; c18_off_all_segmented (Nagle off) is not proved; no whole-poll predicate for the drain clause.",
  "design_ref": "DESIGN.md section 6 C18",
  "note": "Trusted: as C16 plus the vsock harness/hook snapshot. No axioms. Assumed-and-monitored (c18_pre_monitor): every segment "
          "starts below the table's next-byte offset. Polls that start with an undelivered MTU probe as newest segment are not judged "
          "(the probe may be popped and its bytes re-cut); with an MTU probe outstanding the code segments nothing further (boundary B4).",
  "technique": "Coq proof (induction over the segmentation loop with a logging twin of the loop) + differential correspondence + "
               "extracted predicate on impl traces",
}

PENDING_C14 = {'design_ref': 'DESIGN.md section 6 C14',
 'note': 'Trusted: as C16. No axioms. Header constants re-read from the compiled crate on every run. The '
         'search and ceiling checks of the predicate apply only while the op discipline (outcomes for sizes '
         'handed out, consistent with some P; no payload above the ceiling) holds on the observed trace; '
         'well-formedness, probe-midpoint and cooldown checks apply always. Partial: see text.',
 'technique': 'Coq proof (induction over op lists, lia over div/mod 2^16) + differential correspondence '
              'model vs impl',
 'text': 'Partial: this check covers the path-MTU SEARCH and the u16 SIZE ARITHMETIC of src/mtu.rs '
         '(SegmentSizes). Theorems over every op list of the Gallina model (induction, no bound): on a path '
         'delivering exactly the payload sizes <= P, min_ss <= P <= max_ss is invariant; each probe outcome '
         'at least halves max_ss - min_ss and after ceil(log2(max_ss0 - min_ss0)) + 1 outcomes (16 for any '
         'u16 interval) min_ss = max_ss = P and is_probing = false; next_segment_size hands out mss or the '
         'probe midpoint, never above max_ss, above mss only at cooldown 0; min_ss <= max_ss <= 65535 always '
         'and next_probe overflows u16 exactly at min_ss = max_ss = 65535 (refutation witness: '
         'on_payload_delivered(65535)); max_ss and every size handed out stay <= the ceiling implied by the '
         'configured link MTU PROVIDED no on_payload_delivered(n) with n above that ceiling occurs - the '
         'code feeds it the size of payloads received from the peer, and a refutation witness (new(1500, '
         "ipv4); delivered 5000 gives mss 5000 > 1452) records that the unconditional clause 'whatever sizes "
         "the peer uses' is FALSE of this component (D3; reproduced on the real code by the mtu_d3 cases, "
         'reported, not yet counted as a violation or a known finding). Tied to the real SegmentSizes '
         '(public API) by differential runs: scripted binary searches for link MTUs 0..1500 x both families '
         'x boundary and random P, structured and hostile op lists (usize values that truncate as u16); the '
         'extracted predicates c14_ok / c14_search_ok, proved true of every model trace, are evaluated on '
         "the implementation's own traces. NOT covered here (connection level, later): sizes of emitted "
         'datagrams, at most one outstanding probe and it is the newest segment, data intact on a '
         'black-holing path (D1, KF1).'}

CHECKS["C01"] = {'design_ref': 'DESIGN.md section 6 C01, sections 2.5, 7 (KF1)',
 'note': 'Trusted: Coq kernel, hand-written models (Conn/VSock.v per connection, Pair/Pair.v for two connections and the '
         'network, Pair/DP.v for the data-path composition), extraction, driver/c_pair.ml (replays the network bookkeeping '
         'to rebuild what was written and delivered), harness/src/comp_pair.rs (two real VirtualSockets, in-flight lists, '
         'size blackhole, UtpMessage::deserialize on delivery), generators, the hash standing for the bytes read. No axioms. '
         'PARTIAL: the refinement of the whole VirtualSocket::poll to data-path ops (poll_refines_dp) is not proved; the '
         'prefix property of the pair is therefore a monitored consequence (c01_pair_guarded on every implementation '
         'trace), not a theorem about the pair model. Not in the data-path system: FIN/EOF slots, the death path '
         '(rx_enqueue_error), closing of the message channel. Known class KF1 reported through known_findings.json.',
 'technique': 'Coq proof (joint invariant of ring + segment table + network bag + receiver by induction over all op lists) '
              '+ refutation witnesses by vm_compute + differential correspondence of two real connections against the pair '
              'model + extracted prefix predicate / KF1 classifier on implementation traces',
 'text': 'PARTIAL. Theorems (all op lists, induction, no bound) about the DATA-PATH system = the real glue of '
         'stream_dispatch.rs (send_data slicing, offset = seq - (last_consumed+1), add_remove, remove_up_to_ack + '
         'truncate_front, enqueue, probe pops, grow) over a network bag with arbitrary loss / duplication / reordering / '
         'delay, arbitrary ACK numbers and SACKs, arbitrary write / read chunking: (T1) every packet ever sent carries '
         'g_written[off, off+len) of its segment, is numbered (isn + index) mod 2^16, the assignment index -> (offset, '
         'length) tiles the written stream and never changes except that a probe pop removes its last entry; send_data\'s '
         'panic / Bug exits are unreachable; the same slice statement for the connection model\'s send_data. (T2) an '
         'accepted packet fills exactly one empty slot and appends exactly the bytes of the newly contiguous slots; a '
         'rejected one (duplicate, beyond capacity) changes nothing; reads return the next bytes of the in-order stream. '
         '(T3) c01_dp_prefix: under the guards d_clean (no KF1) and d_wrap (accepted packets within 2^16 - capacity behind '
         '/ 2^16 ahead), what was read is a prefix of what was written. c01_dp_prefix_unguarded_refuted and '
         'c01_pair_unguarded_refuted: without d_clean the model (and the real code: reproduced by the check) delivers '
         'overlapping bytes (KF1: MTU probe popped after a copy reached the peer). c01_prefix_sys_partial: pair states '
         'whose byte-carrying components form a guarded data-path state satisfy the property. Correspondence: the pair '
         'model agrees with two real VirtualSockets on every observation of generated loss / dup / reorder / delay / '
         'blackhole / EMSGSIZE / small-buffer / wrap / teardown schedules; c01_pair_guarded (extracted) holds on every '
         'implementation trace, c01_pair_ok fails only inside the KF1 class. c01_pair_channel_closed_regression: the op list '
         'that witnessed the repaired D17 (a segment retransmitted from the un-truncated ring in the poll that finds the '
         'message channel closed) now satisfies c01_pair_ok and is outside c01_d17_class; the corresponding case under CUBIC (the former witness on the real code) runs first in the '
         'component pair_sockdrop (message channels closed in mid-transfer), where c01_pair_ok itself must hold.'}

# ---------------------------------------------------------------------------------------------------
# Session 3: what was added to each check (appended to the texts above; see DESIGN.md 12.5 / 12.6)
def _more(prop, text=None, note=None, technique=None):
    if text:
        CHECKS[prop]["text"] = CHECKS[prop]["text"] + " ADDED: " + text
    if note:
        CHECKS[prop]["note"] = CHECKS[prop]["note"] + " ADDED: " + note
    if technique:
        CHECKS[prop]["technique"] = technique


_more("C02",
      "predicate c02_no_silent_stall (after a completed poll a segment that was cut but never sent, with nothing of ours in flight, no "
      "recovery and both windows wide enough, does not sit there with the retransmission timer off) evaluated on every implementation "
      "trace; closed-loop generators idle_after_history (send history incl. RTO rewinds, one cumulative ACK of everything, then "
      "shutdown / drop / write on the idle connection) and probe_blackhole (the MTU probe and its retransmissions silently discarded). "
      "Defect D20 (FIN never sent on a connection that went idle after an RTO rewind and a full cumulative ACK) found, repaired in /repo "
      "(1233027) and in the model (acked_counts_as_sent); regression theorem c02_fin_after_rto_rewind_regression.",
      "c02_no_silent_stall is monitored, not a theorem. c02_timer_ok is FALSE of the model in one corner (a stale recovery-pipe timer "
      "kept across a poll that blocked on the transport makes the next sleep earlier than the earliest timer of the fingerprint: "
      "harmless early wake-up; witness by the C02 proof branch) - the guarded form is the theorem.")
_more("C03",
      "cancellation: component vdrop drops the REAL connection future in mid-flight (op X: Drop for VirtualSocket, the only code run when "
      "the socket's cancellation token fires) at a random point of a scenario and then makes application calls on the halves that are "
      "left; the model side is drop_vsock followed by the component models; differential on every observation (results, wake-ups of the "
      "parked reader / writer); extracted predicates c03_drop_wakes_ok (a parked reader and a parked writer are woken by the drop) and "
      "c03_post_drop_ok (no later read / flush / shutdown parks, no write is accepted; a write may yield once, self-woken).",
      "the post-drop predicates are monitored; the component theorems c03_drop_resolves / c03_write_after_close / c03_flush_after_close / "
      "c03_read_after_close_never_pending are what they rest on.")
_more("C05",
      "generator profile peer_data_small_wnd (two-way traffic: the peer's own ST_DATA with a payload above our segment size carries a SMALL "
      "window, we always have more to send, several polls against the same advertised window) - the only way the congestion "
      "controller's window and last_remote_window disagree. The verdict logic no longer lets predicate failures inside a known class "
      "(D16) mask model/implementation disagreements or later failures.")
_more("C07",
      "window update: the fingerprint now carries UserRx::last_remaining_rx_window, so the window an ACK would advertise is computable "
      "from it (fp_rx_window = rx_window, lemma fp_rx_window_spec); predicate c07_window_update_ok (after a completed poll the window last "
      "advertised and the current one are on the same side of zero, until the peer's FIN) is a THEOREM of every model trace "
      "(c07_window_update_ok_model, from c07_no_pending_immediate_ack) and is evaluated on every implementation trace; half-closed "
      "(FinWait1 / FinWait2) receive scenarios added to the generators.")
CHECKS["C08"]["text"] = CHECKS["C08"]["text"] + (
    " Connection level (added): component vsock_deadline - the M3 correspondence on closing scenarios (C17's generators plus the "
    "closed-loop generator close_with_data_outstanding: data and FIN outstanding together, acknowledged by one cumulative ACK / "
    "separately / not at all, then silence or the peer's FIN) with the extracted predicate c08_deadline_ok (a poll that leaves the "
    "connection alive with its own FIN out has the inactivity / final-chance deadline armed and asked to be woken no later) on every "
    "implementation trace; component vdrop (cancellation: the real connection future dropped in mid-flight, then every half reports "
    "errors and nothing parks; see C03).")
CHECKS["C08"]["note"] = CHECKS["C08"]["note"].replace(
    "Partial: termination of the connection task within a bounded time and silence after Ready are connection-level "
    "(timers of VirtualSocket::poll) and are not covered by this check;",
    "Partial: c08_deadline_ok is monitored on implementation traces (the model theorem 'a deadline stays armed until Ready' is not "
    "proved); that the armed deadline is reached is the timer wheel's job;")
_more("C09",
      "trace-shift clause: component vsock_shift runs every scenario TWICE on the real VirtualSocket, the second time with our initial "
      "sequence number, the peer's and the connection id relabelled (and every message of the peer relabelled accordingly) so that the "
      "16-bit wrap falls inside the transfer; the extracted predicate c09_shift_ok (Conn/C09_Pred.v) requires the second trace to be the "
      "first one relabelled, field by field (every packet's seq/ack/connection id, the whole state fingerprint, results, wake-ups, timer "
      "arms). Claimed inside the tolerance guard c09_within_tol (all compared distances within WRAP_TOLERANCE / 4) only; traces outside it "
      "are counted as not judged.",
      "the model theorem c09_trace_shift (the same statement about ftrace of the model) is not proved yet at this commit: the trace-shift "
      "clause is decided by the metamorphic run on the implementation (testing) plus the arithmetic theorems.",
      "Coq proof (lia over mod 2^16) + row-exhaustive correspondence + metamorphic relabelling runs judged by an extracted predicate")
_more("C09",
      "MODEL THEOREM of the trace-shift clause (Conn/C09_Shift.v, Conn/C09_ShiftProofs*.v): shift_vsock da db dc relabels every "
      "sequence-number-valued field of the connection state (seq_nr, last_sent_seq_nr, snd_una, recovery point / high_rxt, the ack number "
      "remembered for duplicate counting, FIN numbers in the state, ack numbers of queued messages by da; last_consumed, last_sent_ack_nr, "
      "the remote FIN number, sequence numbers of queued messages by db; conn_id_send by dc), shift_op the delivered message, shift_vout the "
      "emitted packets. c09_vstep_shift: vstep (shift s) (shift o) = shift (vstep s o) for EVERY state and event satisfying the boolean "
      "guard c09_guard_vstep; c09_ftrace_shift / c09_model_trace_shift_ok / c09_model_runs_shift_ok: for every op list satisfying "
      "c09_guard_trace the trace of the relabelled run is the relabelled trace and the extracted c09_shift_ok holds of the two model "
      "traces (from vsock_new of the two parameter sets). Proved bottom-up: seq_sub/seq_gt (c09_seq_sub_shift), Segments "
      "(remove_up_to_ack, calc_flight_size, iter_for_sending, calc_pipe), Recovery::on_ack, state_table, process_incoming_message, "
      "recv loop, send_data, the recovery and new-data loops, send_tx_queue, split_tx_queue_into_segments, poll_body, the restart loop. "
      "The guard is dynamic: it follows the step (running the model's own functions for the intermediate states) and asks, at each "
      "wrap-tolerant comparison, that both operands are u16 values at true modular distance <= WRAP_TOLERANCE, and at each equality test "
      "that both are u16 values; the atomic condition is tight (c09_seq_sub_shift_tight). Non-vacuity: c09_guard_satisfiable (a scenario "
      "wrapping both numberings with out-of-order data, an RTO, a SACK fast recovery and both FINs). Outside the guard the clause is FALSE "
      "of the model: c09_shift_outside_guard_refuted (two segments outstanding at snd_una 65534, ACK number 30000: ignored; relabelled by "
      "10 it acknowledges everything) - class D4. c09_guard_trace_shift: the guard does not depend on the labelling (the relabelled "
      "scenario is inside it as well).",
      "the guard of the theorem (c09_guard_trace) needs the model state, not only the fingerprint; it can be evaluated on the inputs of a "
      "metamorphic case by the extracted model (c09_guard_trace_cubic, not yet registered in the driver). The fingerprint-level guard "
      "c09_within_tol used by the check is NOT proved to imply it (needs bounds on how far the numbers move inside one poll: open); "
      "c09_within_tol_shift shows it judges both runs alike.",
      "Coq proof (lia over mod 2^16; commutation of the whole connection model with the relabelling, by layers) + row-exhaustive "
      "correspondence + metamorphic relabelling runs judged by an extracted predicate")
_more("C10",
      "WHOLE-POLL THEOREMS (Conn/VSock_Poll*.v, 2400 lines): the strengthened joint invariant vs_x (vs_inv + per-segment send-time and "
      "MTU-probe facts + clock range) is preserved by process_incoming_message, recv_loop, process_all_incoming_messages, poll_body, the "
      "restart loop (each restart at least halves max_ss - min_ss, so the 64 iterations of fuel are never exhausted: c10_restart_halves, "
      "c10_poll_loop_no_panic) and every event; c10_run_no_panic_no_bug: from vsock_new with a valid configuration, for EVERY op list "
      "(any messages incl. malformed ones, any send scripts, any application calls, clock values within range) no step of the trace "
      "panics or reports a Bug error other than BugEmsgSizeNoProbe; c10_run_no_bug_strict: no Bug error at all when the transport never "
      "answers EMSGSIZE; c10_step_ok_model_nolimit: the extracted predicate holds on every such model trace. No sequence-number or "
      "tolerance hypothesis anywhere. Defect D21 (calc_pipe index panic on an ACK for never-sent segments with more than 1024 segments "
      "queued) was found by this proof, reproduced on the real code, repaired in /repo (c2f6a01); c10_calc_pipe_never_panics. Socket "
      "half: component disp_hostile drives the real Dispatcher with raw datagrams of every kind (garbage, truncation, bad version / "
      "type nibbles, extension chains that do not fit, payload rules, well-formed packets with unknown extensions aimed at live and "
      "unknown ids); the model is the extracted wire parser composed with the dispatcher model; a PANIC, an eviction or a forward to a "
      "connection the datagram does not name fails the predicate.",
      "the theorems assume cc_total (the congestion controller's on_ack does not panic; for CUBIC that is the Duration addition "
      "t + rtt not overflowing) and clock values in [0, SAMPLE_BOUND]. The text above that says the composition through poll_body is "
      "not proved is superseded by these theorems.")
_more("C12",
      "predicate c12_syn_fresh_ok (the connection id a SYN announces - the id the new outgoing connection will receive on - is not the key "
      "of an existing connection) evaluated on every implementation trace; raw datagrams go through the extracted wire parser before the "
      "dispatcher model.",
      "c12_syn_fresh_ok is monitored at this commit (the pigeonhole proof about next_free_conn_id is on the disp proof branch).")
CHECKS["C14"]["text"] = CHECKS["C14"]["text"].replace(
    "NOT covered here (connection level, later): sizes of emitted datagrams, at most one outstanding probe and it is the newest "
    "segment, data intact on a black-holing path (D1, KF1).",
    "Connection level: component vsock_mtu - the M3 correspondence on EMSGSIZE / blackhole scenarios with the extracted predicates "
    "c14_datagram_ok (every emitted datagram <= link MTU - IP - UDP headers) and c14_segments_ok (ordinary segments <= the proven size at "
    "enqueue, at most one undelivered probe and it is the newest segment, floor <= mss <= max_ss <= ceiling), monitored on every "
    "implementation trace; data intact on a black-holing path is C01 (pair tier, known class KF1).")
_more("C17",
      "STEP AND TRACE THEOREMS (Conn/C17_Step.v, Conn/C17_StepLemmas.v, 3800 lines, 33 theorems): c17_reset_ok, c17_fin_number_step_ok, "
      "c17_synack_ok (from vsock_new, 0 <= max_retransmissions) and c17_reset_trace_ok hold of EVERY step / every trace of the model; "
      "c17_fin_after_data_ok is false of the model in one corner (channel closed AND the FIN fails on the transport: "
      "c17_fin_after_data_ok_refuted) - the proven form c17_fin_after_data_noerr is what is evaluated on implementation traces; the "
      "segmented-bytes bound it needs is an invariant (c17_seg_bounds_trace).",
      "the sentence above that no vstep-level theorem is proved is superseded for these five predicates; c17_fin_seq_ok and "
      "c17_peer_fin_ok remain monitored.")
_more("C19",
      "waker identity: the harness polls every application call under a FRESH waker (util::WakerSet); a wake-up that reaches only a waker "
      "older than the last parked call's is reported as stale and disagrees with the model - a writer that was re-polled under another "
      "waker while the buffer is full must be woken through THAT waker when acknowledgements free space.")

# ----------------------------------------------------------------------------- session 5
_S5_CONC = ("SESSION 5: the atomicity assumption behind the component theorems (each method of the shared halves is atomic) is now "
            "VALIDATED on every run by two-thread components on the real objects: txconc (writer thread against grow / truncate_front / "
            "look-at-the-ring: nothing lost, nothing out of place, capacity within the limit) and rxconc (reader thread against add_remove / "
            "flush, both sides really parked on their wakers, tiny buffers; a state with both parked and no wake-up pending is decided under "
            "one mutex). Catches seeded C01-b (producer lock taken only for the swap in UserTx::grow), which no single-threaded check can see.")
_more("C01", _S5_CONC + " Pair->data-path refinement (branch pw-c01, merged if present in Props/C01.v: c01_pair_step_refines_dp, "
      "c01_pair_trace_refines_dp, c01_prefix_pair_trace_partial under `direction live`). Defect D6 (FIN's sequence number re-used by the "
      "re-cut part of an MTU probe: written bytes never sent, Ready(Ok)) repaired in /repo 4d912d4 + f62adfc.")
_more("C19", _S5_CONC)
_more("C04", _S5_CONC + " New trace predicate c04_consumed_honest_ok (the number the endpoint WOULD acknowledge is honest after every event, "
      "not only on emitted datagrams); teardown scenarios of C17 added to the vsock_ack generators; catches seeded C04-b with a concrete input.")
_more("C02", "SESSION 5: wake-ups under TRUE concurrency: components rxconc / txconc (two OS threads, really parked on their wakers; exact "
      "deadlock detection) validate the atomicity assumption the wake-up theorems rest on. Defect D6 (part of C02's FIN promptness too) repaired.")
_more("C05", "SESSION 5 (Conn/C05_Step*.v, Props/C05.v): the extracted predicates are now THEOREMS of every model step and every trace from "
      "vsock_new: c05_rto_single_ok (no hypothesis), c05_zero_window_ok_open and c05_zero_window_strict_or_d16_open (polls that end open), "
      "c05_window_ok2 (window clause over the WHOLE list of ST_DATA of a poll, under the observable guard c05_win_guard: poll ends open, timer "
      "not expired at its start, counter 0 and not recovering afterwards, <= 960 segments, last_sent within 1024 of the left edge), "
      "c05_rto_exit_ok2 (the counter leaves RTO mode only if bytes were removed, a segment became delivered, or an MTU-probe expiry was due), "
      "c05_monitor_core_ok; c05_slow_start_window_bound_partial for any controller satisfying the interface hypothesis cc_ss_ok, and "
      "c15_slow_start_cumulative shows CUBIC's byte window stays <= 2*mss_max + acked bytes (<= 2^18 ops, < 2^32 bytes). FOUND: the "
      "original c05_window_ok had a pattern defect (`p1 :: _ as data` binds the tail: the first ST_DATA was left out of the sum) - replaced; "
      "c05_rto_exit_ok and c05_zero_window_ok are FALSE of the model as written (c05_rto_exit_ok_b6_refuted, "
      "c05_zero_window_ok_closed_refuted, witnesses by vm_compute) - replaced by the proved forms. Still monitored only: "
      "c05_slow_start_ok on traces, the never-sent-suffix clause of c05_monitor_ok.")
_more("C06", "SESSION 5: generator gen_sacked_probe (the newest segment is an MTU probe, the peer acknowledges it selectively while the "
      "segment before it is lost, then the retransmission timer fires): C06 catches seeded C06-b / C14-b (a selectively acknowledged probe is "
      "given up and re-cut) with a concrete input through c06_no_resend_acked. Step/trace theorems for the C06 predicates: branch pw-c06 "
      "(see Props/C06.v for what is merged).")
_more("C07", "SESSION 5 (Conn/C07_Step.v, C07_Trigger*.v, C07_Dist.v, Props/C07.v, 35 theorems): c07_idle_silent_partial is now a THEOREM of "
      "every model trace (c07_idle_silent_every_trace; the name is kept, it is no longer partial); the trigger side is proved: "
      "c07_pim_trigger / c07_pim_status (a FIN, a duplicate, an arrival while the reassembly queue holds data, a change of the queue's "
      "empty/non-empty status force the ACK or send it on the spot), c07_poll_trigger / c07_poll_status (a completed poll then emitted a "
      "datagram), predicates c07_trigger_ok, c07_reasm_change_ok proved for every trace and evaluated on implementation traces. "
      "c07_pre_monitor is FALSE beyond the wrap tolerance (c07_pre_monitor_refuted: 1030 one-byte packets across the wrap inside one ACK delay "
      "make ack_to_transmit read `nothing to acknowledge`; D4 class) - replaced by the exact invariant c07_dist_ok (last_consumed = "
      "last_sent_ack_nr + k mod 2^16, k <= unacknowledged bytes) and c07_pre_monitor_g, both theorems of every trace.")
_more("C08", "SESSION 5 (Conn/C08_Step.v): c08_deadline_ok is a THEOREM of every step and trace (no hypothesis); new c08_fires_ok (a poll at or "
      "after the armed deadline with an empty inbox and a non-blocking transport ends the task) proved for every trace and evaluated on "
      "implementation traces; c08_silence_ends. Open: termination against a peer that keeps the inactivity timer alive, and a transport that "
      "blocks forever.")
_more("C09", "SESSION 5 (Conn/C09_Shift.v, C09_ShiftProofs*.v, 22 new theorems): the TRACE-SHIFT clause is a closed theorem on the connection "
      "model: c09_vstep_shift (vstep (shift s) (shift o) = shift (vstep s o) for EVERY state and event inside the dynamic guard "
      "c09_guard_vstep: every wrap-tolerant comparison the step makes has u16 operands at true modular distance <= WRAP_TOLERANCE), "
      "c09_ftrace_shift, c09_model_runs_shift_ok (the extracted c09_shift_ok holds of the two model runs), layer theorems for Segments, "
      "Recovery, state_table, process_incoming_message, send_tx_queue, split, poll; c09_guard_satisfiable (both numberings wrap inside a "
      "transfer with RTO, SACK recovery, both FINs); c09_shift_outside_guard_refuted (D4). The metamorphic component is now judged under the "
      "theorem's guard (vsock_shift_g). Open: a static guard on the fingerprint (c09_within_tol => c09_guard_trace).")
_more("C10", "SESSION 5 (Sock/DispHostile*.v, 26 theorems): the SOCKET half is proved on the dispatcher model composed with the wire parser, "
      "over every byte list / every raw op list: c10_disp_total (parse then HandleRecv never panics; garbage changes nothing at all), "
      "c10_disp_effect_exact / c10_disp_isolation (a datagram is forwarded only to its own key, every other entry is untouched, at most one "
      "entry / queued SYN / reset / completed connect), c10_disp_bounded (table, backlog <= 32, acceptors, <= 4 pending connects per address), "
      "c10_disp_live_connection_unaffected, c10_disp_not_wedged_*. The extracted predicates c10_disp_step_ok / c10_disp_bounds_ok are proved; "
      "their evaluation on implementation traces is not wired yet (the disp_hostile correspondence runs).")
_more("C11", "SESSION 5 (Conn/C11_*.v, Sock/DispC11_*.v, 19 theorems): the connection-level clause is proved: every datagram the connection "
      "model emits (c11_emitted_ok_every_step / _every_trace) and every SYN / RESET the dispatcher model emits (c11_disp_emitted_ok_*) is "
      "well-formed, version 1, carries the connection id owed to that direction, payload iff ST_DATA, SACK of 64 bits, and parses back to "
      "itself (c11_packet_ok_on_the_wire); a connection itself emits only ST_DATA / ST_FIN / ST_STATE; a RESET answers the SYN it refuses. "
      "Extracted and evaluated on implementation traces (components vsock_wire, disp_wire). Boundary found: on_maybe_connect_ack matches a "
      "SYN-ACK by (address, ack_nr) only, the id it carries is not checked (c11_disp_syn_ack_conn_id_unchecked_refuted, reproduced).")
_more("C14", "SESSION 5 (Conn/C14_Step*.v): c14_segments_ok, c14_datagram_ok and the new c14_wire_ok (whole uTP datagram <= 20 + ceiling; a "
      "datagram with the SACK extension has no payload) are THEOREMS of every model step and trace from vsock_new (joint invariant c14_inv; "
      "no hypothesis on transport, peer or clock); generator gen_sacked_probe added (seeded C14-b).")
_more("C15", "SESSION 5 (Cubic/Cubic_Bytes_Proofs.v, 9 theorems): the byte-level slow-start bound is proved and exact: window' <= window + len + 1 "
      "(c15_slow_start_bytes, reachable form c15_slow_start_bytes_reachable); c15_reachable_state_invariant (cwnd / ssthresh never NaN or "
      "negative on any reachable state, whatever cbrt / powf return); ssthresh after loss within 1 byte of 0.7 * window; "
      "c15_set_mss_chain_bytes (MSS changes rescale, never reset); c15_model_trace_fine_ok: EVERY clause of c15_obs_ok holds on every model "
      "trace whose runs of consecutive set_mss are <= 65536 long (without that bound the +-1 byte clause drifts: witness of 3.4 million MSS "
      "changes, -2 bytes, reproduced on the real code); c15_obs_ok_b (unconditional form) is evaluated first.")
_more("C17", "SESSION 5: defect D6 - an MTU probe given up AFTER our FIN was numbered behind it is re-cut and the second part takes the FIN's "
      "sequence number: written bytes are never sent and the poll returns Ready(Ok) (silent truncation) - found by the proof of c17_fin_seq_ok "
      "(refutation witness), reproduced on the real code, repaired in /repo (4d912d4: no expiry pop once the FIN is numbered; f62adfc: an "
      "unacknowledged probe counts as unsent data, so the FIN is not numbered behind it - the EMSGSIZE pop path) and in the model; "
      "c17_peer_fin_ok refuted as written and corrected (c17_peer_fin_ok2); scripted close-first teardown scenarios (catches seeded C03-b). "
      "Trace theorems of branch pw-c17: see Props/C17.v for what is merged.")
_more("C03", "SESSION 5: defect D6 (clean EOF 463 bytes short after Ready(Ok)) repaired; scripted teardown scenarios (seeded C03-b: an "
      "out-of-sequence FIN honoured in FinWait2 - caught by C17 with a concrete input and by C03's correspondence).")
_more("C18", "SESSION 5 (Conn/C18_Step*.v, 23 theorems): ALL clauses are theorems of every model step and trace of a WHOLE poll: "
      "c18_nagle_ok_every_trace, c18_off_all_segmented_every_trace (Nagle off, no undelivered probe before the poll, buffer non-empty: "
      "everything is segmented or the peer window was the limit), c18_drain_sends_every_trace, c18_buffered_segmented_every_trace; the guard "
      "c18_pre is a proved invariant (table invariant TI); c18_off_probe_guard_is_needed (witness). The PARTIAL remarks above are superseded.")

# ----------------------------------------------------------------------------- session 5, second half
CHECKS["C10"]["text"] = CHECKS["C10"]["text"].replace(
    "their evaluation on implementation traces is not wired yet (the disp_hostile correspondence runs).",
    "extracted and evaluated on the implementation's own observations (component disp_hostile: c10_disp_step_ok on every run_once whose "
    "recv arm fired - about 12 800 steps / 1370 cases at quick tier, 3100 of them raw datagrams, 2100 garbage - c10_disp_bounds_ok on "
    "every state; an ERR or PANIC of run_once is a failure).")
_more("C13", "SESSION 5 (Sock/DispC13_*.v): c13_pending_ok - every pending connect is accounted for, slot by slot: a step fills exactly one "
      "empty slot at the address of the single SYN it sent, or frees exactly one occupied slot (control / recv step that sent no SYN), or "
      "refuses with four pending, or moves nothing; at most one address changes - THEOREM of every model step and every op list "
      "(c13_pending_ok_every_step / _every_op_list, hypothesis d_inv only, an invariant), extracted and evaluated on the implementation's "
      "snapshots (component disp_pending, generator gen_pending: two to four connects to one address, the earliest leaves first, then "
      "more connects - the scenario of seeded C13-b, which overwrites a still-pending connect).")
_more("C17", "SESSION 5, second half (Conn/C17_Trace*.v, C17_Pred2.v): c17_peer_fin_ok2 (corrected peer-FIN clause) THEOREM of every trace from "
      "vsock_new, c17_peer_fin_guarded_trace, c17_peer_fin_oos_poll / _inseq_poll; regression theorems c17_fin_seq_regression / "
      "c17_fin_covers_data_regression on the four D6 witnesses; new step predicate c17_fin_covers_data_ok (the only one that sees the "
      "byte-loss variant of D6) evaluated on every implementation trace. c17_fin_seq_ok / c17_fin_covers_data_ok for EVERY trace: open.")
_more("C04", "SESSION 5, second half (Conn/C04_Guard.v, C04_Step.v, C04_Consumed.v): c04_vsock_ack_guarded_trace and "
      "c04_consumed_honest_guarded_trace - the two connection-level predicates are THEOREMS of every trace under the boolean guard "
      "c04_peer_ok (at most WRAP_TOLERANCE sequence-carrying packets; no ST_DATA numbered at or above an ST_FIN the peer delivers); "
      "c04_vsock_ack_or_d22_trace. FOUND (reproduced on the real code, open known finding D22): after the peer's FIN, data numbered beyond "
      "the FIN that sat in the reassembly queue is counted and the ACK number overstates - hostile peer only. The check evaluates the "
      "guarded predicates and replays the D22 witness.")
_more("C01", "SESSION 5, second half (Pair/Pair_Refine*.v, 3000 lines): the pair -> data-path refinement is proved for EVERY pair step kind "
      "(c01_poll_is_data_events, c01_pair_step_refines_dp, c01_pair_trace_refines_dp); c01_prefix_pair_trace_partial / "
      "c01_dir_ok_pair_trace_partial: on every pair trace along which the direction stays live (reader not finished, peer FIN not accepted) "
      "and under the data-path guards the prefix property and the extracted check hold. FOUND: c01_pair_guarded is FALSE "
      "(c01_pair_guarded_refuted, reproduced on the real code: B reads 2047 of 1980 bytes) on a KF1-family trace the old classifier missed "
      "(probe delivered, its ACK delayed, the RTO poll pops and re-cuts the probe while the transport is pending, the late ACK acknowledges "
      "the never-sent re-cut segment) - the check now uses the widened class c01_kf1_class2 / c01_pair_guarded2 (pop seen on the sender's "
      "fingerprints + a delivery of the popped probe).")
_more("C06", "SESSION 5, second half (Conn/C06_Step2*.v): c06_rp_exit_ok is a THEOREM of every model trace (no hypothesis); "
      "c06_stable_plen_ok_p (within one EMSGSIZE-free poll the same sequence number carries the same payload size unless it was a probe) "
      "THEOREM of every trace and evaluated; the cross-poll guarded form c06_stable_plen_ok_g is proved under the open hypothesis SMH only.")
_more("C02", "SESSION 5, second half: pair-tier component pair_settle - two real endpoints, a lossy phase (acknowledgements are what gets lost "
      "most; no segment can use up its retransmission budget), then a settle phase in which every datagram is delivered for 34 s of "
      "virtual time: the extracted c02_pair_settled_ok requires that no endpoint gave up and that each application read exactly what the "
      "other was told was accepted (MONITORED: eventual delivery is not a theorem). FOUND (open known finding D23): there is no zero-window "
      "probe / persist timer - when the peer's single window-update ACK is lost the sender stalls for good although the network delivers "
      "everything from then on (classifier: the stalled writer ends with last_remote_window = 0). Branch pw-c02 (merged, Conn/C02_*2.v): "
      "c02_rto_mode_armed (RTO mode is always left again: invariant rm), c02_no_silent_stall_g, c02_rto_armed_fin_g (FIN half) and "
      "c02_prompt_write_g (write half of the promptness clause) are THEOREMS of every model trace under boolean guards on the fingerprint "
      "and are evaluated on every implementation trace; c02_prompt_max_retx_zero_refuted. Open: shutdown half of c02_prompt, c02_rto_progress.")

ALL = ["C%02d" % i for i in range(1, 20)]
NOT_APPLICABLE = {p: "check not built yet at this commit (planned: DESIGN.md section 6); not claimed"
                  for p in ALL if p not in CHECKS}

#!/bin/bash
# mkpw.sh <name> : proof worktree /root/scratch/pw-<name> on branch pw-<name>, with compiled .vo and .build copied
set -e
N="$1"; WT=/root/scratch/pw-$N
git -C /verif worktree remove --force "$WT" 2>/dev/null || true
git -C /verif branch -D pw-$N 2>/dev/null || true
git -C /verif worktree add -b pw-$N "$WT" HEAD >/dev/null
rsync -a --include='*/' --include='*.vo' --include='*.glob' --include='*.vos' --include='*.vok' --include='.*.aux' --include='Makefile' --include='Makefile.conf' --include='.Makefile.d' --exclude='*' /verif/coq/ "$WT/coq/"
find "$WT/coq" \( -name "*.vo" -o -name "*.vos" -o -name "*.vok" -o -name "*.glob" -o -name ".*.aux" \) -exec touch {} +
mkdir -p "$WT/.build"; rsync -a /verif/.build/ "$WT/.build/"
# prompt
T=/root/scratch/tasks/$N.txt
PROP=$(head -1 $T | sed 's/PROP=//')
python3 - "$N" "$WT" "$PROP" <<'P'
import sys
n,wt,prop=sys.argv[1:4]
t=open('/root/scratch/PROOF_PROMPT.md').read()
task='\n'.join(open('/root/scratch/tasks/%s.txt'%n).read().split('\n')[1:])
t=t.replace('@WT@',wt).replace('@BR@','pw-'+n).replace('@PROP@',prop).replace('@TASK@',task)
open('/root/scratch/prompt_%s.md'%n,'w').write(t)
P
echo "$WT ready"

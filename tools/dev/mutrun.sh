#!/bin/bash
# mutrun.sh <id> <patchfile> <Cxx...> : scratch worktree of /repo HEAD + patch, run checks of the LIVE /verif against it
id="$1"; patch="$2"; shift 2
WT=/tmp/conf/m-$id
git -C /repo worktree remove --force $WT 2>/dev/null
git -C /repo worktree add --detach $WT HEAD >/dev/null 2>&1 || exit 2
(cd $WT && git apply "$patch") || { echo PATCH-DOES-NOT-APPLY; exit 3; }
MUT_SRC=/verif MUT_ARGS="--tier quick" /verif/tools/mutcheck.sh $WT "$@" 2>&1 | grep -E "^(VIOLATION|OK|KNOWN-FINDING: property=C.. id=[A-Z0-9]* still)" | cut -c1-300
mkdir -p /root/scratch/mutreplays/$id; cp /root/scratch/mutv-m-$id/replays/*.json /root/scratch/mutreplays/$id/ 2>/dev/null
git -C /repo worktree remove --force $WT; rm -rf /root/scratch/mutv-m-$id

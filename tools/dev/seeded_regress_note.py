#!/usr/bin/env python3
"""Development helper: record in seeded/<id>/meta.json what the checks of the CURRENT framework said when re-run against each
seeded change at the end of a session (logs written by tools/dev/mutrun.sh loops: lines `== <id> <Cxx>` followed by the
VIOLATION / OK lines).   tools/dev/seeded_regress_note.py <label> <log> [<log> ...]"""
import json, os, re, sys
label, logs = sys.argv[1], sys.argv[2:]
root = os.path.dirname(os.path.dirname(os.path.dirname(os.path.abspath(__file__))))
res = {}
for lg in logs:
    cur = None
    for line in open(lg, errors="replace"):
        m = re.match(r"== (\S+) (\S+)", line)
        if m:
            cur = (m.group(1), m.group(2)); res.setdefault(cur, {"verdict": "not finished", "by": set(), "input": False}); continue
        if cur is None:
            continue
        m = re.match(r"(VIOLATION|OK) property=(C\d\d)(.*)", line)
        if m and m.group(2) == cur[1]:
            r = res[cur]
            if m.group(1) == "OK":
                if r["verdict"] == "not finished":
                    r["verdict"] = "OK (MISSED)"
            else:
                r["verdict"] = "VIOLATION"
                k = re.search(r"replays/C\d\d_([a-z]+)_", m.group(3))
                if k:
                    r["by"].add(k.group(1))
                if "no-failing-input-found" not in m.group(3):
                    r["input"] = True
for (sid, prop), r in sorted(res.items()):
    f = os.path.join(root, "seeded", sid, "meta.json")
    if not os.path.exists(f):
        continue
    m = json.load(open(f))
    m.setdefault("regression", {}).setdefault(label, {})[prop] = {
        "verdict": r["verdict"], "by": sorted(r["by"]), "with_failing_input": r["input"]}
    json.dump(m, open(f, "w"), indent=1)
    print(sid, prop, r["verdict"], sorted(r["by"]), "input" if r["input"] else "")

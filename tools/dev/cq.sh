#!/bin/bash
# cq.sh "C16-b:C16" "C11-b:C11" ... sequential confirmation + mutcheck + filing under /verif/seeded
for spec in "$@"; do
  id="${spec%%:*}"; checks="${spec#*:}"; p="${id%-*}"; l="${id#*-}"
  out=/tmp/mut/${p}${l}.out
  /verif/tools/seeded_confirm.sh "$id" "$out" ${checks//,/ } > /root/scratch/logs/conf-$id.out 2>&1
  python3 /verif/tools/seeded_add.py "$id" "$out" /root/scratch/conf-$id.log >> /root/scratch/logs/conf-$id.out 2>&1
  git -C /repo worktree remove --force /tmp/conf/$id 2>/dev/null
  rm -rf /root/scratch/mutv-$id
  echo "$id done" >> /root/scratch/logs/cq.done
done

#!/bin/bash
out=$1; shift
for spec in "$@"; do id="${spec%%:*}"; c="${spec#*:}"; echo "== $id $c" >> $out; /root/scratch/mutrun.sh $id /verif/seeded/$id/patch.diff $c >> $out 2>&1; done
echo ALLDONE >> $out

#!/bin/bash
# Development helper (NOT registered in MANIFEST.json): run checks of this framework against another
# checkout of librqbit-utp (e.g. a scratch worktree holding a seeded mutation) without touching /repo.
#   tools/mutcheck.sh <repo-checkout> <Cxx> [more check args]
# Works on a scratch copy of /verif under /root/scratch/mutv-<name> whose harness points at <repo-checkout>.
set -u
WT="$1"; shift
V="${MUT_SRC:-$(cd "$(dirname "$0")/.." && pwd)}"
NAME="$(basename "$WT")"
S="/root/scratch/mutv-$NAME"
mkdir -p "$S"
rsync -a --delete --exclude '.git' --exclude 'evidence' "$V/" "$S/" || exit 2
mkdir -p "$S/evidence"
sed -i "s#path = \"/repo\"#path = \"$WT\"#" "$S/harness/Cargo.toml"
# the copy already holds the compiled Coq development and the model runner; only the harness differs
rc=0
for c in "$@"; do
  case "$c" in
    C[0-9][0-9]) (cd "$S" && tools/check "$c" ${MUT_ARGS:-}) || rc=1 ;;
  esac
done
exit $rc

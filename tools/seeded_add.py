#!/usr/bin/env python3
"""Development helper: file a confirmed seeded change under /verif/seeded/<Cxx>-m<i>/.
   tools/seeded_add.py <Cxx> <i> <mutdir> <conf-log> [--note "..."]
Copies patch.diff, the demonstration (demo.rs, demo_output.txt, README.md) and writes meta.json from the
section of the confirmation log that belongs to this change (suite result with the change applied, demo on
the changed and on the clean tree, what each /verif check said when run against the changed tree)."""
import json, os, re, shutil, sys

prop, idx, mutdir, conflog = sys.argv[1:5]      # idx: a, b, ... (one letter per independent sub-agent)
note = sys.argv[sys.argv.index("--note") + 1] if "--note" in sys.argv else ""
root = os.path.dirname(os.path.dirname(os.path.abspath(__file__)))
dst = os.path.join(root, "seeded", f"{prop}-{idx}")
os.makedirs(dst, exist_ok=True)
for f in ("patch.diff", "demo.diff", "demo_cmd.txt", "demo_output.txt", "README.md"):
    p = os.path.join(mutdir, f)
    if os.path.exists(p):
        shutil.copy(p, os.path.join(dst, f))
text = open(conflog, errors="replace").read()
m = re.search(r"#{8} %s-%s\n(.*?)(?=\n#{8} |\Z)" % (prop, idx), text, re.S)
sec = m.group(1) if m else ""
suite = re.search(r"== suite with mutation\n(test result: [^\n]*)", sec)
demo_mut = re.search(r"== demo with mutation[^\n]*\n((?:test [^\n]*\n)+)", sec)
demo_clean = re.search(r"== demo on clean tree[^\n]*\n((?:test [^\n]*\n)+)", sec)
checks = {}
for line in sec.splitlines():
    mm = re.search(r"(VIOLATION|OK) property=(C\d\d)(.*)", line)
    if not mm:
        continue
    kind, p, rest = mm.groups()
    e = checks.setdefault(p, {"verdict": "OK", "with_failing_input": False, "by": []})
    if kind == "VIOLATION":
        e["verdict"] = "VIOLATION"
        k = re.search(r"replays/C\d\d_([a-z]+)_", rest)
        if k and k.group(1) not in e["by"]:
            e["by"].append(k.group(1))
        if "no-failing-input-found" not in rest:
            e["with_failing_input"] = True
readme = open(os.path.join(mutdir, "README.md"), errors="replace").read() if os.path.exists(os.path.join(mutdir, "README.md")) else ""
files = sorted(set(re.findall(r"^\+\+\+ b/(\S+)", open(os.path.join(mutdir, "patch.diff")).read(), re.M)))
meta = {
    "id": f"{prop}-{idx}", "property": prop, "files": files,
    "origin": "fresh sub-agent given only the property text and a scratch worktree of /repo",
    "confirmed": {
        "applies_and_compiles": bool(suite),
        "suite_with_change": suite.group(1) if suite else None,
        "hooks_on_cargo_check": "ok" if re.search(r"== check guard on\n[^=]*Finished", sec) else "see log",
        "demo_with_change": demo_mut.group(1).strip().splitlines() if demo_mut else None,
        "demo_on_clean_tree": demo_clean.group(1).strip().splitlines() if demo_clean else None,
    },
    "checks_against_changed_tree": checks,
    "summary": (readme.strip().splitlines() or [""])[0][:300],
    "note": note,
}
json.dump(meta, open(os.path.join(dst, "meta.json"), "w"), indent=1)
print(dst, json.dumps(checks))

#!/usr/bin/env python3
"""Development helper: file a confirmed seeded change under /verif/seeded/<Cxx>-<letter>/.
   tools/seeded_add.py <Cxx>-<letter> <OUT-dir> <conf-log> [--note "..."]
Copies patch.diff, the demonstration (demo.diff, demo_cmd.txt, demo_output.txt, README.md) and writes meta.json
from the confirmation log written by tools/seeded_confirm.sh (suite result with the change applied, demonstration
on the changed and on the clean tree, what each /verif check said when run against the changed tree; the replay
files of the reported violations are copied next to it)."""
import json, os, re, shutil, sys

sid, outdir, conflog = sys.argv[1:4]
prop = sid.split("-")[0]
note = sys.argv[sys.argv.index("--note") + 1] if "--note" in sys.argv else ""
root = os.path.dirname(os.path.dirname(os.path.abspath(__file__)))
dst = os.path.join(root, "seeded", sid)
os.makedirs(dst, exist_ok=True)
for f in ("patch.diff", "patch.orig.diff", "demo.diff", "demo_cmd.txt", "demo_output.txt", "README.md"):
    p = os.path.join(outdir, f)
    if os.path.exists(p):
        shutil.copy(p, os.path.join(dst, f))
sec = open(conflog, errors="replace").read()


def part(title):
    m = re.search(r"== %s[^\n]*\n(.*?)(?=\n== |\Z)" % re.escape(title), sec, re.S)
    return m.group(1) if m else ""


suite = re.findall(r"test result: [^\n]*", part("suite with mutation"))
demo_mut = [l for l in part("demo with mutation").splitlines() if l.startswith(("test ", "test result"))]
demo_clean = [l for l in part("demo on clean tree").splitlines() if l.startswith(("test ", "test result"))]
base = re.search(r"detached HEAD (\w+)", sec)
checks = {}
for line in part("checks against the changed tree").splitlines():
    mm = re.match(r"(VIOLATION|OK) property=(C\d\d)(.*)", line)
    if not mm:
        continue
    kind, p, rest = mm.groups()
    e = checks.setdefault(p, {"verdict": "OK", "with_failing_input": False, "by": [], "replays": []})
    if kind == "VIOLATION":
        e["verdict"] = "VIOLATION"
        k = re.search(r"replay=(\S*/replays/(C\d\d_([a-z]+)_\w+\.json))", rest)
        if k:
            if k.group(3) not in e["by"]:
                e["by"].append(k.group(3))
            src = k.group(1)
            if os.path.exists(src) and len(e["replays"]) < 2:
                shutil.copy(src, os.path.join(dst, k.group(2)))
                e["replays"].append(k.group(2))
        if "no-failing-input-found" not in rest:
            e["with_failing_input"] = True
def needs(readme):
    """the paragraph of the sub-agent's README that says what the change needs in order to manifest"""
    lines = readme.splitlines()
    for i, l in enumerate(lines):
        if re.search(r"(?i)(trigger|manifest|what is needed|needed for|what it takes|circumstance)", l):
            body = [x.strip() for x in lines[i:i + 14] if x.strip()]
            txt = " ".join(body)
            if len(txt) > 60:
                return txt[:900]
    return " ".join(x.strip() for x in lines[1:12] if x.strip())[:900]


readme = open(os.path.join(outdir, "README.md"), errors="replace").read() if os.path.exists(os.path.join(outdir, "README.md")) else ""
files = sorted(set(re.findall(r"^\+\+\+ b/(\S+)", open(os.path.join(outdir, "patch.diff")).read(), re.M)))
meta = {
    "id": sid, "property": prop, "files": files,
    "origin": "fresh sub-agent given only the property text and its own scratch worktree of /repo (nothing from /verif)",
    "needs_to_manifest": needs(readme),
    "summary": (readme.strip().splitlines() or [""])[0][:400],
    "confirmed_in_scratch_worktree": {
        "base_commit": base.group(1) if base else None,
        "applies": "PATCH-DOES-NOT-APPLY" not in sec,
        "builds_guard_off": bool(re.search(r"== build guard off\n[^=]*Finished", sec)),
        "builds_guard_on": bool(re.search(r"== check guard on\n[^=]*Finished", sec)),
        "suite_with_change": suite[:1],
        "demo_with_change": demo_mut[-3:],
        "demo_on_clean_tree": demo_clean[-3:],
    },
    "ran": "tools/seeded_confirm.sh %s <OUT> %s  (scratch worktree of /repo HEAD + patch.diff; scratch copy of /verif with the harness "
           "pointed at it; tools/check <Cxx> --tier quick)" % (sid, " ".join(sorted(checks))),
    "checks_against_changed_tree": checks,
    "note": note,
}
json.dump(meta, open(os.path.join(dst, "meta.json"), "w"), indent=1)
print(dst, json.dumps({k: (v["verdict"], v["with_failing_input"]) for k, v in checks.items()}))

#!/bin/bash
# Development helper (NOT registered in MANIFEST.json): confirm a seeded change delivered by a sub-agent,
# independently of the worktree the sub-agent worked in, and run checks of this framework against it.
#   tools/seeded_confirm.sh <id> <OUT-dir> <Cxx> [more Cyy ...]
# <OUT-dir> holds patch.diff, demo.diff, demo_cmd.txt (and README.md, demo_output.txt).
# Creates a scratch worktree /tmp/conf/<id> of /repo's HEAD, and confirms
#   (a) patch.diff applies, builds with the guard off and on, and the unedited test suite passes with it,
#   (b) the demonstration fails with patch.diff + demo.diff,
#   (c) the demonstration passes with demo.diff alone,
# then runs the named checks against the changed tree (tools/mutcheck.sh, a scratch copy of /verif whose
# harness points at the worktree; /repo itself is never touched).  Log: /root/scratch/conf-<id>.log
set -u
ID="$1"; OUT="$2"; shift 2
V="$(cd "$(dirname "$0")/.." && pwd)"
WT=/tmp/conf/$ID
LOG=/root/scratch/conf-$ID.log
mkdir -p /tmp/conf /root/scratch
exec > >(tee "$LOG") 2>&1
export CARGO_NET_OFFLINE=true RUST_LOG=off CARGO_TARGET_DIR=/root/scratch/conf-target
git -C /repo worktree remove --force "$WT" 2>/dev/null
git -C /repo worktree add --detach "$WT" HEAD >/dev/null || exit 2
cd "$WT" || exit 2
echo "######## $ID"
echo "== apply patch.diff"
git apply "$OUT/patch.diff" || { echo "PATCH-DOES-NOT-APPLY"; exit 3; }
git diff --stat | tail -3
echo "== build guard off"
cargo build --offline 2>&1 | tail -2
echo "== check guard on"
RUSTFLAGS="--cfg librqbit_utp_verif" cargo check --offline --lib --target-dir /root/scratch/conf-target-cfg 2>&1 | tail -2
echo "== suite with mutation"
cargo test --workspace --no-fail-fast --offline 2>&1 | grep -E "^test result|FAILED|failed" | head -20
DEMO="$(grep -v '^\s*$' "$OUT/demo_cmd.txt" | tail -1)"
echo "== demo with mutation: $DEMO"
git apply "$OUT/demo.diff" || { echo "DEMO-DOES-NOT-APPLY-ON-MUTANT"; }
( eval "$DEMO" ) 2>&1 | grep -E "^test |^test result|panicked|error" | head -20
echo "== demo on clean tree"
git apply -R "$OUT/patch.diff" || { echo "PATCH-DOES-NOT-REVERT"; }
( eval "$DEMO" ) 2>&1 | grep -E "^test |^test result|panicked|error" | head -20
# leave the worktree holding the mutation only
git checkout -- . >/dev/null 2>&1; git clean -fdq -e target >/dev/null 2>&1
git apply "$OUT/patch.diff"
echo "== checks against the changed tree"
for c in "$@"; do
  MUT_SRC="${MUT_SRC:-/root/scratch/verif-snap}" MUT_ARGS="${MUT_ARGS:---tier quick}" "$V/tools/mutcheck.sh" "$WT" "$c" 2>&1 | grep -E "^(VIOLATION|OK|KNOWN-FINDING)" | cut -c1-400
done
echo "== done $ID"

#!/bin/bash
# Build everything the checks need, from files on disk only (offline).
#   tools/build.sh coq      full .vo build of the Coq development (proofs re-checked)
#   tools/build.sh driver   extraction + OCaml model runner
#   tools/build.sh harness  Rust harness against /repo's current working tree, hooks on
#   tools/build.sh all
# Everything is written under /verif/.build (git-ignored) or next to the .v sources.
set -u
V="${VERIF_ROOT:-$(cd "$(dirname "$0")/.." && pwd)}"
B=$V/.build
mkdir -p "$B"
export CARGO_NET_OFFLINE=true

lock() { exec 9>"$B/.lock"; flock 9; }

build_coq() {
  cd "$V/coq" || return 1
  if [ ! -f Makefile ] || [ _CoqProject -nt Makefile ]; then
    coq_makefile -f _CoqProject -o Makefile >/dev/null || return 1
  fi
  timeout 3000 make -j"${VERIF_JOBS:-16}" 2>&1 | tee "$B/coq_build.log" | grep -E "^(File|Error|make.*Error)" | head -20
  return "${PIPESTATUS[0]}"
}

build_driver() {
  mkdir -p "$B/ocaml" && cd "$B/ocaml" || return 1
  # up to date? (nothing the runner is built from is newer than it): do not relink under a check that is running it
  if [ -x "$B/modelrun" ] && [ -z "$(find "$V/coq/theories" "$V/driver" \( -name '*.vo' -o -name '*.ml' -o -name 'Extract.v' \) -newer "$B/modelrun" -print -quit)" ]; then
    return 0
  fi
  timeout 600 coqc -Q "$V/coq/theories" Utp -o "$B/ocaml/Extract.vo" "$V/coq/theories/Extract/Extract.v" >"$B/extract.log" 2>&1 || { cat "$B/extract.log"; return 1; }
  rm -f "$B"/ocaml/c_*.ml; cp "$V"/driver/*.ml "$B/ocaml/" || return 1
  timeout 600 ocamlfind ocamlopt -O2 -w -a -o "$B/modelrun" model.mli model.ml zutil.ml $(ocamlfind ocamldep -sort c_*.ml) modelrun.ml 2>"$B/ocaml_build.log" \
   || timeout 600 ocamlfind ocamlopt -w -a -o "$B/modelrun" model.mli model.ml zutil.ml $(ocamlfind ocamldep -sort c_*.ml) modelrun.ml 2>"$B/ocaml_build.log" \
   || { cat "$B/ocaml_build.log"; return 1; }
}

build_harness() {
  cd "$V/harness" || return 1
  cp /repo/Cargo.lock "$V/harness/Cargo.lock.repo" 2>/dev/null
  RUSTFLAGS="--cfg librqbit_utp_verif" CARGO_TARGET_DIR="$B/harness-target" \
    timeout 3000 cargo build --offline --release 2>"$B/harness_build.log" || { tail -40 "$B/harness_build.log"; return 1; }
}

lock
case "${1:-all}" in
  coq) build_coq ;;
  driver) build_driver ;;
  harness) build_harness ;;
  all) build_coq && build_driver && build_harness ;;
  *) echo "usage: $0 coq|driver|harness|all"; exit 2 ;;
esac

#!/usr/bin/env python3
"""Regenerates /verif/MANIFEST.json from tools/manifest_data.py (kept in one place so that
the manifest stays valid and in step with the checks that exist)."""
import json, sys, os
sys.path.insert(0, os.path.dirname(os.path.abspath(__file__)))
import manifest_data as M

checks = []
for pid, d in sorted(M.CHECKS.items()):
    checks.append({
        "property_id": pid,
        "quick_cmd": f"tools/check {pid} --tier quick",
        "thorough_cmd": f"tools/check {pid} --tier thorough",
        "evidence_file": f"evidence/{pid}.json",
        "replay_cmd_template": "tools/check replay {path}",
        "engine": "coq-proofs+correspondence",
        "level_claimed": {"category": "proof", "text": d["text"], "design_ref": d["design_ref"]},
        "level_note": d["note"],
        "technique": d["technique"],
    })
man = {
    "version": 1,
    "setup_cmd": "tools/setup.sh",
    "hooks": {
        "guard": "librqbit_utp_verif",
        "enable": 'RUSTFLAGS="--cfg librqbit_utp_verif" cargo build --offline --release (in /verif/harness, path dependency on /repo)',
        "baseline_off_cmd": "cd /repo && RUST_LOG=off cargo test --workspace --no-fail-fast --offline",
        "source_commits": M.HOOK_COMMITS,
        "add_only": True,
    },
    "engines": [
        {"name": "coq-proofs", "path": "coq/", "serves_properties": sorted(M.CHECKS),
         "kind_free_text": "Coq 8.16.1 development: executable Gallina models + theorems; Props/Cxx.v hold only `exact lemma` + Print Assumptions"},
        {"name": "model-runner", "path": "driver/", "serves_properties": sorted(M.CHECKS),
         "kind_free_text": "OCaml driver around the model extracted with ExtrOcamlBasic; same line protocol as the harness"},
        {"name": "impl-harness", "path": "harness/", "serves_properties": sorted(M.CHECKS),
         "kind_free_text": "Rust crate with a path dependency on /repo, built with the hook cfg; drives the real components"},
        {"name": "orchestrator", "path": "tools/check", "serves_properties": sorted(M.CHECKS),
         "kind_free_text": "python3: builds, Coq audit (pins, Print Assumptions allow-list, forbidden-token grep), generators, diff, shrinker, evidence"},
    ],
    "checks": checks,
    "not_applicable": [{"property_id": p, "reason": r} for p, r in sorted(M.NOT_APPLICABLE.items())],
    "notes": M.NOTES,
}
json.dump(man, open(os.path.join(os.path.dirname(os.path.dirname(os.path.abspath(__file__))), "MANIFEST.json"), "w"), indent=1)
print("wrote MANIFEST.json with", len(checks), "checks,", len(M.NOT_APPLICABLE), "not_applicable")

#!/bin/bash
# MANIFEST.setup_cmd: build the framework from files on disk only (offline).
cd /verif && tools/build.sh all

#!/bin/bash
# MANIFEST.setup_cmd: build the framework from files on disk only (offline).
cd "$(dirname "$0")/.." && tools/build.sh all

"""Independent uTP (BEP 29) packet parser/builder, written from the BEP 29 text, NOT from the
code under verification and not from the Coq model.  Used as an extra oracle.

BEP 29 header (all fields big endian), 20 bytes:

    0       4       8               16              24              32
    +-------+-------+---------------+---------------+---------------+
    | type  | ver   | extension     | connection_id                 |
    +-------+-------+---------------+---------------+---------------+
    | timestamp_microseconds                                        |
    | timestamp_difference_microseconds                             |
    | wnd_size                                                      |
    | seq_nr                        | ack_nr                        |
    +---------------+---------------+---------------+---------------+

  version is 1.  type: ST_DATA=0, ST_FIN=1, ST_STATE=2, ST_RESET=3, ST_SYN=4.
  `extension` is the type of the first extension in a linked list, 0 = none.  Each extension
  is: 1 byte type of the NEXT extension (0 = last), 1 byte length, `length` bytes of data.
  Extension 1 is the selective ack bitmask (BEP 29: length at least 4, in multiples of 4;
  bit i, LSB first within each byte, stands for ack_nr + 2 + i).
  Whatever follows the last extension is the payload.
"""
import struct

ST_DATA, ST_FIN, ST_STATE, ST_RESET, ST_SYN = 0, 1, 2, 3, 4
EXT_SACK = 1
EXT_CLOSE_REASON = 3   # libtorrent's close-reason extension: 4 bytes, big-endian code


def parse(data, strict_sack=False):
    """dict for a well-formed packet, None otherwise.  `strict_sack` additionally enforces the
    BEP 29 length rule of the selective-ack extension (>= 4, multiple of 4)."""
    data = bytes(data)
    if len(data) < 20:
        return None
    tv, first_ext, conn = struct.unpack_from(">BBH", data, 0)
    ts, ts_diff, wnd = struct.unpack_from(">III", data, 4)
    seq, ack = struct.unpack_from(">HH", data, 16)
    ptype, version = tv >> 4, tv & 0x0F
    if version != 1 or ptype > ST_SYN:
        return None
    pos = 20
    kind = first_ext
    exts = []
    while kind != 0:
        if pos + 2 > len(data):
            return None
        nxt, ln = data[pos], data[pos + 1]
        if pos + 2 + ln > len(data):
            return None
        body = data[pos + 2: pos + 2 + ln]
        if strict_sack and kind == EXT_SACK and (ln < 4 or ln % 4 != 0):
            return None
        exts.append((kind, body))
        pos += 2 + ln
        kind = nxt
    return {"type": ptype, "version": version, "extension": first_ext, "connection_id": conn,
            "timestamp": ts, "timestamp_diff": ts_diff, "wnd_size": wnd, "seq_nr": seq,
            "ack_nr": ack, "extensions": exts, "header_len": pos, "payload": data[pos:]}


def build(ptype, conn, ts, ts_diff, wnd, seq, ack, exts=(), payload=b"", version=1):
    """Bytes of a packet with the given extension list [(type, bytes)] (test-input generation)."""
    exts = list(exts)
    first = exts[0][0] if exts else 0
    out = bytearray(struct.pack(">BBHIIIHH", ((ptype & 0xF) << 4) | (version & 0xF), first,
                                conn, ts, ts_diff, wnd, seq, ack))
    for i, (_, body) in enumerate(exts):
        nxt = exts[i + 1][0] if i + 1 < len(exts) else 0
        out += bytes([nxt, len(body)]) + bytes(body)
    return bytes(out) + bytes(payload)


def sack_bits(body):
    """indices i (ack_nr + 2 + i) acknowledged by a selective-ack bitmask"""
    return [8 * j + k for j, b in enumerate(body) for k in range(8) if b >> k & 1]

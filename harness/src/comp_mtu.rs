//! SegmentSizes (src/mtu.rs) through its public API. See driver/c_mtu.ml for the line format.
//! Malformed case lines print BADCASE on both sides.
use crate::util::guarded;
use librqbit_utp::mtu::{SegmentSizes, SegmentSizesConfig};

enum Op {
    New(bool, u16, u16),
    Delivered(usize),
    NextSize,
    ProbeFailed(usize),
    Disarm,
}

fn digits(t: &str) -> bool {
    !t.is_empty() && t.bytes().all(|b| b.is_ascii_digit())
}

fn p_bool(t: &str) -> Option<bool> {
    match t {
        "1" => Some(true),
        "0" => Some(false),
        _ => None,
    }
}

fn p_u16(t: &str) -> Option<u16> {
    if digits(t) { t.parse().ok() } else { None }
}

fn p_usize(t: &str) -> Option<usize> {
    if digits(t) { t.parse().ok() } else { None }
}

fn p_cfg(v4: &str, mtu: &str, cd: &str) -> Option<(bool, u16, u16)> {
    Some((p_bool(v4)?, p_u16(mtu)?, p_u16(cd)?))
}

fn p_op(t: &str) -> Option<Op> {
    match t.as_bytes()[0] {
        b'n' if t.len() == 1 => Some(Op::NextSize),
        b'x' if t.len() == 1 => Some(Op::Disarm),
        b'd' => Some(Op::Delivered(p_usize(&t[1..])?)),
        b'f' => Some(Op::ProbeFailed(p_usize(&t[1..])?)),
        b'N' => {
            let p: Vec<&str> = t[1..].split(',').collect();
            if p.len() != 3 {
                return None;
            }
            let (a, b, c) = p_cfg(p[0], p[1], p[2])?;
            Some(Op::New(a, b, c))
        }
        _ => None,
    }
}

fn new(c: (bool, u16, u16)) -> SegmentSizes {
    SegmentSizes::new(SegmentSizesConfig {
        is_ipv4: c.0,
        link_mtu: c.1,
        probe_expiry_cooldown_packets: c.2,
    })
}

fn run_mtu(t: &[&str]) -> Option<String> {
    if t.len() < 3 {
        return None;
    }
    let cfg = p_cfg(t[0], t[1], t[2])?;
    let ops: Vec<Op> = t[3..].iter().map(|x| p_op(x)).collect::<Option<_>>()?;
    let mut out: Vec<String> = Vec::new();
    let _ = guarded(|| {
        let mut s = new(cfg);
        for op in &ops {
            // a panic inside the op or inside the observing is_probing() call ends the line
            let r = guarded(|| {
                let mut ret: Option<u16> = None;
                match *op {
                    Op::NextSize => ret = Some(s.next_segment_size()),
                    Op::Disarm => s.disarm_cooldown(),
                    Op::Delivered(n) => s.on_payload_delivered(n),
                    Op::ProbeFailed(n) => s.on_probe_failed(n),
                    Op::New(a, b, c) => s = new((a, b, c)),
                }
                let probing = s.is_probing();
                format!(
                    "{},{},{},{}",
                    s.mss(),
                    s.max_ss(),
                    probing as u8,
                    ret.map(|r| r.to_string()).unwrap_or_else(|| "-".into())
                )
            });
            match r {
                Ok(o) => out.push(o),
                Err(_) => {
                    out.push("PANIC".into());
                    break;
                }
            }
        }
        String::new()
    });
    Some(out.join(" "))
}

/// A path that delivers exactly the payload sizes <= P: while probing (at most 40 times)
/// disarm; s = next_segment_size(); delivered(s) if s <= P else probe_failed(s).
fn run_search(t: &[&str]) -> Option<String> {
    if t.len() != 3 {
        return None;
    }
    let cfg = (p_bool(t[0])?, p_u16(t[1])?, 0u16);
    let p = p_usize(t[2])?;
    Some(
        guarded(|| {
            let mut s = new(cfg);
            let mut cnt = 0u32;
            for _ in 0..40 {
                if !s.is_probing() {
                    break;
                }
                s.disarm_cooldown();
                let sz = s.next_segment_size() as usize;
                if sz <= p {
                    s.on_payload_delivered(sz);
                } else {
                    s.on_probe_failed(sz);
                }
                cnt += 1;
            }
            format!("{} {} {} {}", cnt, s.mss(), s.max_ss(), s.is_probing() as u8)
        })
        .unwrap_or_else(|_| "PANIC".into()),
    )
}

/// Regression of D3: a payload of n bytes received from the peer is reported through
/// on_payload_delivered right after `new`; prints max_ss before, mss and max_ss after.
fn run_d3(t: &[&str]) -> Option<String> {
    if t.len() != 3 {
        return None;
    }
    let cfg = (p_bool(t[0])?, p_u16(t[1])?, 3u16);
    let n = p_usize(t[2])?;
    Some(
        guarded(|| {
            let mut s = new(cfg);
            let ceiling = s.max_ss();
            s.on_payload_delivered(n);
            format!("{} {} {}", ceiling, s.mss(), s.max_ss())
        })
        .unwrap_or_else(|_| "PANIC".into()),
    )
}

pub fn dispatch(t: &[&str]) -> Option<String> {
    let r = match t[0] {
        "mtu" => run_mtu(&t[1..]),
        "mtu_search" => run_search(&t[1..]),
        "mtu_d3" => run_d3(&t[1..]),
        _ => return None,
    };
    Some(r.unwrap_or_else(|| "BADCASE".into()))
}

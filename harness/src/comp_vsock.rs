//! One real VirtualSocket driven by hand (model: coq/theories/Conn/VSock.v, VSockRun.v).
//! case: vsock <16 config tokens> <op> ...   (see tools/props/vsockgen.py)
use std::num::NonZeroUsize;
use std::pin::Pin;
use std::task::{Context, Poll};
use std::time::Duration;

use librqbit_utp::raw::{Extensions, Type, UtpHeader};
use librqbit_utp::verif as v;
use librqbit_utp::{Error, SocketOpts, UtpStreamReadHalf, UtpStreamWriteHalf};
use ringbuf::traits::{Consumer, Observer};
use tokio::io::{AsyncRead, AsyncWrite, ReadBuf};

use crate::comp_segs::parse_sack;
use crate::util::{bytes_dot, counting_waker, guarded, pattern};

pub(crate) fn err_name(e: &Error) -> String {
    match e {
        Error::StResetReceived => "ERESET".into(),
        Error::MaxRetransmissionsReached => "EMAXRETX".into(),
        Error::MaxSynAckRetransmissionsReached => "EMAXSYNACK".into(),
        Error::RemoteInactiveForTooLong => "EINACTIVE".into(),
        Error::Send(_) => "ESEND".into(),
        Error::ZeroPayloadStData => "EZEROPAY".into(),
        Error::BugRecvInClosed => "EBUG_RecvInClosed".into(),
        Error::BugUnexpectedPacketInSynReceived => "EBUG_UnexpectedPacketInSynReceived".into(),
        Error::BugEmsgSizeNoProbe => "EBUG_EmsgSizeNoProbe".into(),
        Error::BugInBufferComputations { .. } => "EBUG_InBufferComputations".into(),
        Error::BugCantEnqueue => "EBUG_CantEnqueue".into(),
        Error::BugOffsetBeyondBufferBounds => "EBUG_OffsetBeyondBufferBounds".into(),
        Error::BugRequestedLengthExceedsBufferBounds => {
            "EBUG_RequestedLengthExceedsBufferBounds".into()
        }
        Error::BugTruncateFront { .. } => "EBUG_TruncateFront".into(),
        Error::BugInvalidMessageExpectedStDataOrFin => {
            "EBUG_InvalidMessageExpectedStDataOrFin".into()
        }
        Error::BugAssemblerMissingSlot(_) => "EBUG_AssemblerMissingSlot".into(),
        Error::BugUnreachable => "EBUG_Unreachable".into(),
        other => format!("EOTHER_{other:?}").replace(' ', "_"),
    }
}

pub(crate) fn hash_bytes(b: &[u8]) -> u64 {
    let mut h: u64 = 0;
    let mut p: u64 = 1;
    for x in b {
        h = (h + (*x as u64 + 1) * p) % 1_000_000_007;
        p = (p * 31) % 1_000_000_007;
    }
    h
}

pub(crate) fn type_num(t: Type) -> u8 {
    match t {
        Type::ST_DATA => 0,
        Type::ST_FIN => 1,
        Type::ST_STATE => 2,
        Type::ST_RESET => 3,
        Type::ST_SYN => 4,
    }
}

fn type_of(n: u8) -> Type {
    match n {
        0 => Type::ST_DATA,
        1 => Type::ST_FIN,
        2 => Type::ST_STATE,
        3 => Type::ST_RESET,
        _ => Type::ST_SYN,
    }
}

/// datagram -> `t,seq,ack,wnd,ts,tsdiff,conn,sack,plen:hash`
pub(crate) fn packet_str(d: &[u8]) -> String {
    match UtpHeader::deserialize(d) {
        None => "UNPARSEABLE".into(),
        Some((h, n)) => {
            let p = &d[n..];
            format!(
                "{},{},{},{},{},{},{},{},{}:{}",
                type_num(h.htype),
                h.seq_nr.0,
                h.ack_nr.0,
                h.wnd_size,
                h.timestamp_microseconds,
                h.timestamp_difference_microseconds,
                h.connection_id.0,
                crate::comp_rx::sack_hex(h.extensions.selective_ack),
                p.len(),
                hash_bytes(p)
            )
        }
    }
}

pub(crate) fn opt_ns(x: Option<u128>) -> String {
    match x {
        Some(v) => v.to_string(),
        None => "-".into(),
    }
}

pub(crate) fn fingerprint(d: &v::VsockDriver) -> String {
    let s = d.snapshot();
    let segs = crate::comp_segs::digest_snapshot(&d.segments_snapshot(), d.base());
    let rx = d.rx_snapshot();
    let tx = d.user_tx();
    let (tlen, thash, tcap) = {
        let c = tx.consumer.lock();
        let (a, b) = c.as_slices();
        let all: Vec<u8> = a.iter().chain(b.iter()).copied().collect();
        (all.len(), hash_bytes(&all), c.capacity().get())
    };
    let tf = tx.locked.read().verif_flags();
    format!(
        "{},{},{},{},{},{},{},{},{},{},{},{},{},{},{},{},{},{},{},{},{},{},{},{},{},{},{},{},{},{},{}|{}|{},{},{},{},{}{}{}{},{}|{}:{},{},{}{}{}{}{}",
        s.state,
        s.state_a,
        s.state_b,
        s.seq_nr,
        s.last_sent_seq_nr,
        s.last_consumed_remote_seq_nr,
        s.last_sent_ack_nr,
        s.last_sent_window,
        s.last_remote_window,
        s.consumed_but_unacked_bytes,
        s.rto_retransmissions,
        opt_ns(s.timers[0]),
        opt_ns(s.timers[1]),
        opt_ns(s.timers[2]),
        opt_ns(s.timers[3]),
        opt_ns(s.timers[4]),
        s.mss,
        s.max_ss,
        s.unsegmented_data,
        s.rto_ns,
        s.rtt_ns,
        s.cc_window,
        s.cc_sshthresh,
        s.recovery.0,
        s.recovery.1,
        s.recovery.2,
        s.recovery.3,
        s.recovery.4,
        s.recovery.5,
        s.recovery_supports_sack as u8,
        s.transport_pending as u8,
        segs,
        rx.filled_front,
        rx.ooq_len,
        rx.ooq_len_bytes,
        rx.queue_len_bytes,
        rx.dispatcher_waker_registered as u8,
        rx.reader_waker_registered as u8,
        rx.reader_dropped as u8,
        rx.vsock_closed as u8,
        rx.last_remaining_rx_window,
        tlen,
        thash,
        tcap,
        tf.0 as u8,
        tf.1 as u8,
        tf.2 as u8,
        tf.3 as u8,
        tf.4 as u8
    )
}

/// One real connection with its application halves and counting wakers; executes the op tokens
/// of the `vsock` line protocol (shared by comp_vsock.rs and comp_pair.rs).
pub(crate) struct Endpoint {
    /// None after the connection future was dropped (op `X`: cancellation)
    pub d: Option<v::VsockDriver>,
    rh: Option<UtpStreamReadHalf>,
    wh: Option<UtpStreamWriteHalf>,
    dc: std::sync::Arc<crate::util::CountingWaker>,
    dw: std::task::Waker,
    rset: crate::util::WakerSet,
    wset: crate::util::WakerSet,
    pub finished: bool,
}

/// Result of one op on an endpoint.
pub(crate) struct OpResult {
    pub res: String,
    pub is_poll: bool,
    /// bytes a read returned
    pub read: Vec<u8>,
    /// number of bytes a write accepted
    pub wrote: usize,
}

pub(crate) fn opts_of(
    link_mtu: u64,
    rx_buf: u64,
    tx_init: u64,
    tx_max: u64,
    nagle: bool,
    max_retx: u64,
    inactivity_ns: u64,
    wait_last_ack: bool,
    probe_retx: u64,
) -> SocketOpts {
    SocketOpts {
        link_mtu: NonZeroUsize::new(link_mtu as usize),
        vsock_rx_bufsize_bytes: NonZeroUsize::new(rx_buf as usize),
        vsock_tx_bufsize_bytes_initial: NonZeroUsize::new(tx_init as usize),
        vsock_tx_bufsize_bytes_max: NonZeroUsize::new(tx_max as usize),
        disable_nagle: !nagle,
        max_retransmissions: NonZeroUsize::new(max_retx as usize),
        remote_inactivity_timeout: Some(Duration::from_nanos(inactivity_ns)),
        dont_wait_for_lastack: !wait_last_ack,
        mtu_probe_max_retransmissions: Some(probe_retx as usize),
        ..Default::default()
    }
}

pub(crate) fn kind_incoming(next_seq_nr: u16, rseq: u16, rconn: u16, rts: u32) -> v::VerifStreamKind {
    v::VerifStreamKind::Incoming {
        next_seq_nr,
        remote_syn: UtpHeader {
            htype: Type::ST_SYN,
            connection_id: v::SeqNr(rconn),
            timestamp_microseconds: rts,
            seq_nr: v::SeqNr(rseq),
            ..Default::default()
        },
    }
}

pub(crate) fn kind_outgoing(
    isn: u16,
    rseq: u16,
    rconn: u16,
    rwnd: u32,
    rts: u32,
    syn_rtt: u64,
) -> v::VerifStreamKind {
    v::VerifStreamKind::Outgoing {
        remote_ack: UtpHeader {
            htype: Type::ST_STATE,
            connection_id: v::SeqNr(rconn),
            timestamp_microseconds: rts,
            wnd_size: rwnd,
            seq_nr: v::SeqNr(rseq),
            ack_nr: v::SeqNr(isn),
            ..Default::default()
        },
        syn_sent_ns: 0,
        ack_received_ns: syn_rtt,
    }
}

impl Endpoint {
    pub fn new(opts: SocketOpts, ipv4: bool, kind: v::VerifStreamKind) -> Result<Self, ()> {
        let mut d = v::VsockDriver::new(opts, ipv4, kind).map_err(|_| ())?;
        let (rh, wh) = d.stream.take().unwrap().split();
        let (dc, dw) = counting_waker();
        Ok(Endpoint {
            d: Some(d),
            rh: Some(rh),
            wh: Some(wh),
            dc,
            dw,
            rset: crate::util::WakerSet::new(),
            wset: crate::util::WakerSet::new(),
            finished: false,
        })
    }

    /// Executes one op token of the vsock protocol. `full_bytes`: a read prints the bytes it
    /// returned (vsock component) instead of their hash (pair component).
    pub fn op(&mut self, tok: &str, full_bytes: bool) -> OpResult {
        let mut dcx = Context::from_waker(&self.dw);
        let (c, rest) = tok.split_at(1);
        // every application call is made under a fresh waker (see util::WakerSet)
        let rw = if c == "R" { Some(self.rset.fresh()) } else { None };
        let ww = if matches!(c, "W" | "F" | "H") { Some(self.wset.fresh()) } else { None };
        let noop = std::task::Waker::from(std::sync::Arc::new(crate::util::CountingWaker(
            std::sync::atomic::AtomicUsize::new(0),
        )));
        let mut rcx = Context::from_waker(rw.as_ref().unwrap_or(&noop));
        let mut wcx = Context::from_waker(ww.as_ref().unwrap_or(&noop));
        if c == "X" {
            // the connection future is dropped without having returned (cancellation): Drop for VirtualSocket
            self.d = None;
            return OpResult { res: "X".into(), is_poll: false, read: Vec::new(), wrote: 0 };
        }
        if self.d.is_none() && matches!(c, "T" | "L" | "P" | "M" | "Z") {
            return OpResult { res: "BADOP".into(), is_poll: false, read: Vec::new(), wrote: 0 };
        }
        let mut no_driver: Option<v::VsockDriver> = None;
        let d: &mut v::VsockDriver = match self.d.as_mut() {
            Some(d) => d,
            None => {
                // application ops never touch the driver; keep the borrow checker happy
                let _ = &mut no_driver;
                return self.app_op_after_drop(c, rest, full_bytes);
            }
        };
        let mut is_poll = false;
        let mut read: Vec<u8> = Vec::new();
        let mut wrote = 0usize;
        let res: String = match c {
            "T" => {
                d.set_now_ns(rest.parse().unwrap());
                "-".into()
            }
            "L" => {
                d.set_max_datagram(if rest == "-" { None } else { Some(rest.parse().unwrap()) });
                "-".into()
            }
            "P" => {
                is_poll = true;
                let script: Vec<v::SendOutcome> = rest
                    .chars()
                    .map(|ch| match ch {
                        'S' => v::SendOutcome::Sent,
                        'P' => v::SendOutcome::Pending,
                        'E' => v::SendOutcome::EMsgSize,
                        _ => v::SendOutcome::IoErr,
                    })
                    .collect();
                d.script_sends(&script);
                let _ = d.take_sent();
                match d.poll_once(&mut dcx) {
                    Poll::Pending => "PEND".into(),
                    Poll::Ready(Ok(())) => {
                        self.finished = true;
                        "OK".into()
                    }
                    Poll::Ready(Err(e)) => {
                        self.finished = true;
                        err_name(&e)
                    }
                }
            }
            "M" => {
                let f: Vec<&str> = rest.split(',').collect();
                let msg = v::UtpMessage {
                    header: UtpHeader {
                        htype: type_of(f[0].parse().unwrap()),
                        connection_id: v::SeqNr(0),
                        timestamp_microseconds: f[4].parse().unwrap(),
                        timestamp_difference_microseconds: 0,
                        wnd_size: f[3].parse().unwrap(),
                        seq_nr: v::SeqNr(f[1].parse().unwrap()),
                        ack_nr: v::SeqNr(f[2].parse().unwrap()),
                        extensions: Extensions {
                            selective_ack: parse_sack(f[7]),
                            ..Default::default()
                        },
                    },
                    data: pattern(f[6].parse().unwrap(), f[5].parse().unwrap()),
                };
                d.deliver(msg);
                "-".into()
            }
            "Z" => {
                d.close_inbox();
                "-".into()
            }
            "W" => {
                let f: Vec<usize> = rest.split(',').map(|x| x.parse().unwrap()).collect();
                let buf = pattern(f[1], f[0]);
                match self.wh.as_mut() {
                    None => "-".into(),
                    Some(h) => match Pin::new(h).poll_write(&mut wcx, &buf) {
                        Poll::Ready(Ok(n)) => {
                            wrote = n;
                            format!("W{n}")
                        }
                        Poll::Pending => "WP".into(),
                        Poll::Ready(Err(e)) => match e.to_string().as_str() {
                            "socket closed" => "WEC".into(),
                            "no writing after shutdown" => "WES".into(),
                            _ => "WED".into(),
                        },
                    },
                }
            }
            "F" | "H" => match self.wh.as_mut() {
                None => "-".into(),
                Some(h) => {
                    let r = if c == "F" {
                        Pin::new(h).poll_flush(&mut wcx)
                    } else {
                        Pin::new(h).poll_shutdown(&mut wcx)
                    };
                    match r {
                        Poll::Ready(Ok(())) => "UOK".into(),
                        Poll::Pending => "UPEND".into(),
                        Poll::Ready(Err(_)) => "UERR".into(),
                    }
                }
            },
            "R" => match self.rh.as_mut() {
                None => "-".into(),
                Some(h) => {
                    let n: usize = rest.parse().unwrap();
                    let mut buf = vec![0u8; n];
                    let mut rb = ReadBuf::new(&mut buf);
                    match Pin::new(h).poll_read(&mut rcx, &mut rb) {
                        Poll::Pending => "RPEND".into(),
                        Poll::Ready(Ok(())) => {
                            let f = rb.filled();
                            if f.is_empty() {
                                "REOF".into()
                            } else {
                                read = f.to_vec();
                                if full_bytes {
                                    format!("R{}:{}", f.len(), bytes_dot(f))
                                } else {
                                    format!("R{}:{}", f.len(), hash_bytes(f))
                                }
                            }
                        }
                        Poll::Ready(Err(e)) => {
                            if e.to_string() == "dispatcher dead" {
                                "RERRDEAD".into()
                            } else {
                                "RERRMSG".into()
                            }
                        }
                    }
                }
            },
            "D" => {
                if rest == "R" {
                    self.rh = None;
                } else {
                    self.wh = None;
                }
                "-".into()
            }
            _ => "BADOP".into(),
        };
        match res.as_str() {
            "RPEND" if rest != "0" => self.rset.returned_pending(),
            "WP" | "UPEND" => self.wset.returned_pending(),
            _ => {}
        }
        OpResult {
            res,
            is_poll,
            read,
            wrote,
        }
    }

    pub fn drv(&self) -> &v::VsockDriver {
        self.d.as_ref().expect("connection dropped")
    }

    /// Application ops once the connection object is gone: only the halves are left.
    fn app_op_after_drop(&mut self, c: &str, rest: &str, full_bytes: bool) -> OpResult {
        let rw = self.rset.fresh();
        let ww = self.wset.fresh();
        let mut rcx = Context::from_waker(&rw);
        let mut wcx = Context::from_waker(&ww);
        let mut read: Vec<u8> = Vec::new();
        let mut wrote = 0usize;
        let res: String = match c {
            "W" => {
                let f: Vec<usize> = rest.split(',').map(|x| x.parse().unwrap()).collect();
                let buf = pattern(f[1], f[0]);
                match self.wh.as_mut() {
                    None => "-".into(),
                    Some(h) => match Pin::new(h).poll_write(&mut wcx, &buf) {
                        Poll::Ready(Ok(n)) => {
                            wrote = n;
                            format!("W{n}")
                        }
                        Poll::Pending => "WP".into(),
                        Poll::Ready(Err(e)) => match e.to_string().as_str() {
                            "socket closed" => "WEC".into(),
                            "no writing after shutdown" => "WES".into(),
                            _ => "WED".into(),
                        },
                    },
                }
            }
            "F" | "H" => match self.wh.as_mut() {
                None => "-".into(),
                Some(h) => {
                    let r = if c == "F" {
                        Pin::new(h).poll_flush(&mut wcx)
                    } else {
                        Pin::new(h).poll_shutdown(&mut wcx)
                    };
                    match r {
                        Poll::Ready(Ok(())) => "UOK".into(),
                        Poll::Pending => "UPEND".into(),
                        Poll::Ready(Err(_)) => "UERR".into(),
                    }
                }
            },
            "R" => match self.rh.as_mut() {
                None => "-".into(),
                Some(h) => {
                    let n: usize = rest.parse().unwrap();
                    let mut buf = vec![0u8; n];
                    let mut rb = ReadBuf::new(&mut buf);
                    match Pin::new(h).poll_read(&mut rcx, &mut rb) {
                        Poll::Pending => "RPEND".into(),
                        Poll::Ready(Ok(())) => {
                            let f = rb.filled();
                            if f.is_empty() {
                                "REOF".into()
                            } else {
                                read = f.to_vec();
                                if full_bytes {
                                    format!("R{}:{}", f.len(), bytes_dot(f))
                                } else {
                                    format!("R{}:{}", f.len(), hash_bytes(f))
                                }
                            }
                        }
                        Poll::Ready(Err(e)) => {
                            if e.to_string() == "dispatcher dead" {
                                "RERRDEAD".into()
                            } else {
                                "RERRMSG".into()
                            }
                        }
                    }
                }
            },
            "D" => {
                if rest == "R" {
                    self.rh = None;
                } else {
                    self.wh = None;
                }
                "-".into()
            }
            _ => "BADOP".into(),
        };
        match res.as_str() {
            "RPEND" if rest != "0" => self.rset.returned_pending(),
            "WP" | "UPEND" => self.wset.returned_pending(),
            _ => {}
        }
        OpResult { res, is_poll: false, read, wrote }
    }

    /// Delivers a message to the connection's inbox (as the socket dispatcher would).
    pub fn deliver(&mut self, msg: v::UtpMessage) {
        if let Some(d) = self.d.as_mut() { d.deliver(msg); }
    }

    /// The wake-ups fired since the last call: reader, writer, dispatcher.
    pub fn wakes(&mut self) -> String {
        let mut wakes = String::new();
        wakes.push_str(&self.rset.letters('R', 'r', true));
        wakes.push_str(&self.wset.letters('W', 'w', true));
        for _ in 0..self.dc.take().min(1) {
            wakes.push('D');
        }
        if wakes.is_empty() {
            wakes.push('-');
        }
        wakes
    }

    /// The observation token of one op, in the format of the `vsock` component.
    pub fn obs(&self, r: &OpResult, wakes: &str) -> (String, Vec<Vec<u8>>) {
        if r.is_poll {
            let sent = self.drv().take_sent();
            let pk = if sent.is_empty() {
                "-".to_string()
            } else {
                sent.iter().map(|x| packet_str(x)).collect::<Vec<_>>().join(";")
            };
            let snap = self.drv().snapshot();
            (
                format!(
                    "P:{}/{}/{}/{}/{}",
                    r.res,
                    pk,
                    wakes,
                    opt_ns(snap.last_arm_in),
                    fingerprint(self.drv())
                ),
                sent,
            )
        } else {
            match self.d.as_ref() {
                Some(d) => (format!("{}/{}/{}", r.res, wakes, fingerprint(d)), Vec::new()),
                None => {
                    // the dropped task's own waker may fire while its parts are torn down: nobody is left to be woken
                    let w: String = wakes.chars().filter(|c| *c != 'D').collect();
                    (format!("{}/{}", r.res, if w.is_empty() { "-" } else { &w }), Vec::new())
                }
            }
        }
    }
}

pub fn dispatch(t: &[&str]) -> Option<String> {
    if t[0] != "vsock" && t[0] != "vdrop" {
        return None;
    }
    if t.len() < 18 {
        return Some("BADCASE".into());
    }
    let rt = tokio::runtime::Builder::new_current_thread()
        .enable_time()
        .start_paused(true)
        .build()
        .unwrap();
    Some(rt.block_on(async { run(t) }))
}

fn run(t: &[&str]) -> String {
    let num = |i: usize| -> u64 { t[i].parse().unwrap() };
    let incoming = t[1] == "in";
    let ipv4 = t[2] == "1";
    let opts = opts_of(
        num(3),
        num(4),
        num(5),
        num(6),
        t[7] != "0",
        num(8),
        num(9),
        t[10] != "0",
        num(11),
    );
    let isn = num(12) as u16;
    let rseq = num(13) as u16;
    let rconn = num(14) as u16;
    let rwnd = num(15) as u32;
    let rts = num(16) as u32;
    let syn_rtt = num(17);
    let kind = if incoming {
        kind_incoming(isn, rseq, rconn, rts)
    } else {
        kind_outgoing(isn, rseq, rconn, rwnd, rts, syn_rtt)
    };
    let mut e = match Endpoint::new(opts, ipv4, kind) {
        Ok(e) => e,
        Err(_) => return "BADCONFIG".into(),
    };
    let mut out: Vec<String> = Vec::new();
    out.push(format!("I:-/-/{}", fingerprint(e.drv())));
    for tok in &t[18..] {
        if e.finished {
            break;
        }
        let r = guarded(|| e.op(tok, true));
        match r {
            Err(_) => {
                out.push("PANIC".into());
                break;
            }
            Ok(r) => {
                let wakes = e.wakes();
                out.push(e.obs(&r, &wakes).0);
            }
        }
    }
    out.join(" ")
}

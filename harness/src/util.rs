//! Shared helpers for the component drivers.
use std::time::Duration;

pub fn dur_of_ns(ns: u128) -> Duration {
    Duration::new((ns / 1_000_000_000) as u64, (ns % 1_000_000_000) as u32)
}

/// Runs `f` under catch_unwind; a panic is the observation "PANIC".
pub fn guarded<F: FnOnce() -> String>(f: F) -> Result<String, ()> {
    std::panic::catch_unwind(std::panic::AssertUnwindSafe(f)).map_err(|_| ())
}

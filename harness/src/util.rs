//! Shared helpers for the component drivers.
use std::time::Duration;

pub fn dur_of_ns(ns: u128) -> Duration {
    Duration::new((ns / 1_000_000_000) as u64, (ns % 1_000_000_000) as u32)
}

/// Runs `f` under catch_unwind; a panic is the observation "PANIC".
pub fn guarded<T, F: FnOnce() -> T>(f: F) -> Result<T, ()> {
    std::panic::catch_unwind(std::panic::AssertUnwindSafe(f)).map_err(|_| ())
}

use std::sync::Arc;
use std::sync::atomic::{AtomicUsize, Ordering};
use std::task::{Wake, Waker};

/// A waker that counts how often it was woken.
pub struct CountingWaker(pub AtomicUsize);

impl Wake for CountingWaker {
    fn wake(self: Arc<Self>) {
        self.0.fetch_add(1, Ordering::SeqCst);
    }
    fn wake_by_ref(self: &Arc<Self>) {
        self.0.fetch_add(1, Ordering::SeqCst);
    }
}

pub fn counting_waker() -> (Arc<CountingWaker>, Waker) {
    let c = Arc::new(CountingWaker(AtomicUsize::new(0)));
    let w = Waker::from(c.clone());
    (c, w)
}

impl CountingWaker {
    pub fn take(&self) -> usize {
        self.0.swap(0, Ordering::SeqCst)
    }
}

/// Position-coded payload: byte j = (start + j) mod 251.
pub fn pattern(start: usize, len: usize) -> Vec<u8> {
    (0..len).map(|j| ((start + j) % 251) as u8).collect()
}

pub fn bytes_dot(b: &[u8]) -> String {
    b.iter().map(|x| x.to_string()).collect::<Vec<_>>().join(".")
}

//! Shared helpers for the component drivers.
use std::time::Duration;

pub fn dur_of_ns(ns: u128) -> Duration {
    Duration::new((ns / 1_000_000_000) as u64, (ns % 1_000_000_000) as u32)
}

/// Runs `f` under catch_unwind; a panic is the observation "PANIC".
pub fn guarded<T, F: FnOnce() -> T>(f: F) -> Result<T, ()> {
    std::panic::catch_unwind(std::panic::AssertUnwindSafe(f)).map_err(|_| ())
}

use std::sync::Arc;
use std::sync::atomic::{AtomicUsize, Ordering};
use std::task::{Wake, Waker};

/// A waker that counts how often it was woken.
pub struct CountingWaker(pub AtomicUsize);

impl Wake for CountingWaker {
    fn wake(self: Arc<Self>) {
        self.0.fetch_add(1, Ordering::SeqCst);
    }
    fn wake_by_ref(self: &Arc<Self>) {
        self.0.fetch_add(1, Ordering::SeqCst);
    }
}

pub fn counting_waker() -> (Arc<CountingWaker>, Waker) {
    let c = Arc::new(CountingWaker(AtomicUsize::new(0)));
    let w = Waker::from(c.clone());
    (c, w)
}

impl CountingWaker {
    pub fn take(&self) -> usize {
        self.0.swap(0, Ordering::SeqCst)
    }
}

/// Position-coded payload: byte j = (start + j) mod 251.
pub fn pattern(start: usize, len: usize) -> Vec<u8> {
    (0..len).map(|j| ((start + j) % 251) as u8).collect()
}

pub fn bytes_dot(b: &[u8]) -> String {
    b.iter().map(|x| x.to_string()).collect::<Vec<_>>().join(".")
}

/// One application half polled the way real tasks poll it: EVERY call gets a fresh waker (the half may have
/// moved to another task, or sit in a FuturesUnordered / select!), so a registration that is not refreshed
/// keeps a waker nobody listens to any more.  A wake-up counts as `W`/`R` only if it reaches the waker of
/// the most recent call that returned Pending (or of a later call); if only older wakers fire it is
/// reported as stale (`w`/`r`).
pub struct WakerSet {
    all: Vec<Arc<CountingWaker>>,
    cur: Option<usize>,
}

impl WakerSet {
    pub fn new() -> Self {
        WakerSet { all: Vec::new(), cur: None }
    }
    /// the waker for the next call
    pub fn fresh(&mut self) -> Waker {
        let (c, w) = counting_waker();
        self.all.push(c);
        w
    }
    /// the call that used the last waker handed out returned Pending
    pub fn returned_pending(&mut self) {
        if let Some(last) = self.all.last() {
            // a call that woke its own waker before returning Pending only yields (cooperative budget): it will be
            // polled again and has not parked on anything
            if last.0.load(Ordering::SeqCst) == 0 {
                self.cur = Some(self.all.len() - 1);
            }
        }
    }
    /// (wake-ups that reached the current waker, wake-ups that reached only older ones)
    pub fn take(&mut self) -> (usize, usize) {
        let mut cur = 0;
        let mut stale = 0;
        for (i, c) in self.all.iter().enumerate() {
            let n = c.take();
            // a call that returned Ready may have registered its waker too (a read that drains the queue does):
            // only a waker OLDER than the last Pending call's is stale
            if self.cur.map_or(true, |c| i >= c) {
                cur += n;
            } else {
                stale += n;
            }
        }
        (cur, stale)
    }
    /// letters for the observation: `up` per current wake-up, one `low` if only stale wakers fired
    pub fn letters(&mut self, up: char, low: char, at_most_one: bool) -> String {
        let (cur, stale) = self.take();
        let mut s = String::new();
        let n = if at_most_one { cur.min(1) } else { cur };
        for _ in 0..n {
            s.push(up);
        }
        if cur == 0 && stale > 0 {
            s.push(low);
        }
        s
    }
}

//! Wire format: drives the real UtpHeader::deserialize / serialize and UtpMessage::deserialize.
//! Line formats: see driver/c_wire.ml.
use crate::util::guarded;
use librqbit_utp::raw::{
    Extensions, Type, UtpHeader, ext_close_reason::LibTorrentCloseReason,
    selective_ack::SelectiveAck,
};
use librqbit_utp::verif as v;

const POISON: u8 = 0xAA;

fn csv_u8(s: &str) -> Vec<u8> {
    if s == "-" || s.is_empty() {
        return Vec::new();
    }
    s.split(',').map(|t| t.parse::<u8>().unwrap()).collect()
}

fn csv_usize(s: &str) -> Vec<usize> {
    if s.is_empty() {
        return Vec::new();
    }
    s.split(',').map(|t| t.parse::<usize>().unwrap()).collect()
}

fn int_in(lo: u64, hi: u64, s: &str) -> bool {
    !s.is_empty()
        && s.bytes().all(|b| b.is_ascii_digit())
        && s.parse::<u64>().map(|n| n >= lo && n <= hi).unwrap_or(false)
}

fn csv_in(lo: u64, hi: u64, s: &str) -> bool {
    s.is_empty() || s.split(',').all(|x| int_in(lo, hi, x))
}

fn bytes_tok(s: &str) -> bool {
    s == "-" || (!s.is_empty() && csv_in(0, 255, s))
}

fn ser_ok(t: &[&str]) -> bool {
    t.len() == 11
        && int_in(0, 4, t[1])
        && int_in(0, 65535, t[2])
        && int_in(0, 4294967295, t[3])
        && int_in(0, 4294967295, t[4])
        && int_in(0, 4294967295, t[5])
        && int_in(0, 65535, t[6])
        && int_in(0, 65535, t[7])
        && (t[8] == "-"
            || (t[8].starts_with('n') && csv_in(0, 1_000_000_000, &t[8][1..]))
            || (t[8].starts_with('d') && csv_in(0, 255, &t[8][1..])))
        && (t[9] == "-" || int_in(0, 65535, t[9]))
        && int_in(0, 65536, t[10])
}

fn type_num(t: Type) -> u8 {
    match t {
        Type::ST_DATA => 0,
        Type::ST_FIN => 1,
        Type::ST_STATE => 2,
        Type::ST_RESET => 3,
        Type::ST_SYN => 4,
    }
}

fn type_of(n: u8) -> Type {
    match n {
        0 => Type::ST_DATA,
        1 => Type::ST_FIN,
        2 => Type::ST_STATE,
        3 => Type::ST_RESET,
        4 => Type::ST_SYN,
        _ => panic!("bad type token"),
    }
}

fn header_toks(h: &UtpHeader) -> String {
    let sack = match &h.extensions.selective_ack {
        None => "-1".to_string(),
        Some(s) => {
            let mut out = format!("{}", s.len());
            for b in s.as_bytes() {
                out.push_str(&format!(",{b}"));
            }
            out
        }
    };
    let close = match &h.extensions.close_reason {
        None => "-1".to_string(),
        Some(c) => format!("{}", c.0),
    };
    format!(
        "{} {} {} {} {} {} {} {} {}",
        type_num(h.htype),
        h.connection_id.0,
        h.timestamp_microseconds,
        h.timestamp_difference_microseconds,
        h.wnd_size,
        h.seq_nr.0,
        h.ack_nr.0,
        sack,
        close
    )
}

fn bytes_csv(b: &[u8]) -> String {
    if b.is_empty() {
        return "-".to_string();
    }
    b.iter().map(|x| x.to_string()).collect::<Vec<_>>().join(",")
}

pub fn dispatch(t: &[&str]) -> Option<String> {
    // a case line with the wrong number of tokens or a value outside its Rust type (only the
    // shrinker produces those) is answered with the same fixed text by both sides
    match t[0] {
        "wire_de" | "wire_msg" => {
            if !(t.len() == 2 && bytes_tok(t[1])) {
                return Some("BAD-CASE".into());
            }
        }
        "wire_ser" => {
            if !ser_ok(t) {
                return Some("BAD-CASE".into());
            }
        }
        _ => return None,
    }
    match t[0] {
        "wire_de" => {
            let bs = csv_u8(t[1]);
            let r = guarded(|| match UtpHeader::deserialize(&bs) {
                None => "NONE".to_string(),
                Some((h, n)) => format!("{} {}", header_toks(&h), n),
            });
            Some(r.unwrap_or_else(|_| "PANIC".into()))
        }
        "wire_msg" => {
            let bs = csv_u8(t[1]);
            let r = guarded(|| match v::UtpMessage::deserialize(&bs) {
                None => "NONE".to_string(),
                Some(m) => format!("{} {}", header_toks(&m.header), m.payload().len()),
            });
            Some(r.unwrap_or_else(|_| "PANIC".into()))
        }
        "wire_ser" => {
            let sack = match t[8] {
                "-" => None,
                s if s.starts_with('n') => Some(SelectiveAck::new(csv_usize(&s[1..]).into_iter())),
                s if s.starts_with('d') => Some(SelectiveAck::deserialize(&csv_u8(&s[1..]))),
                _ => panic!("bad sack spec"),
            };
            let close = match t[9] {
                "-" => None,
                s => Some(LibTorrentCloseReason(s.parse::<u16>().unwrap())),
            };
            let h = UtpHeader {
                htype: type_of(t[1].parse().unwrap()),
                connection_id: v::SeqNr(t[2].parse::<u16>().unwrap()),
                timestamp_microseconds: t[3].parse().unwrap(),
                timestamp_difference_microseconds: t[4].parse().unwrap(),
                wnd_size: t[5].parse().unwrap(),
                seq_nr: v::SeqNr(t[6].parse::<u16>().unwrap()),
                ack_nr: v::SeqNr(t[7].parse::<u16>().unwrap()),
                extensions: Extensions {
                    selective_ack: sack,
                    close_reason: close,
                },
            };
            let buflen: usize = t[10].parse().unwrap();
            let r = guarded(|| {
                let mut buf = vec![POISON; buflen];
                match h.serialize(&mut buf) {
                    Err(_) => "ERR".to_string(),
                    Ok(len) => {
                        let mut s = bytes_csv(&buf[..len]);
                        // nothing beyond the returned length may have been written
                        if buf[len..].iter().any(|b| *b != POISON) {
                            s.push_str(" DIRTY");
                        }
                        s
                    }
                }
            });
            Some(r.unwrap_or_else(|_| "PANIC".into()))
        }
        _ => None,
    }
}

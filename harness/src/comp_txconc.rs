//! Validation of the ATOMICITY ASSUMPTION of the trusted base for the send buffer (UserTx + write half):
//! the Coq theorems about the ring (Props/C19.v, Props/C01.v T1) quantify over every interleaving of the
//! METHODS of the shared object; that each method is atomic is an assumption about the locks.  This
//! component runs a writer thread (poll_write of position-coded bytes, as fast as it can) against a
//! dispatcher thread doing what VirtualSocket::poll does with the same object (look at the ring, grow it,
//! truncate acknowledged bytes) and requires what every linearisation of atomic methods gives: the bytes
//! the dispatcher sees at the front of the ring are exactly the next bytes the writer was told were
//! accepted, nothing lost, nothing duplicated, capacity never above max(initial, max).
//!   txconc <initial> <max> <rounds> <seed>      ->  OK   |   LOST round=<r> offset=<o> ...
use std::num::NonZeroUsize;
use std::pin::Pin;
use std::sync::atomic::{AtomicBool, AtomicUsize, Ordering};
use std::sync::Arc;
use std::task::{Context, Poll};

use librqbit_utp::verif as v;
use librqbit_utp::UtpStreamWriteHalf;
use ringbuf::traits::{Consumer, Observer};
use tokio::io::AsyncWrite;

use crate::util::counting_waker;

fn pat(i: usize) -> u8 {
    (i % 251) as u8
}

fn one_round(initial: usize, max: usize, total: usize, seed: u64, round: usize) -> Result<(), String> {
    let tx = v::UserTx::new(NonZeroUsize::new(initial).unwrap());
    let accepted = Arc::new(AtomicUsize::new(0));
    let done = Arc::new(AtomicBool::new(false));
    let txw = tx.clone();
    let acc_w = accepted.clone();
    let done_w = done.clone();
    let writer = std::thread::spawn(move || {
        let mut wh = UtpStreamWriteHalf::new(txw);
        let (_c, w) = counting_waker();
        let mut cx = Context::from_waker(&w);
        let mut s = seed | 1;
        let mut off = 0usize;
        let mut spins = 0u64;
        while off < total && spins < 200_000_000 {
            s ^= s << 13;
            s ^= s >> 7;
            s ^= s << 17;
            let want = (1 + (s as usize % 97)).min(total - off);
            let buf: Vec<u8> = (0..want).map(|j| pat(off + j)).collect();
            match Pin::new(&mut wh).poll_write(&mut cx, &buf) {
                Poll::Ready(Ok(n)) => {
                    off += n;
                    acc_w.store(off, Ordering::SeqCst);
                }
                Poll::Pending => {
                    spins += 1;
                    std::hint::spin_loop();
                }
                Poll::Ready(Err(_)) => break,
            }
        }
        done_w.store(true, Ordering::SeqCst);
        // keep the half alive until the dispatcher side is finished with the object
        off
    });

    let mut consumed = 0usize;
    let mut s = seed.wrapping_mul(0x9E37_79B9_7F4A_7C15) | 1;
    let limit = max.max(initial);
    let mut result = Ok(());
    let mut idle = 0u64;
    loop {
        // what the dispatcher sees
        let (len, cap, bad) = {
            let c = tx.consumer.lock();
            let (a, b) = c.as_slices();
            let mut bad = None;
            for (j, x) in a.iter().chain(b.iter()).enumerate() {
                if *x != pat(consumed + j) {
                    bad = Some(j);
                    break;
                }
            }
            (a.len() + b.len(), c.capacity().get(), bad)
        };
        if let Some(j) = bad {
            result = Err(format!(
                "LOST round={round} offset={} (ring content is not the next accepted bytes)",
                consumed + j
            ));
            break;
        }
        if cap > limit {
            result = Err(format!("CAP round={round} capacity={cap} limit={limit}"));
            break;
        }
        s ^= s << 13;
        s ^= s >> 7;
        s ^= s << 17;
        if len * 2 >= cap {
            tx.grow(NonZeroUsize::new(max).unwrap());
        }
        if len > 0 {
            let k = 1 + (s as usize % len);
            if tx.truncate_front(k).is_err() {
                result = Err(format!("TRUNC round={round} consumed={consumed} k={k}"));
                break;
            }
            consumed += k;
            // the dispatcher's wake of a parked writer
            let w = tx.locked.write().writer_waker.take();
            if let Some(w) = w {
                w.wake();
            }
            idle = 0;
        } else if done.load(Ordering::SeqCst) {
            // writer finished: one more look (a last write may have landed after our look)
            let c = tx.consumer.lock();
            if c.is_empty() {
                break;
            }
        } else {
            idle += 1;
            if idle > 2_000_000_000 {
                result = Err(format!("STUCK round={round} consumed={consumed}"));
                break;
            }
            std::hint::spin_loop();
        }
    }
    tx.mark_vsock_closed();
    let off = writer.join().unwrap_or(0);
    if result.is_ok() && consumed != off {
        result = Err(format!(
            "LOST round={round} accepted={off} seen_by_dispatcher={consumed}"
        ));
    }
    result
}

pub fn dispatch(t: &[&str]) -> Option<String> {
    if t[0] != "txconc" {
        return None;
    }
    let initial: usize = t[1].parse().unwrap();
    let max: usize = t[2].parse().unwrap();
    let rounds: usize = t[3].parse().unwrap();
    let seed: u64 = t[4].parse().unwrap();
    for r in 0..rounds {
        let total = 4 * max.max(initial);
        if let Err(e) = one_round(initial, max, total, seed.wrapping_add(r as u64 * 7919), r) {
            return Some(e);
        }
    }
    Some("OK".into())
}

//! Cubic congestion controller, driven through the CongestionController trait.
//! case: `cubic <mss> <op> ...`; ops: `w<win>` set_remote_window, `a<now_ns>,<len>,<rtt_ns>`
//! on_ack (rtt fed through a fresh real RttEstimator: roundtrip_time() == rtt after one
//! sample), `t` on_retransmission_timeout, `e<now_ns>` on_enter_recovery,
//! `r<cwnd_bytes>,<ssthresh_bytes>` on_recovered, `m<mss>` set_mss.
//! Output: `window,sshthresh,smss` after every op (integers only); PANIC ends the case.
use crate::util::{dur_of_ns, guarded};
use librqbit_utp::verif::{CongestionController, Cubic, RttEstimator};
use std::time::{Duration, Instant};

fn nums(s: &str) -> Vec<u128> {
    s.split(',').map(|x| x.parse().unwrap()).collect()
}

/// Same well-formedness rule as driver/c_cubic.ml (`BADCASE` on both sides otherwise).
fn well_formed(t: &[&str]) -> bool {
    let num = |x: &str| !x.is_empty() && x.len() <= 30 && x.bytes().all(|b| b.is_ascii_digit());
    if t.len() < 2 || !num(t[1]) || t[1].parse::<usize>().is_err() {
        return false;
    }
    t[2..].iter().all(|tok| {
        let (op, rest) = tok.split_at(1);
        let parts: Vec<&str> = rest.split(',').collect();
        let arity = match op {
            "t" => return rest.is_empty(),
            "w" | "e" | "m" => 1,
            "r" => 2,
            "a" => 3,
            _ => return false,
        };
        parts.len() == arity
            && parts.iter().enumerate().all(|(i, x)| {
                num(x) && (if op == "a" && i == 2 { true } else { x.parse::<u64>().is_ok() })
            })
    })
}

/// `cubic_libm <u64 bit pattern> ...`: bit patterns (unsigned decimal integers, `nan` for any NaN)
/// of the real `f64::cbrt(x)` and `f64::powf(x, 3.)`, the two libm calls of cubic.rs.
fn libm(t: &[&str]) -> String {
    let canon = |y: f64| if y.is_nan() { "nan".to_string() } else { y.to_bits().to_string() };
    t.iter()
        .map(|tok| match tok.parse::<u64>() {
            Ok(b) if tok.bytes().all(|c| c.is_ascii_digit()) => {
                let x = std::hint::black_box(f64::from_bits(b));
                format!("{},{}", canon(x.cbrt()), canon(x.powf(std::hint::black_box(3.))))
            }
            _ => "BADCASE".to_string(),
        })
        .collect::<Vec<_>>()
        .join(" ")
}

pub fn dispatch(t: &[&str]) -> Option<String> {
    if t[0] == "cubic_libm" {
        return Some(libm(&t[1..]));
    }
    if t[0] != "cubic" {
        return None;
    }
    if !well_formed(t) {
        return Some("BADCASE".into());
    }
    let base = Instant::now();
    let at = |ns: u128| base + Duration::from_nanos(ns as u64);
    let mss: usize = t[1].parse().unwrap();
    let mut c = Cubic::new(base, mss);
    let mut out: Vec<String> = Vec::new();
    for tok in &t[2..] {
        let r = guarded(|| {
            let cc: &mut dyn CongestionController = &mut c;
            let (op, rest) = tok.split_at(1);
            match op {
                "t" => cc.on_retransmission_timeout(base),
                "w" => cc.set_remote_window(nums(rest)[0] as usize),
                "a" => {
                    let v = nums(rest);
                    let mut rtte = RttEstimator::default();
                    rtte.sample(dur_of_ns(v[2]));
                    assert_eq!(rtte.roundtrip_time().as_nanos(), v[2]);
                    cc.on_ack(at(v[0]), v[1] as usize, &rtte)
                }
                "e" => cc.on_enter_recovery(at(nums(rest)[0])),
                "r" => {
                    let v = nums(rest);
                    cc.on_recovered(v[0] as usize, v[1] as usize)
                }
                "m" => cc.set_mss(nums(rest)[0] as usize),
                _ => panic!("bad op"),
            }
            format!("{},{},{}", cc.window(), cc.sshthresh(), cc.smss())
        });
        match r {
            Ok(s) => out.push(s),
            Err(_) => {
                out.push("PANIC".into());
                break;
            }
        }
    }
    Some(out.join(" "))
}

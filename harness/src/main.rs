//! Impl-side harness: reads one case per line on stdin, drives the real librqbit-utp
//! components, prints one canonical observation line per case on stdout.
//! The OCaml model runner (driver/modelrun.ml) prints the same format from the Coq model.
use std::io::{BufRead, Write};
use std::panic::{AssertUnwindSafe, catch_unwind};
use std::time::Duration;

use librqbit_utp::verif as v;

fn dur_of_ns(ns: u128) -> Duration {
    Duration::new((ns / 1_000_000_000) as u64, (ns % 1_000_000_000) as u32)
}

fn run_seqnr(t: &[&str]) -> String {
    let a: u16 = t[0].parse().unwrap();
    let b: u16 = t[1].parse().unwrap();
    let tol: u16 = t[2].parse().unwrap();
    format!("{}", v::seq_nr_offset(a, b, tol))
}

fn run_seqnr_row(t: &[&str]) -> String {
    let b: u16 = t[0].parse().unwrap();
    let tol: u16 = t[1].parse().unwrap();
    let mut s = String::with_capacity(65536 * 7);
    for n in 0..=65535u16 {
        if n > 0 {
            s.push(',');
        }
        s.push_str(&format!("{}", v::seq_nr_offset(n, b, tol)));
    }
    s
}

fn run_rtte(t: &[&str]) -> String {
    let mut e = v::RttEstimator::default();
    let mut out: Vec<String> = Vec::new();
    for tok in t {
        let r = catch_unwind(AssertUnwindSafe(|| {
            if *tok == "t" {
                e.on_rto_timeout();
            } else {
                let ns: u128 = tok[1..].parse().unwrap();
                e.sample(dur_of_ns(ns));
            }
            format!(
                "{},{}",
                e.retransmission_timeout().as_nanos(),
                e.roundtrip_time().as_nanos()
            )
        }));
        match r {
            Ok(s) => out.push(s),
            Err(_) => {
                out.push("PANIC".into());
                break;
            }
        }
    }
    out.join(" ")
}

fn run_consts() -> String {
    v::constants()
        .iter()
        .map(|(k, v)| format!("{k}={v}"))
        .collect::<Vec<_>>()
        .join(" ")
}

fn dispatch(line: &str) -> String {
    let toks: Vec<&str> = line.split_whitespace().collect();
    if toks.is_empty() {
        return String::new();
    }
    match toks[0] {
        "seqnr" => run_seqnr(&toks[1..]),
        "seqnr_row" => run_seqnr_row(&toks[1..]),
        "rtte" => run_rtte(&toks[1..]),
        "consts" => run_consts(),
        c => format!("HARNESS-ERROR unknown component {c}"),
    }
}

fn main() {
    std::panic::set_hook(Box::new(|_| {}));
    let stdin = std::io::stdin();
    let stdout = std::io::stdout();
    let mut out = std::io::BufWriter::new(stdout.lock());
    for line in stdin.lock().lines() {
        let line = line.unwrap();
        let res = catch_unwind(AssertUnwindSafe(|| dispatch(&line)))
            .unwrap_or_else(|_| "PANIC".to_string());
        writeln!(out, "{res}").unwrap();
    }
}

//! Impl-side harness: reads one case per line on stdin, drives the real librqbit-utp
//! components, prints one canonical observation line per case on stdout.
//! The OCaml model runner (driver/modelrun.ml) prints the same format from the Coq model.
//! Components live in comp_*.rs; each exports `dispatch(&[&str]) -> Option<String>`.
use std::io::{BufRead, Write};
use std::panic::{AssertUnwindSafe, catch_unwind};

use librqbit_utp::verif as v;

mod comp_cubic;
mod comp_disp;
mod comp_mtu;
mod comp_rtte;
mod comp_rx;
mod comp_segs;
mod comp_tx;
mod comp_txconc;
mod comp_rxconc;
mod comp_pair;
mod comp_vsock;
mod comp_wire;
mod comp_seqnr;
mod util;

const DISPATCHERS: &[fn(&[&str]) -> Option<String>] = &[
    comp_seqnr::dispatch,
    comp_rtte::dispatch,
    comp_rx::dispatch,
    comp_segs::dispatch,
    comp_tx::dispatch,
    comp_txconc::dispatch,
    comp_rxconc::dispatch,
    comp_cubic::dispatch,
    comp_wire::dispatch,
    comp_vsock::dispatch,
    comp_pair::dispatch,
    comp_mtu::dispatch,
    comp_disp::dispatch,
];

fn run_consts() -> String {
    v::constants()
        .iter()
        .map(|(k, v)| format!("{k}={v}"))
        .collect::<Vec<_>>()
        .join(" ")
}

fn dispatch(line: &str) -> String {
    let toks: Vec<&str> = line.split_whitespace().collect();
    if toks.is_empty() {
        return String::new();
    }
    if toks[0] == "consts" {
        return run_consts();
    }
    for d in DISPATCHERS {
        if let Some(s) = d(&toks) {
            return s;
        }
    }
    format!("HARNESS-ERROR unknown component {}", toks[0])
}

fn main() {
    std::panic::set_hook(Box::new(|_| {}));
    let stdin = std::io::stdin();
    let stdout = std::io::stdout();
    let mut out = std::io::BufWriter::new(stdout.lock());
    for line in stdin.lock().lines() {
        let line = line.unwrap();
        let res = catch_unwind(AssertUnwindSafe(|| dispatch(&line)))
            .unwrap_or_else(|_| "PANIC".to_string());
        writeln!(out, "{res}").unwrap();
    }
}

//! The real socket Dispatcher driven one run_once at a time (model: coq/theories/Sock/Dispatcher.v).
//! case: disp <max_streams> <r0,r1,...> <op> ...    (ops: see tools/props/dispgen.py)
use std::collections::BTreeMap;
use std::net::{IpAddr, Ipv4Addr, SocketAddr};
use std::num::NonZeroUsize;
use std::task::{Context, Poll};

use librqbit_utp::raw::{Type, UtpHeader};
use librqbit_utp::verif as v;
use librqbit_utp::{Error, SocketOpts, UtpStream};

use crate::util::{counting_waker, guarded};

fn addr_of(n: u16) -> SocketAddr {
    SocketAddr::new(IpAddr::V4(Ipv4Addr::LOCALHOST), n)
}

fn type_of(n: u8) -> Type {
    match n {
        0 => Type::ST_DATA,
        1 => Type::ST_FIN,
        2 => Type::ST_STATE,
        3 => Type::ST_RESET,
        _ => Type::ST_SYN,
    }
}

fn type_num(t: Type) -> u8 {
    match t {
        Type::ST_DATA => 0,
        Type::ST_FIN => 1,
        Type::ST_STATE => 2,
        Type::ST_RESET => 3,
        Type::ST_SYN => 4,
    }
}

fn datagram(f: &[&str]) -> (SocketAddr, Vec<u8>) {
    let addr = addr_of(f[0].parse().unwrap());
    let t: u8 = f[1].parse().unwrap();
    let h = UtpHeader {
        htype: type_of(t),
        connection_id: v::SeqNr(f[2].parse().unwrap()),
        seq_nr: v::SeqNr(f[3].parse().unwrap()),
        ack_nr: v::SeqNr(f[4].parse().unwrap()),
        wnd_size: 1048576,
        ..Default::default()
    };
    let mut buf = vec![0u8; 20];
    h.serialize(&mut buf).unwrap();
    if t == 0 {
        buf.push(7); // ST_DATA needs a payload to be a valid message
    }
    (addr, buf)
}

struct Tokens(BTreeMap<u64, usize>);
impl Tokens {
    fn id(&mut self, t: u64) -> usize {
        let n = self.0.len();
        *self.0.entry(t).or_insert(n)
    }
}

fn digest(d: &v::DispatcherDriver, tok: &mut Tokens) -> String {
    let s = d.snapshot();
    let st: Vec<String> = s
        .streams
        .iter()
        .map(|(a, c, alive)| format!("{}:{}:{}", a.port(), c, *alive as u8))
        .collect();
    let cn: Vec<String> = s
        .connecting
        .iter()
        .map(|(a, slots)| {
            let sl: Vec<String> = slots
                .iter()
                .map(|x| match x {
                    Some((t, q)) => format!("{}.{}", tok.id(*t), q),
                    None => "-".into(),
                })
                .collect();
            format!("{}:{}", a.port(), sl.join("+"))
        })
        .collect();
    let sy: Vec<String> = s
        .syns
        .iter()
        .map(|(a, c, q)| format!("{}:{}:{}", a.port(), c, q))
        .collect();
    let j = |v: Vec<String>| if v.is_empty() { "-".to_string() } else { v.join(",") };
    format!(
        "st={};cn={};sy={};na={};ch={};ct={};id={}",
        j(st),
        j(cn),
        j(sy),
        s.next_available_acceptor as u8,
        s.accept_channel_len,
        s.control_len,
        s.next_connection_id
    )
}

fn sent_str(d: &v::DispatcherDriver) -> String {
    let sent = d.transport.take_sent_to();
    if sent.is_empty() {
        return "-".into();
    }
    sent.iter()
        .map(|(a, b)| match UtpHeader::deserialize(b) {
            Some((h, _)) => format!(
                "{}:{}:{}:{}:{}",
                a.port(),
                type_num(h.htype),
                h.connection_id.0,
                h.seq_nr.0,
                h.ack_nr.0
            ),
            None => format!("{}:UNPARSEABLE", a.port()),
        })
        .collect::<Vec<_>>()
        .join(",")
}

fn fwd_str(d: &mut v::DispatcherDriver) -> String {
    let f = d.take_forwarded();
    if f.is_empty() {
        return "-".into();
    }
    f.iter()
        .map(|(a, c)| format!("{}:{}", a.port(), c))
        .collect::<Vec<_>>()
        .join(",")
}

pub fn dispatch(t: &[&str]) -> Option<String> {
    if t[0] != "disp" {
        return None;
    }
    if t.len() < 3 {
        return Some("BADCASE".into());
    }
    let rt = tokio::runtime::Builder::new_current_thread()
        .enable_time()
        .start_paused(true)
        .build()
        .unwrap();
    let _g = rt.enter();
    // a parked run_once may take either ready arm; rerun the whole case until the requested one is taken
    for _attempt in 0..200 {
        if let Some(s) = run(t) {
            return Some(s);
        }
    }
    Some("ARM-NOT-REACHED".into())
}

fn run(t: &[&str]) -> Option<String> {
    let max_streams: usize = t[1].parse().ok()?;
    let random: Vec<u16> = t[2].split(',').filter_map(|x| x.parse().ok()).collect();
    let opts = SocketOpts {
        max_live_vsocks: NonZeroUsize::new(max_streams),
        ..Default::default()
    };
    let mut d = match v::DispatcherDriver::new(opts, addr_of(9), &random) {
        Ok(d) => d,
        Err(_) => return Some("BADCONFIG".into()),
    };
    let (_wc, w) = counting_waker();
    let mut tok = Tokens(BTreeMap::new());
    let mut accepts: BTreeMap<u32, v::BoxedStreamFuture> = BTreeMap::new();
    let mut connects: BTreeMap<u32, v::BoxedStreamFuture> = BTreeMap::new();
    let mut streams: Vec<UtpStream> = Vec::new();
    let mut used_acc: std::collections::BTreeSet<u32> = Default::default();
    let mut used_con: std::collections::BTreeSet<u32> = Default::default();
    let mut out: Vec<String> = Vec::new();
    out.push(format!("I/-/-/{}", digest(&d, &mut tok)));
    let mut wrong_arm = false;
    let mut not_parked = false;
    for op in &t[3..] {
        if not_parked {
            break;
        }
        let r = guarded(|| {
            let mut cx = Context::from_waker(&w);
            let (c, rest) = op.split_at(1);
            let res: String = match c {
                "A" if !used_acc.insert(rest.parse().unwrap()) => "BADOP".into(),
                "A" => {
                    let id: u32 = rest.parse().unwrap();
                    let mut f = d.accept_future();
                    let _ = f.as_mut().poll(&mut cx);
                    accepts.insert(id, f);
                    "-".into()
                }
                "a" => {
                    accepts.remove(&rest.parse().unwrap());
                    "-".into()
                }
                "p" => match accepts.get_mut(&rest.parse().unwrap()) {
                    None => "NOFUT".into(),
                    Some(f) => match f.as_mut().poll(&mut cx) {
                        Poll::Pending => "PEND".into(),
                        Poll::Ready(Ok(s)) => {
                            let a = s.remote_addr().port();
                            streams.push(s);
                            accepts.remove(&rest.parse().unwrap());
                            format!("ACC{a}")
                        }
                        Poll::Ready(Err(_)) => {
                            accepts.remove(&rest.parse().unwrap());
                            "ACCERR".into()
                        }
                    },
                },
                "C" if !used_con.insert(rest.split(',').next().unwrap().parse().unwrap()) => {
                    "BADOP".into()
                }
                "C" => {
                    let f: Vec<&str> = rest.split(',').collect();
                    let id: u32 = f[0].parse().unwrap();
                    let mut fut = d.connect_future(addr_of(f[1].parse().unwrap()));
                    let _ = fut.as_mut().poll(&mut cx);
                    connects.insert(id, fut);
                    "-".into()
                }
                "c" => {
                    connects.remove(&rest.parse().unwrap());
                    "-".into()
                }
                "q" => match connects.get_mut(&rest.parse().unwrap()) {
                    None => "NOFUT".into(),
                    Some(f) => match f.as_mut().poll(&mut cx) {
                        Poll::Pending => "PEND".into(),
                        Poll::Ready(Ok(s)) => {
                            let a = s.remote_addr().port();
                            streams.push(s);
                            connects.remove(&rest.parse().unwrap());
                            format!("CON{a}")
                        }
                        Poll::Ready(Err(e)) => {
                            connects.remove(&rest.parse().unwrap());
                            match e {
                                Error::TooManyActiveConnections => "CONERR_TOOMANY".into(),
                                Error::ErrorSendingSyn(_) => "CONERR_SYN".into(),
                                Error::DispatcherDead => "CONERR_DEAD".into(),
                                _ => "CONERR_OTHER".into(),
                            }
                        }
                    },
                },
                "S" => {
                    let f: Vec<u16> = rest.split(',').map(|x| x.parse().unwrap()).collect();
                    d.send_shutdown(addr_of(f[0]), f[1]);
                    "-".into()
                }
                "D" => {
                    let f: Vec<&str> = rest.split(',').collect();
                    let (a, b) = datagram(&f);
                    d.transport.push_incoming(b, a);
                    "-".into()
                }
                "G" => {
                    let f: Vec<&str> = rest.split(',').collect();
                    let bytes: Vec<u8> = (0..f[1].len() / 2)
                        .map(|i| u8::from_str_radix(&f[1][2 * i..2 * i + 2], 16).unwrap())
                        .collect();
                    d.transport.push_incoming(bytes, addr_of(f[0].parse().unwrap()));
                    "-".into()
                }
                "R" => {
                    // R<a|c|r><script>: one run_once that must take the requested arm
                    let want = &rest[..1];
                    let script: Vec<v::SendOutcome> = rest[1..]
                        .chars()
                        .map(|ch| match ch {
                            'S' => v::SendOutcome::Sent,
                            'P' => v::SendOutcome::Pending,
                            _ => v::SendOutcome::IoErr,
                        })
                        .collect();
                    d.transport.script(&script);
                    let before_in = d.transport.incoming_len();
                    let before_ctl = d.snapshot().control_len;
                    let res = d.poll_run_once(&mut cx);
                    let arm = if d.transport.incoming_len() < before_in {
                        "r"
                    } else if d.snapshot().control_len < before_ctl {
                        "c"
                    } else {
                        "a"
                    };
                    match res {
                        None => "PENDING".into(),
                        Some(r) => {
                            if arm != want {
                                wrong_arm = true;
                            }
                            match r {
                                Ok(()) => format!("OK{arm}"),
                                Err(_) => "ERR".into(),
                            }
                        }
                    }
                }
                "Q" => {
                    // Q<r|a>:<id.id...>:<addr,type,conn,seq,ack>
                    let parts: Vec<&str> = rest.split(':').collect();
                    let want = parts[0];
                    let ids: Vec<u32> = parts[1]
                        .split('.')
                        .filter_map(|x| x.parse().ok())
                        .filter(|id| used_acc.insert(*id))
                        .collect();
                    let f: Vec<&str> = parts[2].split(',').collect();
                    let (a, b) = datagram(&f);
                    let socket_futs: Vec<(u32, v::BoxedStreamFuture)> =
                        ids.iter().map(|id| (*id, d.accept_future())).collect();
                    let transport = d.transport.clone();
                    let mut pushed: Vec<(u32, v::BoxedStreamFuture)> = Vec::new();
                    let before = transport.incoming_len();
                    let before_ctl = d.snapshot().control_len;
                    let mut injected = false;
                    let res = d.poll_run_once_parked(&mut cx, |cx2| {
                        injected = true;
                        for (id, mut fut) in socket_futs {
                            let _ = fut.as_mut().poll(cx2);
                            pushed.push((id, fut));
                        }
                        transport.push_incoming(b, a);
                    });
                    for (id, fut) in pushed {
                        accepts.insert(id, fut);
                    }
                    let took_recv = d.transport.incoming_len() == before;
                    let arm = if took_recv {
                        "r"
                    } else if d.snapshot().control_len < before_ctl {
                        "c"
                    } else {
                        "a"
                    };
                    if !injected {
                        // something was already ready: the dispatcher never parked
                        not_parked = true;
                        "ARM-NOT-REACHED".into()
                    } else {
                        match res {
                            None => "PENDING".into(),
                            Some(r) => {
                                if arm != want {
                                    wrong_arm = true;
                                }
                                match r {
                                    Ok(()) => format!("OK{arm}"),
                                    Err(_) => "ERR".into(),
                                }
                            }
                        }
                    }
                }
                _ => "BADOP".into(),
            };
            res
        });
        if wrong_arm {
            return None;
        }
        if not_parked {
            out.push("ARM-NOT-REACHED".into());
            break;
        }
        match r {
            Err(_) => {
                out.push("PANIC".into());
                break;
            }
            Ok(res) => out.push(format!(
                "{}/{}/{}/{}",
                res,
                sent_str(&d),
                fwd_str(&mut d),
                digest(&d, &mut tok)
            )),
        }
    }
    // keep accepted/connected streams alive until the end of the case
    drop(streams);
    Some(out.join(" "))
}

//! Two real VirtualSockets in one process joined by a simulated network
//! (model: coq/theories/Pair/Pair.v).  A is the outgoing side, B the incoming side.
//! case: pair <17 config tokens> <op> ...   (see tools/props/pairgen.py)
//! Only the hooks of /repo/src/verif.rs + stream_dispatch/verif_driver.rs are used; the
//! per-connection code is shared with comp_vsock.rs (`Endpoint`).
use librqbit_utp::verif as v;

use crate::comp_vsock::{Endpoint, fingerprint, kind_incoming, kind_outgoing, opts_of};
use crate::util::guarded;

const NCFG: usize = 17;
const HASH_P: u64 = 1_000_000_007;

/// Incremental position-dependent hash (the same function as `hash_bytes`).
#[derive(Clone, Copy)]
struct Hacc {
    len: u64,
    h: u64,
    p: u64,
}

impl Hacc {
    fn new() -> Self {
        Hacc { len: 0, h: 0, p: 1 }
    }
    fn add(&mut self, b: &[u8]) {
        for x in b {
            self.h = (self.h + (*x as u64 + 1) * self.p) % HASH_P;
            self.p = (self.p * 31) % HASH_P;
            self.len += 1;
        }
    }
    fn str(&self) -> String {
        format!("{}:{}", self.len, self.h)
    }
}

pub fn dispatch(t: &[&str]) -> Option<String> {
    if t[0] != "pair" {
        return None;
    }
    if t.len() < 1 + NCFG {
        return Some("BADCASE".into());
    }
    let rt = tokio::runtime::Builder::new_current_thread()
        .enable_time()
        .start_paused(true)
        .build()
        .unwrap();
    Some(rt.block_on(async { run(t) }))
}

struct Side {
    e: Endpoint,
    /// datagrams this side has sent that are still in flight
    net: Vec<Vec<u8>>,
    w: Hacc,
    r: Hacc,
}

fn run(t: &[&str]) -> String {
    let num = |i: usize| -> u64 { t[i].parse().unwrap() };
    let ipv4 = t[1] == "1";
    let (mtu_a, mtu_b, rx_a, rx_b) = (num(2), num(3), num(4), num(5));
    let (tx_init, tx_max) = (num(6), num(7));
    let (nagle_a, nagle_b) = (t[8] == "1", t[9] == "1");
    let (max_retx, inact, wait_la, probe_retx) = (num(10), num(11), t[12] == "1", num(13));
    let (syn_seq, isn_b, cid, syn_rtt) = (num(14) as u16, num(15) as u16, num(16) as u16, num(17));
    let opts_a = opts_of(mtu_a, rx_a, tx_init, tx_max, nagle_a, max_retx, inact, wait_la, probe_retx);
    let opts_b = opts_of(mtu_b, rx_b, tx_init, tx_max, nagle_b, max_retx, inact, wait_la, probe_retx);
    let ea = match Endpoint::new(
        opts_a,
        ipv4,
        kind_outgoing(syn_seq, isn_b, cid, rx_b as u32, 0, syn_rtt),
    ) {
        Ok(e) => e,
        Err(_) => return "BADCONFIG".into(),
    };
    let eb = match Endpoint::new(opts_b, ipv4, kind_incoming(isn_b, syn_seq, cid, 0)) {
        Ok(e) => e,
        Err(_) => return "BADCONFIG".into(),
    };
    let mut sides = [
        Side {
            e: ea,
            net: Vec::new(),
            w: Hacc::new(),
            r: Hacc::new(),
        },
        Side {
            e: eb,
            net: Vec::new(),
            w: Hacc::new(),
            r: Hacc::new(),
        },
    ];
    let mut hole: Option<usize> = None;
    let mut out: Vec<String> = Vec::new();
    out.push(format!(
        "I:{}#{}",
        fingerprint(sides[0].e.drv()),
        fingerprint(sides[1].e.drv())
    ));
    for tok in &t[1 + NCFG..] {
        let r = guarded(|| step(&mut sides, &mut hole, tok));
        match r {
            Err(_) => {
                out.push("PANIC".into());
                break;
            }
            Ok((who, body)) => {
                let tail = format!(
                    "{},{}#{},{},{},{}",
                    sides[0].net.len(),
                    sides[1].net.len(),
                    sides[0].w.str(),
                    sides[0].r.str(),
                    sides[1].w.str(),
                    sides[1].r.str()
                );
                out.push(format!(
                    "{}:{}#{}#{}",
                    if who == 0 { "a" } else { "b" },
                    body,
                    fingerprint(sides[1 - who].e.drv()),
                    tail
                ));
            }
        }
    }
    out.join(" ")
}

/// One op; returns (acting side, its observation token in the vsock format).
fn step(sides: &mut [Side; 2], hole: &mut Option<usize>, tok: &str) -> (usize, String) {
    let b = tok.as_bytes();
    let plain = |s: &Side| format!("-/-/{}", fingerprint(s.e.drv()));
    match b[0] {
        b'T' => {
            sides[0].e.op(tok, false);
            sides[1].e.op(tok, false);
            (0, plain(&sides[0]))
        }
        b'B' => {
            let rest = &tok[1..];
            *hole = if rest == "-" { None } else { Some(rest.parse().unwrap()) };
            (0, plain(&sides[0]))
        }
        b'a' | b'b' => {
            let who = if b[0] == b'a' { 0 } else { 1 };
            let s = &mut sides[who];
            let inner = &tok[1..];
            if inner.starts_with('P') && s.e.finished {
                // the future is gone after Ready: nothing to poll
                return (who, plain(s));
            }
            let r = s.e.op(inner, false);
            if r.wrote > 0 {
                // the accepted bytes are the first `wrote` bytes of the pattern of this write
                let f: Vec<usize> = inner[1..].split(',').map(|x| x.parse().unwrap()).collect();
                let buf = crate::util::pattern(f[1], f[0]);
                s.w.add(&buf[..r.wrote]);
            }
            s.r.add(&r.read);
            let wakes = s.e.wakes();
            let (body, sent) = s.e.obs(&r, &wakes);
            for d in sent {
                if hole.map(|m| d.len() <= m).unwrap_or(true) {
                    s.net.push(d);
                }
            }
            (who, body)
        }
        b'x' | b'y' => {
            let from = if b[0] == b'x' { 0 } else { 1 };
            let to = 1 - from;
            let i: i64 = tok[2..].parse().unwrap();
            let n = sides[from].net.len() as i64;
            if n == 0 {
                return (to, plain(&sides[to]));
            }
            let k = (((i % n) + n) % n) as usize;
            match b[1] {
                b'D' => {
                    let d = sides[from].net.remove(k);
                    // what the socket dispatcher does with a datagram for a known stream
                    if let Some(msg) = v::UtpMessage::deserialize(&d) {
                        sides[to].e.deliver(msg);
                    }
                    let wakes = sides[to].e.wakes();
                    (to, format!("-/{}/{}", wakes, fingerprint(sides[to].e.drv())))
                }
                b'X' => {
                    sides[from].net.remove(k);
                    (to, plain(&sides[to]))
                }
                _ => {
                    let d = sides[from].net[k].clone();
                    sides[from].net.push(d);
                    (to, plain(&sides[to]))
                }
            }
        }
        _ => (0, "BADOP".into()),
    }
}

//! Segments (stream_tx_segments.rs) under arbitrary op lists (model: coq/theories/Tx/Segments.v).
use std::time::{Duration, Instant};

use librqbit_utp::raw::selective_ack::SelectiveAck;
use librqbit_utp::raw::{Extensions, UtpHeader};
use librqbit_utp::verif as v;

use crate::util::guarded;

fn opt_seq(s: &str) -> Option<v::SeqNr> {
    if s == "-" {
        None
    } else {
        Some(v::SeqNr(s.parse().unwrap()))
    }
}

pub fn parse_sack(s: &str) -> Option<SelectiveAck> {
    if s == "-" {
        return None;
    }
    let bytes: Vec<u8> = (0..s.len() / 2)
        .map(|i| u8::from_str_radix(&s[2 * i..2 * i + 2], 16).unwrap())
        .collect();
    Some(SelectiveAck::deserialize(&bytes))
}

pub fn digest(segs: &v::Segments, base: Instant) -> String {
    digest_snapshot(&segs.verif_snapshot(), base)
}

pub fn digest_snapshot(s: &v::VerifSegmentsSnapshot, base: Instant) -> String {
    let items: Vec<String> = s
        .segments
        .iter()
        .map(|g| {
            format!(
                "{}.{}.{}.{}.{}.{}.{}.{}.{}.{}",
                g.payload_size,
                g.payload_offset_absolute,
                g.is_delivered as u8,
                g.sent_kind,
                g.retransmit_count,
                match g.last_sent {
                    Some(t) => (t - base).as_nanos().to_string(),
                    None => "-".into(),
                },
                g.is_mtu_probe as u8,
                g.is_lost as u8,
                g.is_expired as u8,
                g.has_sacks_after_it as u8
            )
        })
        .collect();
    format!(
        "{},{},{},{},{},{}|{}",
        s.snd_una.0,
        s.len_bytes,
        s.offset,
        s.removed_offset,
        s.sack_depth,
        s.last_sack_empty as u8,
        if items.is_empty() {
            "-".to_string()
        } else {
            items.join(";")
        }
    )
}

pub fn dispatch(t: &[&str]) -> Option<String> {
    if t[0] != "segs" {
        return None;
    }
    let snd_una: u16 = t[1].parse().unwrap();
    let base = Instant::now();
    let at = |ns: u64| base + Duration::from_nanos(ns);
    let mut segs = v::Segments::new(v::SeqNr(snd_una));
    let mut out: Vec<String> = Vec::new();
    for tok in &t[2..] {
        let r = guarded(|| {
            let (c, rest) = tok.split_at(1);
            let f: Vec<&str> = rest.split(',').collect();
            match c {
                "q" => {
                    let _ = segs.enqueue(f[0].parse().unwrap(), f[1] == "1");
                    "U".to_string()
                }
                "p" => format!(
                    "B{}",
                    segs.pop_mtu_probe(v::SeqNr(f[0].parse().unwrap())) as u8
                ),
                "x" => match segs.pop_expired_mtu_probe(f[0] == "1", f[1].parse().unwrap()) {
                    v::PopExpiredProbe::Expired {
                        rewind_to,
                        payload_size,
                    } => format!("XE{},{}", rewind_to.0, payload_size),
                    v::PopExpiredProbe::NotExpired => "XN".into(),
                    v::PopExpiredProbe::Empty => "XM".into(),
                },
                "k" => {
                    let now = at(f[0].parse().unwrap());
                    let hdr = UtpHeader {
                        ack_nr: v::SeqNr(f[1].parse().unwrap()),
                        extensions: Extensions {
                            selective_ack: parse_sack(f[2]),
                            ..Default::default()
                        },
                        ..Default::default()
                    };
                    let r = segs.remove_up_to_ack(now, &hdr);
                    format!(
                        "A{},{},{},{},{},{}",
                        r.acked_segments_count,
                        r.acked_bytes,
                        r.max_acked_payload_size,
                        r.newly_sacked_segment_count,
                        r.newly_sacked_byte_count,
                        match r.new_rtt {
                            Some(d) => d.as_nanos().to_string(),
                            None => "-".into(),
                        }
                    )
                }
                "f" => format!(
                    "N{}",
                    segs.calc_flight_size(v::SeqNr(f[0].parse().unwrap()))
                ),
                "i" => {
                    let items: Vec<String> = segs
                        .iter_mut_for_sending(opt_seq(f[0]))
                        .map(|s| {
                            format!("{}:{}:{}", s.seq_nr().0, s.payload_offset(), s.payload_size())
                        })
                        .collect();
                    if items.is_empty() {
                        "I-".into()
                    } else {
                        format!("I{}", items.join(";"))
                    }
                }
                "s" => {
                    let k: usize = f[1].parse().unwrap();
                    let now = at(f[2].parse().unwrap());
                    if let Some(mut s) = segs.iter_mut_for_sending(opt_seq(f[0])).nth(k) {
                        s.on_sent(now);
                    }
                    "U".into()
                }
                "c" => {
                    let p = segs.calc_pipe(
                        v::SeqNr(f[0].parse().unwrap()),
                        v::SeqNr(f[1].parse().unwrap()),
                        Duration::from_nanos(f[2].parse().unwrap()),
                        at(f[3].parse().unwrap()),
                    );
                    format!(
                        "P{},{}",
                        p.pipe,
                        match p.recalc_timer {
                            Some(t) => (t - base).as_nanos().to_string(),
                            None => "-".into(),
                        }
                    )
                }
                _ => "BADOP".into(),
            }
        });
        match r {
            Err(_) => {
                out.push("PANIC".into());
                break;
            }
            Ok(res) => out.push(format!("{}|{}", res, digest(&segs, base))),
        }
    }
    Some(out.join(" "))
}

//! UserRx + UtpStreamReadHalf under arbitrary op lists (model: coq/theories/Rx/Rx.v).
use std::num::NonZeroUsize;
use std::pin::Pin;
use std::task::{Context, Poll};

use librqbit_utp::raw::{Type, UtpHeader};
use librqbit_utp::verif as v;
use librqbit_utp::{Error, UtpStreamReadHalf};
use tokio::io::{AsyncRead, ReadBuf};

use crate::util::{bytes_dot, counting_waker, guarded, pattern, WakerSet};

pub fn sack_hex(s: Option<librqbit_utp::raw::selective_ack::SelectiveAck>) -> String {
    match s {
        None => "-".into(),
        Some(s) => s.as_bytes().iter().map(|b| format!("{b:02x}")).collect(),
    }
}

/// occupancy of slots filled_front+1 .. filled_front+64, read from the snapshot
pub fn occ_hex(s: &v::VerifRxSnapshot) -> String {
    let mut bytes = [0u8; 8];
    for i in 0..64 {
        let idx = s.filled_front + 1 + i;
        if idx < s.ooq_slots.len() && s.ooq_slots[idx] != 0 {
            bytes[i / 8] |= 1 << (i % 8);
        }
    }
    bytes.iter().map(|b| format!("{b:02x}")).collect()
}

pub fn dispatch(t: &[&str]) -> Option<String> {
    if t[0] != "rx" {
        return None;
    }
    let max_rx: usize = t[1].parse().unwrap();
    let max_in: usize = t[2].parse().unwrap();
    let (mut rx, rh) = v::UserRx::build(
        NonZeroUsize::new(max_rx).unwrap(),
        NonZeroUsize::new(max_in).unwrap(),
    );
    let mut rh: Option<UtpStreamReadHalf> = Some(rh);
    let (dc, dw) = counting_waker();
    let mut rset = WakerSet::new();
    let mut out: Vec<String> = Vec::new();
    for tok in &t[3..] {
        let rw = rset.fresh();
        let r = guarded(|| {
            let mut dcx = Context::from_waker(&dw);
            let mut rcx = Context::from_waker(&rw);
            let (c, rest) = tok.split_at(1);
            match c {
                "a" => {
                    let f: Vec<usize> = rest.split(',').map(|x| x.parse().unwrap()).collect();
                    let (k, len, start, offset) = (f[0], f[1], f[2], f[3]);
                    let htype = match k {
                        0 => Type::ST_DATA,
                        1 => Type::ST_FIN,
                        _ => Type::ST_STATE,
                    };
                    let msg = v::UtpMessage {
                        header: UtpHeader {
                            htype,
                            ..Default::default()
                        },
                        data: pattern(start, len),
                    };
                    match rx.add_remove(&mut dcx, msg, offset) {
                        Ok(v::AssemblerAddRemoveResult::Consumed {
                            sequence_numbers,
                            bytes,
                        }) => format!("C{sequence_numbers},{bytes}"),
                        Ok(v::AssemblerAddRemoveResult::AlreadyPresent) => "AP".into(),
                        Ok(v::AssemblerAddRemoveResult::Unavailable(_)) => "UN".into(),
                        Err(Error::ZeroPayloadStData) => "EZ".into(),
                        Err(Error::BugInvalidMessageExpectedStDataOrFin) => "EBI".into(),
                        Err(Error::BugAssemblerMissingSlot(_)) => "EBM".into(),
                        Err(_) => "EOTHER".into(),
                    }
                }
                "f" => match rx.flush(&mut dcx) {
                    Ok(n) => format!("F{n}"),
                    Err(_) => "FERR".into(),
                },
                "r" => {
                    let n: usize = rest.parse().unwrap();
                    match rh.as_mut() {
                        None => "U".into(),
                        Some(h) => {
                            let mut buf = vec![0u8; n];
                            let mut rb = ReadBuf::new(&mut buf);
                            match Pin::new(h).poll_read(&mut rcx, &mut rb) {
                                Poll::Pending => "PEND".into(),
                                Poll::Ready(Ok(())) => {
                                    let f = rb.filled();
                                    if f.is_empty() {
                                        "EOF".into()
                                    } else {
                                        format!("R{}:{}", f.len(), bytes_dot(f))
                                    }
                                }
                                Poll::Ready(Err(e)) => {
                                    if e.to_string() == "dispatcher dead" {
                                        "ERRDEAD".into()
                                    } else {
                                        "ERRMSG".into()
                                    }
                                }
                            }
                        }
                    }
                }
                "d" => {
                    rh = None;
                    "U".into()
                }
                "c" => {
                    rx.mark_vsock_closed();
                    "U".into()
                }
                "e" => {
                    rx.enqueue_error("boom".to_string());
                    "U".into()
                }
                _ => "BADOP".into(),
            }
        });
        match r {
            Err(_) => {
                out.push("PANIC".into());
                break;
            }
            Ok(res) => {
                let mut wakes = String::new();
                for _ in 0..dc.take() {
                    wakes.push('D');
                }
                // (a zero-length read returns Pending without parking: outside the assumption "reads have a non-empty buffer")
                if res == "PEND" && *tok != "r0" {
                    rset.returned_pending();
                }
                wakes.push_str(&rset.letters('R', 'r', false));
                if wakes.is_empty() {
                    wakes.push('-');
                }
                let s = rx.verif_snapshot();
                out.push(format!(
                    "{}/{}/{}/{}/{}/{}/{}/{}/{}/{}{}{}/{}",
                    res,
                    wakes,
                    rx.remaining_rx_window(),
                    sack_hex(rx.selective_ack()),
                    rx.assembler_empty() as u8,
                    s.filled_front,
                    s.ooq_len,
                    s.ooq_len_bytes,
                    s.queue_len_bytes,
                    s.dispatcher_waker_registered as u8,
                    s.reader_waker_registered as u8,
                    s.reader_dropped as u8,
                    occ_hex(&s)
                ));
            }
        }
    }
    Some(out.join(" "))
}

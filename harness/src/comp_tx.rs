//! UserTx + UtpStreamWriteHalf under arbitrary op lists (model: coq/theories/Tx/Ring.v).
use std::num::NonZeroUsize;
use std::pin::Pin;
use std::task::{Context, Poll};

use librqbit_utp::UtpStreamWriteHalf;
use librqbit_utp::verif as v;
use ringbuf::traits::{Consumer, Observer};
use tokio::io::AsyncWrite;

use crate::util::{counting_waker, guarded, pattern, WakerSet};

pub fn ring_digest(tx: &v::UserTx) -> (usize, u64, usize) {
    let c = tx.consumer.lock();
    let (a, b) = c.as_slices();
    let mut h: u64 = 0;
    let mut p: u64 = 1;
    for x in a.iter().chain(b.iter()) {
        h = (h + (*x as u64 + 1) * p) % 1_000_000_007;
        p = (p * 31) % 1_000_000_007;
    }
    (a.len() + b.len(), h, c.capacity().get())
}

pub fn dispatch(t: &[&str]) -> Option<String> {
    if t[0] != "tx" {
        return None;
    }
    let initial: usize = t[1].parse().unwrap();
    let tx = v::UserTx::new(NonZeroUsize::new(initial).unwrap());
    let mut wh: Option<UtpStreamWriteHalf> = Some(UtpStreamWriteHalf::new(tx.clone()));
    let (dc, dw) = counting_waker();
    let mut wset = WakerSet::new();
    let mut out: Vec<String> = Vec::new();
    for tok in &t[3..] {
        let ww = wset.fresh();
        let r = guarded(|| {
            let mut wcx = Context::from_waker(&ww);
            let dcx = Context::from_waker(&dw);
            let (c, rest) = tok.split_at(1);
            match c {
                "w" => {
                    let f: Vec<usize> = rest.split(',').map(|x| x.parse().unwrap()).collect();
                    let buf = pattern(f[1], f[0]);
                    match wh.as_mut() {
                        None => "NONE".to_string(),
                        Some(h) => match Pin::new(h).poll_write(&mut wcx, &buf) {
                            Poll::Ready(Ok(n)) => format!("W{n}"),
                            Poll::Pending => "WP".into(),
                            Poll::Ready(Err(e)) => match e.to_string().as_str() {
                                "socket closed" => "WEC".into(),
                                "no writing after shutdown" => "WES".into(),
                                _ => "WED".into(),
                            },
                        },
                    }
                }
                "f" | "h" => match wh.as_mut() {
                    None => "NONE".to_string(),
                    Some(h) => {
                        let r = if c == "f" {
                            Pin::new(h).poll_flush(&mut wcx)
                        } else {
                            Pin::new(h).poll_shutdown(&mut wcx)
                        };
                        match r {
                            Poll::Ready(Ok(())) => "OK".into(),
                            Poll::Pending => "PEND".into(),
                            Poll::Ready(Err(_)) => "ERR".into(),
                        }
                    }
                },
                "d" => {
                    wh = None;
                    "NONE".into()
                }
                "c" => {
                    tx.mark_vsock_closed();
                    "NONE".into()
                }
                "t" => match tx.truncate_front(rest.parse().unwrap()) {
                    Ok(()) => "TOK".into(),
                    Err(librqbit_utp::Error::BugTruncateFront { skipped, count }) => {
                        format!("TBUG{skipped},{count}")
                    }
                    Err(_) => "TERR".into(),
                },
                "g" => match tx.grow(NonZeroUsize::new(rest.parse().unwrap()).unwrap()) {
                    Some(n) => format!("G{n}"),
                    None => "G-".into(),
                },
                "e" => {
                    // what split_tx_queue_into_segments does when the ring is empty
                    let mut g = tx.locked.write();
                    let empty = tx.consumer.lock().is_empty();
                    if empty {
                        g.dispatcher_waker = Some(dcx.waker().clone());
                    }
                    "NONE".into()
                }
                "k" => {
                    // the dispatcher's `writer_waker.take()` + wake
                    let w = tx.locked.write().writer_waker.take();
                    if let Some(w) = w {
                        w.wake();
                    }
                    "NONE".into()
                }
                _ => "BADOP".into(),
            }
        });
        match r {
            Err(_) => {
                out.push("PANIC".into());
                break;
            }
            Ok(res) => {
                let mut wakes = String::new();
                for _ in 0..dc.take() {
                    wakes.push('D');
                }
                if res == "WP" || res == "PEND" {
                    wset.returned_pending();
                }
                wakes.push_str(&wset.letters('W', 'w', false));
                if wakes.is_empty() {
                    wakes.push('-');
                }
                let (len, h, cap) = ring_digest(&tx);
                let f = tx.locked.read().verif_flags();
                out.push(format!(
                    "{}/{}/{}:{}/{}/{}{}{}{}{}",
                    res, wakes, len, h, cap, f.0 as u8, f.1 as u8, f.2 as u8, f.3 as u8, f.4 as u8
                ));
            }
        }
    }
    Some(out.join(" "))
}

use librqbit_utp::verif as v;

pub fn dispatch(t: &[&str]) -> Option<String> {
    match t[0] {
        "seqnr" => {
            let a: u16 = t[1].parse().unwrap();
            let b: u16 = t[2].parse().unwrap();
            let tol: u16 = t[3].parse().unwrap();
            Some(format!("{}", v::seq_nr_offset(a, b, tol)))
        }
        "seqnr_row" => {
            let b: u16 = t[1].parse().unwrap();
            let tol: u16 = t[2].parse().unwrap();
            let mut s = String::with_capacity(65536 * 7);
            for n in 0..=65535u16 {
                if n > 0 {
                    s.push(',');
                }
                s.push_str(&format!("{}", v::seq_nr_offset(n, b, tol)));
            }
            Some(s)
        }
        _ => None,
    }
}

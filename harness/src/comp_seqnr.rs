use librqbit_utp::verif as v;

pub fn dispatch(t: &[&str]) -> Option<String> {
    match t[0] {
        "seqnr" => {
            let a: u16 = t[1].parse().unwrap();
            let b: u16 = t[2].parse().unwrap();
            let tol: u16 = t[3].parse().unwrap();
            Some(format!("{}", v::seq_nr_offset(a, b, tol)))
        }
        "seqnr_row" => {
            let b: u16 = t[1].parse().unwrap();
            let tol: u16 = t[2].parse().unwrap();
            let mut s = String::with_capacity(65536 * 7);
            for n in 0..=65535u16 {
                if n > 0 {
                    s.push(',');
                }
                s.push_str(&format!("{}", v::seq_nr_offset(n, b, tol)));
            }
            Some(s)
        }
        // SeqNr - SeqNr (Sub, and therefore Ord) with the crate's OWN WRAP_TOLERANCE, all 65536 values of new
        "seqsub_row" => {
            let b: u16 = t[1].parse().unwrap();
            let old: v::SeqNr = b.into();
            let mut s = String::with_capacity(65536 * 7);
            for n in 0..=65535u16 {
                if n > 0 {
                    s.push(',');
                }
                let new: v::SeqNr = n.into();
                let d: isize = new - old;
                // Ord must agree with the sign of the distance
                let ord = match new.cmp(&old) {
                    std::cmp::Ordering::Less => -1,
                    std::cmp::Ordering::Equal => 0,
                    std::cmp::Ordering::Greater => 1,
                };
                if ord != d.signum() {
                    s.push_str("ORD");
                }
                s.push_str(&format!("{}", d));
            }
            Some(s)
        }
        _ => None,
    }
}

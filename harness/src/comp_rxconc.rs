//! Validation of the ATOMICITY ASSUMPTION of the trusted base for the receive side (UserRx + read half):
//! `UserRx::flush` and `poll_read` take the shared lock several times per call, so "each method is atomic"
//! is an approximation the Coq theorems rest on (Props/C04.v, C01 T2, the wake-up lemmas of Props/C02.v).
//! This component runs a reader thread (poll_read, really parked on its waker) against a dispatcher thread
//! doing what VirtualSocket::poll does with the object (add_remove of in-order and one-ahead packets, flush,
//! really parked on the dispatcher waker when the window is exhausted) and requires what every linearisation
//! of atomic methods gives: the reader gets exactly the position-coded stream, then EOF, and the two threads
//! are never both parked with no wake-up pending (a lost wake-up under true concurrency).
//!   rxconc <max_rx_bytes> <max_incoming> <packets> <seed>    ->  OK | LOST .. | DEADLOCK .. | STUCK ..
use std::num::NonZeroUsize;
use std::pin::Pin;
use std::sync::{Arc, Condvar, Mutex};
use std::task::{Context, Poll, Wake, Waker};

use librqbit_utp::raw::{Type, UtpHeader};
use librqbit_utp::verif as v;
use tokio::io::{AsyncRead, ReadBuf};

fn pat(i: usize) -> u8 {
    (i % 251) as u8
}

#[derive(Default)]
struct St {
    parked: [bool; 2],
    pending: [bool; 2],
    finished: [bool; 2],
    deadlock: bool,
}

struct Sched {
    m: Mutex<St>,
    cv: Condvar,
}

struct SideWaker {
    sched: Arc<Sched>,
    side: usize,
}

impl Wake for SideWaker {
    fn wake(self: Arc<Self>) {
        self.wake_by_ref()
    }
    fn wake_by_ref(self: &Arc<Self>) {
        let mut g = self.sched.m.lock().unwrap();
        g.pending[self.side] = true;
        self.sched.cv.notify_all();
    }
}

/// Park `side` until a wake-up for it is pending.  Returns false if both sides are parked with no wake-up
/// pending and the other side has not finished (decided under one mutex: exact, independent of scheduling).
fn park(s: &Arc<Sched>, side: usize) -> bool {
    let other = 1 - side;
    let mut g = s.m.lock().unwrap();
    if g.pending[side] {
        g.pending[side] = false;
        return true;
    }
    g.parked[side] = true;
    loop {
        if g.deadlock {
            g.parked[side] = false;
            return false;
        }
        if g.pending[side] {
            g.pending[side] = false;
            g.parked[side] = false;
            return true;
        }
        if (g.parked[other] && !g.pending[other]) || g.finished[other] {
            g.deadlock = true;
            g.parked[side] = false;
            s.cv.notify_all();
            return false;
        }
        g = s.cv.wait(g).unwrap();
    }
}

fn finish(s: &Arc<Sched>, side: usize) {
    let mut g = s.m.lock().unwrap();
    g.finished[side] = true;
    s.cv.notify_all();
}

fn run(max_rx: usize, max_in: usize, packets: usize, seed: u64) -> String {
    let (mut rx, rh) = v::UserRx::build(
        NonZeroUsize::new(max_rx).unwrap(),
        NonZeroUsize::new(max_in).unwrap(),
    );
    let sched = Arc::new(Sched {
        m: Mutex::new(St::default()),
        cv: Condvar::new(),
    });
    // packet sizes
    let mut s = seed | 1;
    let mut sizes = Vec::with_capacity(packets);
    for _ in 0..packets {
        s ^= s << 13;
        s ^= s >> 7;
        s ^= s << 17;
        sizes.push(1 + (s as usize % max_in));
    }
    let total: usize = sizes.iter().sum();
    let mut starts = Vec::with_capacity(packets);
    let mut acc = 0;
    for z in &sizes {
        starts.push(acc);
        acc += z;
    }

    const DISP: usize = 0;
    const READER: usize = 1;
    let rsched = sched.clone();
    let reader = std::thread::spawn(move || -> Result<usize, String> {
        let mut rh = rh;
        let w = Waker::from(Arc::new(SideWaker {
            sched: rsched.clone(),
            side: READER,
        }));
        let mut cx = Context::from_waker(&w);
        let mut got = 0usize;
        let mut s = seed.wrapping_mul(0x9E37_79B9_7F4A_7C15) | 1;
        let res = loop {
            s ^= s << 13;
            s ^= s >> 7;
            s ^= s << 17;
            let n = 1 + (s as usize % (3 * max_in));
            let mut buf = vec![0u8; n];
            let mut rb = ReadBuf::new(&mut buf);
            match Pin::new(&mut rh).poll_read(&mut cx, &mut rb) {
                Poll::Pending => {
                    if !park(&rsched, READER) {
                        break Err(format!("DEADLOCK reader parked after {got} bytes"));
                    }
                }
                Poll::Ready(Ok(())) => {
                    let f = rb.filled();
                    if f.is_empty() {
                        break Ok(got);
                    }
                    for (j, x) in f.iter().enumerate() {
                        if *x != pat(got + j) {
                            return {
                                finish(&rsched, READER);
                                Err(format!("LOST reader sees a wrong byte at stream offset {}", got + j))
                            };
                        }
                    }
                    got += f.len();
                }
                Poll::Ready(Err(e)) => break Err(format!("READERR {e} after {got} bytes")),
            }
        };
        finish(&rsched, READER);
        res
    });

    let dw = Waker::from(Arc::new(SideWaker {
        sched: sched.clone(),
        side: DISP,
    }));
    let mut dcx = Context::from_waker(&dw);
    let mk = |i: usize| v::UtpMessage {
        header: UtpHeader {
            htype: Type::ST_DATA,
            ..Default::default()
        },
        data: (0..sizes[i]).map(|j| pat(starts[i] + j)).collect(),
    };
    let mut next = 0usize;
    let mut s2 = seed.rotate_left(17) | 1;
    let mut err: Option<String> = None;
    let mut spins = 0u64;
    'outer: while next <= packets {
        // one packet ahead, sometimes (out-of-order arrival; stored or refused, both fine)
        s2 ^= s2 << 13;
        s2 ^= s2 >> 7;
        s2 ^= s2 << 17;
        if next + 1 < packets && s2 % 4 == 0 {
            let _ = rx.add_remove(&mut dcx, mk(next + 1), 1);
        }
        let msg = if next < packets {
            mk(next)
        } else {
            v::UtpMessage {
                header: UtpHeader {
                    htype: Type::ST_FIN,
                    ..Default::default()
                },
                data: Vec::new(),
            }
        };
        match rx.add_remove(&mut dcx, msg, 0) {
            Ok(v::AssemblerAddRemoveResult::Consumed {
                sequence_numbers, ..
            }) => {
                next += sequence_numbers;
                spins = 0;
                if rx.flush(&mut dcx).is_err() {
                    err = Some("FLUSHERR".into());
                    break 'outer;
                }
            }
            Ok(v::AssemblerAddRemoveResult::Unavailable(_)) => {
                if rx.flush(&mut dcx).is_err() {
                    err = Some("FLUSHERR".into());
                    break 'outer;
                }
                let snap = rx.verif_snapshot();
                if snap.dispatcher_waker_registered {
                    if !park(&sched, DISP) {
                        err = Some(format!("DEADLOCK dispatcher parked at packet {next}"));
                        break 'outer;
                    }
                    spins = 0;
                } else {
                    spins += 1;
                    if spins > 50_000_000 {
                        err = Some(format!(
                            "STUCK packet {next} refused, nothing to flush, no waker registered"
                        ));
                        break 'outer;
                    }
                    std::hint::spin_loop();
                }
            }
            Ok(v::AssemblerAddRemoveResult::AlreadyPresent) => {
                err = Some(format!("ALREADY packet {next} at offset 0"));
                break 'outer;
            }
            Err(_) => {
                err = Some(format!("ADDERR packet {next}"));
                break 'outer;
            }
        }
    }
    // everything (incl. the EOF) must reach the user queue
    if err.is_none() {
        let mut spins = 0u64;
        loop {
            if rx.flush(&mut dcx).is_err() {
                err = Some("FLUSHERR".into());
                break;
            }
            let snap = rx.verif_snapshot();
            if snap.filled_front == 0 {
                break;
            }
            if snap.dispatcher_waker_registered {
                if !park(&sched, DISP) {
                    err = Some("DEADLOCK dispatcher parked with the EOF unflushed".into());
                    break;
                }
            } else {
                spins += 1;
                if spins > 50_000_000 {
                    err = Some("STUCK front unflushed, no waker registered".into());
                    break;
                }
            }
        }
    }
    if err.is_some() {
        // let the reader go
        rx.mark_vsock_closed();
    }
    finish(&sched, DISP);
    {
        // a reader parked for good must not keep us here
        let mut g = sched.m.lock().unwrap();
        if err.is_some() {
            g.deadlock = true;
        }
        sched.cv.notify_all();
    }
    let r = reader.join().unwrap_or(Err("READER-PANIC".into()));
    drop(rx);
    if let Err(e) = &r {
        if e.starts_with("LOST") || e.starts_with("READERR") {
            return e.clone();
        }
    }
    if let Some(e) = err {
        return e;
    }
    match r {
        Ok(n) if n == total => "OK".into(),
        Ok(n) => format!("LOST reader got {n} of {total} bytes before EOF"),
        Err(e) => e,
    }
}

pub fn dispatch(t: &[&str]) -> Option<String> {
    if t[0] != "rxconc" {
        return None;
    }
    let max_rx: usize = t[1].parse().unwrap();
    let max_in: usize = t[2].parse().unwrap();
    let packets: usize = t[3].parse().unwrap();
    let seed: u64 = t[4].parse().unwrap();
    Some(run(max_rx, max_in, packets, seed))
}

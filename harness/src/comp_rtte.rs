use crate::util::{dur_of_ns, guarded};
use librqbit_utp::verif as v;

pub fn dispatch(t: &[&str]) -> Option<String> {
    if t[0] != "rtte" {
        return None;
    }
    let mut e = v::RttEstimator::default();
    let mut out: Vec<String> = Vec::new();
    for tok in &t[1..] {
        let r = guarded(|| {
            if *tok == "t" {
                e.on_rto_timeout();
            } else {
                let ns: u128 = tok[1..].parse().unwrap();
                e.sample(dur_of_ns(ns));
            }
            format!(
                "{},{}",
                e.retransmission_timeout().as_nanos(),
                e.roundtrip_time().as_nanos()
            )
        });
        match r {
            Ok(s) => out.push(s),
            Err(_) => {
                out.push("PANIC".into());
                break;
            }
        }
    }
    Some(out.join(" "))
}

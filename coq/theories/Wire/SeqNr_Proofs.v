From Utp Require Import Base.Prelude Wire.SeqNr.

Lemma offset_true_distance : forall old k tol,
  0 <= old < M16 -> 0 <= tol <= 32767 -> - tol <= k <= tol ->
  seq_nr_offset ((old + k) mod M16) old tol = k.
Proof.
  intros old k tol Ho Ht Hk. unfold seq_nr_offset, wsub16, M16 in *.
  destruct (Z.ltb_spec ((old + k) mod 65536) old);
  [ destruct (Z.leb_spec (((old + k) mod 65536 - old) mod 65536) tol)
  | destruct (Z.eqb_spec ((old + k) mod 65536) old);
    [ | destruct (Z.leb_spec ((old - (old + k) mod 65536) mod 65536) tol) ] ]; lia.
Qed.

(* Every pair of u16 values at true modular distance within tol, in both directions. *)
Lemma offset_true_distance_pair : forall a b tol k,
  0 <= a < M16 -> 0 <= b < M16 -> 0 <= tol <= 32767 -> - tol <= k <= tol ->
  (a - b - k) mod M16 = 0 ->
  seq_nr_offset a b tol = k.
Proof.
  intros a b tol k Ha Hb Ht Hk Hm.
  replace a with ((b + k) mod M16).
  - apply offset_true_distance; assumption.
  - unfold M16 in *. lia.
Qed.

Lemma cmp_sign : forall a b k,
  0 <= a < M16 -> 0 <= b < M16 -> - WRAP_TOLERANCE <= k <= WRAP_TOLERANCE ->
  (a - b - k) mod M16 = 0 ->
  seq_cmp a b = Z.compare k 0.
Proof.
  intros a b k Ha Hb Hk Hm. unfold seq_cmp, seq_sub.
  rewrite (offset_true_distance_pair a b WRAP_TOLERANCE k); auto.
  unfold WRAP_TOLERANCE; lia.
Qed.

Lemma offset_shift : forall a b s tol k,
  0 <= a < M16 -> 0 <= b < M16 -> 0 <= tol <= 32767 -> - tol <= k <= tol ->
  (a - b - k) mod M16 = 0 ->
  seq_nr_offset ((a + s) mod M16) ((b + s) mod M16) tol = seq_nr_offset a b tol.
Proof.
  intros a b s tol k Ha Hb Ht Hk Hm.
  rewrite (offset_true_distance_pair a b tol k) by assumption.
  apply offset_true_distance_pair; try assumption.
  - unfold M16; lia.
  - unfold M16; lia.
  - unfold M16 in *. lia.
Qed.

Lemma offset_antisym : forall a b tol,
  0 <= a < M16 -> 0 <= b < M16 -> 0 <= tol ->
  seq_nr_offset a b tol = - seq_nr_offset b a tol.
Proof.
  intros a b tol Ha Hb Ht. unfold seq_nr_offset, wsub16, M16 in *.
  destruct (Z.ltb_spec a b); destruct (Z.ltb_spec b a); try lia.
  - destruct (Z.eqb_spec b a); try lia.
    destruct (Z.leb_spec ((a - b) mod 65536) tol); lia.
  - destruct (Z.eqb_spec a b); try lia.
    destruct (Z.leb_spec ((b - a) mod 65536) tol); lia.
  - destruct (Z.eqb_spec a b); destruct (Z.eqb_spec b a); lia.
Qed.

(* Outside the tolerance the sign is wrong: D4 in DESIGN.md. *)
Lemma outside_tol_refuted :
  exists old k, 0 <= old < M16 /\ 1024 < k <= 32767 /\
    seq_nr_offset ((old + k) mod M16) old 1024 <> k.
Proof. exists 65000, 1499. vm_compute. repeat split; congruence. Qed.

(* With tolerance 32767 the function is the exact signed modular distance on
   all pairs but the antipode. *)
Lemma offset_full_range : forall a b,
  0 <= a < M16 -> 0 <= b < M16 ->
  let d := seq_nr_offset a b 32767 in
  (a - b - d) mod M16 = 0 /\ -32768 <= d <= 32768.
Proof.
  intros a b Ha Hb. unfold seq_nr_offset, wsub16, M16 in *.
  destruct (Z.ltb_spec a b);
  [ destruct (Z.leb_spec ((a - b) mod 65536) 32767)
  | destruct (Z.eqb_spec a b);
    [ | destruct (Z.leb_spec ((b - a) mod 65536) 32767) ] ]; cbv zeta; split; lia.
Qed.

Lemma model_obs_ok : forall new old tol,
  0 <= new < M16 -> 0 <= old < M16 -> 0 <= tol <= 32767 ->
  c09_obs_ok new old tol (seq_nr_offset new old tol) = true.
Proof.
  intros new old tol Hn Ho Ht. unfold c09_obs_ok.
  set (k := centered (new - old)).
  destruct (Z.leb_spec (Z.abs k) tol) as [Hk|Hk]; [|reflexivity].
  apply Z.eqb_eq. apply offset_true_distance_pair; try assumption; [lia|].
  unfold k, centered, M16 in *. lia.
Qed.

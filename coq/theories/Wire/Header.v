(* M1: src/raw.rs (UtpHeader::serialize / deserialize, Type), src/raw/selective_ack.rs,
   src/raw/ext_close_reason.rs, src/message.rs (UtpMessage::deserialize).  Model only.
   A byte is a Z in [0,256); a datagram is a `list Z`. *)
From Utp Require Import Base.Prelude.

Definition byte_okb (b : Z) : bool := (0 <=? b) && (b <? 256).
Definition bytes_okb (bs : list Z) : bool := forallb byte_okb bs.

(* uN::to_be_bytes / from_be_bytes *)
Definition be16 (x : Z) : list Z := [x / 256 mod 256; x mod 256].
Definition be32 (x : Z) : list Z :=
  [x / 16777216 mod 256; x / 65536 mod 256; x / 256 mod 256; x mod 256].
Definition of_be16 (a b : Z) : Z := a * 256 + b.
Definition of_be32 (a b c d : Z) : Z := a * 16777216 + b * 65536 + c * 256 + d.

(* ---- raw.rs: Type *)
Inductive ptype := ST_DATA | ST_FIN | ST_STATE | ST_RESET | ST_SYN.

Definition type_to_number (t : ptype) : Z :=
  match t with ST_DATA => 0 | ST_FIN => 1 | ST_STATE => 2 | ST_RESET => 3 | ST_SYN => 4 end.

Definition type_from_number (n : Z) : option ptype :=
  if n =? 0 then Some ST_DATA else if n =? 1 then Some ST_FIN else if n =? 2 then Some ST_STATE
  else if n =? 3 then Some ST_RESET else if n =? 4 then Some ST_SYN else None.

Definition ptype_eqb (a b : ptype) : bool := type_to_number a =? type_to_number b.

(* ---- selective_ack.rs.  `data` is a 64-bit array stored in 8 u8 (Lsb0); as_bytes() is
   always these 8 bytes.  `len` is the private bit-length field (64 from `new`,
   8 * payload length from `deserialize`). *)
Record sack := { sack_bytes : list Z; sack_len : Z }.

Definition SACK_DEPTH : Z := 64.
Definition SACK_BYTES : nat := 8.

(* SelectiveAck::deserialize: copy min(len, 8) bytes into a zeroed array; len = bytes.len()*8 *)
Definition sack_deserialize (d : list Z) : sack :=
  {| sack_bytes := firstn SACK_BYTES (d ++ repeat 0 SACK_BYTES); sack_len := Zlength d * 8 |}.

(* SelectiveAck::new: take_while(i < 64) then set bit i; bit i lives in byte i/8 at 1 << (i%8) *)
Fixpoint take_while_lt (bound : Z) (l : list Z) : list Z :=
  match l with
  | [] => []
  | x :: r => if x <? bound then x :: take_while_lt bound r else []
  end.
Definition b2z (b : bool) : Z := if b then 1 else 0.
Definition sack_byte (f : Z -> bool) (j : Z) : Z :=
  b2z (f (8 * j)) + 2 * b2z (f (8 * j + 1)) + 4 * b2z (f (8 * j + 2)) + 8 * b2z (f (8 * j + 3)) +
  16 * b2z (f (8 * j + 4)) + 32 * b2z (f (8 * j + 5)) + 64 * b2z (f (8 * j + 6)) +
  128 * b2z (f (8 * j + 7)).
Definition sack_new (idxs : list Z) : sack :=
  let taken := take_while_lt SACK_DEPTH idxs in
  {| sack_bytes := map (sack_byte (fun i => existsb (Z.eqb i) taken)) [0; 1; 2; 3; 4; 5; 6; 7];
     sack_len := SACK_DEPTH |}.

(* ---- ext_close_reason.rs *)
Definition close_parse (a b c d : Z) : Z := of_be32 a b c d mod 65536.  (* u32 as u16 *)
Definition close_as_bytes (v : Z) : list Z := be32 v.                    (* u16 as u32, BE *)

(* ---- raw.rs: Extensions, UtpHeader *)
Record extensions := { e_sack : option sack; e_close : option Z }.
Definition no_ext : extensions := {| e_sack := None; e_close := None |}.

Record header := {
  h_type : ptype;
  h_conn : Z;      (* u16 *)
  h_ts : Z;        (* u32 *)
  h_tsdiff : Z;    (* u32 *)
  h_wnd : Z;       (* u32 *)
  h_seq : Z;       (* u16 *)
  h_ack : Z;       (* u16 *)
  h_ext : extensions
}.

Definition header_default : header :=
  {| h_type := ST_STATE; h_conn := 0; h_ts := 0; h_tsdiff := 0; h_wnd := 0; h_seq := 0; h_ack := 0;
     h_ext := no_ext |}.

Definition NO_NEXT_EXT : Z := 0.
Definition EXT_SELECTIVE_ACK : Z := 1.
Definition EXT_CLOSE_REASON : Z := 3.
Definition UTP_HEADER : Z := 20.

(* ---- serialize.  All writes of the Rust function land in buffer[0 .. returned offset) and
   every byte of that range is written; the bytes beyond are untouched (the harness checks
   this with a poisoned buffer).  The model returns exactly that prefix.
   An extension is one (id, payload) pair. *)
Definition ext := (Z * list Z)%type.

(* add_ext!: the extension is appended iff `buffer.len() >= offset + 2 + payload.len()`,
   otherwise silently skipped. *)
Definition add_ext (buflen : Z) (acc : list ext * Z) (id : Z) (payload : list Z) : list ext * Z :=
  let '(exts, offset) := acc in
  if offset + 2 + Zlength payload <=? buflen
  then (exts ++ [(id, payload)], offset + 2 + Zlength payload)
  else acc.

Definition ser_exts (h : header) (buflen : Z) : list ext * Z :=
  let acc0 := ([], UTP_HEADER) in
  let acc1 := match e_sack (h_ext h) with
              | Some s => add_ext buflen acc0 EXT_SELECTIVE_ACK (sack_bytes s)
              | None => acc0 end in
  match e_close (h_ext h) with
  | Some c => add_ext buflen acc1 EXT_CLOSE_REASON (close_as_bytes c)
  | None => acc1 end.

Definition first_id (exts : list ext) : Z :=
  match exts with [] => NO_NEXT_EXT | (id, _) :: _ => id end.

(* Layout written by the add_ext! macro for the extensions that were added, in order.
   Each block is written as [NO_NEXT_EXT; len; payload] at `offset`, and its id is stored at
   `next_ext_pos`: byte 1 of the fixed header for the first block, and (`next_ext_pos = offset`
   after each block) the `next` byte of the preceding block otherwise.  So block k carries the
   id of block k+1 in its `next` byte, the last one NO_NEXT_EXT: the BEP-29 chain. *)
Fixpoint chain_bytes (exts : list ext) : list Z :=
  match exts with
  | [] => []
  | (_, p) :: rest => first_id rest :: (Zlength p mod 256) :: p ++ chain_bytes rest
  end.

(* the 20 fixed bytes; typever = (type << 4) | 1 *)
Definition fixed_bytes (t : ptype) (first conn ts tsdiff wnd seq ack : Z) : list Z :=
  [type_to_number t * 16 + 1; first] ++ be16 conn ++ be32 ts ++ be32 tsdiff ++ be32 wnd ++
  be16 seq ++ be16 ack.

(* fixed header followed by a chain of extensions (also the generic BEP-29 encoder used by the
   specification side, for arbitrary extension lists) *)
Definition encode_packet (h : header) (exts : list ext) : list Z :=
  fixed_bytes (h_type h) (first_id exts) (h_conn h) (h_ts h) (h_tsdiff h) (h_wnd h) (h_seq h)
    (h_ack h) ++ chain_bytes exts.

(* None = Err(SerializeTooSmallBuffer) *)
Definition serialize (h : header) (buflen : Z) : option (list Z) :=
  if buflen <? UTP_HEADER then None
  else Some (encode_packet h (fst (ser_exts h buflen))).

(* the offset returned with a buffer that is large enough *)
Definition ser_len (h : header) : Z :=
  UTP_HEADER
  + match e_sack (h_ext h) with Some s => 2 + Zlength (sack_bytes s) | None => 0 end
  + match e_close (h_ext h) with Some _ => 6 | None => 0 end.

(* ---- deserialize *)
(* the match on (ext, ext_len) inside the loop; a later extension of the same kind overwrites *)
Definition apply_ext (ex : extensions) (id : Z) (data : list Z) : extensions :=
  if id =? EXT_SELECTIVE_ACK then
    {| e_sack := Some (sack_deserialize data); e_close := e_close ex |}
  else if id =? EXT_CLOSE_REASON then
    match data with
    | [a; b; c; d] => {| e_sack := e_sack ex; e_close := Some (close_parse a b c d) |}
    | _ => ex
    end
  else ex.

(* `while next_ext > 0 { .. }`.  Every iteration consumes at least 2 bytes, so fuel =
   length of the buffer suffices; fuel exhausted with next_ext > 0 means the buffer is
   empty, where `buffer.first()?` returns None. *)
Fixpoint parse_exts (fuel : nat) (next_ext : Z) (buf : list Z) (ex : extensions) (total : Z)
  : option (extensions * Z) :=
  if next_ext >? 0 then
    match fuel with
    | O => None
    | S fuel' =>
        match buf with
        | nxt :: len :: rest =>
            if len <=? Zlength rest then          (* buffer.get(2..2 + ext_len)? *)
              let n := Z.to_nat len in
              parse_exts fuel' nxt (skipn n rest) (apply_ext ex next_ext (firstn n rest))
                         (total + 2 + len)
            else None
        | _ => None                               (* first()? / get(1)? *)
        end
    end
  else Some (ex, total).

Definition deserialize (bs : list Z) : option (header * Z) :=
  if Zlength bs <? UTP_HEADER then None else
  let b := fun i : nat => nth i bs 0 in
  let typenum := b 0%nat / 16 in
  let version := b 0%nat mod 16 in
  if negb (version =? 1) then None else
  match type_from_number typenum with
  | None => None
  | Some t =>
      let rest := skipn 20 bs in
      match parse_exts (length rest) (b 1%nat) rest no_ext 0 with
      | None => None
      | Some (ex, total) =>
          Some ({| h_type := t;
                   h_conn := of_be16 (b 2%nat) (b 3%nat);
                   h_ts := of_be32 (b 4%nat) (b 5%nat) (b 6%nat) (b 7%nat);
                   h_tsdiff := of_be32 (b 8%nat) (b 9%nat) (b 10%nat) (b 11%nat);
                   h_wnd := of_be32 (b 12%nat) (b 13%nat) (b 14%nat) (b 15%nat);
                   h_seq := of_be16 (b 16%nat) (b 17%nat);
                   h_ack := of_be16 (b 18%nat) (b 19%nat);
                   h_ext := ex |}, UTP_HEADER + total)
      end
  end.

(* ---- message.rs: UtpMessage::deserialize.  `buf.len() - hsize` and `buf[hsize..]` panic
   if hsize > buf.len(): MsgPanic (proved unreachable). *)
Inductive msg_res :=
| MsgPanic
| MsgNone
| MsgSome (h : header) (payload : list Z).

Definition msg_deserialize (bs : list Z) : msg_res :=
  match deserialize bs with
  | None => MsgNone
  | Some (h, hsize) =>
      if Zlength bs <? hsize then MsgPanic else
      let payload_size := Zlength bs - hsize in
      match h_type h with
      | ST_DATA => if payload_size =? 0 then MsgNone else MsgSome h (skipn (Z.to_nat hsize) bs)
      | _ => if payload_size >? 0 then MsgNone else MsgSome h (skipn (Z.to_nat hsize) bs)
      end
  end.

(* ======================================================================================
   Declarative side (specification; used by the theorems of Props/C11.v and, extracted, by
   the predicates evaluated on the implementation's observations). *)

(* A chain of (next, len, data) triples that starts with extension id `id` in `buf`;
   `exts` are the (id, data) pairs in wire order; what follows the chain is the payload. *)
Inductive ext_chain : Z -> list Z -> list ext -> Prop :=
| ec_end : forall id rest, id <= 0 -> ext_chain id rest []
| ec_ext : forall id nxt data rest exts,
    id > 0 -> ext_chain nxt rest exts ->
    ext_chain id (nxt :: Zlength data :: data ++ rest) ((id, data) :: exts).

Definition ext_size (exts : list ext) : Z := sumZ (map (fun e => 2 + Zlength (snd e)) exts).
Definition apply_exts (exts : list ext) (ex : extensions) : extensions :=
  fold_left (fun ex e => apply_ext ex (fst e) (snd e)) exts ex.

(* BEP-29 shape of an acceptable datagram prefix: >= 20 bytes, version nibble 1, type nibble
   <= 4, an extension chain that fits; h and n are the header fields read big-endian and the
   payload boundary 20 + sum (2 + len). *)
Definition wf_packet (bs : list Z) (h : header) (n : Z) : Prop :=
  exists exts,
    20 <= Zlength bs /\
    nth 0 bs 0 mod 16 = 1 /\
    0 <= nth 0 bs 0 / 16 <= 4 /\
    type_to_number (h_type h) = nth 0 bs 0 / 16 /\
    ext_chain (nth 1 bs 0) (skipn 20 bs) exts /\
    n = 20 + ext_size exts /\
    h_conn h = of_be16 (nth 2 bs 0) (nth 3 bs 0) /\
    h_ts h = of_be32 (nth 4 bs 0) (nth 5 bs 0) (nth 6 bs 0) (nth 7 bs 0) /\
    h_tsdiff h = of_be32 (nth 8 bs 0) (nth 9 bs 0) (nth 10 bs 0) (nth 11 bs 0) /\
    h_wnd h = of_be32 (nth 12 bs 0) (nth 13 bs 0) (nth 14 bs 0) (nth 15 bs 0) /\
    h_seq h = of_be16 (nth 16 bs 0) (nth 17 bs 0) /\
    h_ack h = of_be16 (nth 18 bs 0) (nth 19 bs 0) /\
    h_ext h = apply_exts exts no_ext.

(* decision procedure for ext_chain: the list of triples, or None if the chain does not fit *)
Fixpoint split_chain (fuel : nat) (id : Z) (buf : list Z) : option (list ext) :=
  if id <=? 0 then Some [] else
  match fuel, buf with
  | S fuel', nxt :: len :: rest =>
      if len <=? Zlength rest then
        match split_chain fuel' nxt (skipn (Z.to_nat len) rest) with
        | Some exts => Some ((id, firstn (Z.to_nat len) rest) :: exts)
        | None => None
        end
      else None
  | _, _ => None
  end.

(* decision procedure for wf_packet *)
Definition spec_parse (bs : list Z) : option (header * Z) :=
  if (20 <=? Zlength bs) && (nth 0 bs 0 mod 16 =? 1) then
    match type_from_number (nth 0 bs 0 / 16),
          split_chain (length (skipn 20 bs)) (nth 1 bs 0) (skipn 20 bs) with
    | Some t, Some exts =>
        Some ({| h_type := t;
                 h_conn := of_be16 (nth 2 bs 0) (nth 3 bs 0);
                 h_ts := of_be32 (nth 4 bs 0) (nth 5 bs 0) (nth 6 bs 0) (nth 7 bs 0);
                 h_tsdiff := of_be32 (nth 8 bs 0) (nth 9 bs 0) (nth 10 bs 0) (nth 11 bs 0);
                 h_wnd := of_be32 (nth 12 bs 0) (nth 13 bs 0) (nth 14 bs 0) (nth 15 bs 0);
                 h_seq := of_be16 (nth 16 bs 0) (nth 17 bs 0);
                 h_ack := of_be16 (nth 18 bs 0) (nth 19 bs 0);
                 h_ext := apply_exts exts no_ext |}, 20 + ext_size exts)
    | _, _ => None
    end
  else None.

(* ---- ranges *)
Definition u16b (x : Z) : bool := (0 <=? x) && (x <? 65536).
Definition u32b (x : Z) : bool := (0 <=? x) && (x <? 4294967296).

(* a SelectiveAck value that exists in Rust: 8 data bytes *)
Definition sack_wfb (s : sack) : bool :=
  (length (sack_bytes s) =? 8)%nat && bytes_okb (sack_bytes s).
(* ... and built by SelectiveAck::new (the only constructor used for sending) *)
Definition sack_okb (s : sack) : bool := sack_wfb s && (sack_len s =? 64).

Definition ext_wfb (ex : extensions) : bool :=
  match e_sack ex with Some s => sack_wfb s | None => true end &&
  match e_close ex with Some c => u16b c | None => true end.
Definition ext_okb (ex : extensions) : bool :=
  match e_sack ex with Some s => sack_okb s | None => true end &&
  match e_close ex with Some c => u16b c | None => true end.

Definition fields_okb (h : header) : bool :=
  u16b (h_conn h) && u32b (h_ts h) && u32b (h_tsdiff h) && u32b (h_wnd h) &&
  u16b (h_seq h) && u16b (h_ack h).

(* any UtpHeader value representable in Rust *)
Definition hdr_wfb (h : header) : bool := fields_okb h && ext_wfb (h_ext h).
(* any UtpHeader the library builds for sending: SACK, if present, has len = 64 *)
Definition hdr_okb (h : header) : bool := fields_okb h && ext_okb (h_ext h).

(* the normal form reached by one serialise/parse round: SACK bit-length becomes 64 *)
Definition normalise_ext (ex : extensions) : extensions :=
  {| e_sack := match e_sack ex with
               | Some s => Some {| sack_bytes := sack_bytes s; sack_len := 64 |}
               | None => None end;
     e_close := e_close ex |}.
Definition with_ext (h : header) (ex : extensions) : header :=
  {| h_type := h_type h; h_conn := h_conn h; h_ts := h_ts h; h_tsdiff := h_tsdiff h;
     h_wnd := h_wnd h; h_seq := h_seq h; h_ack := h_ack h; h_ext := ex |}.
Definition normalise (h : header) : header := with_ext h (normalise_ext (h_ext h)).

(* unknown extension = one that apply_ext ignores *)
Definition ext_known (e : ext) : bool :=
  (fst e =? EXT_SELECTIVE_ACK) || ((fst e =? EXT_CLOSE_REASON) && (Zlength (snd e) =? 4)).
(* an extension triple that can be put on the wire: id 1..255, <= 255 data bytes *)
Definition ext_wire_okb (e : ext) : bool :=
  (0 <? fst e) && (fst e <? 256) && (Zlength (snd e) <? 256) && bytes_okb (snd e).

Definition exts_wire_okb (exts : list ext) : bool := forallb ext_wire_okb exts.

(* what the harness observes of a message-level result: header and payload length *)
Definition msg_obs (r : msg_res) : option (header * Z) :=
  match r with MsgSome h p => Some (h, Zlength p) | _ => None end.

(* ---- boolean equality *)
Fixpoint list_eqb (a b : list Z) : bool :=
  match a, b with
  | [], [] => true
  | x :: a', y :: b' => (x =? y) && list_eqb a' b'
  | _, _ => false
  end.
Definition sack_eqb (a b : sack) : bool :=
  list_eqb (sack_bytes a) (sack_bytes b) && (sack_len a =? sack_len b).
Definition opt_eqb {A} (eqb : A -> A -> bool) (a b : option A) : bool :=
  match a, b with
  | None, None => true
  | Some x, Some y => eqb x y
  | _, _ => false
  end.
Definition ext_eqb (a b : extensions) : bool :=
  opt_eqb sack_eqb (e_sack a) (e_sack b) && opt_eqb Z.eqb (e_close a) (e_close b).
Definition fields_eqb (a b : header) : bool :=
  ptype_eqb (h_type a) (h_type b) && (h_conn a =? h_conn b) && (h_ts a =? h_ts b) &&
  (h_tsdiff a =? h_tsdiff b) && (h_wnd a =? h_wnd b) && (h_seq a =? h_seq b) &&
  (h_ack a =? h_ack b).
Definition header_eqb (a b : header) : bool := fields_eqb a b && ext_eqb (h_ext a) (h_ext b).
Definition res_eqb (a b : option (header * Z)) : bool :=
  opt_eqb (fun x y => header_eqb (fst x) (fst y) && (snd x =? snd y)) a b.

(* ======================================================================================
   C11 as boolean predicates over one observation; proved true of the model in
   Header_Proofs (c11_de_model_ok, c11_msg_model_ok, c11_ser_model_ok) and evaluated,
   extracted, on the implementation's observations. *)

(* wire_de: the parser accepted exactly the wf packets, with the declared header and length *)
Definition c11_de_ok (bs : list Z) (obs : option (header * Z)) : bool :=
  res_eqb obs (spec_parse bs) &&
  match obs with
  | Some (h, n) => (20 <=? n) && (n <=? Zlength bs) && hdr_wfb h
  | None => true
  end.

(* wire_msg: obs = None (rejected) or Some (h, payload length); payload rule *)
Definition c11_msg_ok (bs : list Z) (obs : option (header * Z)) : bool :=
  match obs, spec_parse bs with
  | None, None => true
  | None, Some (h, n) =>
      negb (Bool.eqb (ptype_eqb (h_type h) ST_DATA) (0 <? Zlength bs - n))
  | Some (h, plen), Some (h', n') =>
      header_eqb h h' && (plen =? Zlength bs - n') && (0 <=? plen) &&
      Bool.eqb (ptype_eqb (h_type h) ST_DATA) (0 <? plen)
  | Some _, None => false
  end.

(* wire_ser: obs = None (Err) or Some (the bytes written).
   - Err exactly when the buffer is smaller than 20 bytes;
   - the output is bytes, fits, carries version 1, and parses back (declarative parser) to a
     header whose fixed fields are those of h and whose extensions are a subset of the
     normalised extensions of h, with length = the whole output;
   - when the buffer holds ser_len h bytes, it parses back to exactly normalise h. *)
Definition ext_subb (a b : extensions) : bool :=
  match e_sack a with None => true | Some _ => opt_eqb sack_eqb (e_sack a) (e_sack b) end &&
  match e_close a with None => true | Some _ => opt_eqb Z.eqb (e_close a) (e_close b) end.

Definition c11_ser_ok (h : header) (buflen : Z) (obs : option (list Z)) : bool :=
  match obs with
  | None => buflen <? 20
  | Some bs =>
      (20 <=? buflen) && bytes_okb bs && (Zlength bs <=? buflen) && (nth 0 bs 0 mod 16 =? 1) &&
      match spec_parse bs with
      | None => false
      | Some (h', n) =>
          (n =? Zlength bs) && fields_eqb h' h && ext_subb (h_ext h') (normalise_ext (h_ext h)) &&
          (if ser_len h <=? buflen then header_eqb h' (normalise h) && (n =? ser_len h) else true)
      end
  end.

(* M1: src/utils.rs seq_nr_offset, src/seq_nr.rs SeqNr.  Model only. *)
From Utp Require Import Base.Prelude.

(* src/utils.rs:18-36.  new, old : u16 ; result : isize *)
Definition seq_nr_offset (new old tol : Z) : Z :=
  if new <? old then
    (if wsub16 new old <=? tol then wsub16 new old else - (old - new))
  else if new =? old then 0
  else (if wsub16 old new <=? tol then - wsub16 old new else new - old).

(* src/constants.rs WRAP_TOLERANCE; re-read from the compiled crate on every run
   (tools/check compares). *)
Definition WRAP_TOLERANCE : Z := 1024.

(* impl Sub<SeqNr> for SeqNr *)
Definition seq_sub (a b : Z) : Z := seq_nr_offset a b WRAP_TOLERANCE.
(* impl Add<u16>, Sub<u16> *)
Definition seq_add (a k : Z) : Z := wadd16 a k.
Definition seq_subk (a k : Z) : Z := wsub16 a k.
(* impl Ord *)
Definition seq_cmp (a b : Z) : comparison := Z.compare (seq_sub a b) 0.
Definition seq_lt (a b : Z) : bool := seq_sub a b <? 0.
Definition seq_le (a b : Z) : bool := seq_sub a b <=? 0.
Definition seq_gt (a b : Z) : bool := seq_sub a b >? 0.
Definition seq_ge (a b : Z) : bool := seq_sub a b >=? 0.

(* C09 (arithmetic) as a boolean predicate on one observation of seq_nr_offset:
   whenever the true signed modular distance of new from old is within the tolerance,
   the result is that distance. *)
Definition centered (d : Z) : Z := (d + 32768) mod M16 - 32768.
Definition c09_obs_ok (new old tol res : Z) : bool :=
  let k := centered (new - old) in
  if (Z.abs k <=? tol) then res =? k else true.

(* Lemmas about the wire-format model (Wire/Header.v); restated in Props/C11.v. *)
From Utp Require Import Base.Prelude Wire.Header.

(* ------------------------------------------------------------------ bytes and lists *)
Lemma byte_okb_iff b : byte_okb b = true <-> 0 <= b < 256.
Proof. unfold byte_okb. lia. Qed.

Lemma bytes_okb_cons b bs : bytes_okb (b :: bs) = true <-> 0 <= b < 256 /\ bytes_okb bs = true.
Proof.
  unfold bytes_okb; cbn [forallb]. rewrite andb_true_iff, byte_okb_iff. reflexivity.
Qed.

Lemma bytes_okb_app a b : bytes_okb (a ++ b) = bytes_okb a && bytes_okb b.
Proof. unfold bytes_okb. apply forallb_app. Qed.

Lemma bytes_okb_firstn n bs : bytes_okb bs = true -> bytes_okb (firstn n bs) = true.
Proof.
  revert bs; induction n as [|n IH]; intros [|b bs] H; cbn [firstn]; try reflexivity.
  apply bytes_okb_cons in H. apply bytes_okb_cons. split; [tauto|apply IH; tauto].
Qed.

Lemma bytes_okb_skipn n bs : bytes_okb bs = true -> bytes_okb (skipn n bs) = true.
Proof.
  revert bs; induction n as [|n IH]; intros [|b bs] H; cbn [skipn]; try assumption.
  apply bytes_okb_cons in H. apply IH; tauto.
Qed.

Lemma bytes_okb_nth bs i : bytes_okb bs = true -> 0 <= nth i bs 0 < 256.
Proof.
  revert i; induction bs as [|b bs IH]; intros [|i] H; cbn [nth]; try lia.
  - apply bytes_okb_cons in H; tauto.
  - apply bytes_okb_cons in H; apply IH; tauto.
Qed.

Lemma bytes_okb_repeat0 n : bytes_okb (repeat 0 n) = true.
Proof. induction n; [reflexivity|]. cbn [repeat]. apply bytes_okb_cons. split; [lia|assumption]. Qed.

Lemma Zlength_firstn_le (l : list Z) k :
  0 <= k <= Zlength l -> Zlength (firstn (Z.to_nat k) l) = k.
Proof. intros H. rewrite !Zlength_correct in *. rewrite firstn_length. lia. Qed.

Lemma Zlength_skipn_le (l : list Z) k :
  0 <= k <= Zlength l -> Zlength (skipn (Z.to_nat k) l) = Zlength l - k.
Proof. intros H. rewrite !Zlength_correct in *. rewrite skipn_length. lia. Qed.

Lemma Zlength_app (a b : list Z) : Zlength (a ++ b) = Zlength a + Zlength b.
Proof. rewrite !Zlength_correct, app_length. lia. Qed.

Lemma Zlength_nonneg (a : list Z) : 0 <= Zlength a.
Proof. rewrite Zlength_correct. lia. Qed.

Lemma to_nat_Zlength (l : list Z) : Z.to_nat (Zlength l) = length l.
Proof. rewrite Zlength_correct. apply Nat2Z.id. Qed.

Lemma firstn_length_app (a b : list Z) : firstn (length a) (a ++ b) = a.
Proof.
  rewrite firstn_app, Nat.sub_diag, firstn_all. cbn [firstn]. apply app_nil_r.
Qed.

Lemma skipn_length_app (a b : list Z) : skipn (length a) (a ++ b) = b.
Proof.
  rewrite skipn_app, Nat.sub_diag, skipn_all. reflexivity.
Qed.

Lemma Some_pair_inj {A B} (a c : A) (b d : B) : Some (a, b) = Some (c, d) -> a = c /\ b = d.
Proof. intro H; split; congruence. Qed.

(* ------------------------------------------------------------------ big-endian *)
Lemma of_be16_be16 x : 0 <= x < 65536 -> of_be16 (x / 256 mod 256) (x mod 256) = x.
Proof. unfold of_be16. lia. Qed.

Lemma of_be32_be32 x : 0 <= x < 4294967296 ->
  of_be32 (x / 16777216 mod 256) (x / 65536 mod 256) (x / 256 mod 256) (x mod 256) = x.
Proof. unfold of_be32. lia. Qed.

Lemma of_be16_range a b : 0 <= a < 256 -> 0 <= b < 256 -> 0 <= of_be16 a b < 65536.
Proof. unfold of_be16. lia. Qed.

Lemma of_be32_range a b c d : 0 <= a < 256 -> 0 <= b < 256 -> 0 <= c < 256 -> 0 <= d < 256 ->
  0 <= of_be32 a b c d < 4294967296.
Proof. unfold of_be32. lia. Qed.

Lemma u16b_iff x : u16b x = true <-> 0 <= x < 65536.
Proof. unfold u16b. lia. Qed.
Lemma u32b_iff x : u32b x = true <-> 0 <= x < 4294967296.
Proof. unfold u32b. lia. Qed.

(* ------------------------------------------------------------------ Type *)
Lemma type_from_to t : type_from_number (type_to_number t) = Some t.
Proof. destruct t; reflexivity. Qed.

Lemma type_from_some n t : type_from_number n = Some t -> type_to_number t = n.
Proof.
  unfold type_from_number.
  destruct (Z.eqb_spec n 0); [intro Heq; injection Heq as <-; cbn; lia|].
  destruct (Z.eqb_spec n 1); [intro Heq; injection Heq as <-; cbn; lia|].
  destruct (Z.eqb_spec n 2); [intro Heq; injection Heq as <-; cbn; lia|].
  destruct (Z.eqb_spec n 3); [intro Heq; injection Heq as <-; cbn; lia|].
  destruct (Z.eqb_spec n 4); [intro Heq; injection Heq as <-; cbn; lia|].
  discriminate.
Qed.

Lemma type_to_number_range t : 0 <= type_to_number t <= 4.
Proof. destruct t; cbn; lia. Qed.

Lemma type_to_number_inj a b : type_to_number a = type_to_number b -> a = b.
Proof. destruct a, b; cbn; intro H; try reflexivity; discriminate. Qed.

Lemma ptype_eqb_iff a b : ptype_eqb a b = true <-> a = b.
Proof.
  unfold ptype_eqb. rewrite Z.eqb_eq. split; [apply type_to_number_inj|intros ->; reflexivity].
Qed.

(* ------------------------------------------------------------------ ext_chain <-> split_chain *)
Lemma split_chain_sound : forall f id buf exts,
  bytes_okb buf = true -> split_chain f id buf = Some exts -> ext_chain id buf exts.
Proof.
  induction f as [|f IH]; intros id buf exts Hb; cbn [split_chain].
  - destruct (Z.leb_spec id 0); [|discriminate].
    intro Heq; injection Heq as <-. constructor; assumption.
  - destruct (Z.leb_spec id 0) as [Hid|Hid].
    { intro Heq; injection Heq as <-. constructor; assumption. }
    destruct buf as [|nxt [|len rest]]; try discriminate.
    destruct (Z.leb_spec len (Zlength rest)) as [Hlen|]; [|discriminate].
    destruct (split_chain f nxt (skipn (Z.to_nat len) rest)) as [exts'|] eqn:E; [|discriminate].
    intro Heq; injection Heq as <-.
    apply bytes_okb_cons in Hb; destruct Hb as [_ Hb].
    apply bytes_okb_cons in Hb; destruct Hb as [Hl Hb].
    apply IH in E; [|apply bytes_okb_skipn; assumption].
    pose proof (ec_ext id nxt (firstn (Z.to_nat len) rest) (skipn (Z.to_nat len) rest) exts') as C.
    rewrite firstn_skipn in C. rewrite Zlength_firstn_le in C by lia.
    apply C; [lia|assumption].
Qed.

Lemma split_chain_complete : forall id buf exts,
  ext_chain id buf exts -> forall f, (length buf <= f)%nat -> split_chain f id buf = Some exts.
Proof.
  induction 1 as [id rest Hid | id nxt data rest exts Hid Hc IH]; intros f Hf.
  - destruct f; cbn [split_chain]; destruct (Z.leb_spec id 0); try lia; reflexivity.
  - destruct f as [|f]; [cbn [length] in Hf; lia|].
    cbn [split_chain]. destruct (Z.leb_spec id 0); [lia|].
    destruct (Z.leb_spec (Zlength data) (Zlength (data ++ rest))) as [_|Hbad].
    2:{ rewrite Zlength_app in Hbad. pose proof (Zlength_nonneg rest). lia. }
    rewrite to_nat_Zlength, skipn_length_app, firstn_length_app.
    rewrite IH; [reflexivity|].
    cbn [length] in Hf. rewrite app_length in Hf. lia.
Qed.

Lemma ext_chain_iff id buf exts : bytes_okb buf = true ->
  (split_chain (length buf) id buf = Some exts <-> ext_chain id buf exts).
Proof.
  intro Hb; split; [apply split_chain_sound; assumption|].
  intro H; apply split_chain_complete; [assumption|lia].
Qed.

(* the parser's loop is split_chain followed by the fold *)
Lemma ext_size_cons id data exts : ext_size ((id, data) :: exts) = 2 + Zlength data + ext_size exts.
Proof. unfold ext_size; cbn [map sumZ snd]. lia. Qed.

Lemma parse_exts_split : forall f id buf ex tot,
  bytes_okb buf = true ->
  parse_exts f id buf ex tot =
  match split_chain f id buf with
  | Some exts => Some (apply_exts exts ex, tot + ext_size exts)
  | None => None
  end.
Proof.
  induction f as [|f IH]; intros id buf ex tot Hb; cbn [parse_exts split_chain]; rewrite Z.gtb_ltb.
  - destruct (Z.ltb_spec 0 id); destruct (Z.leb_spec id 0); try lia; [reflexivity|].
    unfold apply_exts, ext_size; cbn [fold_left map sumZ]. f_equal; f_equal; lia.
  - destruct (Z.ltb_spec 0 id); destruct (Z.leb_spec id 0); try lia.
    2:{ unfold apply_exts, ext_size; cbn [fold_left map sumZ]. f_equal; f_equal; lia. }
    destruct buf as [|nxt [|len rest]]; try reflexivity.
    destruct (Z.leb_spec len (Zlength rest)) as [Hlen|]; [|reflexivity].
    apply bytes_okb_cons in Hb; destruct Hb as [_ Hb].
    apply bytes_okb_cons in Hb; destruct Hb as [Hl Hb].
    rewrite IH by (apply bytes_okb_skipn; assumption).
    destruct (split_chain f nxt (skipn (Z.to_nat len) rest)) as [exts'|]; [|reflexivity].
    rewrite ext_size_cons, Zlength_firstn_le by lia.
    unfold apply_exts; cbn [fold_left fst snd]. f_equal; f_equal; lia.
Qed.

Lemma split_chain_size : forall f id buf exts,
  bytes_okb buf = true -> split_chain f id buf = Some exts ->
  0 <= ext_size exts <= Zlength buf /\ forallb (fun e => bytes_okb (snd e)) exts = true.
Proof.
  induction f as [|f IH]; intros id buf exts Hb; cbn [split_chain].
  - destruct (Z.leb_spec id 0); [|discriminate].
    intro Heq; injection Heq as <-. unfold ext_size; cbn. pose proof (Zlength_nonneg buf). split; [lia|reflexivity].
  - destruct (Z.leb_spec id 0) as [Hid|Hid].
    { intro Heq; injection Heq as <-. unfold ext_size; cbn. pose proof (Zlength_nonneg buf). split; [lia|reflexivity]. }
    destruct buf as [|nxt [|len rest]]; try discriminate.
    destruct (Z.leb_spec len (Zlength rest)) as [Hlen|]; [|discriminate].
    destruct (split_chain f nxt (skipn (Z.to_nat len) rest)) as [exts'|] eqn:E; [|discriminate].
    intro Heq; injection Heq as <-.
    apply bytes_okb_cons in Hb; destruct Hb as [_ Hb].
    apply bytes_okb_cons in Hb; destruct Hb as [Hl Hb].
    apply IH in E; [|apply bytes_okb_skipn; assumption]. destruct E as [E1 E2].
    rewrite ext_size_cons, Zlength_firstn_le by lia.
    rewrite Zlength_skipn_le in E1 by lia. rewrite !Zlength_cons.
    split; [lia|]. cbn [forallb snd]. rewrite E2, bytes_okb_firstn by assumption. reflexivity.
Qed.

(* ------------------------------------------------------------------ deserialize = spec_parse *)
Lemma deserialize_spec bs : bytes_okb bs = true -> deserialize bs = spec_parse bs.
Proof.
  intro Hb. unfold deserialize, spec_parse, UTP_HEADER.
  destruct (Z.ltb_spec (Zlength bs) 20); destruct (Z.leb_spec 20 (Zlength bs)); try lia; [reflexivity|].
  cbn [andb]. destruct (nth 0 bs 0 mod 16 =? 1); cbn [negb]; [|reflexivity].
  destruct (type_from_number (nth 0 bs 0 / 16)); [|reflexivity].
  rewrite parse_exts_split by (apply bytes_okb_skipn; assumption).
  destruct (split_chain _ _ _); reflexivity.
Qed.

(* ------------------------------------------------------------------ spec_parse <-> wf_packet *)
Lemma spec_parse_wf bs h n : bytes_okb bs = true -> spec_parse bs = Some (h, n) -> wf_packet bs h n.
Proof.
  intros Hb. unfold spec_parse.
  destruct (Z.leb_spec 20 (Zlength bs)) as [Hlen|]; [|discriminate].
  destruct (Z.eqb_spec (nth 0 bs 0 mod 16) 1) as [Hv|]; [|discriminate]. cbn [andb].
  destruct (type_from_number (nth 0 bs 0 / 16)) as [t|] eqn:Et; [|discriminate].
  destruct (split_chain _ _ _) as [exts|] eqn:Es; [|discriminate].
  intro Heq; injection Heq as <- <-.
  apply type_from_some in Et.
  apply split_chain_sound in Es; [|apply bytes_okb_skipn; assumption].
  exists exts. cbn [h_type h_conn h_ts h_tsdiff h_wnd h_seq h_ack h_ext].
  pose proof (type_to_number_range t).
  repeat split; try assumption; try reflexivity; lia.
Qed.

Lemma wf_spec_parse bs h n : wf_packet bs h n -> spec_parse bs = Some (h, n).
Proof.
  intros (exts & Hlen & Hv & Hr & Ht & Hc & Hn & H1 & H2 & H3 & H4 & H5 & H6 & H7).
  unfold spec_parse.
  destruct (Z.leb_spec 20 (Zlength bs)); [|lia].
  destruct (Z.eqb_spec (nth 0 bs 0 mod 16) 1); [|lia]. cbn [andb].
  rewrite <- Ht, type_from_to.
  rewrite (split_chain_complete _ _ _ Hc) by lia.
  destruct h as [t c ts td w s a ex]; cbn [h_type h_conn h_ts h_tsdiff h_wnd h_seq h_ack h_ext] in *.
  subst. reflexivity.
Qed.

Lemma spec_parse_iff bs h n : bytes_okb bs = true ->
  (spec_parse bs = Some (h, n) <-> wf_packet bs h n).
Proof. intro Hb; split; [apply spec_parse_wf; assumption|apply wf_spec_parse]. Qed.

Lemma accepts_iff bs h n : bytes_okb bs = true ->
  (deserialize bs = Some (h, n) <-> wf_packet bs h n).
Proof. intro Hb. rewrite deserialize_spec by assumption. apply spec_parse_iff; assumption. Qed.

(* rejection, spelled out: no header and length make the datagram well formed *)
Lemma rejects_iff bs : bytes_okb bs = true ->
  (deserialize bs = None <-> forall h n, ~ wf_packet bs h n).
Proof.
  intro Hb; split.
  - intros Hn h n Hw. apply accepts_iff in Hw; [congruence|assumption].
  - intro Hno. destruct (deserialize bs) as [[h n]|] eqn:E; [|reflexivity].
    exfalso. apply (Hno h n). apply accepts_iff; assumption.
Qed.

(* ------------------------------------------------------------------ bounds; no panic *)
Lemma parse_exts_bound : forall f id buf ex tot ex' tot',
  parse_exts f id buf ex tot = Some (ex', tot') -> tot' <= tot + Zlength buf.
Proof.
  induction f as [|f IH]; intros id buf ex tot ex' tot'; cbn [parse_exts].
  - destruct (id >? 0); [discriminate|]. intro Heq; injection Heq as <- <-.
    pose proof (Zlength_nonneg buf); lia.
  - destruct (id >? 0).
    2:{ intro Heq; injection Heq as <- <-. pose proof (Zlength_nonneg buf); lia. }
    destruct buf as [|nxt [|len rest]]; try discriminate.
    destruct (Z.leb_spec len (Zlength rest)) as [Hlen|]; [|discriminate].
    intro E. apply IH in E. rewrite !Zlength_cons.
    assert (Zlength (skipn (Z.to_nat len) rest) + len <= Zlength rest).
    { destruct (Z.le_gt_cases 0 len).
      - rewrite Zlength_skipn_le by lia. lia.
      - replace (Z.to_nat len) with O by lia. cbn [skipn]. lia. }
    lia.
Qed.

Lemma deserialize_bound bs h n : deserialize bs = Some (h, n) -> n <= Zlength bs.
Proof.
  unfold deserialize.
  destruct (Z.ltb_spec (Zlength bs) UTP_HEADER) as [|Hlen]; [discriminate|].
  destruct (negb _); [discriminate|].
  destruct (type_from_number _); [|discriminate].
  destruct (parse_exts _ _ _ _ _) as [[ex tot]|] eqn:E; [|discriminate].
  intro Heq. assert (Hn : n = UTP_HEADER + tot) by congruence. subst n. clear Heq.
  apply parse_exts_bound in E.
  replace 20%nat with (Z.to_nat 20) in E by reflexivity.
  assert (H20 : UTP_HEADER = 20) by reflexivity.
  rewrite Zlength_skipn_le in E by lia. lia.
Qed.

Lemma no_panic bs : msg_deserialize bs <> MsgPanic.
Proof.
  unfold msg_deserialize. destruct (deserialize bs) as [[h n]|] eqn:E; [|discriminate].
  apply deserialize_bound in E.
  destruct (Z.ltb_spec (Zlength bs) n); [lia|].
  destruct (h_type h); destruct (Zlength bs - n =? 0); destruct (Zlength bs - n >? 0); discriminate.
Qed.

(* ------------------------------------------------------------------ parsed headers are representable *)
Lemma length_firstn_pad (d : list Z) : length (firstn 8 (d ++ repeat 0 8)) = 8%nat.
Proof. rewrite firstn_length, app_length, repeat_length. lia. Qed.

Lemma sack_deserialize_wf d : bytes_okb d = true -> sack_wfb (sack_deserialize d) = true.
Proof.
  intro Hd. unfold sack_wfb, sack_deserialize, SACK_BYTES; cbn [sack_bytes].
  rewrite length_firstn_pad. cbn [Nat.eqb andb].
  apply bytes_okb_firstn. rewrite bytes_okb_app, Hd. apply bytes_okb_repeat0.
Qed.

Lemma apply_ext_wf ex id data :
  ext_wfb ex = true -> bytes_okb data = true -> ext_wfb (apply_ext ex id data) = true.
Proof.
  unfold ext_wfb, apply_ext. intros Hex Hd. apply andb_true_iff in Hex; destruct Hex as [H1 H2].
  destruct (id =? EXT_SELECTIVE_ACK).
  { cbn [e_sack e_close]. rewrite sack_deserialize_wf, H2 by assumption. reflexivity. }
  destruct (id =? EXT_CLOSE_REASON); [|rewrite H1, H2; reflexivity].
  destruct data as [|a [|b [|c [|d [|]]]]]; try (rewrite H1, H2; reflexivity).
  cbn [e_sack e_close]. rewrite H1. cbn [andb]. apply u16b_iff. unfold close_parse. lia.
Qed.

Lemma apply_exts_wf : forall exts ex,
  ext_wfb ex = true -> forallb (fun e => bytes_okb (snd e)) exts = true ->
  ext_wfb (apply_exts exts ex) = true.
Proof.
  induction exts as [|[id data] exts IH]; intros ex Hex Hb; [exact Hex|].
  cbn [forallb snd] in Hb. apply andb_true_iff in Hb; destruct Hb as [Hd Hb].
  unfold apply_exts; cbn [fold_left fst snd]. apply IH; [apply apply_ext_wf|]; assumption.
Qed.

Lemma spec_parse_bounds bs h n : bytes_okb bs = true -> spec_parse bs = Some (h, n) ->
  20 <= n <= Zlength bs /\ hdr_wfb h = true.
Proof.
  intros Hb. unfold spec_parse.
  destruct (Z.leb_spec 20 (Zlength bs)) as [Hlen|]; [|discriminate].
  destruct (_ =? 1); [|discriminate]. cbn [andb].
  destruct (type_from_number _) as [t|]; [|discriminate].
  destruct (split_chain _ _ _) as [exts|] eqn:Es; [|discriminate].
  intro Heq; apply Some_pair_inj in Heq; destruct Heq as [<- <-].
  apply split_chain_size in Es; [|apply bytes_okb_skipn; assumption]. destruct Es as [E1 E2].
  replace 20%nat with (Z.to_nat 20) in E1 by reflexivity.
  rewrite Zlength_skipn_le in E1 by lia.
  split; [lia|].
  unfold hdr_wfb, fields_okb; cbn [h_conn h_ts h_tsdiff h_wnd h_seq h_ack h_ext].
  pose proof (fun i => bytes_okb_nth bs i Hb) as Hn.
  rewrite apply_exts_wf by (assumption || reflexivity).
  repeat rewrite andb_true_iff; repeat split;
    try (apply u16b_iff; apply of_be16_range; apply Hn);
    try (apply u32b_iff; apply of_be32_range; apply Hn).
Qed.

Lemma parsed_wf bs h n : bytes_okb bs = true -> deserialize bs = Some (h, n) ->
  20 <= n <= Zlength bs /\ hdr_wfb h = true.
Proof. intros Hb. rewrite deserialize_spec by assumption. apply spec_parse_bounds; assumption. Qed.

(* ------------------------------------------------------------------ encoding an extension chain *)

Lemma ext_wire_okb_iff id p : ext_wire_okb (id, p) = true <->
  0 < id < 256 /\ Zlength p < 256 /\ bytes_okb p = true.
Proof.
  unfold ext_wire_okb; cbn [fst snd]. rewrite !andb_true_iff, !Z.ltb_lt. tauto.
Qed.

Lemma chain_bytes_chain : forall exts payload, exts_wire_okb exts = true ->
  ext_chain (first_id exts) (chain_bytes exts ++ payload) exts.
Proof.
  induction exts as [|[id p] exts IH]; intros payload Hok.
  - cbn [first_id chain_bytes app]. constructor. unfold NO_NEXT_EXT; lia.
  - unfold exts_wire_okb in Hok; cbn [forallb] in Hok. apply andb_true_iff in Hok.
    destruct Hok as [Hp Hok]. apply ext_wire_okb_iff in Hp. destruct Hp as (Hid & Hl & Hb).
    cbn [first_id chain_bytes]. pose proof (Zlength_nonneg p).
    replace (Zlength p mod 256) with (Zlength p) by lia.
    cbn [app]. rewrite <- app_assoc. constructor; [lia|]. apply IH. exact Hok.
Qed.

Lemma chain_bytes_length : forall exts, Zlength (chain_bytes exts) = ext_size exts.
Proof.
  induction exts as [|[id p] exts IH]; [reflexivity|].
  cbn [chain_bytes]. rewrite ext_size_cons, !Zlength_cons, Zlength_app, IH. lia.
Qed.

Lemma first_id_byte exts : exts_wire_okb exts = true -> 0 <= first_id exts < 256.
Proof.
  destruct exts as [|[id p] exts]; cbn [first_id]; [unfold NO_NEXT_EXT; lia|].
  unfold exts_wire_okb; cbn [forallb]. intro H; apply andb_true_iff in H; destruct H as [H _].
  apply ext_wire_okb_iff in H. lia.
Qed.

Lemma chain_bytes_ok : forall exts, exts_wire_okb exts = true -> bytes_okb (chain_bytes exts) = true.
Proof.
  induction exts as [|[id p] exts IH]; intro Hok; [reflexivity|].
  pose proof Hok as Hok'. unfold exts_wire_okb in Hok; cbn [forallb] in Hok.
  apply andb_true_iff in Hok. destruct Hok as [Hp Hok]. apply ext_wire_okb_iff in Hp.
  destruct Hp as (Hid & Hl & Hb). cbn [chain_bytes].
  apply bytes_okb_cons; split; [apply first_id_byte; exact Hok|].
  apply bytes_okb_cons; split; [lia|]. rewrite bytes_okb_app, Hb, IH by exact Hok. reflexivity.
Qed.

Lemma fixed_bytes_ok t first c ts td w s a : 0 <= first < 256 ->
  bytes_okb (fixed_bytes t first c ts td w s a) = true.
Proof.
  intro Hf. unfold fixed_bytes, be16, be32; cbn [app].
  pose proof (type_to_number_range t).
  repeat (apply bytes_okb_cons; split; [lia|]). reflexivity.
Qed.

Lemma encode_packet_ok h exts : exts_wire_okb exts = true -> bytes_okb (encode_packet h exts) = true.
Proof.
  intro Hok. unfold encode_packet. rewrite bytes_okb_app, fixed_bytes_ok, chain_bytes_ok;
    [reflexivity|exact Hok|apply first_id_byte; exact Hok].
Qed.

Lemma encode_packet_length h exts : Zlength (encode_packet h exts) = 20 + ext_size exts.
Proof. unfold encode_packet. rewrite Zlength_app, chain_bytes_length. reflexivity. Qed.

Lemma typever_mod t : (type_to_number t * 16 + 1) mod 16 = 1.
Proof. destruct t; reflexivity. Qed.
Lemma typever_div t : (type_to_number t * 16 + 1) / 16 = type_to_number t.
Proof. destruct t; reflexivity. Qed.

(* the declarative parser inverts the generic encoder *)
Lemma spec_parse_encode h exts payload :
  fields_okb h = true -> exts_wire_okb exts = true ->
  spec_parse (encode_packet h exts ++ payload) =
  Some (with_ext h (apply_exts exts no_ext), 20 + ext_size exts).
Proof.
  intros Hf Hok. unfold fields_okb in Hf. repeat rewrite andb_true_iff in Hf.
  destruct Hf as (((((Hc & Hts) & Htd) & Hw) & Hs) & Ha).
  apply u16b_iff in Hc, Hs, Ha. apply u32b_iff in Hts, Htd, Hw.
  unfold spec_parse, encode_packet, fixed_bytes, be16, be32. cbn [app nth skipn].
  rewrite !Zlength_cons.
  pose proof (Zlength_nonneg (chain_bytes exts ++ payload)) as Hnn.
  destruct (Z.leb_spec 20 (Z.succ (Z.succ (Z.succ (Z.succ (Z.succ (Z.succ (Z.succ (Z.succ (Z.succ
     (Z.succ (Z.succ (Z.succ (Z.succ (Z.succ (Z.succ (Z.succ (Z.succ (Z.succ (Z.succ (Z.succ
     (Zlength (chain_bytes exts ++ payload))))))))))))))))))))))); [|lia].
  rewrite typever_mod, typever_div, type_from_to. cbn [Z.eqb Pos.eqb andb].
  rewrite (split_chain_complete _ _ _ (chain_bytes_chain exts payload Hok)) by lia.
  rewrite !of_be16_be16, !of_be32_be32 by assumption.
  reflexivity.
Qed.

Lemma deserialize_encode h exts payload :
  fields_okb h = true -> exts_wire_okb exts = true -> bytes_okb payload = true ->
  deserialize (encode_packet h exts ++ payload) =
  Some (with_ext h (apply_exts exts no_ext), 20 + ext_size exts).
Proof.
  intros Hf Hok Hp. rewrite deserialize_spec; [apply spec_parse_encode; assumption|].
  rewrite bytes_okb_app, encode_packet_ok, Hp by assumption. reflexivity.
Qed.

(* ------------------------------------------------------------------ unknown extensions are skipped *)
Lemma apply_ext_unknown ex id data : ext_known (id, data) = false -> apply_ext ex id data = ex.
Proof.
  unfold ext_known, apply_ext; cbn [fst snd]. intro H. apply orb_false_iff in H. destruct H as [H1 H2].
  rewrite H1. destruct (id =? EXT_CLOSE_REASON); [|reflexivity]. cbn [andb] in H2.
  destruct data as [|a [|b [|c [|d [|]]]]]; try reflexivity. discriminate.
Qed.

Lemma apply_exts_filter : forall exts ex,
  apply_exts (filter ext_known exts) ex = apply_exts exts ex.
Proof.
  induction exts as [|[id data] exts IH]; intro ex; [reflexivity|].
  cbn [filter]. destruct (ext_known (id, data)) eqn:E; unfold apply_exts; cbn [fold_left fst snd].
  - apply IH.
  - rewrite apply_ext_unknown by exact E. apply IH.
Qed.

Lemma exts_wire_okb_filter f exts : exts_wire_okb exts = true -> exts_wire_okb (filter f exts) = true.
Proof.
  unfold exts_wire_okb. induction exts as [|e exts IH]; [reflexivity|].
  cbn [forallb filter]. intro H. apply andb_true_iff in H. destruct H as [H1 H2].
  destruct (f e); [cbn [forallb]; rewrite H1|]; apply IH; exact H2.
Qed.

Lemma unknown_ext_skipped h exts payload :
  fields_okb h = true -> exts_wire_okb exts = true -> bytes_okb payload = true ->
  let known := filter ext_known exts in
  let h' := with_ext h (apply_exts known no_ext) in
  deserialize (encode_packet h exts ++ payload) = Some (h', 20 + ext_size exts) /\
  deserialize (encode_packet h known ++ payload) = Some (h', 20 + ext_size known) /\
  skipn (Z.to_nat (20 + ext_size exts)) (encode_packet h exts ++ payload) = payload.
Proof.
  intros Hf Hok Hp known h'. subst h' known. split; [|split].
  - rewrite deserialize_encode by assumption. rewrite apply_exts_filter. reflexivity.
  - apply deserialize_encode; [assumption|apply exts_wire_okb_filter; assumption|assumption].
  - rewrite <- encode_packet_length with (h := h). rewrite to_nat_Zlength. apply skipn_length_app.
Qed.

(* ------------------------------------------------------------------ round trip *)
Definition full_exts (h : header) : list ext :=
  match e_sack (h_ext h) with Some s => [(EXT_SELECTIVE_ACK, sack_bytes s)] | None => [] end ++
  match e_close (h_ext h) with Some c => [(EXT_CLOSE_REASON, close_as_bytes c)] | None => [] end.

Lemma sack_wfb_iff s : sack_wfb s = true <-> length (sack_bytes s) = 8%nat /\ bytes_okb (sack_bytes s) = true.
Proof. unfold sack_wfb. rewrite andb_true_iff, Nat.eqb_eq. reflexivity. Qed.

Lemma sack_deserialize_bytes s : length (sack_bytes s) = 8%nat ->
  sack_deserialize (sack_bytes s) = {| sack_bytes := sack_bytes s; sack_len := 64 |}.
Proof.
  intro Hl. unfold sack_deserialize, SACK_BYTES. rewrite <- Hl at 1. rewrite firstn_length_app.
  rewrite Zlength_correct, Hl. reflexivity.
Qed.

Lemma close_parse_bytes c : 0 <= c < 65536 ->
  close_parse (c / 16777216 mod 256) (c / 65536 mod 256) (c / 256 mod 256) (c mod 256) = c.
Proof. intro H. unfold close_parse. rewrite of_be32_be32 by lia. lia. Qed.

Lemma ext_wfb_iff ex : ext_wfb ex = true <->
  match e_sack ex with Some s => sack_wfb s = true | None => True end /\
  match e_close ex with Some c => 0 <= c < 65536 | None => True end.
Proof.
  unfold ext_wfb. rewrite andb_true_iff.
  destruct (e_sack ex), (e_close ex); rewrite ?u16b_iff; intuition.
Qed.

Lemma full_exts_ok h : ext_wfb (h_ext h) = true ->
  exts_wire_okb (full_exts h) = true /\
  apply_exts (full_exts h) no_ext = normalise_ext (h_ext h) /\
  20 + ext_size (full_exts h) = ser_len h.
Proof.
  intro Hw. apply ext_wfb_iff in Hw. destruct Hw as [Hs Hc].
  unfold full_exts, ser_len, normalise_ext, UTP_HEADER.
  destruct (e_sack (h_ext h)) as [s|] eqn:Es; destruct (e_close (h_ext h)) as [c|] eqn:Ec;
    cbn [app]; unfold exts_wire_okb, apply_exts, ext_size;
    cbn [forallb fold_left map sumZ fst snd];
    try (apply sack_wfb_iff in Hs; destruct Hs as [Hl Hb]);
    unfold ext_wire_okb, apply_ext, EXT_SELECTIVE_ACK, EXT_CLOSE_REASON; cbn [fst snd];
    try rewrite sack_deserialize_bytes by assumption;
    unfold close_as_bytes, be32; cbn [Z.eqb Pos.eqb e_sack e_close no_ext];
    try rewrite close_parse_bytes by assumption;
    rewrite ?Zlength_cons, ?Zlength_nil; try rewrite (Zlength_correct (sack_bytes s)), Hl;
    try rewrite Hb; (split; [|split]); try reflexivity; try lia.
  all: cbn [Z.ltb Z.compare Pos.compare Pos.compare_cont andb Z.of_nat Pos.of_succ_nat Pos.succ Z.succ Z.add Pos.add].
  all: try reflexivity.
  all: unfold bytes_okb; cbn [forallb]; unfold byte_okb; lia.
Qed.

Lemma ser_exts_full h buflen : ser_len h <= buflen -> fst (ser_exts h buflen) = full_exts h.
Proof.
  unfold ser_len, ser_exts, full_exts, add_ext, UTP_HEADER.
  destruct (e_sack (h_ext h)) as [s|]; destruct (e_close (h_ext h)) as [c|]; intro Hl;
    pose proof (Zlength_nonneg (close_as_bytes 0));
    try pose proof (Zlength_nonneg (sack_bytes s)).
  - destruct (Z.leb_spec (20 + 2 + Zlength (sack_bytes s)) buflen); [|lia].
    assert (Hc : Zlength (close_as_bytes c) = 4) by reflexivity. rewrite Hc.
    destruct (Z.leb_spec (20 + 2 + Zlength (sack_bytes s) + 2 + 4) buflen); [|lia]. reflexivity.
  - destruct (Z.leb_spec (20 + 2 + Zlength (sack_bytes s)) buflen); [|lia]. reflexivity.
  - assert (Hc : Zlength (close_as_bytes c) = 4) by reflexivity. rewrite Hc.
    destruct (Z.leb_spec (20 + 2 + 4) buflen); [|lia]. reflexivity.
  - reflexivity.
Qed.

Lemma with_ext_same h : with_ext h (h_ext h) = h.
Proof. destruct h; reflexivity. Qed.

Lemma normalise_ok h : hdr_okb h = true -> normalise h = h.
Proof.
  unfold hdr_okb, ext_okb, normalise, normalise_ext. intro H. apply andb_true_iff in H.
  destruct H as [_ H]. apply andb_true_iff in H. destruct H as [H _].
  destruct h as [t c ts td w s a [sk cl]]; unfold with_ext; cbn [h_type h_conn h_ts h_tsdiff h_wnd h_seq h_ack h_ext e_sack e_close] in *.
  destruct sk as [[b l]|]; [|reflexivity].
  unfold sack_okb in H. apply andb_true_iff in H. destruct H as [_ H]. cbn [sack_len sack_bytes] in *.
  apply Z.eqb_eq in H. subst l. reflexivity.
Qed.

Lemma hdr_ok_wf h : hdr_okb h = true -> hdr_wfb h = true.
Proof.
  unfold hdr_okb, hdr_wfb, ext_okb, ext_wfb, sack_okb. intro H.
  apply andb_true_iff in H. destruct H as [H1 H]. apply andb_true_iff in H. destruct H as [H2 H3].
  rewrite H1, H3. destruct (e_sack (h_ext h)); [|reflexivity].
  apply andb_true_iff in H2. destruct H2 as [H2 _]. rewrite H2. reflexivity.
Qed.

(* general form: any representable header comes back normalised *)
Lemma roundtrip_normalises h buflen payload :
  hdr_wfb h = true -> ser_len h <= buflen -> bytes_okb payload = true ->
  exists bs, serialize h buflen = Some bs /\ Zlength bs = ser_len h /\
             deserialize (bs ++ payload) = Some (normalise h, ser_len h).
Proof.
  intros Hw Hl Hp. unfold hdr_wfb in Hw. apply andb_true_iff in Hw. destruct Hw as [Hf He].
  destruct (full_exts_ok h He) as (Hok & Happ & Hsz).
  exists (encode_packet h (full_exts h)). split; [|split].
  - unfold serialize.
    assert (20 <= ser_len h).
    { unfold ser_len, UTP_HEADER. destruct (e_sack (h_ext h)) as [s|]; destruct (e_close (h_ext h));
        try pose proof (Zlength_nonneg (sack_bytes s)); lia. }
    unfold UTP_HEADER. destruct (Z.ltb_spec buflen 20); [lia|].
    rewrite ser_exts_full by assumption. reflexivity.
  - rewrite encode_packet_length. exact Hsz.
  - rewrite deserialize_encode by assumption. rewrite Happ, Hsz. reflexivity.
Qed.

Lemma roundtrip h buflen payload :
  hdr_okb h = true -> ser_len h <= buflen -> bytes_okb payload = true ->
  exists bs, serialize h buflen = Some bs /\ Zlength bs = ser_len h /\
             deserialize (bs ++ payload) = Some (h, ser_len h).
Proof.
  intros Hok Hl Hp.
  destruct (roundtrip_normalises h buflen payload (hdr_ok_wf h Hok) Hl Hp) as (bs & H1 & H2 & H3).
  rewrite normalise_ok in H3 by assumption. exists bs; auto.
Qed.

Lemma serialize_err h buflen : serialize h buflen = None <-> buflen < 20.
Proof.
  unfold serialize, UTP_HEADER. destruct (Z.ltb_spec buflen 20); split; intro; try lia; try discriminate; reflexivity.
Qed.

(* a parsed header: one serialise/parse round reaches the normal form, which is then stable *)
Lemma normalise_idem h : normalise (normalise h) = normalise h.
Proof.
  destruct h as [t c ts td w s a [sk cl]]. unfold normalise, normalise_ext, with_ext.
  cbn [h_type h_conn h_ts h_tsdiff h_wnd h_seq h_ack h_ext e_sack e_close].
  destruct sk; reflexivity.
Qed.

Lemma normalise_hdr_ok h : hdr_wfb h = true -> hdr_okb (normalise h) = true.
Proof.
  unfold hdr_wfb, hdr_okb, ext_wfb, ext_okb, sack_okb, sack_wfb, fields_okb.
  destruct h as [t c ts td w s a [sk cl]]. unfold normalise, normalise_ext, with_ext.
  cbn [h_type h_conn h_ts h_tsdiff h_wnd h_seq h_ack h_ext e_sack e_close].
  destruct sk as [[b l]|]; cbn [sack_bytes sack_len]; intro H; [|exact H].
  rewrite Z.eqb_refl, andb_true_r. exact H.
Qed.

Lemma reserialize_normalises bs h n buflen :
  bytes_okb bs = true -> deserialize bs = Some (h, n) -> ser_len h <= buflen ->
  exists bs', serialize h buflen = Some bs' /\
              deserialize bs' = Some (normalise h, ser_len h) /\
              hdr_okb (normalise h) = true /\
              (exists bs'', serialize (normalise h) buflen = Some bs'' /\
                            deserialize bs'' = Some (normalise h, ser_len h)).
Proof.
  intros Hb Hd Hl. destruct (parsed_wf bs h n Hb Hd) as [_ Hw].
  destruct (roundtrip_normalises h buflen [] Hw Hl eq_refl) as (bs' & H1 & H2 & H3).
  rewrite app_nil_r in H3. exists bs'. repeat split; try assumption.
  - apply normalise_hdr_ok; assumption.
  - pose proof (normalise_hdr_ok h Hw) as Hok.
    assert (Hsl : ser_len (normalise h) = ser_len h).
    { unfold ser_len, normalise, normalise_ext, with_ext; cbn [h_ext e_sack e_close].
      destruct (e_sack (h_ext h)); reflexivity. }
    destruct (roundtrip (normalise h) buflen [] Hok) as (bs'' & G1 & G2 & G3); [lia|reflexivity|].
    rewrite app_nil_r, Hsl in G3. exists bs''. split; assumption.
Qed.

(* ------------------------------------------------------------------ message level *)
Lemma msg_payload_rule bs h p : bytes_okb bs = true ->
  (msg_deserialize bs = MsgSome h p <->
   exists n, deserialize bs = Some (h, n) /\ p = skipn (Z.to_nat n) bs /\
             (p <> [] <-> h_type h = ST_DATA)).
Proof.
  intro Hb. unfold msg_deserialize.
  destruct (deserialize bs) as [[h0 n0]|] eqn:E.
  2:{ split; [discriminate|]. intros (n & Hn & _). discriminate. }
  destruct (parsed_wf bs h0 n0 Hb E) as [Hn0 _].
  destruct (Z.ltb_spec (Zlength bs) n0); [lia|].
  assert (Hlen : Zlength (skipn (Z.to_nat n0) bs) = Zlength bs - n0) by (apply Zlength_skipn_le; lia).
  assert (Hnil : skipn (Z.to_nat n0) bs = [] <-> Zlength bs - n0 = 0).
  { rewrite <- Hlen. split; [intros ->; reflexivity|]. intro Hz.
    destruct (skipn (Z.to_nat n0) bs); [reflexivity|]. rewrite Zlength_cons in Hz.
    pose proof (Zlength_nonneg l). lia. }
  rewrite Z.gtb_ltb.
  split.
  - intro Hm. exists n0.
    destruct (h_type h0) eqn:Et;
      [destruct (Z.eqb_spec (Zlength bs - n0) 0) as [Hz|Hz]
      |destruct (Z.ltb_spec 0 (Zlength bs - n0)) as [Hz|Hz]..]; try discriminate;
      injection Hm as <- <-; (split; [reflexivity|]); (split; [reflexivity|]);
      rewrite Et, Hnil; split; intro; try lia; try discriminate; try reflexivity.
  - intros (n & Hd & Hp & Hrule). injection Hd as <- <-. subst p. rewrite Hnil in Hrule.
    destruct (h_type h0) eqn:Et;
      [destruct (Z.eqb_spec (Zlength bs - n0) 0) as [Hz|Hz]
      |destruct (Z.ltb_spec 0 (Zlength bs - n0)) as [Hz|Hz]..]; try reflexivity; exfalso.
    + apply Hrule; [reflexivity|exact Hz].
    + assert (Hc : ST_FIN = ST_DATA) by (apply Hrule; lia). discriminate.
    + assert (Hc : ST_STATE = ST_DATA) by (apply Hrule; lia). discriminate.
    + assert (Hc : ST_RESET = ST_DATA) by (apply Hrule; lia). discriminate.
    + assert (Hc : ST_SYN = ST_DATA) by (apply Hrule; lia). discriminate.
Qed.

(* rejected at message level iff not a header, or the payload rule is broken *)
Lemma msg_rejects_iff bs : bytes_okb bs = true ->
  (msg_deserialize bs = MsgNone <->
   match deserialize bs with
   | None => True
   | Some (h, n) => ~ (skipn (Z.to_nat n) bs <> [] <-> h_type h = ST_DATA)
   end).
Proof.
  intro Hb. pose proof (no_panic bs) as Hnp.
  destruct (deserialize bs) as [[h n]|] eqn:E.
  2:{ unfold msg_deserialize. rewrite E. tauto. }
  split.
  - intros Hm Hrule.
    assert (Hs : msg_deserialize bs = MsgSome h (skipn (Z.to_nat n) bs)).
    { apply msg_payload_rule; [assumption|]. exists n. auto. }
    congruence.
  - intro Hnr. destruct (msg_deserialize bs) as [| |h' p] eqn:Em; [congruence|reflexivity|].
    exfalso. apply msg_payload_rule in Em; [|assumption]. destruct Em as (n' & Hd & Hp & Hrule).
    rewrite E in Hd. injection Hd as <- <-. subst p. exact (Hnr Hrule).
Qed.

(* ------------------------------------------------------------------ boolean equalities *)
Lemma list_eqb_iff : forall a b, list_eqb a b = true <-> a = b.
Proof.
  induction a as [|x a IH]; intros [|y b]; cbn [list_eqb]; split; intro H; try reflexivity; try discriminate.
  - apply andb_true_iff in H. destruct H as [H1 H2]. apply Z.eqb_eq in H1. apply IH in H2. congruence.
  - injection H as -> ->. rewrite Z.eqb_refl. apply IH. reflexivity.
Qed.

Lemma sack_eqb_iff a b : sack_eqb a b = true <-> a = b.
Proof.
  unfold sack_eqb. rewrite andb_true_iff, list_eqb_iff, Z.eqb_eq.
  destruct a as [ab al], b as [bb bl]; cbn [sack_bytes sack_len]. split; [intros [-> ->]; reflexivity|].
  intro H; injection H as -> ->; auto.
Qed.

Lemma opt_eqb_iff {A} (eqb : A -> A -> bool) (a b : option A) :
  (forall x y, eqb x y = true <-> x = y) -> (opt_eqb eqb a b = true <-> a = b).
Proof.
  intro He. destruct a, b; cbn [opt_eqb]; split; intro H; try reflexivity; try discriminate.
  - apply He in H. congruence.
  - injection H as ->. apply He. reflexivity.
Qed.

Lemma ext_eqb_iff a b : ext_eqb a b = true <-> a = b.
Proof.
  unfold ext_eqb. rewrite andb_true_iff, (opt_eqb_iff sack_eqb) by apply sack_eqb_iff.
  rewrite (opt_eqb_iff Z.eqb) by apply Z.eqb_eq.
  destruct a as [as_ ac], b as [bs_ bc]; cbn [e_sack e_close]. split; [intros [-> ->]; reflexivity|].
  intro H; injection H as -> ->; auto.
Qed.

Lemma fields_eqb_iff a b : fields_eqb a b = true <-> with_ext a (h_ext b) = b.
Proof.
  unfold fields_eqb. rewrite !andb_true_iff, ptype_eqb_iff, !Z.eqb_eq.
  destruct a as [t1 c1 ts1 td1 w1 s1 a1 e1], b as [t2 c2 ts2 td2 w2 s2 a2 e2]; unfold with_ext; cbn [h_type h_conn h_ts h_tsdiff h_wnd h_seq h_ack h_ext].
  split.
  - intros [[[[[[-> ->] ->] ->] ->] ->] ->]. reflexivity.
  - intro H; injection H as -> -> -> -> -> -> ->. repeat split.
Qed.

Lemma header_eqb_iff a b : header_eqb a b = true <-> a = b.
Proof.
  unfold header_eqb. rewrite andb_true_iff, fields_eqb_iff, ext_eqb_iff. split.
  - intros [H1 H2]. rewrite <- H2 in H1. rewrite with_ext_same in H1. exact H1.
  - intros ->. split; [apply with_ext_same|reflexivity].
Qed.

Lemma res_eqb_iff a b : res_eqb a b = true <-> a = b.
Proof.
  unfold res_eqb. apply opt_eqb_iff. intros [h n] [h' n']; cbn [fst snd].
  rewrite andb_true_iff, header_eqb_iff, Z.eqb_eq. split; [intros [-> ->]; reflexivity|].
  intro H; injection H as -> ->; auto.
Qed.

(* ------------------------------------------------------------------ the predicates *)
(* exactly the property: the predicate holds of an observation iff the observation is the
   declaratively right answer *)
Lemma de_ok_iff bs obs : bytes_okb bs = true ->
  (c11_de_ok bs obs = true <->
   match obs with
   | Some (h, n) => wf_packet bs h n
   | None => forall h n, ~ wf_packet bs h n
   end).
Proof.
  intro Hb. unfold c11_de_ok. rewrite andb_true_iff, res_eqb_iff. split.
  - intros [-> _]. destruct (spec_parse bs) as [[h n]|] eqn:E.
    + apply spec_parse_iff; assumption.
    + intros h n Hw. apply spec_parse_iff in Hw; [congruence|assumption].
  - intro H. destruct obs as [[h n]|].
    + apply spec_parse_iff in H; [|assumption]. split; [congruence|].
      destruct (spec_parse_bounds bs h n Hb H) as [Hn Hw]. rewrite Hw.
      destruct (Z.leb_spec 20 n); [|lia]. destruct (Z.leb_spec n (Zlength bs)); [|lia]. reflexivity.
    + split; [|reflexivity]. destruct (spec_parse bs) as [[h n]|] eqn:E; [|reflexivity].
      exfalso. apply (H h n). apply spec_parse_iff; assumption.
Qed.

Lemma de_model_ok bs : bytes_okb bs = true -> c11_de_ok bs (deserialize bs) = true.
Proof.
  intro Hb. apply de_ok_iff; [assumption|].
  destruct (deserialize bs) as [[h n]|] eqn:E.
  - apply accepts_iff; assumption.
  - apply rejects_iff; assumption.
Qed.


Lemma header_eqb_refl h : header_eqb h h = true.
Proof. apply header_eqb_iff. reflexivity. Qed.

Lemma msg_model_ok bs : bytes_okb bs = true ->
  c11_msg_ok bs (msg_obs (msg_deserialize bs)) = true.
Proof.
  intro Hb. unfold c11_msg_ok, msg_deserialize.
  rewrite <- deserialize_spec by assumption.
  destruct (deserialize bs) as [[h n]|] eqn:E; [|reflexivity].
  destruct (parsed_wf bs h n Hb E) as [Hn _].
  destruct (Z.ltb_spec (Zlength bs) n); [lia|].
  assert (Hlen : Zlength (skipn (Z.to_nat n) bs) = Zlength bs - n) by (apply Zlength_skipn_le; lia).
  rewrite Z.gtb_ltb.
  destruct (h_type h) eqn:Et;
    [destruct (Z.eqb_spec (Zlength bs - n) 0) as [Hz|Hz]
    |destruct (Z.ltb_spec 0 (Zlength bs - n)) as [Hz|Hz]..];
    cbn [msg_obs]; rewrite ?Hlen, ?header_eqb_refl, ?Et, ?Z.eqb_refl; unfold ptype_eqb; cbn [type_to_number Z.eqb Pos.eqb andb];
    try (destruct (Z.ltb_spec 0 (Zlength bs - n)); try lia);
    try (destruct (Z.leb_spec 0 (Zlength bs - n)); try lia); reflexivity.
Qed.

(* serialisation *)
Lemma ser_exts_cases h buflen :
  let exts := fst (ser_exts h buflen) in
  exists (ks kc : bool),
    exts = (if ks then match e_sack (h_ext h) with Some s => [(EXT_SELECTIVE_ACK, sack_bytes s)] | None => [] end else []) ++
           (if kc then match e_close (h_ext h) with Some c => [(EXT_CLOSE_REASON, close_as_bytes c)] | None => [] end else []) /\
    20 + ext_size exts <= Z.max 20 buflen.
Proof.
  unfold ser_exts, add_ext, UTP_HEADER.
  destruct (e_sack (h_ext h)) as [s|]; destruct (e_close (h_ext h)) as [c|]; cbn zeta.
  - destruct (Z.leb_spec (20 + 2 + Zlength (sack_bytes s)) buflen).
    + destruct (Z.leb_spec (20 + 2 + Zlength (sack_bytes s) + 2 + Zlength (close_as_bytes c)) buflen).
      * exists true, true. split; [reflexivity|]. cbn [fst app]. rewrite !ext_size_cons. unfold ext_size; cbn [map sumZ]. lia.
      * exists true, false. split; [reflexivity|]. cbn [fst app]. rewrite !ext_size_cons. unfold ext_size; cbn [map sumZ]. lia.
    + destruct (Z.leb_spec (20 + 2 + Zlength (close_as_bytes c)) buflen).
      * exists false, true. split; [reflexivity|]. cbn [fst app]. rewrite !ext_size_cons. unfold ext_size; cbn [map sumZ]. lia.
      * exists false, false. split; [reflexivity|]. cbn [fst app]. unfold ext_size; cbn [map sumZ]. lia.
  - destruct (Z.leb_spec (20 + 2 + Zlength (sack_bytes s)) buflen).
    + exists true, false. split; [reflexivity|]. cbn [fst app]. rewrite !ext_size_cons. unfold ext_size; cbn [map sumZ]. lia.
    + exists false, false. split; [reflexivity|]. cbn [fst app]. unfold ext_size; cbn [map sumZ]. lia.
  - destruct (Z.leb_spec (20 + 2 + Zlength (close_as_bytes c)) buflen).
    + exists false, true. split; [reflexivity|]. cbn [fst app]. rewrite !ext_size_cons. unfold ext_size; cbn [map sumZ]. lia.
    + exists false, false. split; [reflexivity|]. cbn [fst app]. unfold ext_size; cbn [map sumZ]. lia.
  - exists false, false. split; [reflexivity|]. cbn [fst app]. unfold ext_size; cbn [map sumZ]. lia.
Qed.

Lemma sack_eqb_refl s : sack_eqb s s = true.
Proof. apply sack_eqb_iff. reflexivity. Qed.

Lemma fields_eqb_with_ext h ex : fields_eqb (with_ext h ex) h = true.
Proof.
  apply fields_eqb_iff. destruct h; reflexivity.
Qed.

Lemma ser_model_ok h buflen : hdr_wfb h = true -> c11_ser_ok h buflen (serialize h buflen) = true.
Proof.
  intro Hw. unfold c11_ser_ok, serialize, UTP_HEADER.
  destruct (Z.ltb_spec buflen 20) as [Hlt|Hge]; [destruct (Z.ltb_spec buflen 20); [reflexivity|lia]|].
  destruct (Z.leb_spec 20 buflen); [|lia]. cbn [andb].
  pose proof Hw as Hw'. unfold hdr_wfb in Hw'. apply andb_true_iff in Hw'. destruct Hw' as [Hf He].
  destruct (full_exts_ok h He) as (Hfok & Hfapp & Hfsz).
  destruct (ser_exts_cases h buflen) as (ks & kc & Hex & Hsz). cbn zeta in Hex, Hsz.
  set (exts := fst (ser_exts h buflen)) in *.
  assert (Hok : exts_wire_okb exts = true).
  { rewrite Hex. revert Hfok. unfold full_exts, exts_wire_okb. rewrite !forallb_app.
    intro H0. apply andb_true_iff in H0. destruct H0 as [H1 H2].
    destruct ks, kc; rewrite ?H1, ?H2; reflexivity. }
  rewrite encode_packet_ok by assumption. rewrite encode_packet_length.
  destruct (Z.leb_spec (20 + ext_size exts) buflen); [|lia]. cbn [andb].
  pose proof (spec_parse_encode h exts [] Hf Hok) as Hsp. rewrite app_nil_r in Hsp. rewrite Hsp.
  assert (Hv : nth 0 (encode_packet h exts) 0 mod 16 = 1).
  { unfold encode_packet, fixed_bytes; cbn [app nth]. apply typever_mod. }
  rewrite Hv. cbn [Z.eqb Pos.eqb andb].
  rewrite Z.eqb_refl, fields_eqb_with_ext. cbn [andb].
  assert (Hsub : ext_subb (apply_exts exts no_ext) (normalise_ext (h_ext h)) = true).
  { rewrite <- Hfapp. rewrite Hex. unfold full_exts.
    apply ext_wfb_iff in He. destruct He as [Hs Hc].
    destruct (e_sack (h_ext h)) as [s|]; destruct (e_close (h_ext h)) as [c|]; destruct ks, kc;
      cbn [app]; unfold apply_exts, ext_subb; cbn [fold_left fst snd];
      unfold apply_ext, EXT_SELECTIVE_ACK, EXT_CLOSE_REASON, close_as_bytes, be32;
      cbn [Z.eqb Pos.eqb e_sack e_close no_ext opt_eqb];
      rewrite ?sack_eqb_refl, ?Z.eqb_refl; reflexivity. }
  change (h_ext (with_ext h (apply_exts exts no_ext))) with (apply_exts exts no_ext).
  rewrite Hsub. cbn [andb].
  destruct (Z.leb_spec (ser_len h) buflen) as [Hfit|]; [|reflexivity].
  assert (Hfull : exts = full_exts h) by (apply ser_exts_full; assumption).
  rewrite Hfull, Hfapp, Hfsz, Z.eqb_refl, andb_true_r.
  apply header_eqb_iff. reflexivity.
Qed.

(* what the predicate pins down for a buffer that is large enough: the observed bytes parse
   back to the (normalised) header with the right length *)
Lemma ser_ok_full h buflen bs :
  ser_len h <= buflen -> c11_ser_ok h buflen (Some bs) = true ->
  deserialize bs = Some (normalise h, ser_len h) /\ Zlength bs = ser_len h /\
  nth 0 bs 0 mod 16 = 1.
Proof.
  intros Hl. unfold c11_ser_ok. rewrite !andb_true_iff. intros [[[[_ Hb] _] Hv] H].
  apply Z.eqb_eq in Hv. rewrite deserialize_spec by assumption.
  destruct (spec_parse bs) as [[h' n]|]; [|discriminate].
  destruct (Z.leb_spec (ser_len h) buflen); [|lia].
  rewrite !andb_true_iff in H. destruct H as [[[Hn _] _] [Heq Hn']].
  apply header_eqb_iff in Heq. apply Z.eqb_eq in Hn, Hn'. subst h' n. split; [rewrite Hn'; reflexivity|]. split; [lia|assumption].
Qed.

(* ------------------------------------------------------------------ SelectiveAck::new *)
Lemma b2z_range b : 0 <= b2z b <= 1.
Proof. destruct b; cbn; lia. Qed.

Lemma sack_byte_range f j : 0 <= sack_byte f j < 256.
Proof.
  unfold sack_byte.
  pose proof (b2z_range (f (8 * j))). pose proof (b2z_range (f (8 * j + 1))).
  pose proof (b2z_range (f (8 * j + 2))). pose proof (b2z_range (f (8 * j + 3))).
  pose proof (b2z_range (f (8 * j + 4))). pose proof (b2z_range (f (8 * j + 5))).
  pose proof (b2z_range (f (8 * j + 6))). pose proof (b2z_range (f (8 * j + 7))). lia.
Qed.

Lemma sack_new_ok idxs : sack_okb (sack_new idxs) = true.
Proof.
  unfold sack_okb, sack_wfb, sack_new, SACK_DEPTH; cbn [sack_bytes sack_len map length Nat.eqb andb].
  rewrite Z.eqb_refl, andb_true_r.
  repeat (apply bytes_okb_cons; split; [apply sack_byte_range|]). reflexivity.
Qed.

(* ------------------------------------------------------------------ non-vacuity *)
(* /repo/test/resources/packet_fin_with_extension.bin *)
Definition fin_packet : list Z :=
  [17; 3; 120; 76; 136; 176; 150; 76; 117; 68; 154; 129; 0; 16; 0; 0; 213; 133; 212; 125;
   0; 4; 0; 0; 0; 15].
Definition fin_header : header :=
  {| h_type := ST_FIN; h_conn := 30796; h_ts := 2293274188; h_tsdiff := 1967430273;
     h_wnd := 1048576; h_seq := 54661; h_ack := 54397;
     h_ext := {| e_sack := None; e_close := Some 15 |} |}.

Example fin_packet_parses : deserialize fin_packet = Some (fin_header, 26).
Proof. vm_compute. reflexivity. Qed.
Example fin_header_ok : hdr_okb fin_header = true /\ ser_len fin_header = 26.
Proof. split; vm_compute; reflexivity. Qed.
Example fin_header_serialises : serialize fin_header 1024 = Some fin_packet.
Proof. vm_compute. reflexivity. Qed.
Example fin_packet_msg : msg_deserialize fin_packet = MsgSome fin_header [].
Proof. vm_compute. reflexivity. Qed.
Example fin_packet_with_payload_rejected : msg_deserialize (fin_packet ++ [1]) = MsgNone.
Proof. vm_compute. reflexivity. Qed.

(* a header with both extensions, SACK built by SelectiveAck::new *)
Definition both_header : header :=
  {| h_type := ST_STATE; h_conn := 65535; h_ts := 4294967295; h_tsdiff := 1; h_wnd := 256;
     h_seq := 0; h_ack := 65535;
     h_ext := {| e_sack := Some (sack_new [0; 1; 7; 63]); e_close := Some 288 |} |}.
Example both_header_ok : hdr_okb both_header = true /\ ser_len both_header = 36.
Proof. split; vm_compute; reflexivity. Qed.
Example both_header_written :
  serialize both_header 36 =
  Some [33; 1; 255; 255; 255; 255; 255; 255; 0; 0; 0; 1; 0; 0; 1; 0; 0; 0; 255; 255;
        3; 8; 131; 0; 0; 0; 0; 0; 0; 128;   0; 4; 0; 0; 1; 32].
Proof. vm_compute. reflexivity. Qed.
Example both_header_roundtrip :
  option_map (fun bs => deserialize (bs ++ [9; 9])) (serialize both_header 36) =
  Some (Some (both_header, 36)).
Proof. vm_compute. reflexivity. Qed.
(* buffer of 29 bytes: the SACK (needs 30) is silently skipped, the close reason (26) is written *)
Example both_header_small_buffer :
  option_map deserialize (serialize both_header 29) =
  Some (Some (with_ext both_header {| e_sack := None; e_close := Some 288 |}, 26)).
Proof. vm_compute. reflexivity. Qed.

(* an unknown extension (id 2, 3 bytes) and a close-reason id with a wrong length (id 3, 1 byte)
   in front of a 1-byte SACK, ST_DATA with 2 payload bytes *)
Definition odd_packet : list Z :=
  [1; 2; 0; 1; 0; 0; 0; 2; 0; 0; 0; 3; 0; 0; 0; 4; 0; 5; 0; 6;
   3; 3; 7; 7; 7;   1; 1; 9;   0; 1; 129;   42; 43].
Example odd_packet_parses :
  deserialize odd_packet =
  Some ({| h_type := ST_DATA; h_conn := 1; h_ts := 2; h_tsdiff := 3; h_wnd := 4; h_seq := 5; h_ack := 6;
           h_ext := {| e_sack := Some {| sack_bytes := [129; 0; 0; 0; 0; 0; 0; 0]; sack_len := 8 |};
                       e_close := None |} |}, 31).
Proof. vm_compute. reflexivity. Qed.
(* boundary of "any header": a parsed 1-byte SACK comes back as the 64-bit normal form *)
Example odd_packet_reserialised :
  match deserialize odd_packet with
  | Some (h, _) => option_map deserialize (serialize h 1024)
  | None => None
  end = Some (Some ({| h_type := ST_DATA; h_conn := 1; h_ts := 2; h_tsdiff := 3; h_wnd := 4; h_seq := 5; h_ack := 6;
           h_ext := {| e_sack := Some {| sack_bytes := [129; 0; 0; 0; 0; 0; 0; 0]; sack_len := 64 |};
                       e_close := None |} |}, 30)).
Proof. vm_compute. reflexivity. Qed.

(* literal round trip is false outside hdr_ok: witness with a SACK of bit-length 8 *)
Lemma roundtrip_refuted_without_len64 :
  exists h, hdr_wfb h = true /\
            option_map deserialize (serialize h 1024) <> Some (Some (h, ser_len h)).
Proof.
  exists {| h_type := ST_STATE; h_conn := 0; h_ts := 0; h_tsdiff := 0; h_wnd := 0; h_seq := 0; h_ack := 0;
            h_ext := {| e_sack := Some {| sack_bytes := [1; 0; 0; 0; 0; 0; 0; 0]; sack_len := 8 |};
                        e_close := None |} |}.
  split; [vm_compute; reflexivity|]. vm_compute. intro H. discriminate H.
Qed.

(* rejected shapes *)
Example rejects_version0 : deserialize (16 :: repeat 0 19) = None.
Proof. vm_compute. reflexivity. Qed.
Example rejects_type5 : deserialize (81 :: repeat 0 19) = None.
Proof. vm_compute. reflexivity. Qed.
Example rejects_short : deserialize (33 :: repeat 0 18) = None.
Proof. vm_compute. reflexivity. Qed.
Example rejects_truncated_ext : deserialize ([33; 1] ++ repeat 0 18 ++ [0; 4; 1; 2; 3]) = None.
Proof. vm_compute. reflexivity. Qed.
Example accepts_exact_ext : deserialize ([33; 1] ++ repeat 0 18 ++ [0; 4; 1; 2; 3; 4]) <> None.
Proof. vm_compute. discriminate. Qed.

(* Common imports and arithmetic helpers shared by every model file.
   No proofs about the system live here. *)
From Coq Require Export ZArith List Bool Lia.
From Coq Require Export ZifyBool ZifyNat.
Export ListNotations.
Open Scope Z_scope.

Ltac Zify.zify_post_hook ::= Z.div_mod_to_equations.

(* u16 arithmetic, written out explicitly (Rust: wrapping_add / wrapping_sub). *)
Definition M16 : Z := 65536.
Definition u16_ok (x : Z) : bool := (0 <=? x) && (x <? M16).
Definition wadd16 (a b : Z) : Z := (a + b) mod M16.
Definition wsub16 (a b : Z) : Z := (a - b) mod M16.

(* u32 / usize bounds *)
Definition M32 : Z := 4294967296.
Definition M64 : Z := 18446744073709551616.
Definition USIZE_MAX : Z := M64 - 1.

Definition sat_sub (a b : Z) : Z := Z.max 0 (a - b).
Definition sat_add_usize (a b : Z) : Z := Z.min USIZE_MAX (a + b).

(* list helpers used by several models *)
Fixpoint sumZ (l : list Z) : Z :=
  match l with [] => 0 | x :: xs => x + sumZ xs end.

Definition bind {A B} (o : option A) (f : A -> option B) : option B :=
  match o with Some a => f a | None => None end.
Notation "'do' x <- o ; k" := (bind o (fun x => k))
  (at level 200, x name, o at level 100, k at level 200, right associativity).

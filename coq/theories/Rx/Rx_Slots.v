(* C01, receiver side (T2): the slot view of the reassembly queue.  Every slot is addressed by
   the ABSOLUTE index of the sequence number it stands for (g_base = slots ever popped from the
   front); `want k` says which payload belongs to absolute index k.  The lemmas state how
   add_remove / flush / read move payloads between slots, the in-order stream and the reader,
   with the appended bytes given explicitly (Rx_Proofs.v only states their number). *)
From Utp Require Import Base.Prelude Rx.Rx Rx.Rx_Proofs.

(* ------------------------------------------------------------------ list helpers *)
Lemma nth_error_set_nth {A} : forall (l : list A) n v i,
  nth_error (set_nth l n v) i =
  if Nat.eqb i n then (match nth_error l n with Some _ => Some v | None => None end) else nth_error l i.
Proof.
  induction l as [|x xs IH]; intros n v i; cbn [set_nth].
  - destruct (Nat.eqb i n); destruct i, n; reflexivity.
  - destruct n as [|n]; destruct i as [|i]; cbn [nth_error Nat.eqb]; try reflexivity. apply IH.
Qed.

Lemma nth_error_skipn {A} : forall m (l : list A) i, nth_error (skipn m l) i = nth_error l (m + i).
Proof.
  induction m as [|m IH]; intros l i; [reflexivity|].
  destruct l as [|x xs]; cbn [skipn plus nth_error]; [destruct i; reflexivity|apply IH].
Qed.

Lemma nth_error_repeat {A} (d : A) : forall m i x, nth_error (repeat d m) i = Some x -> x = d.
Proof.
  induction m as [|m IH]; intros i x; cbn [repeat]; [destruct i; discriminate|].
  destruct i as [|i]; cbn [nth_error]; [intro H; injection H as <-; reflexivity|apply IH].
Qed.

Lemma skipn_app_one_default (d : slot) : forall m (l : list slot) k,
  exists k', skipn m (l ++ [d]) ++ repeat d k = skipn m l ++ repeat d k'.
Proof.
  intros m l k. rewrite skipn_app.
  destruct (Nat.le_gt_cases m (length l)) as [Hle|Hgt].
  - replace (m - length l)%nat with 0%nat by lia. cbn [skipn]. exists (S k).
    rewrite <- app_assoc. reflexivity.
  - rewrite (skipn_all2 l) by lia.
    destruct (m - length l)%nat as [|j] eqn:E; [lia|]. cbn [skipn].
    replace (skipn j (@nil slot)) with (@nil slot) by (destruct j; reflexivity).
    exists k. reflexivity.
Qed.

(* ------------------------------------------------------------------ no error marker in the queue *)
Definition no_qerror (s : rx) : Prop := Forall (fun it => it <> QError) (q s).

Lemma qitem_of_slot_not_error m : qitem_of_slot m <> QError.
Proof. destruct m; discriminate. Qed.

(* ------------------------------------------------------------------ flush: the front moves out *)
Lemma flush_loop_data : forall fuel s w fb fp s' w' fb' fp',
  flush_loop fuel s w fb fp = Some (s', w', fb', fp') ->
  (exists m m' : nat, ooq_data s' = skipn m (ooq_data s) ++ repeat slot_default m' /\
                      g_base s' = g_base s + Z.of_nat m) /\
  (no_qerror s -> no_qerror s').
Proof.
  induction fuel as [|fuel IH]; intros s w fb fp s' w' fb' fp'; cbn [flush_loop].
  { intro H; injection H as <- _ _ _. split; [|auto]. exists 0%nat, 0%nat. cbn [skipn repeat].
    rewrite app_nil_r. split; [reflexivity|lia]. }
  assert (Hsame : Some (s, w, fb, fp) = Some (s', w', fb', fp') ->
    (exists m m' : nat, ooq_data s' = skipn m (ooq_data s) ++ repeat slot_default m' /\
                        g_base s' = g_base s + Z.of_nat m) /\ (no_qerror s -> no_qerror s')).
  { intro H; injection H as <- _ _ _. split; [|auto]. exists 0%nat, 0%nat. cbn [skipn repeat].
    rewrite app_nil_r. split; [reflexivity|lia]. }
  destruct (filled_front s =? 0); [exact Hsame|].
  destruct (ooq_data s) as [|m rest] eqn:Ed; [discriminate|].
  destruct (w <? slot_len_bytes m); [exact Hsame|].
  destruct (reader_dropped s); [exact Hsame|].
  destruct (q_capacity s - q_len_bytes s <? slot_len_bytes m); [discriminate|].
  intro H. destruct (IH _ _ _ _ _ _ _ _ H) as ((m1 & m1' & Hd & Hg) & Hq).
  cbn [pop_front_state ooq_data g_base] in Hd, Hg.
  split.
  - destruct (skipn_app_one_default slot_default m1 rest m1') as (k' & Hk).
    exists (S m1), k'. cbn [skipn]. rewrite Hd. split; [exact Hk|lia].
  - intro Hn. apply Hq. unfold no_qerror in *. cbn [pop_front_state q].
    apply Forall_app. split; [exact Hn|]. constructor; [apply qitem_of_slot_not_error|constructor].
Qed.

Lemma rx_flush_data s s' r w :
  rx_flush s = (s', r, w) ->
  (exists m m' : nat, ooq_data s' = skipn m (ooq_data s) ++ repeat slot_default m' /\
                      g_base s' = g_base s + Z.of_nat m) /\
  (no_qerror s -> no_qerror s').
Proof.
  unfold rx_flush.
  set (s0 := set_wakers s _ _ _).
  assert (H0 : ooq_data s0 = ooq_data s /\ g_base s0 = g_base s /\ q s0 = q s) by (unfold s0; cbn; auto).
  destruct H0 as (D0 & G0 & Q0).
  destruct (flush_loop _ s0 _ 0 0) as [[[[s1 w1] fb] fp]|] eqn:E.
  - destruct (flush_loop_data _ _ _ _ _ _ _ _ _ E) as ((m & m' & Hd & Hg) & Hq).
    assert (Hres : ooq_data s' = ooq_data s1 /\ g_base s' = g_base s1 /\ q s' = q s1 ->
       (exists m m' : nat, ooq_data s' = skipn m (ooq_data s) ++ repeat slot_default m' /\
                      g_base s' = g_base s + Z.of_nat m) /\ (no_qerror s -> no_qerror s')).
    { intros (A & B & C). split.
      - exists m, m'. rewrite A, B, Hd, Hg, D0, G0. auto.
      - unfold no_qerror in *. rewrite C. rewrite Q0 in Hq. exact Hq. }
    destruct (0 <? fp); intro H; injection H as <- _ _; apply Hres; cbn; auto.
  - intro H; injection H as <- _ _. split.
    + exists 0%nat, 0%nat. cbn [skipn repeat]. rewrite app_nil_r, D0, G0. split; [reflexivity|lia].
    + unfold no_qerror. rewrite Q0. auto.
Qed.

(* ------------------------------------------------------------------ add_remove: one slot is filled *)
(* what an accepted ST_DATA payload does to the queue, with the appended in-order bytes explicit *)
Lemma ooq_add_data s p off s' r :
  rx_inv s -> 0 <= off -> ooq_add_remove s KData p off = (s', r) ->
  match r with
  | ArConsumed n b =>
      let e := Z.to_nat (off + filled_front s) in
      let ffn := Z.to_nat (filled_front s) in
      (e < length (ooq_data s))%nat /\
      slot_is_default (nth e (ooq_data s) slot_default) = true /\ p <> [] /\
      ooq_data s' = set_nth (ooq_data s) e (SPayload p) /\
      g_base s' = g_base s /\ q s' = q s /\ g_read s' = g_read s /\
      filled_front s' = filled_front s + n /\ 0 <= n /\
      n = twf_n (skipn ffn (ooq_data s')) /\
      stream s' = stream s ++ slots_bytes (firstn (Z.to_nat n) (skipn ffn (ooq_data s')))
  | _ => s' = s
  end.
Proof.
  intros Hinv Hoff H.
  revert H. unfold ooq_add_remove.
  destruct (ooq_is_full s); [intro K; injection K as <- <-; reflexivity|].
  destruct (Z.of_nat (length (ooq_data s)) <=? off + filled_front s); [intro K; injection K as <- <-; reflexivity|].
  destruct p as [|pb pbs]; [intro K; injection K as <- <-; reflexivity|].
  destruct (nth_error (ooq_data s) (Z.to_nat (off + filled_front s))) as [old|] eqn:Hnth;
    [|intro K; injection K as <- <-; reflexivity].
  destruct (slot_is_default old) eqn:Hod; cbn [negb]; [|intro K; injection K as <- <-; reflexivity].
  destruct (take_while_filled _) as [n0 b0] eqn:Etw.
  intro K; injection K as <- <-.
  assert (Hp : pb :: pbs <> []) by discriminate.
  set (p := pb :: pbs) in *.
  assert (Hn0 : n0 = twf_n (skipn (Z.to_nat (filled_front s))
                   (set_nth (ooq_data s) (Z.to_nat (off + filled_front s)) (SPayload p))))
    by (unfold twf_n; rewrite Etw; reflexivity).
  clearbody p. subst n0. clear Etw.
  pose proof (inv_ff_bounds s Hinv) as Hb.
  destruct Hinv as (Hlen & Hcap & Hff & Hl & Hlb & Hq).
  set (ffn := Z.to_nat (filled_front s)) in *.
  set (effn := Z.to_nat (off + filled_front s)) in *.
  set (data' := set_nth (ooq_data s) effn (SPayload p)) in *.
  assert (Hle : (ffn <= effn)%nat) by (unfold ffn, effn; lia).
  pose proof (twf_n_nonneg (skipn ffn data')) as Hn0.
  assert (He : (effn < length (ooq_data s))%nat).
  { apply nth_error_Some. rewrite Hnth. discriminate. }
  cbn [set_ooq ooq_data g_base q g_read filled_front].
  split; [exact He|].
  split; [rewrite (nth_error_nth _ _ slot_default Hnth); exact Hod|].
  split; [exact Hp|]. split; [reflexivity|]. split; [reflexivity|]. split; [reflexivity|].
  split; [reflexivity|]. split; [reflexivity|]. split; [lia|]. split; [reflexivity|].
  set (n := twf_n (skipn ffn data')) in *.
  unfold stream, pending; cbn [set_ooq current q g_read filled_front ooq_data].
  rewrite <- !app_assoc. f_equal. f_equal. f_equal.
  rewrite <- slots_bytes_app. f_equal.
  replace (Z.to_nat (filled_front s + n)) with (ffn + Z.to_nat n)%nat by (unfold ffn; lia).
  rewrite <- (firstn_skipn ffn data') at 1.
  rewrite firstn_app.
  assert (Hlf : length (firstn ffn data') = ffn).
  { apply firstn_length_le. unfold data'. rewrite set_nth_length. unfold ffn. lia. }
  rewrite Hlf. rewrite firstn_all2 by lia.
  replace (ffn + Z.to_nat n - ffn)%nat with (Z.to_nat n) by lia.
  f_equal. unfold data'. rewrite set_nth_firstn by exact Hle.
  reflexivity.
Qed.

(* ------------------------------------------------------------------ the slot view *)
Section Slots.
Variable want : Z -> option (list Z).

Definition slots_ok (k : Z) (data : list slot) : Prop :=
  forall (i : nat) sl, nth_error data i = Some sl -> slot_is_default sl = false ->
    exists bs, want (k + Z.of_nat i) = Some bs /\ sl = SPayload bs.

Lemma slots_ok_set_nth k data e bs :
  slots_ok k data -> want (k + Z.of_nat e) = Some bs ->
  slots_ok k (set_nth data e (SPayload bs)).
Proof.
  intros Hok Hw i sl. rewrite nth_error_set_nth.
  destruct (Nat.eqb_spec i e) as [->|Hne].
  - destruct (nth_error data e); [|discriminate]. intro H; injection H as <-. intros _.
    exists bs. auto.
  - apply Hok.
Qed.

Lemma slots_ok_shift k data (m m' : nat) :
  slots_ok k data -> slots_ok (k + Z.of_nat m) (skipn m data ++ repeat slot_default m').
Proof.
  intros Hok i sl Hn Hd.
  destruct (Nat.lt_ge_cases i (length (skipn m data))) as [Hlt|Hge].
  - rewrite nth_error_app1 in Hn by exact Hlt. rewrite nth_error_skipn in Hn.
    destruct (Hok _ _ Hn Hd) as (bs & Hw & ->). exists bs. split; [|reflexivity].
    rewrite <- Hw. f_equal. lia.
  - rewrite nth_error_app2 in Hn by exact Hge. apply nth_error_repeat in Hn. subst sl. discriminate.
Qed.

(* consecutive wanted payloads *)
Fixpoint want_cat (k : Z) (n : nat) : list Z :=
  match n with
  | O => []
  | S n' => match want k with Some bs => bs | None => [] end ++ want_cat (k + 1) n'
  end.

Lemma slots_ok_tail k x xs : slots_ok k (x :: xs) -> slots_ok (k + 1) xs.
Proof.
  intros Hok i sl Hn Hd. destruct (Hok (S i) sl Hn Hd) as (bs & Hw & ->). exists bs. split; [|reflexivity].
  rewrite <- Hw. f_equal. lia.
Qed.

(* a run of non-default slots holds exactly the wanted payloads, in order *)
Lemma slots_bytes_want : forall l k,
  slots_ok k l -> (forall sl, In sl l -> slot_is_default sl = false) ->
  slots_bytes l = want_cat k (length l).
Proof.
  induction l as [|x xs IH]; intros k Hok Hnd; [reflexivity|].
  cbn [length want_cat].
  destruct (Hok 0%nat x eq_refl (Hnd x (or_introl eq_refl))) as (bs & Hw & ->).
  rewrite Z.add_0_r in Hw. rewrite Hw. cbn [slots_bytes]. f_equal.
  apply IH; [eapply slots_ok_tail; exact Hok|]. intros sl Hin. apply Hnd. right. exact Hin.
Qed.
End Slots.

Lemma slots_ok_want_ext (want want' : Z -> option (list Z)) k data :
  slots_ok want k data ->
  (forall (i : nat) sl bs, nth_error data i = Some sl -> slot_is_default sl = false ->
      want (k + Z.of_nat i) = Some bs -> want' (k + Z.of_nat i) = Some bs) ->
  slots_ok want' k data.
Proof.
  intros Hok Hext i sl Hn Hd. destruct (Hok i sl Hn Hd) as (bs & Hw & ->).
  exists bs. split; [|reflexivity]. eapply Hext; eauto.
Qed.

Lemma nth_error_firstn_lt {A} : forall n (l : list A) i, (i < n)%nat ->
  nth_error (firstn n l) i = nth_error l i.
Proof.
  induction n as [|n IH]; intros l i H; [lia|].
  destruct l as [|x xs]; [destruct i; reflexivity|].
  destruct i as [|i]; cbn [firstn nth_error]; [reflexivity|apply IH; lia].
Qed.

(* the first twf_n slots of a list are non-default *)
Lemma firstn_twf_nondefault l sl :
  In sl (firstn (Z.to_nat (twf_n l)) l) -> slot_is_default sl = false.
Proof.
  intro Hin. apply In_nth_error in Hin. destruct Hin as (i & Hi).
  assert (Hlt : (i < length (firstn (Z.to_nat (twf_n l)) l))%nat) by (apply nth_error_Some; rewrite Hi; discriminate).
  rewrite firstn_length in Hlt.
  rewrite nth_error_firstn_lt in Hi by lia.
  rewrite <- (nth_error_nth _ _ slot_default Hi). apply front_filled. lia.
Qed.

(* ------------------------------------------------------------------ reads never skip *)
Lemma read_loop_no_error : forall fuel s room out s' out' dead err,
  no_qerror s -> read_loop fuel s room out = (s', out', dead, err) -> err = false /\ no_qerror s'.
Proof.
  induction fuel as [|fuel IH]; intros s room out s' out' dead err Hn; cbn [read_loop].
  { intro H; injection H as <- _ _ <-. auto. }
  destruct (room <=? 0); [intro H; injection H as <- _ _ <-; auto|].
  destruct (current s) as [|c cs] eqn:Ec.
  - destruct (is_eof s); [intro H; injection H as <- _ _ <-; auto|].
    destruct (q s) as [|item qrest] eqn:Eq.
    + destruct (vsock_closed s); intro H; injection H as <- _ _ <-; (split; [reflexivity|]);
        unfold no_qerror in *; cbn; rewrite ?Eq; auto.
    + unfold no_qerror in Hn. rewrite Eq in Hn. inversion Hn as [|? ? Hi Hrest]; subst.
      destruct item; [| |congruence].
      * intro H. eapply IH; [|exact H]. unfold no_qerror; cbn. exact Hrest.
      * intro H; injection H as <- _ _ <-. split; [reflexivity|]. unfold no_qerror; cbn. exact Hrest.
  - intro H. eapply IH; [|exact H]. unfold no_qerror in *; cbn. exact Hn.
Qed.

Lemma rx_read_no_error s n s' r w :
  rx_inv s -> no_qerror s -> rx_read s n = (s', r, w) ->
  rx_inv s' /\ no_qerror s' /\ stream s' = stream s /\ consumed s' = consumed s /\
  ooq_data s' = ooq_data s /\ g_base s' = g_base s /\ filled_front s' = filled_front s /\
  exists bytes, g_read s' = g_read s ++ bytes.
Proof.
  intros Hinv Hn H.
  destruct (rx_read_spec _ _ _ _ _ Hinv H) as (Hinv' & Hc & Hr & _).
  unfold rx_read in H.
  destruct (read_loop _ s n []) as [[[s1 out] dead] err] eqn:E.
  destruct (read_loop_no_error _ _ _ _ _ _ _ _ Hn E) as [-> Hn1].
  assert (Hq : q_inv s) by (destruct Hinv as (_ & _ & _ & _ & _ & Hq & _); exact Hq).
  destruct (read_loop_spec _ _ _ _ _ _ _ _ Hq E) as (_ & _ & Hso & _ & _).
  destruct Hso as (S1 & S2 & _ & _ & _ & S6 & _).
  assert (Hfields : ooq_data s' = ooq_data s1 /\ g_base s' = g_base s1 /\ filled_front s' = filled_front s1 /\
                    q s' = q s1).
  { destruct out; [destruct (is_eof s1); [|destruct dead]|]; injection H as <- _ _; cbn; auto. }
  destruct Hfields as (F1 & F2 & F3 & F4).
  split; [exact Hinv'|]. split; [unfold no_qerror in *; rewrite F4; exact Hn1|].
  assert (Hstr : stream s' = stream s /\ exists bytes, g_read s' = g_read s ++ bytes).
  { destruct r; try (destruct Hr as (A & B); split; [exact A|exists []; rewrite app_nil_r; exact B]).
    - destruct Hr as (A & B & _). split; [exact A|eauto].
    - exfalso. destruct out; [destruct (is_eof s1); [|destruct dead]|]; discriminate. }
  destruct Hstr as [Hs Hg].
  split; [exact Hs|]. split; [exact Hc|]. split; [congruence|]. split; [congruence|]. split; [congruence|exact Hg].
Qed.

From Utp Require Import Base.Prelude Rx.Rx.

(* ------------------------------------------------------------------ list helpers *)
Fixpoint count_nondefault (l : list slot) : Z :=
  match l with [] => 0 | x :: xs => (if slot_is_default x then 0 else 1) + count_nondefault xs end.

Fixpoint sum_q_bytes (l : list qitem) : Z :=
  match l with [] => 0 | x :: xs => qitem_len_bytes x + sum_q_bytes xs end.

Fixpoint slots_bytes (l : list slot) : list Z :=
  match l with
  | [] => []
  | SPayload bs :: xs => bs ++ slots_bytes xs
  | SEof :: xs => slots_bytes xs
  end.

Fixpoint q_bytes (l : list qitem) : list Z :=
  match l with
  | [] => []
  | QPayload bs :: xs => bs ++ q_bytes xs
  | _ :: xs => q_bytes xs
  end.

Definition twf_n (l : list slot) : Z := fst (take_while_filled l).
Definition twf_b (l : list slot) : Z := snd (take_while_filled l).

Lemma twf_cons x xs :
  take_while_filled (x :: xs) =
  if slot_is_default x then (0, 0)
  else (twf_n xs + 1, twf_b xs + slot_len_bytes x).
Proof.
  unfold twf_n, twf_b. cbn [take_while_filled].
  destruct (slot_is_default x); [reflexivity|].
  destruct (take_while_filled xs); reflexivity.
Qed.

Lemma twf_n_nonneg l : 0 <= twf_n l <= Z.of_nat (length l).
Proof.
  induction l as [|x xs IH]; unfold twf_n in *; [cbn; lia|].
  rewrite twf_cons. destruct (slot_is_default x); cbn [fst length]; unfold twf_n in *; lia.
Qed.

Lemma slot_len_nonneg x : 0 <= slot_len_bytes x.
Proof. destruct x; cbn; lia. Qed.

Lemma sum_slot_bytes_nonneg l : 0 <= sum_slot_bytes l.
Proof. induction l as [|x xs IH]; cbn [sum_slot_bytes]; [lia|]. pose proof (slot_len_nonneg x). lia. Qed.

Lemma sum_slot_bytes_app a b : sum_slot_bytes (a ++ b) = sum_slot_bytes a + sum_slot_bytes b.
Proof. induction a as [|x xs IH]; cbn [app sum_slot_bytes]; lia. Qed.

Lemma count_nondefault_app a b : count_nondefault (a ++ b) = count_nondefault a + count_nondefault b.
Proof. induction a as [|x xs IH]; cbn [app count_nondefault]; lia. Qed.

Lemma count_nondefault_bounds l : 0 <= count_nondefault l <= Z.of_nat (length l).
Proof.
  induction l as [|x xs IH]; cbn [count_nondefault length]; [lia|].
  destruct (slot_is_default x); lia.
Qed.

Lemma twf_n_le_count l : twf_n l <= count_nondefault l.
Proof.
  induction l as [|x xs IH]; unfold twf_n in *; [cbn; lia|].
  rewrite twf_cons. cbn [count_nondefault]. pose proof (count_nondefault_bounds xs).
  destruct (slot_is_default x); cbn [fst]; unfold twf_n in *; lia.
Qed.

Lemma slots_bytes_app a b : slots_bytes (a ++ b) = slots_bytes a ++ slots_bytes b.
Proof.
  induction a as [|x xs IH]; cbn [app slots_bytes]; [reflexivity|].
  destruct x; rewrite IH; [rewrite app_assoc|]; reflexivity.
Qed.

Lemma q_bytes_app a b : q_bytes (a ++ b) = q_bytes a ++ q_bytes b.
Proof.
  induction a as [|x xs IH]; cbn [app q_bytes]; [reflexivity|].
  destruct x; rewrite IH; [rewrite app_assoc|..]; reflexivity.
Qed.

Lemma sum_q_bytes_app a b : sum_q_bytes (a ++ b) = sum_q_bytes a + sum_q_bytes b.
Proof. induction a as [|x xs IH]; cbn [app sum_q_bytes]; lia. Qed.

Lemma sum_q_bytes_nonneg l : 0 <= sum_q_bytes l.
Proof.
  induction l as [|x xs IH]; cbn [sum_q_bytes]; [lia|].
  destruct x; cbn [qitem_len_bytes]; lia.
Qed.

(* prefix of nondefault slots: splitting at n <= twf_n *)
Lemma twf_split : forall (n : nat) l,
  Z.of_nat n <= twf_n l ->
  twf_n l = Z.of_nat n + twf_n (skipn n l) /\
  twf_b l = sum_slot_bytes (firstn n l) + twf_b (skipn n l) /\
  count_nondefault (firstn n l) = Z.of_nat n.
Proof.
  induction n as [|n IH]; intros l H.
  - cbn [skipn firstn sum_slot_bytes count_nondefault]. lia.
  - destruct l as [|x xs].
    + unfold twf_n in H; cbn in H. lia.
    + unfold twf_n, twf_b in *. rewrite twf_cons in *.
      destruct (slot_is_default x) eqn:Ed; cbn [fst snd] in *; [lia|].
      cbn [skipn firstn sum_slot_bytes count_nondefault]. rewrite Ed.
      destruct (IH xs) as (H1 & H2 & H3); [unfold twf_n in *; lia|].
      unfold twf_n, twf_b in *. lia.
Qed.

Lemma twf_app_default l : take_while_filled (l ++ [slot_default]) = take_while_filled l.
Proof.
  induction l as [|x xs IH]; [reflexivity|].
  cbn [app]. rewrite !twf_cons. unfold twf_n, twf_b. rewrite IH. reflexivity.
Qed.

Lemma twf_n_bytes_firstn l :
  sum_slot_bytes (firstn (Z.to_nat (twf_n l)) l) = twf_b l.
Proof.
  induction l as [|x xs IH]; [reflexivity|].
  unfold twf_n, twf_b. rewrite twf_cons.
  destruct (slot_is_default x) eqn:Ed; cbn [fst snd]; [reflexivity|].
  pose proof (twf_n_nonneg xs) as Hn.
  replace (Z.to_nat (twf_n xs + 1)) with (S (Z.to_nat (twf_n xs))) by lia.
  cbn [firstn sum_slot_bytes]. rewrite IH. lia.
Qed.

(* set_nth facts *)
Lemma set_nth_length {A} (l : list A) n v : length (set_nth l n v) = length l.
Proof. revert n; induction l as [|x xs IH]; intros [|n]; cbn [set_nth length]; auto. Qed.

Lemma set_nth_firstn {A} (l : list A) n v k : (k <= n)%nat -> firstn k (set_nth l n v) = firstn k l.
Proof.
  revert n k; induction l as [|x xs IH]; intros [|n] [|k] H; cbn [set_nth firstn]; try reflexivity; try lia.
  f_equal. apply IH. lia.
Qed.

Lemma set_nth_sum l n v old :
  nth_error l n = Some old ->
  sum_slot_bytes (set_nth l n v) = sum_slot_bytes l - slot_len_bytes old + slot_len_bytes v.
Proof.
  revert n; induction l as [|x xs IH]; intros [|n] H; cbn [nth_error] in H; try discriminate.
  - injection H as <-. cbn [set_nth sum_slot_bytes]. lia.
  - cbn [set_nth sum_slot_bytes]. rewrite (IH n H). lia.
Qed.

Lemma set_nth_count l n v old :
  nth_error l n = Some old ->
  count_nondefault (set_nth l n v) =
  count_nondefault l - (if slot_is_default old then 0 else 1) + (if slot_is_default v then 0 else 1).
Proof.
  revert n; induction l as [|x xs IH]; intros [|n] H; cbn [nth_error] in H; try discriminate.
  - injection H as <-. cbn [set_nth count_nondefault]. lia.
  - cbn [set_nth count_nondefault]. rewrite (IH n H). lia.
Qed.

Lemma twf_n_firstn_ge : forall (n : nat) l,
  count_nondefault (firstn n l) = Z.of_nat n -> (n <= length l)%nat -> Z.of_nat n <= twf_n l.
Proof.
  induction n as [|n IH]; intros l Hc Hl.
  - pose proof (twf_n_nonneg l). lia.
  - destruct l as [|x xs]; [cbn in Hl; lia|].
    cbn [firstn count_nondefault length] in *. unfold twf_n. rewrite twf_cons.
    pose proof (count_nondefault_bounds (firstn n xs)) as Hb.
    assert (Hlen : (length (firstn n xs) <= n)%nat) by apply firstn_le_length.
    destruct (slot_is_default x); [lia|]. cbn [fst].
    specialize (IH xs). lia.
Qed.

(* ------------------------------------------------------------------ the invariant *)
Definition rx_inv (s : rx) : Prop :=
  Z.of_nat (length (ooq_data s)) = ooq_capacity s /\
  0 < ooq_capacity s /\
  filled_front s = twf_n (ooq_data s) /\
  ooq_len s = count_nondefault (ooq_data s) /\
  ooq_len_bytes s = sum_slot_bytes (ooq_data s) /\
  q_len_bytes s = sum_q_bytes (q s) /\
  q_len_bytes s <= q_capacity s /\
  0 <= last_remaining_rx_window s <= q_capacity s - q_len_bytes s /\
  0 <= g_base s.

Lemma inv_ff_bounds s : rx_inv s -> 0 <= filled_front s <= ooq_len s /\ ooq_len s <= ooq_capacity s.
Proof.
  intros (Hlen & Hcap & Hff & Hl & _). rewrite Hff, Hl.
  pose proof (twf_n_nonneg (ooq_data s)). pose proof (twf_n_le_count (ooq_data s)).
  pose proof (count_nondefault_bounds (ooq_data s)). lia.
Qed.

Lemma repeat_default_facts n :
  twf_n (repeat slot_default n) = 0 /\ count_nondefault (repeat slot_default n) = 0 /\
  sum_slot_bytes (repeat slot_default n) = 0.
Proof.
  induction n as [|n (H1 & H2 & H3)]; [cbv; auto|].
  cbn [repeat]. unfold twf_n. rewrite twf_cons. cbn [slot_default slot_is_default fst
    count_nondefault sum_slot_bytes slot_len_bytes length]. lia.
Qed.

Lemma build_inv max_rx max_in : 0 < max_in -> 0 < max_rx -> rx_inv (rx_build max_rx max_in).
Proof.
  intros Hi Hr. unfold rx_build, rx_inv. cbn -[Z.div repeat].
  set (cap := if max_rx / max_in =? 0 then 64 else max_rx / max_in).
  assert (Hcap : 0 < cap).
  { unfold cap. destruct (Z.eqb_spec (max_rx / max_in) 0); [lia|].
    pose proof (Z.div_pos max_rx max_in). lia. }
  destruct (repeat_default_facts (Z.to_nat cap)) as (H1 & H2 & H3).
  rewrite repeat_length, H1, H2, H3. lia.
Qed.

(* ------------------------------------------------------------------ add_remove *)
Lemma default_len_zero x : slot_is_default x = true -> slot_len_bytes x = 0.
Proof. destruct x as [[|b bs]|]; cbn; intros; try discriminate; reflexivity. Qed.

(* what a successful insertion looks like *)
Lemma ooq_add_remove_cases s k p off s' r :
  ooq_add_remove s k p off = (s', r) ->
  (s' = s /\ match r with ArConsumed _ _ => False | _ => True end) \/
  (exists m old,
      nth_error (ooq_data s) (Z.to_nat (off + filled_front s)) = Some old /\
      slot_is_default old = true /\ slot_is_default m = false /\
      ooq_is_full s = false /\
      (m = SEof \/ (exists b bs, m = SPayload (b :: bs) /\ p = b :: bs)) /\
      let data' := set_nth (ooq_data s) (Z.to_nat (off + filled_front s)) m in
      let n := twf_n (skipn (Z.to_nat (filled_front s)) data') in
      let b := twf_b (skipn (Z.to_nat (filled_front s)) data') in
      s' = set_ooq s data' (filled_front s + n) (ooq_len s + 1) (ooq_len_bytes s + slot_len_bytes m) /\
      r = ArConsumed n b).
Proof.
  unfold ooq_add_remove. destruct (ooq_is_full s) eqn:Efull.
  { intro H; injection H as <- <-. left; auto. }
  destruct (Z.of_nat (length (ooq_data s)) <=? off + filled_front s).
  { intro H; injection H as <- <-. left; auto. }
  match goal with |- _ = _ -> ?G => set (Concl := G) end.
  assert (Hm : forall m, slot_is_default m = false ->
     (m = SEof \/ (exists b bs, m = SPayload (b :: bs) /\ p = b :: bs)) ->
     match nth_error (ooq_data s) (Z.to_nat (off + filled_front s)) with
     | Some old =>
        if negb (slot_is_default old) then (s, ArAlreadyPresent)
        else
          let data' := set_nth (ooq_data s) (Z.to_nat (off + filled_front s)) m in
          let '(n, b) := take_while_filled (skipn (Z.to_nat (filled_front s)) data') in
          (set_ooq s data' (filled_front s + n) (ooq_len s + 1) (ooq_len_bytes s + slot_len_bytes m),
           ArConsumed n b)
     | None => (s, ArErrBugMissingSlot)
     end = (s', r) -> Concl).
  { intros m Hmd Hshape. unfold Concl. destruct (nth_error _ _) as [old|] eqn:En.
    - destruct (slot_is_default old) eqn:Eo; cbn [negb].
      + cbv zeta. unfold twf_n, twf_b.
        destruct (take_while_filled _) as [n b] eqn:Et. intro H; injection H as <- <-.
        right. exists m, old. cbn [fst snd]. repeat split; auto;
        unfold twf_n, twf_b; rewrite ?Et; reflexivity.
      + intro H; injection H as <- <-. left; auto.
    - intro H; injection H as <- <-. left; auto. }
  destruct k.
  - destruct p as [|b bs].
    + unfold Concl. intro H; injection H as <- <-. left; auto.
    + apply Hm; [reflexivity|]. right. eauto.
  - apply Hm; [reflexivity|]. left; reflexivity.
  - unfold Concl. intro H; injection H as <- <-. left; auto.
Qed.

Lemma ooq_add_remove_inv s k p off s' r :
  rx_inv s -> 0 <= off -> ooq_add_remove s k p off = (s', r) -> rx_inv s'.
Proof.
  intros Hinv Hoff H.
  destruct (ooq_add_remove_cases _ _ _ _ _ _ H) as [[-> _]|(m & old & Hnth & Hod & Hmd & _ & _ & Hs')]; [exact Hinv|].
  cbv zeta in Hs'. destruct Hs' as [-> _].
  pose proof (inv_ff_bounds s Hinv) as Hb.
  destruct Hinv as (Hlen & Hcap & Hff & Hl & Hlb & Hq).
  set (ffn := Z.to_nat (filled_front s)) in *.
  set (effn := Z.to_nat (off + filled_front s)) in *.
  set (data' := set_nth (ooq_data s) effn m) in *.
  assert (Hle : (ffn <= effn)%nat) by (unfold ffn, effn; lia).
  assert (Hffn : Z.of_nat ffn = filled_front s) by (unfold ffn; lia).
  destruct (twf_split ffn (ooq_data s)) as (_ & _ & Hcnt); [lia|].
  assert (Hge : Z.of_nat ffn <= twf_n data').
  { apply twf_n_firstn_ge.
    - unfold data'. rewrite set_nth_firstn by exact Hle. exact Hcnt.
    - unfold data'. rewrite set_nth_length. lia. }
  destruct (twf_split ffn data' Hge) as (Hsplit & _ & _).
  unfold rx_inv, set_ooq; cbn [ooq_data filled_front ooq_len ooq_len_bytes ooq_capacity q
     q_len_bytes q_capacity last_remaining_rx_window g_base].
  split; [unfold data'; rewrite set_nth_length; exact Hlen|].
  split; [exact Hcap|].
  split; [fold ffn; lia|].
  split; [unfold data'; rewrite (set_nth_count _ _ _ _ Hnth), Hod, Hmd; lia|].
  split; [unfold data'; rewrite (set_nth_sum _ _ _ _ Hnth), (default_len_zero _ Hod); lia|].
  exact Hq.
Qed.

(* ------------------------------------------------------------------ flush *)
Ltac rsimpl := cbn [ooq_data filled_front ooq_len ooq_len_bytes ooq_capacity q q_len_bytes
  q_capacity reader_dropped vsock_closed disp_waker reader_waker max_incoming_payload
  last_remaining_rx_window current is_eof g_base g_read set_ooq set_wakers set_flags
  pop_front_state] in *.

(* the in-order bytes not yet returned by Read *)
Definition pending (s : rx) : list Z :=
  current s ++ q_bytes (q s) ++ slots_bytes (firstn (Z.to_nat (filled_front s)) (ooq_data s)).
(* every in-order byte ever accepted *)
Definition stream (s : rx) : list Z := g_read s ++ pending s.
(* number of sequence numbers consumed so far (the ack number, relative to the ISN) *)
Definition consumed (s : rx) : Z := g_base s + filled_front s.

Definition core_inv (s : rx) : Prop :=
  Z.of_nat (length (ooq_data s)) = ooq_capacity s /\
  0 < ooq_capacity s /\
  filled_front s = twf_n (ooq_data s) /\
  ooq_len s = count_nondefault (ooq_data s) /\
  ooq_len_bytes s = sum_slot_bytes (ooq_data s) /\
  q_len_bytes s = sum_q_bytes (q s) /\
  q_len_bytes s <= q_capacity s /\
  0 <= g_base s.

Lemma rx_inv_core s : rx_inv s <-> core_inv s /\ 0 <= last_remaining_rx_window s <= q_capacity s - q_len_bytes s.
Proof. unfold rx_inv, core_inv. tauto. Qed.

Definition same_misc (s s' : rx) : Prop :=
  ooq_capacity s' = ooq_capacity s /\ q_capacity s' = q_capacity s /\
  reader_dropped s' = reader_dropped s /\ vsock_closed s' = vsock_closed s /\
  disp_waker s' = disp_waker s /\ reader_waker s' = reader_waker s /\
  max_incoming_payload s' = max_incoming_payload s /\
  last_remaining_rx_window s' = last_remaining_rx_window s /\
  current s' = current s /\ is_eof s' = is_eof s /\ g_read s' = g_read s.

Lemma same_misc_refl s : same_misc s s.
Proof. unfold same_misc; tauto. Qed.

Lemma same_misc_trans a b c : same_misc a b -> same_misc b c -> same_misc a c.
Proof. unfold same_misc. intros; intuition congruence. Qed.

Lemma slots_bytes_len l : Z.of_nat (length (slots_bytes l)) = sum_slot_bytes l.
Proof.
  induction l as [|x xs IH]; [reflexivity|].
  destruct x; cbn [slots_bytes sum_slot_bytes slot_len_bytes]; rewrite ?app_length; lia.
Qed.

Lemma flush_loop_spec : forall fuel s w fb fp,
  core_inv s -> 0 <= w <= q_capacity s - q_len_bytes s -> 0 <= fb ->
  exists s' w' fb' fp',
    flush_loop fuel s w fb fp = Some (s', w', fb', fp') /\
    core_inv s' /\ 0 <= w' <= q_capacity s' - q_len_bytes s' /\
    fb <= fb' /\ w' = w - (fb' - fb) /\
    q_len_bytes s' = q_len_bytes s + (fb' - fb) /\
    ooq_len_bytes s' = ooq_len_bytes s - (fb' - fb) /\
    same_misc s s' /\
    q_bytes (q s') ++ slots_bytes (firstn (Z.to_nat (filled_front s')) (ooq_data s')) =
    q_bytes (q s) ++ slots_bytes (firstn (Z.to_nat (filled_front s)) (ooq_data s)) /\
    consumed s' = consumed s /\
    (fb' = fb -> s' = s \/ fp < fp + 1).
Proof.
  induction fuel as [|fuel IH]; intros s w fb fp Hc Hw Hfb; cbn [flush_loop];
  destruct Hc as (Hlen & Hcap & Hff & Hl & Hlb & Hq & Hqc & Hgb).
  { exists s, w, fb, fp. unfold core_inv. repeat split; try lia; auto using same_misc_refl. }
  destruct (Z.eqb_spec (filled_front s) 0) as [Hz|Hnz].
  { exists s, w, fb, fp. unfold core_inv. repeat split; try lia; auto using same_misc_refl. }
  destruct (ooq_data s) as [|m rest] eqn:Ed.
  { exfalso. rewrite Hff in Hnz. unfold twf_n in Hnz. cbn in Hnz. lia. }
  assert (Hmd : slot_is_default m = false).
  { destruct (slot_is_default m) eqn:E; [|reflexivity]. exfalso.
    rewrite Hff in Hnz. unfold twf_n in Hnz. rewrite twf_cons, E in Hnz. cbn in Hnz. lia. }
  destruct (Z.ltb_spec w (slot_len_bytes m)) as [Hlt|Hge].
  { exists s, w, fb, fp. unfold core_inv. rewrite Ed.
    repeat split; try lia; auto using same_misc_refl. }
  destruct (reader_dropped s) eqn:Erd.
  { exists s, w, fb, fp. unfold core_inv. rewrite Ed.
    repeat split; try lia; auto using same_misc_refl. }
  destruct (Z.ltb_spec (q_capacity s - q_len_bytes s) (slot_len_bytes m)) as [Hbad|Hok]; [lia|].
  pose proof (slot_len_nonneg m) as Hm0.
  set (s1 := pop_front_state s m rest).
  assert (Hff1 : twf_n (rest ++ [slot_default]) = filled_front s - 1).
  { unfold twf_n. rewrite twf_app_default. rewrite Hff. unfold twf_n. rewrite twf_cons, Hmd.
    cbn [fst]. unfold twf_n. lia. }
  assert (Hc1 : core_inv s1).
  { unfold core_inv, s1; rsimpl.
    rewrite app_length, count_nondefault_app, sum_slot_bytes_app, sum_q_bytes_app.
    cbn [length count_nondefault sum_slot_bytes slot_default slot_is_default slot_len_bytes
         sum_q_bytes].
    cbn [length count_nondefault sum_slot_bytes] in Hlen, Hl, Hlb. rewrite Hmd in Hl.
    assert (Hqi : qitem_len_bytes (qitem_of_slot m) = slot_len_bytes m) by (destruct m; reflexivity).
    rewrite Hqi, Hff1. repeat split; lia. }
  destruct (IH s1 (w - slot_len_bytes m) (fb + slot_len_bytes m) (fp + 1) Hc1)
    as (s' & w' & fb' & fp' & Hrun & Hc' & Hw' & Hfb' & Hweq & Hql & Hol & Hmisc & Hstr & Hcons & _).
  { unfold s1; rsimpl. lia. }
  { lia. }
  exists s', w', fb', fp'. split; [exact Hrun|]. split; [exact Hc'|]. split; [exact Hw'|].
  split; [lia|]. split; [lia|].
  split; [unfold s1 in Hql; rsimpl; lia|].
  split; [unfold s1 in Hol; rsimpl; lia|].
  split.
  { eapply same_misc_trans; [|exact Hmisc]. unfold same_misc, s1; rsimpl. tauto. }
  split.
  { rewrite Hstr. unfold s1; rsimpl. rewrite q_bytes_app.
    assert (Hn : Z.to_nat (filled_front s) = S (Z.to_nat (filled_front s - 1))).
    { rewrite Hff in *. unfold twf_n in *. rewrite twf_cons, Hmd in *. cbn [fst] in *.
      pose proof (twf_n_nonneg rest). unfold twf_n in *. lia. }
    rewrite Hn. cbn [firstn].
    assert (Hfn : firstn (Z.to_nat (filled_front s - 1)) (rest ++ [slot_default]) =
                  firstn (Z.to_nat (filled_front s - 1)) rest).
    { rewrite firstn_app.
      assert (Hle : (Z.to_nat (filled_front s - 1) <= length rest)%nat).
      { rewrite Hff. unfold twf_n. rewrite twf_cons, Hmd. cbn [fst].
        pose proof (twf_n_nonneg rest). lia. }
      replace (Z.to_nat (filled_front s - 1) - length rest)%nat with 0%nat by lia.
      cbn [firstn]. apply app_nil_r. }
    rewrite Hfn. destruct m as [bs|]; cbn [qitem_of_slot q_bytes slots_bytes];
      rewrite <- ?app_assoc; cbn [app]; reflexivity. }
  split.
  { rewrite Hcons. unfold consumed, s1; rsimpl. lia. }
  intros _. right. lia.
Qed.

Lemma filled_front_bytes_le s : core_inv s -> 0 <= filled_front_bytes s <= ooq_len_bytes s.
Proof.
  intros (Hlen & Hcap & Hff & Hl & Hlb & _). unfold filled_front_bytes.
  rewrite Hff, twf_n_bytes_firstn, Hlb.
  pose proof (twf_n_nonneg (ooq_data s)) as Hn.
  destruct (twf_split (Z.to_nat (twf_n (ooq_data s))) (ooq_data s)) as (_ & Hb & _); [lia|].
  rewrite twf_n_bytes_firstn in Hb.
  rewrite <- (firstn_skipn (Z.to_nat (twf_n (ooq_data s))) (ooq_data s)) at 3.
  rewrite sum_slot_bytes_app.
  pose proof (sum_slot_bytes_nonneg (skipn (Z.to_nat (twf_n (ooq_data s))) (ooq_data s))).
  pose proof (sum_slot_bytes_nonneg (firstn (Z.to_nat (twf_n (ooq_data s))) (ooq_data s))).
  rewrite twf_n_bytes_firstn in *. lia.
Qed.

(* rx_flush: never panics from an invariant state, keeps the invariant, keeps the stream,
   keeps `consumed`, and makes last_remaining_rx_window exactly the free queue space *)
Lemma rx_flush_spec s s' r w :
  rx_inv s -> rx_flush s = (s', r, w) ->
  rx_inv s' /\ (exists fb, r = FlOk fb /\ 0 <= fb) /\
  stream s' = stream s /\ consumed s' = consumed s /\ g_read s' = g_read s /\
  last_remaining_rx_window s' = q_capacity s' - q_len_bytes s' /\
  ooq_len_bytes s' + q_len_bytes s' = ooq_len_bytes s + q_len_bytes s /\
  reader_dropped s' = reader_dropped s /\ vsock_closed s' = vsock_closed s /\
  q_capacity s' = q_capacity s /\ current s' = current s /\ is_eof s' = is_eof s /\
  ooq_capacity s' = ooq_capacity s.
Proof.
  intros Hinv H. apply rx_inv_core in Hinv. destruct Hinv as [Hc Hlast].
  unfold rx_flush in H.
  set (dw := if sat_sub (q_window s) (filled_front_bytes s) <? max_incoming_payload s
             then true else disp_waker s) in *.
  set (s0 := set_wakers s dw (reader_waker s) (last_remaining_rx_window s)) in *.
  assert (Hc0 : core_inv s0) by (unfold core_inv, s0 in *; rsimpl; exact Hc).
  assert (Hqw : q_window s = q_capacity s - q_len_bytes s).
  { unfold q_window, sat_sub. destruct Hc as (_ & _ & _ & _ & _ & _ & Hqc & _). lia. }
  destruct (flush_loop_spec (Z.to_nat (filled_front s0)) s0 (q_window s) 0 0 Hc0)
    as (s1 & w1 & fb & fp & Hrun & Hc1 & Hw1 & Hfb & Hweq & Hql & Hol & Hmisc & Hstr & Hcons & _).
  { unfold s0; rsimpl. destruct Hc as (_ & _ & _ & _ & _ & Hq & Hqc & _).
    pose proof (sum_q_bytes_nonneg (q s)). lia. }
  { lia. }
  rewrite Hrun in H.
  destruct Hmisc as (M1 & M2 & M3 & M4 & M5 & M6 & M7 & M8 & M9 & M10 & M11).
  assert (Hres : exists dw' rw', s' = set_wakers s1 dw' rw' w1 /\ r = FlOk fb).
  { destruct (0 <? fp); injection H as <- <- <-; eauto. }
  destruct Hres as (dw' & rw' & -> & ->).
  unfold s0 in *; rsimpl.
  split.
  { apply rx_inv_core. split; [unfold core_inv in *; rsimpl; exact Hc1|rsimpl; lia]. }
  split; [exists fb; split; [reflexivity|lia]|].
  split.
  { unfold stream, pending; rsimpl. rewrite M9, M11. f_equal. f_equal. exact Hstr. }
  split; [unfold consumed in *; rsimpl; exact Hcons|].
  split; [exact M11|].
  split; [lia|]. split; [lia|]. repeat split; assumption.
Qed.

(* ------------------------------------------------------------------ add_remove (UserRx) *)
Lemma ooq_add_remove_stream s k p off s' r :
  rx_inv s -> 0 <= off -> ooq_add_remove s k p off = (s', r) ->
  (exists ext, stream s' = stream s ++ ext /\
     match r with ArConsumed n b => Z.of_nat (length ext) = b /\ 0 <= n /\ consumed s' = consumed s + n
                | _ => ext = [] /\ consumed s' = consumed s end) /\
  g_read s' = g_read s /\ q s' = q s /\ q_len_bytes s' = q_len_bytes s /\
  last_remaining_rx_window s' = last_remaining_rx_window s /\
  reader_dropped s' = reader_dropped s /\ vsock_closed s' = vsock_closed s /\
  disp_waker s' = disp_waker s /\ reader_waker s' = reader_waker s /\
  q_capacity s' = q_capacity s /\ current s' = current s /\ is_eof s' = is_eof s /\
  g_base s' = g_base s /\ ooq_capacity s' = ooq_capacity s.
Proof.
  intros Hinv Hoff H.
  destruct (ooq_add_remove_cases _ _ _ _ _ _ H) as [[-> Hr]|(m & old & Hnth & Hod & Hmd & _ & _ & Hs')].
  { split; [|repeat split; reflexivity]. exists []. rewrite app_nil_r. split; [reflexivity|].
    destruct r; try contradiction; auto. }
  cbv zeta in Hs'. destruct Hs' as [-> ->].
  pose proof (inv_ff_bounds s Hinv) as Hb.
  destruct Hinv as (Hlen & Hcap & Hff & Hl & Hlb & Hq).
  set (ffn := Z.to_nat (filled_front s)) in *.
  set (effn := Z.to_nat (off + filled_front s)) in *.
  set (data' := set_nth (ooq_data s) effn m) in *.
  assert (Hle : (ffn <= effn)%nat) by (unfold ffn, effn; lia).
  pose proof (twf_n_nonneg (skipn ffn data')) as Hn0.
  set (n := twf_n (skipn ffn data')) in *.
  split; [|rsimpl; repeat split; reflexivity].
  exists (slots_bytes (firstn (Z.to_nat n) (skipn ffn data'))).
  split.
  - unfold stream, pending; rsimpl. rewrite <- !app_assoc. f_equal. f_equal. f_equal.
    rewrite <- slots_bytes_app. f_equal.
    replace (Z.to_nat (filled_front s + n)) with (ffn + Z.to_nat n)%nat by (unfold ffn; lia).
    rewrite <- (firstn_skipn ffn data') at 1.
    rewrite firstn_app.
    assert (Hlf : length (firstn ffn data') = ffn).
    { apply firstn_length_le. unfold data'. rewrite set_nth_length. unfold ffn. lia. }
    rewrite Hlf. rewrite firstn_all2 by lia.
    replace (ffn + Z.to_nat n - ffn)%nat with (Z.to_nat n) by lia.
    f_equal. unfold data'. rewrite set_nth_firstn by exact Hle.
    reflexivity.
  - rewrite slots_bytes_len. unfold n. rewrite twf_n_bytes_firstn.
    split; [reflexivity|]. split; [lia|]. unfold consumed; rsimpl. lia.
Qed.

Lemma rx_add_remove_spec s k p off s' r w :
  rx_inv s -> 0 <= off -> rx_add_remove s k p off = (s', r, w) ->
  rx_inv s' /\
  (exists ar, r = UarOk ar /\
     exists ext, stream s' = stream s ++ ext /\
       match ar with ArConsumed n b => Z.of_nat (length ext) = b /\ 0 <= n /\ consumed s' = consumed s + n
                   | _ => ext = [] /\ consumed s' = consumed s end) /\
  g_read s' = g_read s /\ reader_dropped s' = reader_dropped s /\
  vsock_closed s' = vsock_closed s /\ q_capacity s' = q_capacity s /\
  current s' = current s /\ is_eof s' = is_eof s /\ ooq_capacity s' = ooq_capacity s.
Proof.
  intros Hinv Hoff. unfold rx_add_remove.
  destruct (ooq_add_remove s k p off) as [s1 ar] eqn:E.
  pose proof (ooq_add_remove_inv _ _ _ _ _ _ Hinv Hoff E) as Hinv1.
  destruct (ooq_add_remove_stream _ _ _ _ _ _ Hinv Hoff E)
    as ((ext & Hstr & Har) & A1 & A2 & A3 & A4 & A5 & A6 & A7 & A8 & A9 & A10 & A11 & A12 & A13).
  match goal with |- _ -> ?G => set (Concl := G) end.
  assert (Hplain : (s1, UarOk ar, @nil wake) = (s', r, w) -> Concl).
  { unfold Concl. intro H; injection H as <- <- <-. split; [exact Hinv1|].
    split; [exists ar; split; [reflexivity|]; exists ext; split; assumption|].
    repeat split; assumption. }
  destruct ar as [n b| | | | |]; try exact Hplain.
  destruct ((0 <? n) && ooq_is_full s1); [|exact Hplain].
  destruct (rx_flush s1) as [[s2 fr] w2] eqn:Ef.
  destruct (rx_flush_spec _ _ _ _ Hinv1 Ef)
    as (Hinv2 & (fb & -> & _) & F1 & F2 & F3 & F4 & F5 & F6 & F7 & F8 & F9 & F10 & F11).
  unfold Concl. intro H; injection H as <- <- <-. split; [exact Hinv2|].
  split.
  { exists (ArConsumed n b). split; [reflexivity|]. exists ext. rewrite F1, F2. split; assumption. }
  repeat split; congruence.
Qed.

(* ------------------------------------------------------------------ read *)
Definition same_ooq (s s' : rx) : Prop :=
  ooq_data s' = ooq_data s /\ filled_front s' = filled_front s /\ ooq_len s' = ooq_len s /\
  ooq_len_bytes s' = ooq_len_bytes s /\ ooq_capacity s' = ooq_capacity s /\
  g_base s' = g_base s /\ g_read s' = g_read s /\ q_capacity s' = q_capacity s /\
  last_remaining_rx_window s' = last_remaining_rx_window s /\
  reader_dropped s' = reader_dropped s /\ vsock_closed s' = vsock_closed s /\
  disp_waker s' = disp_waker s /\ max_incoming_payload s' = max_incoming_payload s.

Lemma same_ooq_refl s : same_ooq s s.
Proof. unfold same_ooq; tauto. Qed.
Lemma same_ooq_trans a b c : same_ooq a b -> same_ooq b c -> same_ooq a c.
Proof. unfold same_ooq; intros; intuition congruence. Qed.

Definition q_inv (s : rx) : Prop := q_len_bytes s = sum_q_bytes (q s).

Lemma read_loop_spec : forall fuel s room out s' out' dead err,
  q_inv s -> read_loop fuel s room out = (s', out', dead, err) ->
  q_inv s' /\ q_len_bytes s' <= q_len_bytes s /\ same_ooq s s' /\
  (exists e, out' = out ++ e) /\
  (err = false -> out' ++ current s' ++ q_bytes (q s') = out ++ current s ++ q_bytes (q s)).
Proof.
  induction fuel as [|fuel IH]; intros s room out s' out' dead err Hq; cbn [read_loop].
  { intro H; injection H as <- <- <- <-. repeat split; auto using same_ooq_refl; try lia.
    exists []; rewrite app_nil_r; reflexivity. }
  destruct (room <=? 0).
  { intro H; injection H as <- <- <- <-. repeat split; auto using same_ooq_refl; try lia.
    exists []; rewrite app_nil_r; reflexivity. }
  destruct (current s) as [|c cs] eqn:Ecur.
  - destruct (is_eof s).
    { intro H; injection H as <- <- <- <-. rewrite Ecur. repeat split; auto using same_ooq_refl; try lia.
      exists []; rewrite app_nil_r; reflexivity. }
    destruct (q s) as [|item qrest] eqn:Eq.
    { destruct (vsock_closed s) eqn:Evc; intro H; injection H as <- <- <- <-.
      - rewrite Ecur, Eq. repeat split; auto using same_ooq_refl; try lia.
        exists []; rewrite app_nil_r; reflexivity.
      - rsimpl. rewrite Ecur.
        split; [unfold q_inv in *; rsimpl; rewrite Eq in Hq; exact Hq|]. split; [lia|].
        split; [unfold same_ooq; rsimpl; rewrite ?Evc; tauto|].
        split; [exists []; rewrite app_nil_r; reflexivity|]. intros _. reflexivity. }
    assert (Hlen0 : 0 <= qitem_len_bytes item) by (destruct item; cbn; lia).
    destruct item as [bs| |].
    + (* payload: continue *)
      intro H. apply IH in H.
      * destruct H as (Hq' & Hle & Hso & (e & He) & Hstr). rsimpl.
        split; [exact Hq'|]. split; [rsimpl; lia|].
        split; [eapply same_ooq_trans; [|exact Hso]; unfold same_ooq; rsimpl; tauto|].
        split; [exists e; exact He|].
        intro Herr. rewrite (Hstr Herr). rsimpl. cbn [q_bytes app]. reflexivity.
      * unfold q_inv in *; rsimpl. rewrite Eq in Hq. cbn [sum_q_bytes] in Hq. lia.
    + intro H; injection H as <- <- <- <-. rsimpl.
      split; [unfold q_inv in *; rsimpl; rewrite Eq in Hq; cbn [sum_q_bytes qitem_len_bytes] in *; lia|].
      split; [cbn [qitem_len_bytes]; lia|].
      split; [unfold same_ooq; rsimpl; tauto|].
      split; [exists []; rewrite app_nil_r; reflexivity|].
      intros _. cbn [q_bytes app]. reflexivity.
    + intro H; injection H as <- <- <- <-. rsimpl.
      split; [unfold q_inv in *; rsimpl; rewrite Eq in Hq; cbn [sum_q_bytes qitem_len_bytes] in *; lia|].
      split; [cbn [qitem_len_bytes]; lia|].
      split; [unfold same_ooq; rsimpl; tauto|].
      split; [exists []; rewrite app_nil_r; reflexivity|].
      intro Hf; discriminate.
  - (* copy from current *)
    intro H. apply IH in H.
    + destruct H as (Hq' & Hle & Hso & (e & He) & Hstr). rsimpl.
      split; [exact Hq'|]. split; [exact Hle|].
      split; [eapply same_ooq_trans; [|exact Hso]; unfold same_ooq; rsimpl; tauto|].
      split; [eexists; rewrite He, <- app_assoc; reflexivity|].
      intro Herr. rewrite (Hstr Herr). rsimpl. rewrite <- !app_assoc. f_equal.
      rewrite app_assoc. rewrite firstn_skipn. reflexivity.
    + unfold q_inv in *; rsimpl. exact Hq.
Qed.

Lemma rx_read_spec s n s' r w :
  rx_inv s -> rx_read s n = (s', r, w) ->
  rx_inv s' /\ consumed s' = consumed s /\
  match r with
  | RdOk bytes => stream s' = stream s /\ g_read s' = g_read s ++ bytes /\ bytes <> []
  | RdErrMsg => True
  | _ => stream s' = stream s /\ g_read s' = g_read s
  end /\
  ooq_len_bytes s' = ooq_len_bytes s /\ q_len_bytes s' <= q_len_bytes s /\
  reader_dropped s' = reader_dropped s /\ vsock_closed s' = vsock_closed s /\
  q_capacity s' = q_capacity s /\ ooq_capacity s' = ooq_capacity s.
Proof.
  intros Hinv. unfold rx_read.
  destruct (read_loop _ s n []) as [[[s1 out] dead] err] eqn:E.
  assert (Hq : q_inv s) by (destruct Hinv as (_ & _ & _ & _ & _ & Hq & _); exact Hq).
  destruct (read_loop_spec _ _ _ _ _ _ _ _ Hq E) as (Hq1 & Hle & Hso & _ & Hstr).
  destruct Hso as (S1 & S2 & S3 & S4 & S5 & S6 & S7 & S8 & S9 & S10 & S11 & S12 & S13).
  assert (Hinv1 : rx_inv s1).
  { unfold rx_inv, q_inv in *. rewrite S1, S2, S3, S4, S5, S6, S8, S9.
    destruct Hinv as (I1 & I2 & I3 & I4 & I5 & I6 & I7 & I8 & I9).
    pose proof (sum_q_bytes_nonneg (q s1)). repeat split; try assumption; lia. }
  assert (Hcons : consumed s1 = consumed s) by (unfold consumed; congruence).
  assert (Hstream : err = false -> g_read s ++ out ++ pending s1 = stream s).
  { intro Herr. specialize (Hstr Herr). cbn [app] in Hstr. unfold stream, pending.
    rewrite S1, S2. f_equal.
    rewrite (app_assoc (current s)), <- Hstr. rewrite <- !app_assoc. reflexivity. }
  destruct err.
  { intro H; injection H as <- <- <-. split; [exact Hinv1|]. repeat split; try assumption; try congruence. }
  specialize (Hstream eq_refl).
  destruct out as [|o os].
  - assert (Hsame : stream s1 = stream s) by (unfold stream; rewrite S7; exact Hstream).
    destruct (is_eof s1); [|destruct dead]; intro H; injection H as <- <- <-;
      (split; [exact Hinv1|]); repeat split; try assumption; try congruence.
  - intro H; injection H as <- <- <-. rsimpl.
    split.
    { unfold rx_inv in *; rsimpl. exact Hinv1. }
    split; [unfold consumed in *; rsimpl; exact Hcons|].
    split.
    { split; [|split; [rewrite S7; reflexivity|discriminate]].
      unfold stream, pending in *; rsimpl. rewrite S7. rewrite <- app_assoc. exact Hstream. }
    repeat split; try assumption; try congruence.
Qed.

(* ------------------------------------------------------------------ whole step *)
Definition op_ok (o : rx_op) : Prop :=
  match o with OAddRemove _ _ off => 0 <= off | _ => True end.

Definition is_read_err (o : rx_out) : bool :=
  match o with OutRead RdErrMsg => true | _ => false end.

Definition bytes_returned (o : rx_out) : list Z :=
  match o with OutRead (RdOk bs) => bs | _ => [] end.

Definition seqs_consumed (o : rx_out) : Z :=
  match o with OutAdd (UarOk (ArConsumed n _)) => n | _ => 0 end.

Lemma rx_step_spec s o s' out w :
  rx_inv s -> op_ok o -> rx_step s o = (s', out, w) ->
  rx_inv s' /\ is_panic out = false /\
  consumed s' = consumed s + seqs_consumed out /\ 0 <= seqs_consumed out /\
  g_read s' = g_read s ++ bytes_returned out /\
  (is_read_err out = false -> exists ext, stream s' = stream s ++ ext) /\
  q_capacity s' = q_capacity s /\ ooq_capacity s' = ooq_capacity s.
Proof.
  intros Hinv Hok. destruct o as [k p off| |n| | |]; cbn [rx_step op_ok] in *.
  - destruct (rx_add_remove s k p off) as [[s1 r] w1] eqn:E.
    intro H; injection H as <- <- <-.
    destruct (rx_add_remove_spec _ _ _ _ _ _ _ Hinv Hok E)
      as (Hinv1 & (ar & -> & ext & Hstr & Har) & A1 & A2 & A3 & A4 & A5 & A6 & A7).
    split; [exact Hinv1|]. split; [reflexivity|].
    cbn [seqs_consumed bytes_returned is_read_err]. rewrite app_nil_r.
    destruct ar; (split; [|split; [|split; [exact A1|split; [intros _; exists ext; exact Hstr|split; [exact A4|exact A7]]]]]);
      try lia; try tauto.
  - destruct (rx_flush s) as [[s1 r] w1] eqn:E.
    intro H; injection H as <- <- <-.
    destruct (rx_flush_spec _ _ _ _ Hinv E)
      as (Hinv1 & (fb & -> & _) & F1 & F2 & F3 & F4 & F5 & F6 & F7 & F8 & F9 & F10 & F11).
    split; [exact Hinv1|]. split; [reflexivity|].
    cbn [seqs_consumed bytes_returned is_read_err]. rewrite app_nil_r.
    split; [lia|]. split; [lia|]. split; [exact F3|].
    split; [intros _; exists []; rewrite app_nil_r; exact F1|split; [exact F8|exact F11]].
  - destruct (reader_dropped s).
    { intro H; injection H as <- <- <-. split; [exact Hinv|]. split; [reflexivity|].
      cbn [seqs_consumed bytes_returned is_read_err]. rewrite app_nil_r.
      split; [lia|]. split; [lia|]. split; [reflexivity|].
      split; [intros _; exists []; rewrite app_nil_r; reflexivity|split; reflexivity]. }
    destruct (rx_read s n) as [[s1 r] w1] eqn:E.
    intro H; injection H as <- <- <-.
    destruct (rx_read_spec _ _ _ _ _ Hinv E) as (Hinv1 & Hcons & Hr & R1 & R2 & R3 & R4 & R5 & R6).
    split; [exact Hinv1|]. split; [reflexivity|].
    cbn [seqs_consumed]. split; [lia|]. split; [lia|].
    destruct r as [bytes| | | |]; cbn [bytes_returned is_read_err]; rewrite ?app_nil_r.
    + destruct Hr as (H1 & H2 & _). split; [exact H2|].
      split; [intros _; exists []; rewrite app_nil_r; exact H1|split; [exact R5|exact R6]].
    + destruct Hr as (H1 & H2). split; [exact H2|].
      split; [intros _; exists []; rewrite app_nil_r; exact H1|split; [exact R5|exact R6]].
    + (* RdErrMsg: stream claim is vacuous, g_read unchanged *)
      unfold rx_read in E.
      destruct (read_loop _ s n []) as [[[s2 out] dead] err] eqn:EL.
      assert (Hq : q_inv s) by (destruct Hinv as (_ & _ & _ & _ & _ & Hq & _); exact Hq).
      destruct (read_loop_spec _ _ _ _ _ _ _ _ Hq EL) as (_ & _ & Hso & _ & _).
      destruct Hso as (_ & _ & _ & _ & _ & _ & S7 & _).
      destruct err.
      * injection E as <- _. split; [exact S7|]. split; [intro Hf; discriminate|split; [exact R5|exact R6]].
      * destruct out; [destruct (is_eof s2); [|destruct dead]|]; discriminate.
    + destruct Hr as (H1 & H2). split; [exact H2|].
      split; [intros _; exists []; rewrite app_nil_r; exact H1|split; [exact R5|exact R6]].
    + destruct Hr as (H1 & H2). split; [exact H2|].
      split; [intros _; exists []; rewrite app_nil_r; exact H1|split; [exact R5|exact R6]].
  - destruct (reader_dropped s) eqn:Erd.
    { intro H; injection H as <- <- <-. split; [exact Hinv|]. split; [reflexivity|].
      cbn [seqs_consumed bytes_returned is_read_err]. rewrite app_nil_r.
      split; [lia|]. split; [lia|]. split; [reflexivity|].
      split; [intros _; exists []; rewrite app_nil_r; reflexivity|split; reflexivity]. }
    unfold rx_drop_reader. intro H; injection H as <- <- <-.
    split; [unfold rx_inv in *; rsimpl; exact Hinv|]. split; [reflexivity|].
    cbn [seqs_consumed bytes_returned is_read_err]. rewrite app_nil_r.
    split; [unfold consumed; rsimpl; lia|]. split; [lia|]. split; [reflexivity|].
    split; [intros _; exists []; rewrite app_nil_r; reflexivity|split; reflexivity].
  - unfold rx_mark_vsock_closed. destruct (vsock_closed s); intro H; injection H as <- <- <-;
    (split; [unfold rx_inv in *; rsimpl; exact Hinv|]); (split; [reflexivity|]);
    cbn [seqs_consumed bytes_returned is_read_err]; rewrite app_nil_r;
    (split; [unfold consumed; rsimpl; lia|]); (split; [lia|]); (split; [reflexivity|]);
    (split; [intros _; exists []; rewrite app_nil_r; reflexivity|split; reflexivity]).
  - unfold rx_enqueue_error. intro H; injection H as <- <- <-.
    split.
    { unfold rx_inv in *; rsimpl. rewrite sum_q_bytes_app. cbn [sum_q_bytes qitem_len_bytes].
      destruct Hinv as (I1 & I2 & I3 & I4 & I5 & I6 & I7 & I8 & I9). repeat split; try assumption; lia. }
    split; [reflexivity|].
    cbn [seqs_consumed bytes_returned is_read_err]. rewrite app_nil_r.
    split; [unfold consumed; rsimpl; lia|]. split; [lia|]. split; [reflexivity|].
    split; [|split; reflexivity]. intros _. exists []. rewrite app_nil_r.
    unfold stream, pending; rsimpl. rewrite q_bytes_app. cbn [q_bytes]. rewrite app_nil_r. reflexivity.
Qed.

(* ------------------------------------------------------------------ every reachable state *)
Lemma rx_run_inv : forall ops s,
  rx_inv s -> Forall op_ok ops -> rx_inv (rx_run s ops).
Proof.
  induction ops as [|o ops IH]; intros s Hinv Hok; cbn [rx_run]; [exact Hinv|].
  inversion Hok as [|? ? Ho Hrest]; subst.
  destruct (rx_step s o) as [[s1 out] w] eqn:E.
  destruct (rx_step_spec _ _ _ _ _ Hinv Ho E) as (Hinv1 & _).
  apply IH; assumption.
Qed.

Lemma rx_reachable_inv max_rx max_in ops :
  0 < max_in -> 0 < max_rx -> Forall op_ok ops -> rx_inv (rx_run (rx_build max_rx max_in) ops).
Proof. intros. apply rx_run_inv; [apply build_inv|]; assumption. Qed.

(* no panic anywhere in a trace *)
Lemma rx_trace_no_panic : forall ops s,
  rx_inv s -> Forall op_ok ops ->
  Forall (fun ob => is_panic (ob_out ob) = false) (rx_trace s ops).
Proof.
  induction ops as [|o ops IH]; intros s Hinv Hok; cbn [rx_trace]; [constructor|].
  inversion Hok as [|? ? Ho Hrest]; subst.
  destruct (rx_step s o) as [[s1 out] w] eqn:E.
  destruct (rx_step_spec _ _ _ _ _ Hinv Ho E) as (Hinv1 & Hnp & _).
  constructor; [cbn [observe ob_out]; exact Hnp|]. rewrite Hnp. apply IH; assumption.
Qed.

(* ------------------------------------------------------------------ C04 statements on states *)
(* the slot at filled_front is a hole: consumed is the HIGHEST in-order sequence number stored *)
Lemma twf_n_hole l : (Z.to_nat (twf_n l) < length l)%nat ->
  slot_is_default (nth (Z.to_nat (twf_n l)) l slot_default) = true.
Proof.
  induction l as [|x xs IH]; cbn [length]; intro H; [lia|].
  unfold twf_n in H |- *. rewrite twf_cons in H |- *.
  destruct (slot_is_default x) eqn:Ed; cbn [fst] in H |- *.
  - cbn. exact Ed.
  - pose proof (twf_n_nonneg xs) as Hn.
    replace (Z.to_nat (twf_n xs + 1)) with (S (Z.to_nat (twf_n xs))) in H |- * by lia.
    cbn [nth]. apply IH. lia.
Qed.

Lemma hole_at_filled_front s :
  rx_inv s -> filled_front s < ooq_capacity s ->
  slot_is_default (nth (Z.to_nat (filled_front s)) (ooq_data s) slot_default) = true.
Proof.
  intros (Hlen & Hcap & Hff & _) Hlt. rewrite Hff. apply twf_n_hole. lia.
Qed.

Lemma front_filled : forall l (i : nat), Z.of_nat i < twf_n l ->
  slot_is_default (nth i l slot_default) = false.
Proof.
  induction l as [|x xs IH]; intros i Hi; unfold twf_n in *.
  - cbn in Hi. lia.
  - rewrite twf_cons in Hi. destruct (slot_is_default x) eqn:Ed; cbn [fst] in Hi; [lia|].
    destruct i as [|i]; [exact Ed|]. cbn [nth]. apply IH. unfold twf_n in *. lia.
Qed.

Lemma front_slots_filled s (i : nat) :
  rx_inv s -> Z.of_nat i < filled_front s ->
  slot_is_default (nth i (ooq_data s) slot_default) = false.
Proof. intros (_ & _ & Hff & _) Hi. apply front_filled. rewrite <- Hff. exact Hi. Qed.

(* SACK bit i  <->  slot filled_front+1+i holds a packet *)
Lemma sack_bits_nth : forall (n i : nat) l, (i < n)%nat ->
  nth i (sack_bits l n) false = negb (slot_is_default (nth i l slot_default)).
Proof.
  induction n as [|n IH]; intros i l Hi; [lia|].
  destruct l as [|x xs]; cbn [sack_bits].
  - destruct i as [|i]; cbn [nth]; [reflexivity|].
    rewrite IH by lia. destruct i; reflexivity.
  - destruct i as [|i]; cbn [nth]; [reflexivity|]. apply IH. lia.
Qed.

Lemma nth_skipn_add {A} (d : A) : forall (k i : nat) (l : list A),
  nth i (skipn k l) d = nth (k + i) l d.
Proof.
  induction k as [|k IH]; intros i l; [reflexivity|].
  destruct l as [|x xs]; cbn [skipn Nat.add nth]; [destruct i; reflexivity|apply IH].
Qed.

Lemma sack_bits_length n l : length (sack_bits l n) = n.
Proof. revert l; induction n as [|n IH]; intros [|x xs]; cbn [sack_bits length]; auto. Qed.

Lemma sack_exact s bits (i : nat) :
  selective_ack s = Some bits -> (i < 64)%nat ->
  length bits = 64%nat /\
  nth i bits false =
  negb (slot_is_default (nth (Z.to_nat (filled_front s + 1) + i) (ooq_data s) slot_default)).
Proof.
  unfold selective_ack. destruct (ooq_is_empty s); [discriminate|].
  destruct (_ <=? _); [discriminate|]. intro H.
  apply (f_equal (fun o => match o with Some b => b | None => [] end)) in H.
  cbv beta iota in H. subst bits. intro Hi.
  split; [apply sack_bits_length|].
  rewrite sack_bits_nth by exact Hi. rewrite nth_skipn_add. reflexivity.
Qed.

Lemma sack_none_iff s :
  rx_inv s ->
  (selective_ack s = None <->
   (filled_front s = ooq_len s \/ ooq_capacity s <= filled_front s + 1)).
Proof.
  intros (Hlen & _). unfold selective_ack, ooq_is_empty.
  destruct (Z.eqb_spec (filled_front s) (ooq_len s)) as [He|Hne].
  - split; auto.
  - destruct (Z.leb_spec (Z.of_nat (length (ooq_data s))) (filled_front s + 1)) as [Hl|Hl].
    + split; [intros _; right; lia|reflexivity].
    + split; [discriminate|]. intros [H|H]; [contradiction|lia].
Qed.

(* the advertised window never exceeds the free space of the configured receive buffer *)
Lemma window_le_free s :
  rx_inv s ->
  0 <= remaining_rx_window s <= Z.max 0 (q_capacity s - q_len_bytes s - ooq_len_bytes s).
Proof.
  intros (_ & _ & _ & _ & Hlb & _ & _ & Hlast & _). unfold remaining_rx_window, sat_sub.
  pose proof (sum_slot_bytes_nonneg (ooq_data s)).
  destruct (reader_dropped s); lia.
Qed.

(* accounting: what is stored never exceeds the slot capacity, byte counters are exact *)
Lemma accounting s :
  rx_inv s ->
  0 <= filled_front s <= ooq_len s /\ ooq_len s <= ooq_capacity s /\
  ooq_len s = count_nondefault (ooq_data s) /\
  ooq_len_bytes s = sum_slot_bytes (ooq_data s) /\
  q_len_bytes s = sum_q_bytes (q s) /\ 0 <= q_len_bytes s <= q_capacity s.
Proof.
  intro Hinv. pose proof (inv_ff_bounds s Hinv) as Hb.
  destruct Hinv as (_ & _ & _ & Hl & Hlb & Hq & Hqc & _).
  pose proof (sum_q_bytes_nonneg (q s)). repeat split; try lia; assumption.
Qed.

(* the bytes handed to the reader are always a prefix of the in-order stream, and the
   in-order stream only ever grows by appending (nothing acknowledged is discarded) *)
Lemma g_read_prefix_stream s : exists rest, stream s = g_read s ++ rest.
Proof. exists (pending s). reflexivity. Qed.

Definition no_read_err (l : list rx_obs) : Prop :=
  Forall (fun ob => is_read_err (ob_out ob) = false) l.

Lemma rx_run_stream_extends : forall ops s,
  rx_inv s -> Forall op_ok ops -> no_read_err (rx_trace s ops) ->
  exists ext, stream (rx_run s ops) = stream s ++ ext.
Proof.
  induction ops as [|o ops IH]; intros s Hinv Hok Hne; cbn [rx_run rx_trace] in *.
  { exists []. rewrite app_nil_r. reflexivity. }
  inversion Hok as [|? ? Ho Hrest]; subst.
  destruct (rx_step s o) as [[s1 out] w] eqn:E.
  destruct (rx_step_spec _ _ _ _ _ Hinv Ho E) as (Hinv1 & Hnp & _ & _ & _ & Hstr & _).
  rewrite Hnp in Hne. inversion Hne as [|? ? Hhead Htail]; subst.
  cbn [observe ob_out] in Hhead. destruct (Hstr Hhead) as (e1 & He1).
  destruct (IH s1 Hinv1 Hrest Htail) as (e2 & He2).
  exists (e1 ++ e2). rewrite He2, He1, app_assoc. reflexivity.
Qed.

(* ack number monotone *)
Lemma rx_run_consumed_mono : forall ops s,
  rx_inv s -> Forall op_ok ops -> consumed s <= consumed (rx_run s ops).
Proof.
  induction ops as [|o ops IH]; intros s Hinv Hok; cbn [rx_run]; [lia|].
  inversion Hok as [|? ? Ho Hrest]; subst.
  destruct (rx_step s o) as [[s1 out] w] eqn:E.
  destruct (rx_step_spec _ _ _ _ _ Hinv Ho E) as (Hinv1 & _ & Hc & Hn & _).
  specialize (IH s1 Hinv1 Hrest). lia.
Qed.

Example rx_example :
  let s := rx_run (rx_build 100 10)
             [OAddRemove KData [1;2;3] 0; OAddRemove KData [7;8] 2; OFlush; ORead 2] in
  consumed s = 1 /\ g_read s = [1;2] /\ stream s = [1;2;3] /\
  selective_ack s <> None /\ remaining_rx_window s = 95.
Proof. vm_compute. repeat split; discriminate. Qed.

(* ------------------------------------------------------------------ c04_ok holds of every model trace *)
Lemma bits_eqb_refl l : bits_eqb l l = true.
Proof. induction l as [|x xs IH]; cbn [bits_eqb]; [reflexivity|]. rewrite IH. destruct x; reflexivity. Qed.

Lemma sack_is_occupancy s bits : selective_ack s = Some bits -> bits = occupancy s.
Proof.
  intro H. apply (nth_ext _ _ false false).
  - destruct (sack_exact s bits 0 H) as [Hl _]; [lia|]. rewrite Hl. unfold occupancy.
    rewrite map_length, seq_length. reflexivity.
  - intros i Hi. destruct (sack_exact s bits 0 H) as [Hl _]; [lia|]. rewrite Hl in Hi.
    destruct (sack_exact s bits i H Hi) as [_ Hn]. rewrite Hn. unfold occupancy.
    rewrite (nth_indep _ false (negb (slot_is_default (nth (Z.to_nat (filled_front s + 1) + 0) (ooq_data s) slot_default))))
      by (rewrite map_length, seq_length; exact Hi).
    rewrite (map_nth (fun i0 => negb (slot_is_default (nth (Z.to_nat (filled_front s + 1) + i0) (ooq_data s) slot_default))) (seq 0 64) 0%nat i).
    rewrite seq_nth by exact Hi. reflexivity.
Qed.

Lemma ob_ok_of_inv s out w :
  rx_inv s -> is_panic out = false ->
  c04_ob_ok (q_capacity s) (ooq_capacity s) (observe s out w) = true.
Proof.
  intros Hinv Hnp.
  pose proof (window_le_free s Hinv) as Hw.
  destruct (accounting s Hinv) as (A1 & A2 & _ & _ & _ & A6).
  assert (Hsack : (let none_expected := (filled_front s =? ooq_len s) || (ooq_capacity s <=? filled_front s + 1) in
     match selective_ack s with
     | Some bits => negb none_expected && bits_eqb bits (occupancy s)
     | None => none_expected
     end) = true).
  { cbv zeta. destruct (selective_ack s) as [bits|] eqn:Es.
    - rewrite (sack_is_occupancy _ _ Es), bits_eqb_refl, andb_true_r.
      destruct ((filled_front s =? ooq_len s) || (ooq_capacity s <=? filled_front s + 1)) eqn:E; [|reflexivity].
      exfalso. pose proof (proj2 (sack_none_iff s Hinv)) as Hn.
      rewrite Hn in Es; [discriminate|]. apply orb_true_iff in E. lia.
    - apply (proj1 (sack_none_iff s Hinv)) in Es. apply orb_true_iff. lia. }
  unfold c04_ob_ok, observe; cbn [ob_out ob_window ob_qbytes ob_len_bytes ob_ff
    ob_len ob_sack ob_occ ob_asm_empty ob_rd].
  rewrite !andb_true_iff. repeat split; try lia.
  - rewrite Hnp. reflexivity.
  - exact Hsack.
  - unfold ooq_is_empty. apply eqb_reflx.
  - unfold remaining_rx_window. destruct (reader_dropped s); reflexivity.
Qed.

Lemma trace_ok_gen : forall ops s qcap ocap,
  rx_inv s -> Forall op_ok ops -> q_capacity s = qcap -> ooq_capacity s = ocap ->
  forallb (c04_ob_ok qcap ocap) (rx_trace s ops) = true.
Proof.
  induction ops as [|o ops IH]; intros s qcap ocap Hinv Hok Hq Ho; cbn [rx_trace forallb]; [reflexivity|].
  inversion Hok as [|? ? Hop Hrest]; subst.
  destruct (rx_step s o) as [[s1 out] w] eqn:E.
  destruct (rx_step_spec _ _ _ _ _ Hinv Hop E) as (Hinv1 & Hnp & _ & _ & _ & _ & Hqc & Hoc).
  cbn [forallb]. rewrite <- Hqc, <- Hoc. rewrite (ob_ok_of_inv s1 out w Hinv1 Hnp). cbn [andb].
  rewrite Hnp. apply IH; auto.
Qed.

Lemma model_trace_c04_ok max_rx max_in ops :
  0 < max_in -> 0 < max_rx -> Forall op_ok ops ->
  c04_ok max_rx max_in (rx_trace (rx_build max_rx max_in) ops) = true.
Proof.
  intros Hi Hr Hok. unfold c04_ok. apply trace_ok_gen; auto using build_inv.
Qed.

(* D8 repaired: a flush that hands at least one item (bytes OR the EOF marker) to the user queue
   fires the reader's waker when one is registered *)
Lemma flush_loop_count : forall fuel s w fb fp s' w' fb' fp',
  flush_loop fuel s w fb fp = Some (s', w', fb', fp') ->
  Z.of_nat (length (q s')) = Z.of_nat (length (q s)) + (fp' - fp) /\ fp <= fp' /\
  reader_waker s' = reader_waker s.
Proof.
  induction fuel as [|fuel IH]; intros s w fb fp s' w' fb' fp'; cbn [flush_loop].
  - intro H; injection H as <- _ _ <-. repeat split; lia.
  - destruct (filled_front s =? 0); [intro H; injection H as <- _ _ <-; repeat split; lia|].
    destruct (ooq_data s) as [|m rest]; [discriminate|].
    destruct (w <? _); [intro H; injection H as <- _ _ <-; repeat split; lia|].
    destruct (reader_dropped s); [intro H; injection H as <- _ _ <-; repeat split; lia|].
    destruct (_ <? _); [discriminate|].
    intro H. apply IH in H. destruct H as (H1 & H2 & H3).
    unfold pop_front_state in *; cbn [q reader_waker] in *. rewrite app_length in H1. cbn [length] in H1.
    repeat split; [lia|lia|exact H3].
Qed.

Lemma rx_flush_wakes_reader s s' fb w :
  rx_flush s = (s', FlOk fb, w) -> reader_waker s = true ->
  (length (q s) < length (q s'))%nat ->
  w = [WakeReader] /\ reader_waker s' = false.
Proof.
  unfold rx_flush. intros H Hw Hlen.
  set (s0 := set_wakers s _ (reader_waker s) (last_remaining_rx_window s)) in *.
  destruct (flush_loop _ s0 _ 0 0) as [[[[s1 w1] fb1] fp1]|] eqn:E; [|discriminate].
  destruct (flush_loop_count _ _ _ _ _ _ _ _ _ E) as (H1 & H2 & H3).
  unfold s0 in H1, H3; cbn [set_wakers q reader_waker] in H1, H3.
  destruct (Z.ltb_spec 0 fp1) as [Hp|Hp].
  - injection H as <- _ <-. rewrite H3, Hw. cbn [set_wakers reader_waker]. auto.
  - injection H as <- _ _. cbn [set_wakers q] in Hlen. lia.
Qed.

(* M2: src/stream_rx.rs — OutOfOrderQueue, MsgQueue, UserRx (dispatcher side) and
   UtpStreamReadHalf (user side), as one state machine under arbitrary op lists.
   Model only; proofs are in Rx_Proofs.v.  Wakers are modelled as "registered" flags
   plus emitted wake events. *)
From Utp Require Import Base.Prelude.

(* OoqMessage: Payload(Vec<u8>) | Eof ; Default = Payload(empty) *)
Inductive slot := SPayload (bs : list Z) | SEof.
Definition slot_default : slot := SPayload [].
Definition slot_len_bytes (s : slot) : Z :=
  match s with SPayload bs => Z.of_nat (length bs) | SEof => 0 end.
Definition slot_is_default (s : slot) : bool :=
  match s with SPayload [] => true | _ => false end.

(* UserRxMessage *)
Inductive qitem := QPayload (bs : list Z) | QEof | QError.
Definition qitem_len_bytes (q : qitem) : Z :=
  match q with QPayload bs => Z.of_nat (length bs) | _ => 0 end.

Record rx := {
  (* OutOfOrderQueue *)
  ooq_data : list slot;
  filled_front : Z;
  ooq_len : Z;
  ooq_len_bytes : Z;
  ooq_capacity : Z;
  (* MsgQueue inside the shared lock *)
  q : list qitem;
  q_len_bytes : Z;
  q_capacity : Z;
  reader_dropped : bool;
  vsock_closed : bool;
  disp_waker : bool;      (* dispatcher_waker.is_some() *)
  reader_waker : bool;    (* reader_waker.is_some() *)
  (* UserRx *)
  max_incoming_payload : Z;
  last_remaining_rx_window : Z;
  (* UtpStreamReadHalf *)
  current : list Z;       (* unread rest of the message being read; [] = None *)
  is_eof : bool;
  (* ghost state for the theorems (erased before comparison with the impl) *)
  g_base : Z;             (* slots ever popped from the front of the ooq *)
  g_read : list Z;        (* every byte ever returned by Read, in order *)
}.

Definition set_ooq (s : rx) data ff len lb : rx :=
  {| ooq_data := data; filled_front := ff; ooq_len := len; ooq_len_bytes := lb;
     ooq_capacity := ooq_capacity s; q := q s; q_len_bytes := q_len_bytes s;
     q_capacity := q_capacity s; reader_dropped := reader_dropped s;
     vsock_closed := vsock_closed s; disp_waker := disp_waker s; reader_waker := reader_waker s;
     max_incoming_payload := max_incoming_payload s;
     last_remaining_rx_window := last_remaining_rx_window s;
     current := current s; is_eof := is_eof s; g_base := g_base s; g_read := g_read s |}.

(* UserRx::build(max_rx_bytes, max_incoming_payload) *)
Definition rx_build (max_rx_bytes max_incoming : Z) : rx :=
  let c0 := max_rx_bytes / max_incoming in
  let cap := if c0 =? 0 then 64 else c0 in
  {| ooq_data := repeat slot_default (Z.to_nat cap); filled_front := 0; ooq_len := 0;
     ooq_len_bytes := 0; ooq_capacity := cap; q := []; q_len_bytes := 0;
     q_capacity := max_rx_bytes; reader_dropped := false; vsock_closed := false;
     disp_waker := false; reader_waker := false; max_incoming_payload := max_incoming;
     last_remaining_rx_window := max_rx_bytes; current := []; is_eof := false;
     g_base := 0; g_read := [] |}.

(* ---- wake events ---- *)
Inductive wake := WakeDispatcher | WakeReader.

(* ---- observers ---- *)
Definition ooq_is_empty (s : rx) : bool := filled_front s =? ooq_len s.
Definition ooq_is_full (s : rx) : bool := ooq_len s =? ooq_capacity s.
Definition q_window (s : rx) : Z := sat_sub (q_capacity s) (q_len_bytes s).

Definition remaining_rx_window (s : rx) : Z :=
  if reader_dropped s then 0 else sat_sub (last_remaining_rx_window s) (ooq_len_bytes s).

Fixpoint sum_slot_bytes (l : list slot) : Z :=
  match l with [] => 0 | x :: xs => slot_len_bytes x + sum_slot_bytes xs end.

Definition filled_front_bytes (s : rx) : Z :=
  sum_slot_bytes (firstn (Z.to_nat (filled_front s)) (ooq_data s)).

(* SelectiveAck::new over the indices (relative to start) of non-default slots, < 64.
   Result: the 64 bits, LSB-first, as a list of bools of length 64. *)
Definition RX_SACK_DEPTH : Z := 64.

Fixpoint sack_bits (l : list slot) (n : nat) : list bool :=
  match n with
  | O => []
  | S n' => match l with
            | [] => false :: sack_bits [] n'
            | x :: xs => negb (slot_is_default x) :: sack_bits xs n'
            end
  end.

Definition selective_ack (s : rx) : option (list bool) :=
  if ooq_is_empty s then None
  else
    let start := filled_front s + 1 in
    if Z.of_nat (length (ooq_data s)) <=? start then None
    else Some (sack_bits (skipn (Z.to_nat start) (ooq_data s)) 64).

(* ---- OutOfOrderQueue::add_remove ---- *)
Inductive msg_kind := KData | KFin | KOther.
Inductive add_result :=
| ArConsumed (sequence_numbers bytes : Z)
| ArAlreadyPresent
| ArUnavailable
| ArErrZeroPayload
| ArErrBugInvalidMessage
| ArErrBugMissingSlot.

Fixpoint take_while_filled (l : list slot) : Z * Z :=
  match l with
  | [] => (0, 0)
  | x :: xs => if slot_is_default x then (0, 0)
               else let '(n, b) := take_while_filled xs in (n + 1, b + slot_len_bytes x)
  end.

Fixpoint set_nth {A} (l : list A) (n : nat) (v : A) : list A :=
  match l, n with
  | [], _ => []
  | _ :: xs, O => v :: xs
  | x :: xs, S n' => x :: set_nth xs n' v
  end.

Definition ooq_add_remove (s : rx) (k : msg_kind) (payload : list Z) (offset : Z) : rx * add_result :=
  if ooq_is_full s then (s, ArUnavailable)
  else
    let eff := offset + filled_front s in
    if Z.of_nat (length (ooq_data s)) <=? eff then (s, ArUnavailable)
    else
      match (match k, payload with
             | KData, [] => inr ArErrZeroPayload
             | KData, _ => inl (SPayload payload)
             | KFin, _ => inl SEof
             | KOther, _ => inr ArErrBugInvalidMessage
             end) with
      | inr e => (s, e)
      | inl m =>
          match nth_error (ooq_data s) (Z.to_nat eff) with
          | None => (s, ArErrBugMissingSlot)
          | Some old =>
              if negb (slot_is_default old) then (s, ArAlreadyPresent)
              else
                let data' := set_nth (ooq_data s) (Z.to_nat eff) m in
                let '(n, b) := take_while_filled (skipn (Z.to_nat (filled_front s)) data') in
                (set_ooq s data' (filled_front s + n) (ooq_len s + 1)
                         (ooq_len_bytes s + slot_len_bytes m),
                 ArConsumed n b)
          end
      end.

(* ---- UserRx::flush ---- *)
Inductive flush_result := FlOk (flushed_bytes : Z) | FlPanic.

Definition qitem_of_slot (m : slot) : qitem :=
  match m with SPayload bs => QPayload bs | SEof => QEof end.

(* state after send_front_if_fits moved the front slot `m` into the user queue *)
Definition pop_front_state (s : rx) (m : slot) (rest : list slot) : rx :=
  {| ooq_data := rest ++ [slot_default]; filled_front := filled_front s - 1;
     ooq_len := ooq_len s - 1; ooq_len_bytes := ooq_len_bytes s - slot_len_bytes m;
     ooq_capacity := ooq_capacity s;
     q := q s ++ [qitem_of_slot m]; q_len_bytes := q_len_bytes s + slot_len_bytes m;
     q_capacity := q_capacity s; reader_dropped := reader_dropped s;
     vsock_closed := vsock_closed s; disp_waker := disp_waker s;
     reader_waker := reader_waker s;
     max_incoming_payload := max_incoming_payload s;
     last_remaining_rx_window := last_remaining_rx_window s;
     current := current s; is_eof := is_eof s;
     g_base := g_base s + 1; g_read := g_read s |}.

(* the while-let loop around send_front_if_fits; fuel = filled_front at entry.
   Returns (state, remaining_window, flushed_bytes, flushed_packets) or None = unwrap panic. *)
Fixpoint flush_loop (fuel : nat) (s : rx) (window flushed_b flushed_p : Z)
  : option (rx * Z * Z * Z) :=
  match fuel with
  | O => Some (s, window, flushed_b, flushed_p)
  | S fuel' =>
      if filled_front s =? 0 then Some (s, window, flushed_b, flushed_p)
      else
        match ooq_data s with
        | [] => None  (* data[0] index panic *)
        | m :: rest =>
            let len := slot_len_bytes m in
            if window <? len then Some (s, window, flushed_b, flushed_p)
            else if reader_dropped s then Some (s, window, flushed_b, flushed_p)
            else if q_capacity s - q_len_bytes s <? len then None  (* try_push_back().unwrap() *)
            else
              let s1 := pop_front_state s m rest in
              flush_loop fuel' s1 (window - len) (flushed_b + len) (flushed_p + 1)
        end
  end.

Definition set_wakers (s : rx) (dw rw : bool) (lrw : Z) : rx :=
  {| ooq_data := ooq_data s; filled_front := filled_front s; ooq_len := ooq_len s;
     ooq_len_bytes := ooq_len_bytes s; ooq_capacity := ooq_capacity s; q := q s;
     q_len_bytes := q_len_bytes s; q_capacity := q_capacity s;
     reader_dropped := reader_dropped s; vsock_closed := vsock_closed s;
     disp_waker := dw; reader_waker := rw;
     max_incoming_payload := max_incoming_payload s; last_remaining_rx_window := lrw;
     current := current s; is_eof := is_eof s; g_base := g_base s; g_read := g_read s |}.

Definition rx_flush (s : rx) : rx * flush_result * list wake :=
  let ffb := filled_front_bytes s in
  let remaining_window := q_window s in
  let dw := if sat_sub remaining_window ffb <? max_incoming_payload s then true else disp_waker s in
  let s0 := set_wakers s dw (reader_waker s) (last_remaining_rx_window s) in
  match flush_loop (Z.to_nat (filled_front s0)) s0 remaining_window 0 0 with
  | None => (s0, FlPanic, [])
  | Some (s1, window, fb, fp) =>
      (* flushed_packets > 0: an EOF flushed alone carries no bytes (repair of D8) *)
      if 0 <? fp then
        let wakes := if reader_waker s1 then [WakeReader] else [] in
        (set_wakers s1 (disp_waker s1) false window, FlOk fb, wakes)
      else
        (set_wakers s1 (disp_waker s1) (reader_waker s1) window, FlOk fb, [])
  end.

(* ---- UserRx::add_remove ---- *)
Inductive user_add_result := UarOk (r : add_result) | UarPanic.

Definition rx_add_remove (s : rx) (k : msg_kind) (payload : list Z) (offset : Z)
  : rx * user_add_result * list wake :=
  let '(s1, r) := ooq_add_remove s k payload offset in
  match r with
  | ArConsumed n b =>
      if (0 <? n) && ooq_is_full s1 then
        let '(s2, fr, w) := rx_flush s1 in
        match fr with
        | FlOk _ => (s2, UarOk r, w)
        | FlPanic => (s2, UarPanic, w)
        end
      else (s1, UarOk r, [])
  | _ => (s1, UarOk r, [])
  end.

(* ---- other dispatcher-side methods ---- *)
Definition set_flags (s : rx) (rd vc dw rw : bool) (q' : list qitem) : rx :=
  {| ooq_data := ooq_data s; filled_front := filled_front s; ooq_len := ooq_len s;
     ooq_len_bytes := ooq_len_bytes s; ooq_capacity := ooq_capacity s; q := q';
     q_len_bytes := q_len_bytes s; q_capacity := q_capacity s;
     reader_dropped := rd; vsock_closed := vc; disp_waker := dw; reader_waker := rw;
     max_incoming_payload := max_incoming_payload s;
     last_remaining_rx_window := last_remaining_rx_window s;
     current := current s; is_eof := is_eof s; g_base := g_base s; g_read := g_read s |}.

Definition rx_mark_vsock_closed (s : rx) : rx * list wake :=
  if vsock_closed s then (s, [])
  else (set_flags s (reader_dropped s) true (disp_waker s) false (q s),
        if reader_waker s then [WakeReader] else []).

Definition rx_enqueue_error (s : rx) : rx * list wake :=
  (set_flags s (reader_dropped s) (vsock_closed s) (disp_waker s) false (q s ++ [QError]),
   if reader_waker s then [WakeReader] else []).

(* Drop for UtpStreamReadHalf *)
Definition rx_drop_reader (s : rx) : rx * list wake :=
  (set_flags s true (vsock_closed s) false (reader_waker s) (q s),
   if disp_waker s then [WakeDispatcher] else []).

(* ---- UtpStreamReadHalf::poll_read with one buffer of n bytes ---- *)
Inductive read_result :=
| RdOk (bytes : list Z)     (* Ready(Ok(len>0)) with the bytes copied *)
| RdEof                     (* Ready(Ok(0)) *)
| RdErrMsg                  (* Ready(Err(queued error message)) *)
| RdErrDead                 (* Ready(Err("dispatcher dead")) *)
| RdPending.

Record rd_acc := { ra_state : rx; ra_out : list Z; ra_dead : bool; ra_err : bool }.

(* One loop iteration consumes either buffer room, a queue item, or stops; fuel bounds it. *)
Fixpoint read_loop (fuel : nat) (s : rx) (room : Z) (out : list Z)
  : rx * list Z * bool (*dead*) * bool (*err*) :=
  match fuel with
  | O => (s, out, false, false)
  | S fuel' =>
      if room <=? 0 then (s, out, false, false)
      else
        match current s with
        | _ :: _ =>
            let n := Z.to_nat (Z.min room (Z.of_nat (length (current s)))) in
            let chunk := firstn n (current s) in
            let rest := skipn n (current s) in
            let s1 := {| ooq_data := ooq_data s; filled_front := filled_front s;
                         ooq_len := ooq_len s; ooq_len_bytes := ooq_len_bytes s;
                         ooq_capacity := ooq_capacity s; q := q s; q_len_bytes := q_len_bytes s;
                         q_capacity := q_capacity s; reader_dropped := reader_dropped s;
                         vsock_closed := vsock_closed s; disp_waker := disp_waker s;
                         reader_waker := reader_waker s;
                         max_incoming_payload := max_incoming_payload s;
                         last_remaining_rx_window := last_remaining_rx_window s;
                         current := rest; is_eof := is_eof s; g_base := g_base s;
                         g_read := g_read s |} in
            read_loop fuel' s1 (room - Z.of_nat n) (out ++ chunk)
        | [] =>
            if is_eof s then (s, out, false, false)
            else
              match q s with
              | [] =>
                  if vsock_closed s then (s, out, true, false)
                  else (set_flags s (reader_dropped s) (vsock_closed s) (disp_waker s) true (q s),
                        out, false, false)
              | item :: qrest =>
                  let s1 cur eof :=
                    {| ooq_data := ooq_data s; filled_front := filled_front s;
                       ooq_len := ooq_len s; ooq_len_bytes := ooq_len_bytes s;
                       ooq_capacity := ooq_capacity s; q := qrest;
                       q_len_bytes := q_len_bytes s - qitem_len_bytes item;
                       q_capacity := q_capacity s; reader_dropped := reader_dropped s;
                       vsock_closed := vsock_closed s; disp_waker := disp_waker s;
                       reader_waker := reader_waker s;
                       max_incoming_payload := max_incoming_payload s;
                       last_remaining_rx_window := last_remaining_rx_window s;
                       current := cur; is_eof := eof; g_base := g_base s;
                       g_read := g_read s |} in
                  match item with
                  | QEof => (s1 [] true, out, false, false)
                  | QPayload bs => read_loop fuel' (s1 bs false) room out
                  | QError => (s1 [] (is_eof s), out, false, true)
                  end
              end
        end
  end.

Definition rx_read (s : rx) (n : Z) : rx * read_result * list wake :=
  (* enough fuel: every iteration either pops a queue item or uses buffer room *)
  let fuel := (2 * length (q s) + 4)%nat in
  let '(s1, out, dead, err) := read_loop fuel s n [] in
  if err then (s1, RdErrMsg, [])
  else
    match out with
    | _ :: _ =>
        let s2 := {| ooq_data := ooq_data s1; filled_front := filled_front s1;
                     ooq_len := ooq_len s1; ooq_len_bytes := ooq_len_bytes s1;
                     ooq_capacity := ooq_capacity s1; q := q s1; q_len_bytes := q_len_bytes s1;
                     q_capacity := q_capacity s1; reader_dropped := reader_dropped s1;
                     vsock_closed := vsock_closed s1; disp_waker := false;
                     reader_waker := reader_waker s1;
                     max_incoming_payload := max_incoming_payload s1;
                     last_remaining_rx_window := last_remaining_rx_window s1;
                     current := current s1; is_eof := is_eof s1; g_base := g_base s1;
                     g_read := g_read s1 ++ out |} in
        (s2, RdOk out, if disp_waker s1 then [WakeDispatcher] else [])
    | [] =>
        if is_eof s1 then (s1, RdEof, [])
        else if dead then (s1, RdErrDead, [])
        else (s1, RdPending, [])
    end.

(* ---- the op alphabet ---- *)
Inductive rx_op :=
| OAddRemove (k : msg_kind) (payload : list Z) (offset : Z)
| OFlush
| ORead (n : Z)
| ODropReader
| OMarkClosed
| OEnqueueError.

Inductive rx_out :=
| OutAdd (r : user_add_result)
| OutFlush (r : flush_result)
| OutRead (r : read_result)
| OutUnit.

Definition rx_step (s : rx) (o : rx_op) : rx * rx_out * list wake :=
  match o with
  | OAddRemove k p off => let '(s', r, w) := rx_add_remove s k p off in (s', OutAdd r, w)
  | OFlush => let '(s', r, w) := rx_flush s in (s', OutFlush r, w)
  | ORead n =>
      (* a dropped reader cannot be polled *)
      if reader_dropped s then (s, OutUnit, [])
      else let '(s', r, w) := rx_read s n in (s', OutRead r, w)
  | ODropReader => if reader_dropped s then (s, OutUnit, [])
                   else let '(s', w) := rx_drop_reader s in (s', OutUnit, w)
  | OMarkClosed => let '(s', w) := rx_mark_vsock_closed s in (s', OutUnit, w)
  | OEnqueueError => let '(s', w) := rx_enqueue_error s in (s', OutUnit, w)
  end.

Definition is_panic (o : rx_out) : bool :=
  match o with OutAdd UarPanic | OutFlush FlPanic => true | _ => false end.

Fixpoint rx_run (s : rx) (ops : list rx_op) : rx :=
  match ops with
  | [] => s
  | o :: rest => let '(s', _, _) := rx_step s o in rx_run s' rest
  end.

(* observation after each op, compared with the implementation *)
Record rx_obs := {
  ob_out : rx_out; ob_wakes : list wake;
  ob_window : Z; ob_sack : option (list bool); ob_asm_empty : bool;
  ob_ff : Z; ob_len : Z; ob_len_bytes : Z; ob_qbytes : Z;
  ob_dw : bool; ob_rw : bool; ob_rd : bool;
  ob_occ : list bool;   (* occupancy of slots filled_front+1 .. filled_front+64, read from the slots *)
}.

Definition occupancy (s : rx) : list bool :=
  map (fun i => negb (slot_is_default
                        (nth (Z.to_nat (filled_front s + 1) + i) (ooq_data s) slot_default)))
      (seq 0 64).

Definition observe (s : rx) (out : rx_out) (w : list wake) : rx_obs :=
  {| ob_out := out; ob_wakes := w; ob_window := remaining_rx_window s;
     ob_sack := selective_ack s; ob_asm_empty := ooq_is_empty s;
     ob_ff := filled_front s; ob_len := ooq_len s; ob_len_bytes := ooq_len_bytes s;
     ob_qbytes := q_len_bytes s; ob_dw := disp_waker s; ob_rw := reader_waker s;
     ob_rd := reader_dropped s; ob_occ := occupancy s |}.

Fixpoint rx_trace (s : rx) (ops : list rx_op) : list rx_obs :=
  match ops with
  | [] => []
  | o :: rest =>
      let '(s', out, w) := rx_step s o in
      observe s' out w :: (if is_panic out then [] else rx_trace s' rest)
  end.

(* ---- C04 as a boolean predicate over one observation (extracted and evaluated on the
   implementation's observations; proved true of every model observation in Rx_Proofs.v) ---- *)
Fixpoint bits_eqb (a b : list bool) : bool :=
  match a, b with
  | [], [] => true
  | x :: xs, y :: ys => Bool.eqb x y && bits_eqb xs ys
  | _, _ => false
  end.

Definition c04_ob_ok (qcap ocap : Z) (o : rx_obs) : bool :=
  negb (is_panic (ob_out o)) &&
  (0 <=? ob_window o) &&
  (ob_window o <=? Z.max 0 (qcap - ob_qbytes o - ob_len_bytes o)) &&
  (0 <=? ob_ff o) && (ob_ff o <=? ob_len o) && (ob_len o <=? ocap) &&
  (0 <=? ob_qbytes o) && (ob_qbytes o <=? qcap) &&
  (let none_expected := (ob_ff o =? ob_len o) || (ocap <=? ob_ff o + 1) in
   match ob_sack o with
   | None => none_expected
   | Some bits => negb none_expected && bits_eqb bits (ob_occ o)
   end) &&
  Bool.eqb (ob_asm_empty o) (ob_ff o =? ob_len o) &&
  (if ob_rd o then ob_window o =? 0 else true).

Definition build_ooq_capacity (max_rx_bytes max_incoming : Z) : Z :=
  let c0 := max_rx_bytes / max_incoming in if c0 =? 0 then 64 else c0.

Definition c04_ok (max_rx_bytes max_incoming : Z) (obs : list rx_obs) : bool :=
  forallb (c04_ob_ok max_rx_bytes (build_ooq_capacity max_rx_bytes max_incoming)) obs.

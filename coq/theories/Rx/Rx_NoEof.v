(* The reassembly queue never holds an EOF marker at or beyond filled_front, as long as a FIN is only ever
   added in sequence (offset 0) - which is how the connection uses it (the state table of
   process_incoming_message honours a FIN only when seq_nr = last_consumed + 1).  Consequence: the slots
   an ST_DATA makes consumable all hold at least one byte, so  sequence_numbers <= bytes  in every
   AddResult::Consumed an ST_DATA produces.  (Behind the exact-distance form of c07_pre.) *)
From Utp Require Import Base.Prelude Rx.Rx Rx.Rx_Proofs Rx.Rx_Slots.

Definition ne (r : rx) : Prop :=
  0 <= filled_front r /\
  forall (i : nat) x, filled_front r <= Z.of_nat i -> nth_error (ooq_data r) i = Some x -> x <> SEof.

Lemma ne_build a b : ne (rx_build a b).
Proof.
  unfold ne, rx_build; cbn [filled_front ooq_data]. split; [lia|].
  intros i x _ H. apply nth_error_repeat in H. subst x. discriminate.
Qed.

(* everything the invariant looks at is unchanged *)
Lemma ne_same r r' : ooq_data r' = ooq_data r -> filled_front r' = filled_front r -> ne r -> ne r'.
Proof. intros E1 E2 [H1 H2]. unfold ne. rewrite E1, E2. split; assumption. Qed.

(* ---- take_while_filled over slots none of which is an EOF ---- *)
Lemma twf_no_eof : forall l, (forall x, In x l -> x <> SEof) ->
  0 <= twf_n l <= twf_b l /\ (twf_n l = 0 -> twf_b l = 0).
Proof.
  unfold twf_n, twf_b. induction l as [|x xs IH]; intro H; cbn [take_while_filled fst snd]; [lia|].
  destruct (slot_is_default x) eqn:Ed; cbn [fst snd]; [lia|].
  destruct (take_while_filled xs) as [n b] eqn:Et. cbn [fst snd] in *.
  assert (Hx : 1 <= slot_len_bytes x).
  { destruct x as [[|c cs]|]; [discriminate Ed | cbn [slot_len_bytes length]; lia |].
    exfalso. apply (H SEof); [left; reflexivity | reflexivity]. }
  destruct IH as [IH1 IH2]; [intros y Hy; apply H; right; exact Hy|]. lia.
Qed.

Lemma in_skipn_nth {A} : forall k (l : list A) x, In x (skipn k l) ->
  exists i, (k <= i)%nat /\ nth_error l i = Some x.
Proof.
  intros k l x H. apply In_nth_error in H. destruct H as [j H]. rewrite nth_error_skipn in H.
  exists (k + j)%nat. split; [lia | exact H].
Qed.

(* ---- add_remove ---- *)
Lemma ooq_add_data_ne r p off r' res :
  ne r -> 0 <= off -> ooq_add_remove r KData p off = (r', res) ->
  ne r' /\ (forall n b, res = ArConsumed n b -> 0 <= n <= b /\ (n = 0 -> b = 0)).
Proof.
  intros [Hff Hne] Hoff. unfold ooq_add_remove.
  destruct (ooq_is_full r); [intro H; injection H as <- <-; split; [split; assumption | discriminate]|].
  destruct (_ <=? _); [intro H; injection H as <- <-; split; [split; assumption | discriminate]|].
  destruct p as [|c cs]; [intro H; injection H as <- <-; split; [split; assumption | discriminate]|].
  destruct (nth_error (ooq_data r) (Z.to_nat (off + filled_front r))) as [old|] eqn:En;
    [|intro H; injection H as <- <-; split; [split; assumption | discriminate]].
  destruct (negb (slot_is_default old));
    [intro H; injection H as <- <-; split; [split; assumption | discriminate]|].
  set (eff := Z.to_nat (off + filled_front r)) in *.
  set (data' := set_nth (ooq_data r) eff (SPayload (c :: cs))) in *.
  destruct (take_while_filled (skipn (Z.to_nat (filled_front r)) data')) as [n b] eqn:Et.
  intro H; injection H as <- <-.
  assert (Hd : forall (i : nat) x, filled_front r <= Z.of_nat i -> nth_error data' i = Some x -> x <> SEof).
  { intros i x Hi Hx. unfold data' in Hx. rewrite nth_error_set_nth in Hx.
    destruct (Nat.eqb i eff).
    - rewrite En in Hx. injection Hx as <-. discriminate.
    - eapply Hne; eassumption. }
  assert (Hin : forall x, In x (skipn (Z.to_nat (filled_front r)) data') -> x <> SEof).
  { intros x Hx. apply in_skipn_nth in Hx. destruct Hx as (i & Hi & Hx). apply (Hd i x); [lia | exact Hx]. }
  pose proof (twf_no_eof _ Hin) as T. unfold twf_n, twf_b in T. rewrite Et in T. cbn [fst snd] in T.
  split.
  - unfold ne, set_ooq; cbn [filled_front ooq_data]. split; [lia|].
    intros i x Hi Hx. apply (Hd i x); [lia | exact Hx].
  - intros n0 b0 E. injection E as <- <-. exact T.
Qed.

Lemma skipn_set_nth_head {A} : forall k (l : list A) v old,
  nth_error l k = Some old -> skipn k (set_nth l k v) = v :: skipn (S k) l.
Proof.
  induction k as [|k IH]; intros l v old H; destruct l as [|x xs]; try discriminate.
  - reflexivity.
  - cbn [set_nth skipn]. cbn [nth_error] in H. rewrite (IH xs v old H). reflexivity.
Qed.

(* a FIN in sequence *)
Lemma ooq_add_fin_ne r p r' res :
  ne r -> ooq_add_remove r KFin p 0 = (r', res) -> ne r'.
Proof.
  intros [Hff Hne]. unfold ooq_add_remove.
  destruct (ooq_is_full r); [intro H; injection H as <- _; split; assumption|].
  destruct (_ <=? _); [intro H; injection H as <- _; split; assumption|].
  replace (0 + filled_front r) with (filled_front r) by lia.
  destruct (nth_error (ooq_data r) (Z.to_nat (filled_front r))) as [old|] eqn:En;
    [|intro H; injection H as <- _; split; assumption].
  destruct (negb (slot_is_default old)); [intro H; injection H as <- _; split; assumption|].
  set (eff := Z.to_nat (filled_front r)) in *.
  set (data' := set_nth (ooq_data r) eff SEof) in *.
  destruct (take_while_filled (skipn eff data')) as [n b] eqn:Et.
  intro H; injection H as <- _.
  assert (Hn : 1 <= n).
  { unfold data' in Et. rewrite (skipn_set_nth_head _ _ _ _ En) in Et. cbn [take_while_filled slot_is_default] in Et.
    destruct (take_while_filled (skipn (S eff) (ooq_data r))) as [n1 b1] eqn:E1.
    injection Et as <- _. pose proof (twf_n_nonneg (skipn (S eff) (ooq_data r))) as B.
    unfold twf_n in B. rewrite E1 in B. cbn [fst] in B. lia. }
  unfold ne, set_ooq; cbn [filled_front ooq_data]. split; [lia|].
  intros i x Hi Hx. unfold data' in Hx. rewrite nth_error_set_nth in Hx.
  destruct (Nat.eqb_spec i eff) as [->|Hneq]; [unfold eff in Hi; lia|].
  apply (Hne i x); [lia | exact Hx].
Qed.

(* ---- flush ---- *)
Lemma flush_loop_ne : forall fuel s w fb fp s1 w1 fb1 fp1,
  flush_loop fuel s w fb fp = Some (s1, w1, fb1, fp1) -> ne s -> ne s1.
Proof.
  induction fuel as [|fuel IH]; intros s w fb fp s1 w1 fb1 fp1; cbn [flush_loop].
  - intro H; injection H as <- _ _ _. auto.
  - destruct (Z.eqb_spec (filled_front s) 0) as [Hz|Hnz]; [intro H; injection H as <- _ _ _; auto|].
    destruct (ooq_data s) as [|m rest] eqn:Ed; [discriminate|].
    destruct (w <? _); [intro H; injection H as <- _ _ _; auto|].
    destruct (reader_dropped s); [intro H; injection H as <- _ _ _; auto|].
    destruct (_ <? _); [discriminate|].
    intros H [Hff Hne]. eapply IH; [exact H|].
    unfold ne, pop_front_state; cbn [filled_front ooq_data]. split; [lia|].
    intros i x Hi Hx.
    destruct (Nat.lt_ge_cases i (length rest)) as [Hlt|Hge].
    + rewrite nth_error_app1 in Hx by exact Hlt.
      apply (Hne (S i) x); [lia|]. rewrite Ed. exact Hx.
    + rewrite nth_error_app2 in Hx by exact Hge.
      destruct (i - length rest)%nat as [|j]; cbn [nth_error] in Hx;
        [injection Hx as <-; discriminate | destruct j; discriminate].
Qed.

Lemma rx_flush_ne r r' fr w : rx_flush r = (r', fr, w) -> ne r -> ne r'.
Proof.
  unfold rx_flush. intros H Hn.
  set (s0 := set_wakers r _ (reader_waker r) (last_remaining_rx_window r)) in *.
  assert (H0 : ne s0) by exact Hn.
  destruct (flush_loop _ s0 _ 0 0) as [[[[s1 w1] fb] fp]|] eqn:E.
  - apply (flush_loop_ne _ _ _ _ _ _ _ _ _ E) in H0.
    destruct (0 <? fp); injection H as <- _ _; exact H0.
  - injection H as <- _ _. exact H0.
Qed.

(* ---- UserRx::add_remove ---- *)
Lemma rx_add_data_ne r p off r' ar w :
  ne r -> 0 <= off -> rx_add_remove r KData p off = (r', ar, w) ->
  ne r' /\ (forall n b, ar = UarOk (ArConsumed n b) -> 0 <= n <= b /\ (n = 0 -> b = 0)).
Proof.
  intros Hn Hoff. unfold rx_add_remove.
  destruct (ooq_add_remove r KData p off) as [s1 a] eqn:E.
  destruct (ooq_add_data_ne _ _ _ _ _ Hn Hoff E) as [Hn1 Hc].
  destruct a as [n0 b0| | | | |].
  2-6: intro H; injection H as <- <- _; (split; [exact Hn1 | discriminate]).
  destruct (_ && _).
  - destruct (rx_flush s1) as [[s2 fr] w2] eqn:Ef. pose proof (rx_flush_ne _ _ _ _ Ef Hn1) as Hn2.
    destruct fr; intro H; injection H as <- <- _; (split; [exact Hn2|]); [|discriminate].
    intros n b Eq; injection Eq as <- <-; apply Hc; reflexivity.
  - intro H; injection H as <- <- _. split; [exact Hn1|].
    intros n b Eq; injection Eq as <- <-; apply Hc; reflexivity.
Qed.

Lemma rx_add_fin_ne r p r' ar w : ne r -> rx_add_remove r KFin p 0 = (r', ar, w) -> ne r'.
Proof.
  intros Hn. unfold rx_add_remove.
  destruct (ooq_add_remove r KFin p 0) as [s1 a] eqn:E.
  pose proof (ooq_add_fin_ne _ _ _ _ Hn E) as Hn1.
  destruct a; try (intro H; injection H as <- _ _; exact Hn1).
  destruct (_ && _); [|intro H; injection H as <- _ _; exact Hn1].
  destruct (rx_flush s1) as [[s2 fr] w2] eqn:Ef. pose proof (rx_flush_ne _ _ _ _ Ef Hn1) as Hn2.
  destruct fr; intro H; injection H as <- _ _; exact Hn2.
Qed.

(* ---- the other operations do not touch the reassembly queue ---- *)
Lemma rx_mark_closed_ne r r' w : rx_mark_vsock_closed r = (r', w) -> ne r -> ne r'.
Proof.
  unfold rx_mark_vsock_closed. destruct (vsock_closed r); intro H; injection H as <- _; auto.
Qed.

Lemma rx_enqueue_error_ne r r' w : rx_enqueue_error r = (r', w) -> ne r -> ne r'.
Proof. unfold rx_enqueue_error. intro H; injection H as <- _. auto. Qed.

Lemma rx_drop_reader_ne r r' w : rx_drop_reader r = (r', w) -> ne r -> ne r'.
Proof. unfold rx_drop_reader. intro H; injection H as <- _. auto. Qed.

Lemma read_loop_ooq : forall fuel r room out r' out' d e,
  read_loop fuel r room out = (r', out', d, e) ->
  ooq_data r' = ooq_data r /\ filled_front r' = filled_front r.
Proof.
  induction fuel as [|fuel IH]; intros r0 room out0 r' out' d e; cbn [read_loop].
  - intro H; injection H as <- _ _ _; split; reflexivity.
  - destruct (room <=? 0); [intro H; injection H as <- _ _ _; split; reflexivity|].
    destruct (current r0).
    + destruct (is_eof r0); [intro H; injection H as <- _ _ _; split; reflexivity|].
      destruct (q r0) as [|item qr].
      * destruct (vsock_closed r0); intro H; injection H as <- _ _ _; split; reflexivity.
      * destruct item; [intro H; apply IH in H; exact H|..];
          intro H; injection H as <- _ _ _; split; reflexivity.
    + intro H; apply IH in H. exact H.
Qed.

Lemma rx_read_ne r n r' res w : rx_read r n = (r', res, w) -> ne r -> ne r'.
Proof.
  unfold rx_read. destruct (read_loop _ r n []) as [[[s1 out] dead] err] eqn:E.
  apply read_loop_ooq in E. destruct E as [E1 E2]. intros H Hn.
  assert (H1 : ne s1) by (eapply ne_same; eassumption).
  destruct err; [injection H as <- _ _; exact H1|].
  destruct out; [destruct (is_eof s1); [|destruct dead]|]; injection H as <- _ _; exact H1.
Qed.

From Utp Require Import Base.Prelude Wire.SeqNr Tx.Segments.

Fixpoint sum_sizes (l : list seg) : Z :=
  match l with [] => 0 | s :: r => sg_size s + sum_sizes r end.

(* segments tile the byte range [base, base + sum_sizes) in order, without gaps *)
Fixpoint tiled (base : Z) (l : list seg) : Prop :=
  match l with
  | [] => True
  | s :: r => sg_abs s = base /\ 0 <= sg_size s /\ tiled (base + sg_size s) r
  end.

Definition seg_inv (t : segments) : Prop :=
  ss_len_bytes t = sum_sizes (ss_segs t) /\
  ss_offset t = ss_removed t + ss_len_bytes t /\
  tiled (ss_removed t) (ss_segs t) /\
  0 <= ss_removed t /\
  0 <= ss_snd_una t < M16.

Definition shape (l : list seg) : list (Z * Z) := map (fun s => (sg_size s, sg_abs s)) l.

Lemma sum_sizes_app a b : sum_sizes (a ++ b) = sum_sizes a + sum_sizes b.
Proof. induction a as [|x xs IH]; cbn [app sum_sizes]; lia. Qed.

Lemma tiled_app base a b : tiled base (a ++ b) <-> tiled base a /\ tiled (base + sum_sizes a) b.
Proof.
  revert base; induction a as [|x xs IH]; intro base; cbn [app tiled sum_sizes].
  - rewrite Z.add_0_r. tauto.
  - rewrite IH. replace (base + (sg_size x + sum_sizes xs)) with (base + sg_size x + sum_sizes xs) by lia. tauto.
Qed.

Lemma tiled_sizes_nonneg base l : tiled base l -> 0 <= sum_sizes l.
Proof.
  revert base; induction l as [|x xs IH]; intro base; cbn [tiled sum_sizes]; [lia|].
  intros (_ & H0 & Ht). specialize (IH _ Ht). lia.
Qed.

Lemma tiled_shape base l l' : shape l = shape l' -> tiled base l -> tiled base l'.
Proof.
  revert base l'; induction l as [|x xs IH]; intros base [|y ys] Hs; cbn [shape map] in Hs; try discriminate.
  - auto.
  - injection Hs as H1 H2 H3. cbn [tiled]. rewrite <- H1, <- H2. intros (A & B & C).
    repeat split; auto; apply (IH _ ys); auto.
Qed.

Lemma sum_sizes_shape l l' : shape l = shape l' -> sum_sizes l = sum_sizes l'.
Proof.
  revert l'; induction l as [|x xs IH]; intros [|y ys] Hs; cbn [shape map] in Hs; try discriminate; auto.
  injection Hs as H1 H2 H3. cbn [sum_sizes]. rewrite H1. f_equal. apply IH. exact H3.
Qed.

Lemma firstn_skipn_sum (n : nat) (l : list seg) :
  sum_sizes l = sum_sizes (firstn n l) + sum_sizes (skipn n l).
Proof. rewrite <- sum_sizes_app, firstn_skipn. reflexivity. Qed.

(* ---- enqueue ---- *)
Lemma enqueue_inv t len p : seg_inv t -> 0 <= len -> seg_inv (enqueue t len p).
Proof.
  intros (Hlb & Hoff & Ht & Hr & Hu) Hlen. unfold seg_inv, enqueue, set_segs; cbn [ss_segs ss_len_bytes
    ss_offset ss_removed ss_snd_una].
  rewrite sum_sizes_app. cbn [sum_sizes sg_size].
  split; [lia|]. split; [lia|]. split; [|split; assumption].
  apply tiled_app. split; [exact Ht|]. cbn [tiled sg_abs sg_size]. repeat split; lia.
Qed.

(* ---- pops ---- *)
Lemma last_and_init_spec {A} (l init : list A) x :
  last_and_init l = Some (init, x) -> l = init ++ [x].
Proof.
  unfold last_and_init. destruct (rev l) as [|y r] eqn:E; [discriminate|].
  intro H; injection H as <- <-.
  rewrite <- (rev_involutive l), E. reflexivity.
Qed.

Lemma pop_back_inv t init s :
  seg_inv t -> ss_segs t = init ++ [s] ->
  seg_inv (set_segs t init (ss_len_bytes t - sg_size s) (ss_offset t - sg_size s)).
Proof.
  intros (Hlb & Hoff & Ht & Hr & Hu) E. unfold seg_inv, set_segs; cbn [ss_segs ss_len_bytes
    ss_offset ss_removed ss_snd_una].
  rewrite E in *. rewrite sum_sizes_app in Hlb. cbn [sum_sizes] in Hlb.
  apply tiled_app in Ht. destruct Ht as [Ht1 _].
  repeat split; try lia; assumption.
Qed.

Lemma pop_mtu_probe_inv t q t' b : seg_inv t -> pop_mtu_probe t q = (t', b) -> seg_inv t'.
Proof.
  intros Hinv. unfold pop_mtu_probe.
  destruct (last_and_init (ss_segs t)) as [[init s]|] eqn:E.
  - destruct (_ && _).
    + intro H; injection H as <- _. apply pop_back_inv; [exact Hinv|]. apply last_and_init_spec; exact E.
    + intro H; injection H as <- _. exact Hinv.
  - intro H; injection H as <- _. exact Hinv.
Qed.

Lemma pop_expired_inv t to mr t' p : seg_inv t -> pop_expired_mtu_probe t to mr = (t', p) -> seg_inv t'.
Proof.
  intros Hinv. unfold pop_expired_mtu_probe.
  destruct (last_and_init (ss_segs t)) as [[init s]|] eqn:E.
  - destruct (sg_delivered s); [intro H; injection H as <- _; exact Hinv|].
    destruct (_ && _).
    + intro H; injection H as <- _. apply pop_back_inv; [exact Hinv|]. apply last_and_init_spec; exact E.
    + destruct (sg_probe s); intro H; injection H as <- _; exact Hinv.
  - intro H; injection H as <- _. exact Hinv.
Qed.

(* ---- remove_up_to_ack ---- *)
Lemma drain_acc_spec : forall l now a,
  ac_cnt (drain_acc l now a) = ac_cnt a + Z.of_nat (length l) /\
  ac_bytes (drain_acc l now a) = ac_bytes a + sum_sizes l.
Proof.
  induction l as [|s r IH]; intros now a; cbn [drain_acc length sum_sizes]; [lia|].
  destruct (IH now {| ac_rtt := update_rtt s now (ac_rtt a); ac_maxp := Z.max (ac_maxp a) (sg_size s);
                      ac_cnt := ac_cnt a + 1; ac_bytes := ac_bytes a + sg_size s |}) as [H1 H2].
  cbn [ac_cnt ac_bytes] in *. lia.
Qed.

Lemma apply_sack_shape : forall l bits now a l' a',
  apply_sack l bits now a = (l', a') -> shape l' = shape l.
Proof.
  induction l as [|s r IH]; intros bits now a l' a'; cbn [apply_sack].
  - intro H; injection H as <- _. reflexivity.
  - destruct bits as [|b bs]; [intro H; injection H as <- _; reflexivity|].
    destruct (negb (sg_delivered s) && b).
    + destruct (apply_sack r bs now _) as [r' a''] eqn:E. intro H; injection H as <- _.
      cbn [shape map mark_delivered sg_size sg_abs]. f_equal. exact (IH _ _ _ _ _ E).
    + destruct (apply_sack r bs now a) as [r' a''] eqn:E. intro H; injection H as <- _.
      cbn [shape map]. f_equal. exact (IH _ _ _ _ _ E).
Qed.

Lemma shape_app a b : shape (a ++ b) = shape a ++ shape b.
Proof. unfold shape. apply map_app. Qed.

Lemma strip_delivered_spec : forall l cnt bytes l' cnt' bytes',
  strip_delivered l cnt bytes = (l', cnt', bytes') ->
  exists dropped, l = dropped ++ l' /\ cnt' = cnt + Z.of_nat (length dropped) /\
                  bytes' = bytes + sum_sizes dropped /\
                  Forall (fun s => sg_delivered s = true) dropped.
Proof.
  induction l as [|s r IH]; intros cnt bytes l' cnt' bytes'; cbn [strip_delivered].
  - intro H; injection H as <- <- <-. exists []. cbn. repeat split; try lia; constructor.
  - destruct (sg_delivered s) eqn:Ed.
    + intro H. destruct (IH _ _ _ _ _ H) as (d & -> & Hc & Hb & Hf).
      exists (s :: d). cbn [app length sum_sizes]. repeat split; try lia. constructor; assumption.
    + intro H; injection H as <- <- <-. exists []. cbn. repeat split; try lia; constructor.
Qed.

Lemma wadd16_range a b : 0 <= wadd16 a b < M16.
Proof. unfold wadd16, M16. lia. Qed.

Lemma remove_up_to_ack_inv t now ack sk t' r :
  seg_inv t -> remove_up_to_ack t now ack sk = (t', r) ->
  seg_inv t' /\
  ar_acked_bytes r = ss_removed t' - ss_removed t /\ 0 <= ar_acked_bytes r /\
  ss_offset t' = ss_offset t /\
  Z.of_nat (length (ss_segs t')) = Z.of_nat (length (ss_segs t)) - ar_acked_segments r /\
  0 <= ar_acked_segments r.
Proof.
  intros (Hlb & Hoff & Ht & Hr & Hu). unfold remove_up_to_ack.
  set (dc := if 0 <=? seq_sub ack (ss_snd_una t)
             then Z.to_nat (Z.min (seq_sub ack (ss_snd_una t) + 1) (len_z (ss_segs t))) else 0%nat).
  set (a1 := drain_acc (firstn dc (ss_segs t)) now {| ac_rtt := None; ac_maxp := 0; ac_cnt := 0; ac_bytes := 0 |}).
  set (rest := skipn dc (ss_segs t)).
  destruct (drain_acc_spec (firstn dc (ss_segs t)) now {| ac_rtt := None; ac_maxp := 0; ac_cnt := 0; ac_bytes := 0 |})
    as [Hc1 Hb1]. fold a1 in Hc1, Hb1. cbn [ac_cnt ac_bytes] in Hc1, Hb1.
  (* phase 2 keeps the shape *)
  destruct (sack_phase t rest a1 _ now ack sk) as [[[rest2 a2] depth] lse] eqn:E2.
  assert (Hshape : shape rest2 = shape rest).
  { unfold sack_phase in E2.
    destruct rest as [|s0 r0] eqn:Er; [injection E2 as <- _ _ _; reflexivity|].
    destruct sk as [k|]; [|injection E2 as <- _ _ _; reflexivity].
    destruct (seq_gt _ ack); [|injection E2 as <- _ _ _; reflexivity].
    destruct (0 <=? seq_sub (wadd16 ack 2) _).
    - destruct (apply_sack (skipn _ (s0 :: r0)) (sk_bits k) now _) as [tl' a'] eqn:Ea.
      injection E2 as <- _ _ _. rewrite shape_app, (apply_sack_shape _ _ _ _ _ _ Ea), <- shape_app, firstn_skipn.
      reflexivity.
    - destruct (apply_sack (s0 :: r0) _ now _) as [l' a'] eqn:Ea.
      injection E2 as <- _ _ _. exact (apply_sack_shape _ _ _ _ _ _ Ea). }
  destruct (strip_delivered rest2 0 0) as [[rest3 cnt3] bytes3] eqn:E3.
  destruct (strip_delivered_spec _ _ _ _ _ _ E3) as (dropped & Hd & Hc3 & Hb3 & _).
  intro H; injection H as <- <-.
  cbn [ss_segs ss_len_bytes ss_offset ss_removed ss_snd_una ar_acked_bytes ar_acked_segments].
  pose proof (firstn_skipn_sum dc (ss_segs t)) as Hsplit. fold rest in Hsplit.
  assert (Htr : tiled (ss_removed t + sum_sizes (firstn dc (ss_segs t))) rest).
  { rewrite <- (firstn_skipn dc (ss_segs t)) in Ht. apply tiled_app in Ht. exact (proj2 Ht). }
  assert (Htd : tiled (ss_removed t) (firstn dc (ss_segs t))).
  { rewrite <- (firstn_skipn dc (ss_segs t)) in Ht. apply tiled_app in Ht. exact (proj1 Ht). }
  assert (Htr2 : tiled (ss_removed t + sum_sizes (firstn dc (ss_segs t))) rest2)
    by (eapply tiled_shape; [symmetry; exact Hshape|exact Htr]).
  rewrite Hd in Htr2. apply tiled_app in Htr2. destruct Htr2 as [Htdrop Htr3].
  pose proof (sum_sizes_shape _ _ Hshape) as Hsum2. rewrite Hd, sum_sizes_app in Hsum2.
  pose proof (tiled_sizes_nonneg _ _ Htd). pose proof (tiled_sizes_nonneg _ _ Htdrop).
  assert (Hlen2 : length rest2 = length rest).
  { apply (f_equal (@length _)) in Hshape. unfold shape in Hshape. rewrite !map_length in Hshape. exact Hshape. }
  assert (Hlen : length (ss_segs t) = (length (firstn dc (ss_segs t)) + length rest)%nat).
  { rewrite <- (firstn_skipn dc (ss_segs t)) at 1. rewrite app_length. reflexivity. }
  rewrite Hd, app_length in Hlen2.
  split.
  { unfold seg_inv; cbn [ss_segs ss_len_bytes ss_offset ss_removed ss_snd_una].
    split; [lia|]. split; [lia|].
    split; [replace (ss_removed t + (ac_bytes a1 + bytes3)) with
              (ss_removed t + sum_sizes (firstn dc (ss_segs t)) + sum_sizes dropped) by lia; exact Htr3|].
    split; [lia|]. apply wadd16_range. }
  repeat split; lia.
Qed.

(* ---- on_sent / calc_pipe keep the shape ---- *)
Lemma update_nth_shape (f : seg -> seg) :
  (forall s, sg_size (f s) = sg_size s /\ sg_abs (f s) = sg_abs s) ->
  forall l n, shape (update_nth l n f) = shape l.
Proof.
  intros Hf. induction l as [|x xs IH]; intros [|n]; cbn [update_nth shape map]; try reflexivity.
  - destruct (Hf x) as [-> ->]. reflexivity.
  - f_equal. apply IH.
Qed.

Lemma inv_of_shape t l :
  seg_inv t -> shape l = shape (ss_segs t) -> seg_inv (set_segs t l (ss_len_bytes t) (ss_offset t)).
Proof.
  intros (Hlb & Hoff & Ht & Hr & Hu) Hs. unfold seg_inv, set_segs; cbn [ss_segs ss_len_bytes
    ss_offset ss_removed ss_snd_una].
  rewrite (sum_sizes_shape _ _ Hs).
  repeat split; try assumption; try lia. eapply tiled_shape; [symmetry; exact Hs|exact Ht].
Qed.

Lemma on_sent_inv t idx now : seg_inv t -> seg_inv (on_sent t idx now).
Proof.
  intro H. unfold on_sent. apply inv_of_shape; [exact H|].
  apply update_nth_shape. intro s. split; reflexivity.
Qed.

Lemma pipe_loop_shape : forall l t hr th now a l' a',
  pipe_loop l t hr th now a = (l', a') -> shape l' = shape (map snd l).
Proof.
  induction l as [|[off s] r IH]; intros t hr th now a l' a'; cbn [pipe_loop].
  - intro H; injection H as <- _. reflexivity.
  - destruct (seg_last_sent s).
    + destruct (sg_delivered s).
      * destruct (pipe_loop r t hr th now _) as [r' a''] eqn:E. intro H; injection H as <- _.
        cbn [map snd shape]. f_equal. exact (IH _ _ _ _ _ _ _ E).
      * destruct (pipe_loop r t hr th now _) as [r' a''] eqn:E. intro H; injection H as <- _.
        cbn [map snd shape sg_size sg_abs]. f_equal. exact (IH _ _ _ _ _ _ _ E).
    + destruct (pipe_loop r t hr th now a) as [r' a''] eqn:E. intro H; injection H as <- _.
      cbn [map snd shape]. f_equal. exact (IH _ _ _ _ _ _ _ E).
Qed.

Lemma enum_from_snd {A} : forall (l : list A) i, map snd (enum_from i l) = l.
Proof. induction l as [|x xs IH]; intro i; cbn [enum_from map snd]; [reflexivity|]. f_equal. apply IH. Qed.

Lemma shape_rev l : shape (rev l) = rev (shape l).
Proof. unfold shape. apply map_rev. Qed.

Lemma calc_pipe_inv t hr hd rtt now t' p rc :
  seg_inv t -> calc_pipe t hr hd rtt now = Some (t', p, rc) -> seg_inv t'.
Proof.
  intro Hinv. unfold calc_pipe. destruct (_ <? _); [discriminate|].
  destruct (pipe_loop _ t hr _ now _) as [upd a] eqn:E. intro H; injection H as <- _ _.
  apply inv_of_shape; [exact Hinv|].
  apply pipe_loop_shape in E. rewrite map_rev, enum_from_snd in E.
  rewrite shape_app, shape_rev, E, shape_rev, rev_involutive, <- shape_app, firstn_skipn. reflexivity.
Qed.

(* ---- iter_for_sending: payload offsets ---- *)
Lemma tiled_abs_ge base l : tiled base l -> Forall (fun s => base <= sg_abs s) l.
Proof.
  revert base; induction l as [|x xs IH]; intro base; cbn [tiled]; [constructor|].
  intros (Ha & H0 & Ht). constructor; [lia|].
  specialize (IH _ Ht). eapply Forall_impl; [|exact IH]. cbn. intros; lia.
Qed.

Lemma Forall_skipn {A} (P : A -> Prop) n l : Forall P l -> Forall P (skipn n l).
Proof.
  revert l; induction n as [|n IH]; intros [|x xs] H; cbn [skipn]; auto.
  inversion H; subst. apply IH; assumption.
Qed.

Lemma enum_from_In {A} : forall (l : list A) i j x, In (j, x) (enum_from i l) -> In x l.
Proof.
  induction l as [|y ys IH]; intros i j x; cbn [enum_from In]; [tauto|].
  intros [H|H]; [injection H as _ <-; left; reflexivity|right; eapply IH; exact H].
Qed.

Lemma iter_offsets_nonneg t st :
  seg_inv t -> Forall (fun f => 0 <= fs_payload_offset f /\ sg_delivered (fs_seg f) = false)
                      (iter_for_sending t st).
Proof.
  intros (_ & _ & Ht & _). unfold iter_for_sending. apply Forall_forall. intros f Hf.
  apply filter_In in Hf. destruct Hf as [Hin Hnd]. apply negb_true_iff in Hnd.
  apply in_map_iff in Hin. destruct Hin as ([i s] & <- & Hin). cbn [fs_payload_offset fs_seg] in *.
  split; [|exact Hnd].
  apply enum_from_In in Hin.
  pose proof (tiled_abs_ge _ _ Ht) as Hge.
  apply (Forall_skipn _ (match st with Some s0 => Z.to_nat (Z.max (seq_sub s0 (ss_snd_una t)) 0) | None => 0%nat end)) in Hge.
  rewrite Forall_forall in Hge. specialize (Hge _ Hin). lia.
Qed.

(* ---- the whole step ---- *)
Definition seg_op_ok (o : seg_op) : Prop :=
  match o with SoEnqueue len _ => 0 <= len | _ => True end.

(* a calc_pipe argument the dispatcher can produce: high_data not past the end of the table *)
Definition pipe_arg_ok (t : segments) (o : seg_op) : Prop :=
  match o with
  | SoPipe _ hd _ _ => Z.max (seq_sub hd (ss_snd_una t)) 0 <= len_z (ss_segs t)
  | _ => True
  end.

Lemma seg_step_inv t o t' out :
  seg_inv t -> seg_op_ok o -> seg_step t o = (t', out) ->
  seg_inv t' /\ (pipe_arg_ok t o -> out <> SrPanic).
Proof.
  intros Hinv Hok. destruct o; cbn [seg_step seg_op_ok pipe_arg_ok] in *.
  - intro H; injection H as <- <-. split; [apply enqueue_inv; assumption|discriminate].
  - destruct (pop_mtu_probe t seq_nr) as [t1 b] eqn:E. intro H; injection H as <- <-.
    split; [eapply pop_mtu_probe_inv; eauto|discriminate].
  - destruct (pop_expired_mtu_probe t timed_out max_retx) as [t1 p] eqn:E. intro H; injection H as <- <-.
    split; [eapply pop_expired_inv; eauto|discriminate].
  - destruct (remove_up_to_ack t now ack_nr sk) as [t1 r] eqn:E. intro H; injection H as <- <-.
    split; [exact (proj1 (remove_up_to_ack_inv _ _ _ _ _ _ Hinv E))|discriminate].
  - intro H; injection H as <- <-. split; [exact Hinv|discriminate].
  - pose proof (iter_offsets_nonneg t start Hinv) as Hf.
    destruct (existsb _ _) eqn:Ee.
    + exfalso. apply existsb_exists in Ee. destruct Ee as (f & Hin & Hneg).
      rewrite Forall_forall in Hf. specialize (Hf _ Hin). lia.
    + intro H; injection H as <- <-. split; [exact Hinv|discriminate].
  - destruct (nth_error _ k); intro H; injection H as <- <-;
      (split; [try apply on_sent_inv; exact Hinv|discriminate]).
  - destruct (calc_pipe t high_rxt high_data rtt now) as [[[t1 p] rc]|] eqn:E.
    + intro H; injection H as <- <-. split; [eapply calc_pipe_inv; eauto|discriminate].
    + intro H; injection H as <- <-. split; [exact Hinv|]. intro Hp. exfalso.
      unfold calc_pipe in E.
      destruct (Z.ltb_spec (len_z (ss_segs t))
                  (Z.min (Z.max (seq_sub high_data (ss_snd_una t)) 0) (len_z (ss_segs t)))); [lia|].
      destruct (pipe_loop _ _ _ _ _ _); discriminate.
Qed.

(* since the repair of D21 calc_pipe never panics, whatever high_data is *)
Lemma calc_pipe_total t high_rxt high_data rtt now : calc_pipe t high_rxt high_data rtt now <> None.
Proof.
  unfold calc_pipe.
  destruct (Z.ltb_spec (len_z (ss_segs t))
              (Z.min (Z.max (seq_sub high_data (ss_snd_una t)) 0) (len_z (ss_segs t)))); [lia|].
  destruct (pipe_loop _ _ _ _ _ _); discriminate.
Qed.

Lemma new_inv snd_una : 0 <= snd_una < M16 -> seg_inv (segments_new snd_una).
Proof. intro H. unfold seg_inv, segments_new; cbn. repeat split; lia. Qed.

Lemma seg_run_inv : forall ops t, seg_inv t -> Forall seg_op_ok ops -> seg_inv (seg_run t ops).
Proof.
  induction ops as [|o ops IH]; intros t Hinv Hok; cbn [seg_run]; [exact Hinv|].
  inversion Hok as [|? ? Ho Hrest]; subst.
  destruct (seg_step t o) as [t1 out] eqn:E. cbn [fst].
  apply IH; [|exact Hrest]. exact (proj1 (seg_step_inv _ _ _ _ Hinv Ho E)).
Qed.

(* ---- C06 pieces at this tier ---- *)
(* never resend acknowledged: the sending iterator only yields undelivered segments *)
Lemma iter_only_undelivered t st f :
  In f (iter_for_sending t st) -> sg_delivered (fs_seg f) = false.
Proof.
  unfold iter_for_sending. intro H. apply filter_In in H. destruct H as [_ H].
  apply negb_true_iff in H. exact H.
Qed.

(* Karn: a retransmitted (or never sent) segment never changes the RTT sample *)
Lemma karn s now rtt : (forall ts, sg_sent s <> SentTime ts) -> update_rtt s now rtt = rtt.
Proof. unfold update_rtt. destruct (sg_sent s); intro H; try reflexivity. exfalso. exact (H t eq_refl). Qed.

(* flight size is the exact sum of sent-range, not-yet-delivered payloads *)
Lemma flight_size_def t ls :
  calc_flight_size t ls =
  flight_sum (firstn (Z.to_nat (Z.max (seq_sub ls (ss_snd_una t) + 1) 0)) (ss_segs t)).
Proof. reflexivity. Qed.

Lemma flight_sum_le l : (forall s, In s l -> 0 <= sg_size s) -> 0 <= flight_sum l <= sum_sizes l.
Proof.
  induction l as [|x xs IH]; intro H; cbn [flight_sum sum_sizes]; [lia|].
  assert (0 <= sg_size x) by (apply H; left; reflexivity).
  assert (0 <= flight_sum xs <= sum_sizes xs) by (apply IH; intros; apply H; right; assumption).
  destruct (sg_delivered x); lia.
Qed.

Example segs_example :
  let t := seg_run (segments_new 65535)
    [SoEnqueue 10 false; SoEnqueue 20 false; SoEnqueue 5 true; SoOnSent None 0 100;
     SoAck 1000 65535 None; SoPopProbe 1] in
  ss_snd_una t = 0 /\ ss_len_bytes t = 20 /\ ss_offset t = 30 /\ ss_removed t = 10 /\
  length (ss_segs t) = 1%nat.
Proof. vm_compute. repeat split. Qed.

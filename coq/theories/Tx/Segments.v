(* M2: src/stream_tx_segments.rs — the table of segmented-but-unacknowledged data.
   Model only.  Instants are nanoseconds since an arbitrary base (Z); sequence numbers u16. *)
From Utp Require Import Base.Prelude Wire.SeqNr.

Inductive sent_status := NotSent | SentTime (t : Z) | Retransmitted (count : Z) (last : Z).

Record seg := {
  sg_size : Z;               (* payload_size *)
  sg_abs : Z;                (* payload_offset_absolute *)
  sg_delivered : bool;
  sg_sent : sent_status;
  sg_probe : bool;           (* is_mtu_probe *)
  sg_lost : bool;
  sg_expired : bool;
  sg_sacks_after : bool;     (* has_sacks_after_it *)
}.

Record segments := {
  ss_segs : list seg;
  ss_len_bytes : Z;
  ss_offset : Z;
  ss_removed : Z;            (* removed_offset *)
  ss_sack_depth : Z;
  ss_last_sack_empty : bool;
  ss_snd_una : Z;
}.

Definition segments_new (snd_una : Z) : segments :=
  {| ss_segs := []; ss_len_bytes := 0; ss_offset := 0; ss_removed := 0; ss_sack_depth := 0;
     ss_last_sack_empty := false; ss_snd_una := snd_una |}.

Definition seg_retransmit_count (s : seg) : Z :=
  match sg_sent s with Retransmitted c _ => c | _ => 0 end.
Definition seg_send_count (s : seg) : Z :=
  match sg_sent s with NotSent => 0 | SentTime _ => 1 | Retransmitted c _ => c + 1 end.
Definition seg_last_sent (s : seg) : option Z :=
  match sg_sent s with NotSent => None | SentTime t => Some t | Retransmitted _ t => Some t end.

Definition rtt_min (a b : option Z) : option Z :=
  match a, b with
  | None, None => None
  | None, Some r | Some r, None => Some r
  | Some x, Some y => Some (Z.min x y)
  end.

(* Segment::update_rtt : only a segment sent exactly once yields a sample (Karn) *)
Definition update_rtt (s : seg) (now : Z) (rtt : option Z) : option Z :=
  match sg_sent s with
  | SentTime ts => rtt_min rtt (Some (sat_sub now ts))
  | _ => rtt
  end.

Definition len_z {A} (l : list A) : Z := Z.of_nat (length l).

Definition set_segs (t : segments) (l : list seg) (lb off : Z) : segments :=
  {| ss_segs := l; ss_len_bytes := lb; ss_offset := off; ss_removed := ss_removed t;
     ss_sack_depth := ss_sack_depth t; ss_last_sack_empty := ss_last_sack_empty t;
     ss_snd_una := ss_snd_una t |}.

(* ---- enqueue ---- *)
Definition enqueue (t : segments) (payload_len : Z) (is_probe : bool) : segments :=
  let s := {| sg_size := payload_len; sg_abs := ss_offset t; sg_delivered := false;
              sg_sent := NotSent; sg_probe := is_probe; sg_lost := false; sg_expired := false;
              sg_sacks_after := false |} in
  set_segs t (ss_segs t ++ [s]) (ss_len_bytes t + payload_len) (ss_offset t + payload_len).

(* ---- pop_mtu_probe / pop_expired_mtu_probe ----
   The popped probe's bytes are given back: offset and len_bytes are reduced by its size
   (this is the repaired behaviour, commit "fix: ..." in /repo; see known_findings.json D1). *)
Definition last_and_init {A} (l : list A) : option (list A * A) :=
  match rev l with [] => None | x :: r => Some (rev r, x) end.

Definition pop_mtu_probe (t : segments) (seq_nr : Z) : segments * bool :=
  let last_seq := wsub16 (wadd16 (ss_snd_una t) (len_z (ss_segs t) mod M16)) 1 in
  match last_and_init (ss_segs t) with
  | Some (init, s) =>
      if (last_seq =? seq_nr) && sg_probe s && negb (sg_delivered s)
      then (set_segs t init (ss_len_bytes t - sg_size s) (ss_offset t - sg_size s), true)
      else (t, false)
  | None => (t, false)
  end.

Inductive pop_expired := PeExpired (rewind_to payload_size : Z) | PeNotExpired | PeEmpty.

Definition pop_expired_mtu_probe (t : segments) (timed_out : bool) (max_retx : Z)
  : segments * pop_expired :=
  match last_and_init (ss_segs t) with
  | Some (init, s) =>
      if sg_delivered s then (t, PeEmpty)
      else if timed_out && sg_probe s && (max_retx <=? seg_retransmit_count s) then
        (set_segs t init (ss_len_bytes t - sg_size s) (ss_offset t - sg_size s),
         PeExpired (wsub16 (wadd16 (ss_snd_una t) (len_z init mod M16)) 1) (sg_size s))
      else if sg_probe s then (t, PeNotExpired)
      else (t, PeEmpty)
  | None => (t, PeEmpty)
  end.

(* ---- remove_up_to_ack ---- *)
Record on_ack_result := {
  ar_acked_segments : Z; ar_acked_bytes : Z; ar_max_acked_payload : Z;
  ar_newly_sacked_segments : Z; ar_newly_sacked_bytes : Z; ar_new_rtt : option Z;
}.

Definition on_ack_result_default : on_ack_result :=
  {| ar_acked_segments := 0; ar_acked_bytes := 0; ar_max_acked_payload := 0;
     ar_newly_sacked_segments := 0; ar_newly_sacked_bytes := 0; ar_new_rtt := None |}.

(* SelectiveAck as seen by the sender: the 64 bits of the array and the `len` field *)
Record sackbits := { sk_bits : list bool; sk_len : Z }.

Record ack_acc := { ac_rtt : option Z; ac_maxp : Z; ac_cnt : Z; ac_bytes : Z }.

Fixpoint drain_acc (l : list seg) (now : Z) (a : ack_acc) : ack_acc :=
  match l with
  | [] => a
  | s :: r => drain_acc r now
      {| ac_rtt := update_rtt s now (ac_rtt a); ac_maxp := Z.max (ac_maxp a) (sg_size s);
         ac_cnt := ac_cnt a + 1; ac_bytes := ac_bytes a + sg_size s |}
  end.

Definition mark_delivered (s : seg) : seg :=
  {| sg_size := sg_size s; sg_abs := sg_abs s; sg_delivered := true; sg_sent := sg_sent s;
     sg_probe := sg_probe s; sg_lost := sg_lost s; sg_expired := sg_expired s;
     sg_sacks_after := sg_sacks_after s |}.

(* zip(segments, bits) with process_sack *)
Fixpoint apply_sack (l : list seg) (bits : list bool) (now : Z) (a : ack_acc) : list seg * ack_acc :=
  match l, bits with
  | s :: r, b :: bs =>
      if negb (sg_delivered s) && b then
        let a' := {| ac_rtt := update_rtt s now (ac_rtt a); ac_maxp := Z.max (ac_maxp a) (sg_size s);
                     ac_cnt := ac_cnt a + 1; ac_bytes := ac_bytes a + sg_size s |} in
        let '(r', a'') := apply_sack r bs now a' in (mark_delivered s :: r', a'')
      else
        let '(r', a'') := apply_sack r bs now a in (s :: r', a'')
  | _, _ => (l, a)
  end.

Fixpoint strip_delivered (l : list seg) (cnt bytes : Z) : list seg * Z * Z :=
  match l with
  | s :: r => if sg_delivered s then strip_delivered r (cnt + 1) (bytes + sg_size s)
              else (l, cnt, bytes)
  | [] => ([], cnt, bytes)
  end.

(* phase 2 of remove_up_to_ack: selective acknowledgement *)
Definition sack_phase (t : segments) (rest : list seg) (a1 : ack_acc) (snd_una1 now ack_nr : Z)
  (sk : option sackbits) : list seg * ack_acc * Z * bool :=
  let a0 := {| ac_rtt := ac_rtt a1; ac_maxp := ac_maxp a1; ac_cnt := 0; ac_bytes := 0 |} in
  match rest, sk with
  | _ :: _, Some k =>
      if seq_gt snd_una1 ack_nr then
        let sack_start := wadd16 ack_nr 2 in
        let so := seq_sub sack_start snd_una1 in
        let '(l', a') :=
          if 0 <=? so then
            let '(tl', a') := apply_sack (skipn (Z.to_nat so) rest) (sk_bits k) now a0 in
            (firstn (Z.to_nat so) rest ++ tl', a')
          else apply_sack rest (skipn (Z.to_nat (- so)) (sk_bits k)) now a0 in
        (l', a', sk_len k, negb (existsb (fun b => b) (sk_bits k)))
      else (rest, a0, ss_sack_depth t, ss_last_sack_empty t)
  | _, _ => (rest, a0, ss_sack_depth t, ss_last_sack_empty t)
  end.

Definition remove_up_to_ack (t : segments) (now ack_nr : Z) (sk : option sackbits)
  : segments * on_ack_result :=
  let offset := seq_sub ack_nr (ss_snd_una t) in
  (* phase 1: cumulative *)
  let dc := if 0 <=? offset then Z.to_nat (Z.min (offset + 1) (len_z (ss_segs t))) else O in
  let drained := firstn dc (ss_segs t) in
  let rest := skipn dc (ss_segs t) in
  let a1 := drain_acc drained now {| ac_rtt := None; ac_maxp := 0; ac_cnt := 0; ac_bytes := 0 |} in
  let snd_una1 := wadd16 (ss_snd_una t) (Z.of_nat dc mod M16) in
  (* phase 2: selective *)
  let '(rest2, a2, depth, lse) := sack_phase t rest a1 snd_una1 now ack_nr sk in
  (* phase 3: strip delivered front *)
  let '(rest3, cnt3, bytes3) := strip_delivered rest2 0 0 in
  let removed := ac_cnt a1 + cnt3 in
  let payload := ac_bytes a1 + bytes3 in
  ({| ss_segs := rest3; ss_len_bytes := ss_len_bytes t - payload; ss_offset := ss_offset t;
      ss_removed := ss_removed t + payload; ss_sack_depth := depth; ss_last_sack_empty := lse;
      ss_snd_una := wadd16 snd_una1 (cnt3 mod M16) |},
   {| ar_acked_segments := removed; ar_acked_bytes := payload;
      ar_max_acked_payload := ac_maxp a2;
      ar_newly_sacked_segments := ac_cnt a2; ar_newly_sacked_bytes := ac_bytes a2;
      ar_new_rtt := ac_rtt a2 |}).

(* ---- calc_flight_size ---- *)
Fixpoint flight_sum (l : list seg) : Z :=
  match l with
  | [] => 0
  | s :: r => (if sg_delivered s then 0 else sg_size s) + flight_sum r
  end.

Definition calc_flight_size (t : segments) (last_sent_seq_nr : Z) : Z :=
  let take := Z.max (seq_sub last_sent_seq_nr (ss_snd_una t) + 1) 0 in
  flight_sum (firstn (Z.to_nat take) (ss_segs t)).

(* ---- iter_mut_for_sending ---- *)
Record for_sending := { fs_idx : nat; fs_seq : Z; fs_payload_offset : Z; fs_seg : seg }.

Fixpoint enum_from {A} (i : nat) (l : list A) : list (nat * A) :=
  match l with [] => [] | x :: r => (i, x) :: enum_from (S i) r end.

Definition iter_for_sending (t : segments) (start : option Z) : list for_sending :=
  let offset := match start with
                | Some s => Z.to_nat (Z.max (seq_sub s (ss_snd_una t)) 0)
                | None => O end in
  let items := enum_from offset (skipn offset (ss_segs t)) in
  let mk := fun '(i, s) =>
    {| fs_idx := i; fs_seq := wadd16 (ss_snd_una t) (Z.of_nat i mod M16);
       fs_payload_offset := sg_abs s - ss_removed t; fs_seg := s |} in
  filter (fun f => negb (sg_delivered (fs_seg f))) (map mk items).

(* SegmentForSending::on_sent *)
Definition seg_on_sent (s : seg) (now : Z) : seg :=
  {| sg_size := sg_size s; sg_abs := sg_abs s; sg_delivered := sg_delivered s;
     sg_sent := match sg_sent s with
                | NotSent => SentTime now
                | SentTime _ => Retransmitted 1 now
                | Retransmitted c _ => Retransmitted (c + 1) now
                end;
     sg_probe := sg_probe s; sg_lost := sg_lost s; sg_expired := sg_expired s;
     sg_sacks_after := sg_sacks_after s |}.

Fixpoint update_nth {A} (l : list A) (n : nat) (f : A -> A) : list A :=
  match l, n with
  | [], _ => []
  | x :: r, O => f x :: r
  | x :: r, S n' => x :: update_nth r n' f
  end.

Definition on_sent (t : segments) (idx : nat) (now : Z) : segments :=
  set_segs t (update_nth (ss_segs t) idx (fun s => seg_on_sent s now)) (ss_len_bytes t) (ss_offset t).

(* ---- calc_pipe ---- *)
Definition calc_pipe_expiry (rtt : Z) : Z := rtt * 3 / 4.

Record pipe_acc := { pa_pipe : Z; pa_delivered : Z; pa_recalc : option Z }.

(* l is the reversed enumerated prefix (highest offset first); returns updated segs in the same order *)
Fixpoint pipe_loop (l : list (nat * seg)) (t : segments) (high_rxt threshold now : Z) (a : pipe_acc)
  : list seg * pipe_acc :=
  match l with
  | [] => ([], a)
  | (off, s) :: r =>
      match seg_last_sent s with
      | None => let '(r', a') := pipe_loop r t high_rxt threshold now a in (s :: r', a')
      | Some last_sent =>
          if sg_delivered s then
            let '(r', a') := pipe_loop r t high_rxt threshold now
                               {| pa_pipe := pa_pipe a; pa_delivered := pa_delivered a + 1;
                                  pa_recalc := pa_recalc a |} in
            (s :: r', a')
          else
            let seq_nr := wadd16 (ss_snd_una t) (Z.of_nat off mod M16) in
            let sacks_after := (0 <? pa_delivered a) || ss_last_sack_empty t in
            let pipe1 := if seq_le seq_nr high_rxt then pa_pipe a + sg_size s else pa_pipe a in
            let expired := threshold <=? sat_sub now last_sent in
            let lost := if ss_sack_depth t + 1 <? Z.of_nat off then expired
                        else (3 <=? pa_delivered a) || expired in
            let pipe2 := if negb lost then pipe1 + sg_size s else pipe1 in
            let recalc := if negb expired && negb lost then Some (last_sent + threshold)
                          else pa_recalc a in
            let s' := {| sg_size := sg_size s; sg_abs := sg_abs s; sg_delivered := sg_delivered s;
                         sg_sent := sg_sent s; sg_probe := sg_probe s; sg_lost := lost;
                         sg_expired := expired; sg_sacks_after := sacks_after |} in
            let '(r', a') := pipe_loop r t high_rxt threshold now
                               {| pa_pipe := pipe2; pa_delivered := pa_delivered a;
                                  pa_recalc := recalc |} in
            (s' :: r', a')
      end
  end.

(* None = the `range_mut(..take)` index panic; unreachable since `take` is clamped to the table
   length (repair of D21: an ACK for never-sent segments, or more segments than the wrap tolerance,
   made the distance high_data - snd_una exceed the table) *)
Definition calc_pipe (t : segments) (high_rxt high_data rtt now : Z)
  : option (segments * Z * option Z) :=
  let take := Z.min (Z.max (seq_sub high_data (ss_snd_una t)) 0) (len_z (ss_segs t)) in
  if len_z (ss_segs t) <? take then None
  else
    let n := Z.to_nat take in
    let pre := enum_from O (firstn n (ss_segs t)) in
    let '(upd_rev, a) := pipe_loop (rev pre) t high_rxt (calc_pipe_expiry rtt) now
                                   {| pa_pipe := 0; pa_delivered := 0; pa_recalc := None |} in
    Some (set_segs t (rev upd_rev ++ skipn n (ss_segs t)) (ss_len_bytes t) (ss_offset t),
          pa_pipe a, pa_recalc a).

(* ---- op alphabet for the component correspondence ---- *)
Inductive seg_op :=
| SoEnqueue (len : Z) (probe : bool)
| SoPopProbe (seq_nr : Z)
| SoPopExpired (timed_out : bool) (max_retx : Z)
| SoAck (now ack_nr : Z) (sk : option sackbits)
| SoFlight (last_sent : Z)
| SoIter (start : option Z)
| SoOnSent (start : option Z) (k : nat) (now : Z)     (* on_sent on the k-th item of the iterator *)
| SoPipe (high_rxt high_data rtt now : Z).

Inductive seg_out :=
| SrUnit
| SrBool (b : bool)
| SrPop (p : pop_expired)
| SrAck (r : on_ack_result)
| SrNum (n : Z)
| SrIter (l : list for_sending)
| SrPipe (pipe : Z) (recalc : option Z)
| SrPanic.

Definition seg_step (t : segments) (o : seg_op) : segments * seg_out :=
  match o with
  | SoEnqueue len p => (enqueue t len p, SrUnit)
  | SoPopProbe q => let '(t', b) := pop_mtu_probe t q in (t', SrBool b)
  | SoPopExpired to mr => let '(t', p) := pop_expired_mtu_probe t to mr in (t', SrPop p)
  | SoAck now a sk => let '(t', r) := remove_up_to_ack t now a sk in (t', SrAck r)
  | SoFlight ls => (t, SrNum (calc_flight_size t ls))
  | SoIter st =>
      let l := iter_for_sending t st in
      if existsb (fun f => fs_payload_offset f <? 0) l then (t, SrPanic) else (t, SrIter l)
  | SoOnSent st k now =>
      match nth_error (iter_for_sending t st) k with
      | Some f => (on_sent t (fs_idx f) now, SrUnit)
      | None => (t, SrUnit)
      end
  | SoPipe hr hd rtt now =>
      match calc_pipe t hr hd rtt now with
      | Some (t', p, rc) => (t', SrPipe p rc)
      | None => (t, SrPanic)
      end
  end.

Fixpoint seg_run (t : segments) (ops : list seg_op) : segments :=
  match ops with [] => t | o :: r => seg_run (fst (seg_step t o)) r end.

Fixpoint seg_trace (t : segments) (ops : list seg_op) : list (seg_out * segments) :=
  match ops with
  | [] => []
  | o :: r => let '(t', out) := seg_step t o in
              (out, t') :: (match out with SrPanic => [] | _ => seg_trace t' r end)
  end.

From Utp Require Import Base.Prelude Tx.Ring.

Definition tx_inv (initial mx : Z) (s : tx) : Prop :=
  Z.of_nat (length (ring s)) <= cap s /\
  initial <= cap s <= Z.max initial mx /\
  0 <= g_removed s /\
  g_written s = firstn (Z.to_nat (g_removed s)) (g_written s) ++ ring s /\
  Z.of_nat (length (g_written s)) = g_removed s + Z.of_nat (length (ring s)).

Definition tx_op_ok (mx : Z) (o : tx_op) : Prop :=
  match o with ToGrow m => m = mx | ToTruncate n => 0 <= n | _ => True end.

Ltac tsimpl := cbn [ring cap t_vsock_closed writer_dropped writer_shutdown t_disp_waker writer_waker
  written_without_yield g_written g_removed upd] in *.

Lemma new_inv initial mx : 0 < initial -> tx_inv initial mx (tx_new initial).
Proof. intro H. unfold tx_inv, tx_new; tsimpl. cbn. repeat split; lia. Qed.

Lemma firstn_app_exact {A} (a b : list A) n : n = length a -> firstn n (a ++ b) = a.
Proof. intros ->. rewrite firstn_app, Nat.sub_diag, firstn_all. cbn. apply app_nil_r. Qed.

Lemma poll_write_spec initial mx s buf s' r w :
  tx_inv initial mx s -> poll_write s buf = (s', r, w) ->
  tx_inv initial mx s' /\ cap s' = cap s /\ g_removed s' = g_removed s /\
  match r with
  | WrOk n => 0 < n <= Z.of_nat (length buf) /\
              ring s' = ring s ++ firstn (Z.to_nat n) buf /\
              g_written s' = g_written s ++ firstn (Z.to_nat n) buf
  | _ => ring s' = ring s /\ g_written s' = g_written s
  end /\
  (* back-pressure: a full ring on a live connection stores nothing and parks the writer *)
  (Z.of_nat (length (ring s)) = cap s -> t_vsock_closed s = false -> writer_shutdown s = false ->
   writer_dropped s = false ->
   r = WrPending /\ (w = [TwSelf] \/ writer_waker s' = true)).
Proof.
  intros (H1 & H2 & H3 & H4 & H5). unfold poll_write.
  destruct (YIELD_EVERY <? written_without_yield s).
  { intro H; injection H as <- <- <-. tsimpl. unfold tx_inv; tsimpl.
    repeat split; try assumption; try lia; auto. }
  destruct (t_vsock_closed s) eqn:Evc.
  { intro H; injection H as <- <- <-. unfold tx_inv. repeat split; try assumption; try lia; intros; discriminate. }
  destruct (writer_shutdown s) eqn:Ews.
  { intro H; injection H as <- <- <-. unfold tx_inv. repeat split; try assumption; try lia; intros; discriminate. }
  destruct (writer_dropped s) eqn:Ewd.
  { intro H; injection H as <- <- <-. unfold tx_inv. repeat split; try assumption; try lia; intros; discriminate. }
  set (count := Z.min (Z.of_nat (length buf)) (Z.max (cap s - Z.of_nat (length (ring s))) 0)).
  destruct (Z.eqb_spec count 0) as [Hz|Hnz].
  { intro H; injection H as <- <- <-. tsimpl. unfold tx_inv; tsimpl.
    repeat split; try assumption; try lia; auto. }
  assert (Hc : 0 < count) by (unfold count in *; lia).
  assert (Hlen : length (firstn (Z.to_nat count) buf) = Z.to_nat count).
  { apply firstn_length_le. unfold count. lia. }
  intro H; injection H as <- <- <-. tsimpl. unfold tx_inv; tsimpl.
  rewrite !app_length, Hlen.
  split.
  { split; [unfold count; lia|]. split; [lia|]. split; [lia|]. split; [|lia].
    assert (Hr : (Z.to_nat (g_removed s) <= length (g_written s))%nat) by lia.
    rewrite firstn_app.
    replace (Z.to_nat (g_removed s) - length (g_written s))%nat with 0%nat by lia.
    cbn [firstn]. rewrite app_nil_r, app_assoc, <- H4. reflexivity. }
  split; [reflexivity|]. split; [reflexivity|].
  split; [split; [unfold count; lia|split; reflexivity]|].
  intros Hfull _ _ _. exfalso. unfold count in Hnz, Hc. lia.
Qed.

Lemma truncate_spec initial mx s n s' r :
  tx_inv initial mx s -> 0 <= n -> truncate_front s n = (s', r) ->
  tx_inv initial mx s' /\ cap s' = cap s /\ g_written s' = g_written s /\
  ring s' = skipn (Z.to_nat (Z.min n (Z.of_nat (length (ring s))))) (ring s) /\
  g_removed s' = g_removed s + Z.min n (Z.of_nat (length (ring s))) /\
  (r = TrOk <-> n <= Z.of_nat (length (ring s))).
Proof.
  intros (H1 & H2 & H3 & H4 & H5) Hn. unfold truncate_front.
  set (sk := Z.min n (Z.of_nat (length (ring s)))).
  assert (Hres : forall r0, (upd s (skipn (Z.to_nat sk) (ring s)) (cap s) (t_vsock_closed s) (writer_dropped s)
     (writer_shutdown s) (t_disp_waker s) (writer_waker s) (written_without_yield s) (g_written s)
     (g_removed s + sk), r0) = (s', r) -> tx_inv initial mx s' /\ cap s' = cap s /\ g_written s' = g_written s /\
     ring s' = skipn (Z.to_nat sk) (ring s) /\ g_removed s' = g_removed s + sk).
  { intros r0 H; injection H as <- _. tsimpl. unfold tx_inv; tsimpl.
    rewrite skipn_length.
    split; [|repeat split; reflexivity].
    split; [lia|]. split; [lia|]. split; [unfold sk; lia|]. split; [|unfold sk; lia].
    replace (Z.to_nat (g_removed s + sk)) with (Z.to_nat (g_removed s) + Z.to_nat sk)%nat by (unfold sk; lia).
    set (P := firstn (Z.to_nat (g_removed s)) (g_written s)) in *.
    assert (HP : length P = Z.to_nat (g_removed s)) by (unfold P; apply firstn_length_le; lia).
    rewrite H4. rewrite firstn_app, HP.
    clearbody P.
    assert (Hfa : firstn (Z.to_nat (g_removed s) + Z.to_nat sk) P = P) by (apply firstn_all2; lia).
    rewrite Hfa.
    replace (Z.to_nat (g_removed s) + Z.to_nat sk - Z.to_nat (g_removed s))%nat with (Z.to_nat sk) by lia.
    rewrite <- app_assoc, firstn_skipn. reflexivity. }
  destruct (Z.eqb_spec sk n) as [He|Hne]; intro H.
  - destruct (Hres _ H) as (A & B & C & D & E).
    split; [exact A|]. split; [exact B|]. split; [exact C|]. split; [exact D|]. split; [exact E|].
    split.
    + intros _. unfold sk in He. lia.
    + intros _. injection H as _ <-. reflexivity.
  - destruct (Hres _ H) as (A & B & C & D & E).
    split; [exact A|]. split; [exact B|]. split; [exact C|]. split; [exact D|]. split; [exact E|].
    split.
    + intro Hr. injection H as _ <-. discriminate.
    + intro Hle. unfold sk in Hne. lia.
Qed.

Lemma grow_spec initial mx s s' r :
  tx_inv initial mx s -> grow s mx = (s', r) ->
  tx_inv initial mx s' /\ ring s' = ring s /\ g_written s' = g_written s /\ g_removed s' = g_removed s /\
  match r with
  | Some c => cap s < mx /\ c = Z.min (2 * cap s) mx /\ cap s' = c
  | None => mx <= cap s /\ cap s' = cap s
  end.
Proof.
  intros (H1 & H2 & H3 & H4 & H5). unfold grow.
  destruct (Z.leb_spec mx (cap s)) as [Hle|Hgt]; intro Hg; injection Hg as <- <-; tsimpl.
  - unfold tx_inv. repeat split; try assumption; lia.
  - unfold tx_inv; tsimpl. repeat split; try assumption; lia.
Qed.

(* generic: an op that only changes flags/wakers keeps the invariant *)
Lemma flags_only_inv initial mx s vc wd ws dw ww wwy :
  tx_inv initial mx s ->
  tx_inv initial mx (upd s (ring s) (cap s) vc wd ws dw ww wwy (g_written s) (g_removed s)).
Proof. unfold tx_inv; tsimpl. tauto. Qed.

Lemma tx_step_inv initial mx s o s' out w :
  tx_inv initial mx s -> tx_op_ok mx o -> tx_step s o = (s', out, w) -> tx_inv initial mx s'.
Proof.
  intros Hinv Hok. destruct o; cbn [tx_step tx_op_ok] in *.
  - destruct (writer_dropped s); [intro H; injection H as <- _ _; exact Hinv|].
    destruct (poll_write s buf) as [[s1 r] w1] eqn:E. intro H; injection H as <- _ _.
    exact (proj1 (poll_write_spec _ _ _ _ _ _ _ Hinv E)).
  - destruct (writer_dropped s); [intro H; injection H as <- _ _; exact Hinv|].
    unfold poll_flush. destruct (ring s) eqn:Er; [intro H; injection H as <- _ _; exact Hinv|].
    destruct (t_vsock_closed s); intro H; injection H as <- _ _; [exact Hinv|].
    rewrite <- Er. apply flags_only_inv. exact Hinv.
  - destruct (writer_dropped s); [intro H; injection H as <- _ _; exact Hinv|].
    unfold poll_shutdown. destruct (ring s) eqn:Er.
    + destruct (t_vsock_closed s); [intro H; injection H as <- _ _; exact Hinv|].
      destruct (writer_shutdown s); intro H; injection H as <- _ _;
        rewrite <- Er; apply flags_only_inv; exact Hinv.
    + destruct (t_vsock_closed s); intro H; injection H as <- _ _; [exact Hinv|].
      rewrite <- Er; apply flags_only_inv; exact Hinv.
  - unfold drop_writer. destruct (writer_dropped s); intro H; injection H as <- _ _; [exact Hinv|].
    apply flags_only_inv; exact Hinv.
  - unfold mark_vsock_closed. intro H; injection H as <- _ _. apply flags_only_inv; exact Hinv.
  - destruct (truncate_front s count) as [s1 r] eqn:E. intro H; injection H as <- _ _.
    exact (proj1 (truncate_spec _ _ _ _ _ _ Hinv Hok E)).
  - subst max_size. destruct (grow s mx) as [s1 r] eqn:E. intro H; injection H as <- _ _.
    exact (proj1 (grow_spec _ _ _ _ _ Hinv E)).
  - unfold register_dispatcher_if_empty. destruct (ring s) eqn:Er; intro H; injection H as <- _ _; [|exact Hinv].
    rewrite <- Er. apply flags_only_inv; exact Hinv.
  - unfold wake_writer. intro H; injection H as <- _ _. apply flags_only_inv; exact Hinv.
Qed.

Lemma tx_run_inv initial mx : forall ops s,
  tx_inv initial mx s -> Forall (tx_op_ok mx) ops -> tx_inv initial mx (tx_run s ops).
Proof.
  induction ops as [|o ops IH]; intros s Hinv Hok; cbn [tx_run]; [exact Hinv|].
  inversion Hok as [|? ? Ho Hrest]; subst.
  destruct (tx_step s o) as [[s1 out] w] eqn:E.
  apply IH; [|exact Hrest]. exact (tx_step_inv _ _ _ _ _ _ _ Hinv Ho E).
Qed.

(* C19 bound for every reachable state *)
Lemma c19_bound_reachable initial mx ops :
  0 < initial -> Forall (tx_op_ok mx) ops ->
  let s := tx_run (tx_new initial) ops in
  Z.of_nat (length (ring s)) <= cap s <= Z.max initial mx /\
  Z.of_nat (length (g_written s)) - g_removed s = Z.of_nat (length (ring s)) /\
  g_written s = firstn (Z.to_nat (g_removed s)) (g_written s) ++ ring s.
Proof.
  intros Hi Hok. cbv zeta.
  destruct (tx_run_inv initial mx ops (tx_new initial) (new_inv initial mx Hi) Hok) as (H1 & H2 & H3 & H4 & H5).
  repeat split; try lia; assumption.
Qed.

(* honest completion at this tier: Ok from flush/shutdown means the ring is empty *)
Lemma flush_ok_ring_empty s s' w : poll_flush s = (s', UrOk, w) -> ring s = [] /\ s' = s.
Proof.
  unfold poll_flush. destruct (ring s); [intro H; injection H as <- _; auto|].
  destruct (t_vsock_closed s); discriminate.
Qed.

Lemma shutdown_ok_ring_empty s s' w :
  poll_shutdown s = (s', UrOk, w) -> ring s = [] /\ t_vsock_closed s = true /\ s' = s.
Proof.
  unfold poll_shutdown. destruct (ring s).
  - destruct (t_vsock_closed s); [intro H; injection H as <- _; auto|].
    destruct (writer_shutdown s); discriminate.
  - destruct (t_vsock_closed s); discriminate.
Qed.

(* wake-ups owed to a parked writer *)
Lemma wake_writer_fires s s' w :
  wake_writer s = (s', w) -> writer_waker s = true -> w = [TwWriter] /\ writer_waker s' = false.
Proof. unfold wake_writer. intros H Hw. rewrite Hw in H. injection H as <- <-. auto. Qed.

Lemma mark_closed_fires s s' w :
  mark_vsock_closed s = (s', w) -> writer_waker s = true ->
  w = [TwWriter] /\ writer_waker s' = false /\ t_vsock_closed s' = true.
Proof. unfold mark_vsock_closed. intros H Hw. rewrite Hw in H. injection H as <- <-. auto. Qed.

Lemma write_wakes_dispatcher s buf s' n w :
  poll_write s buf = (s', WrOk n, w) -> t_disp_waker s = true -> w = [TwDispatcher] /\ t_disp_waker s' = false.
Proof.
  unfold poll_write. destruct (_ <? _); [discriminate|].
  destruct (t_vsock_closed s); [discriminate|]. destruct (writer_shutdown s); [discriminate|].
  destruct (writer_dropped s); [discriminate|]. destruct (_ =? 0); [discriminate|].
  intros H Hd. rewrite Hd in H. injection H as <- _ <-. auto.
Qed.

(* D2 repaired (fix: in /repo): the first poll_shutdown on an empty ring takes the dispatcher's waker
   and fires it, exactly as mark_writer_dropped does; later calls only re-register the writer *)
Lemma shutdown_idle_wakes_dispatcher s s' r w :
  ring s = [] -> t_vsock_closed s = false -> writer_shutdown s = false -> t_disp_waker s = true ->
  poll_shutdown s = (s', r, w) ->
  r = UrPending /\ w = [TwDispatcher] /\ writer_shutdown s' = true /\ t_disp_waker s' = false.
Proof.
  unfold poll_shutdown. intros -> -> -> Hd H. rewrite Hd in H. injection H as <- <- <-. tsimpl. auto.
Qed.

Example shutdown_idle_example :
  let s := register_dispatcher_if_empty (tx_new 8) in
  ring s = [] /\ t_disp_waker s = true /\
  let '(s', r, w) := poll_shutdown s in r = UrPending /\ w = [TwDispatcher] /\ writer_shutdown s' = true.
Proof. vm_compute. repeat split. Qed.

(* the boolean predicate holds of every model trace *)
Lemma c19_ob_ok_model initial mx s o s' out w :
  tx_inv initial mx s -> tx_op_ok mx o -> tx_step s o = (s', out, w) ->
  c19_ob_ok initial mx {| to_out := out; to_wakes := w; to_ring := ring s'; to_cap := cap s';
     to_flags := [t_vsock_closed s'; writer_dropped s'; writer_shutdown s'; t_disp_waker s'; writer_waker s'] |} = true.
Proof.
  intros Hinv Hok E. pose proof (tx_step_inv _ _ _ _ _ _ _ Hinv Hok E) as (H1 & H2 & _).
  unfold c19_ob_ok; cbn [to_ring to_cap to_out to_wakes to_flags nth].
  replace (Z.of_nat (length (ring s')) <=? cap s') with true by lia.
  replace (cap s' <=? Z.max initial mx) with true by lia.
  replace (initial <=? cap s') with true by lia. cbn [andb].
  destruct o; cbn [tx_step] in E.
  - destruct (writer_dropped s) eqn:Ewd0; [injection E as _ <- _; reflexivity|].
    destruct (poll_write s buf) as [[s1 r] w1] eqn:E1. injection E as <- <- <-.
    unfold poll_write in E1. destruct (_ <? _); [injection E1 as <- <- <-; reflexivity|].
    destruct (t_vsock_closed s); [injection E1 as <- <- <-; reflexivity|].
    destruct (writer_shutdown s); [injection E1 as <- <- <-; reflexivity|].
    rewrite Ewd0 in E1.
    destruct (Z.eqb_spec (Z.min (Z.of_nat (length buf)) (Z.max (cap s - Z.of_nat (length (ring s))) 0)) 0) as [Hz|Hnz];
      injection E1 as <- <- <-; tsimpl.
    + reflexivity.
    + destruct Hinv as (I1 & _). apply Z.ltb_lt. lia.
  - destruct (writer_dropped s); [injection E as _ <- _; reflexivity|].
    destruct (poll_flush s) as [[s1 r] w1]. injection E as _ <- _. reflexivity.
  - destruct (writer_dropped s); [injection E as _ <- _; reflexivity|].
    destruct (poll_shutdown s) as [[s1 r] w1]. injection E as _ <- _. reflexivity.
  - destruct (drop_writer s) as [s1 w1]. injection E as _ <- _. reflexivity.
  - destruct (mark_vsock_closed s) as [s1 w1]. injection E as _ <- _. reflexivity.
  - destruct (truncate_front s count) as [s1 r]. injection E as _ <- _. reflexivity.
  - destruct (grow s max_size) as [s1 r]. injection E as _ <- _. reflexivity.
  - injection E as _ <- _. reflexivity.
  - destruct (wake_writer s) as [s1 w1]. injection E as _ <- _. reflexivity.
Qed.

Lemma model_trace_c19_ok initial mx : forall ops s,
  tx_inv initial mx s -> Forall (tx_op_ok mx) ops -> c19_ok initial mx (tx_trace s ops) = true.
Proof.
  induction ops as [|o ops IH]; intros s Hinv Hok; cbn [tx_trace]; [reflexivity|].
  inversion Hok as [|? ? Ho Hrest]; subst.
  destruct (tx_step s o) as [[s1 out] w] eqn:E.
  unfold c19_ok in *. cbn [forallb]. rewrite (c19_ob_ok_model _ _ _ _ _ _ _ Hinv Ho E). cbn [andb].
  apply IH; [|exact Hrest]. exact (tx_step_inv _ _ _ _ _ _ _ Hinv Ho E).
Qed.

Example tx_example :
  let s := tx_run (tx_new 4) [ToWrite [1;2;3]; ToWrite [4;5;6]; ToTruncate 2; ToGrow 16; ToWrite [7;8]] in
  ring s = [3;4;7;8] /\ cap s = 8 /\ g_removed s = 2 /\ g_written s = [1;2;3;4;7;8].
Proof. vm_compute. repeat split. Qed.

(* growth keeps the content: the predicate holds of every model trace *)
Lemma grow_scan_model : forall ops s,
  c19_grow_scan (Z.of_nat (length (ring s))) (ring_hashZ (ring s)) (grow_view (tx_trace s ops)) = true.
Proof.
  induction ops as [|o ops IH]; intro s; [reflexivity|].
  cbn [tx_trace]. destruct (tx_step s o) as [[s1 out] w] eqn:E.
  cbn [grow_view map to_out to_ring c19_grow_scan]. fold (grow_view (tx_trace s1 ops)).
  rewrite IH, andb_true_r.
  destruct out; try reflexivity.
  destruct o; cbn [tx_step] in E;
    try (destruct (writer_dropped s); [discriminate|]);
    try (destruct (poll_write s buf) as [[? ?] ?]; discriminate);
    try (destruct (poll_flush s) as [[? ?] ?]; discriminate);
    try (destruct (poll_shutdown s) as [[? ?] ?]; discriminate);
    try (destruct (drop_writer s) as [? ?]; discriminate);
    try (destruct (mark_vsock_closed s) as [? ?]; discriminate);
    try (destruct (truncate_front s count) as [? ?]; discriminate);
    try (destruct (wake_writer s) as [? ?]; discriminate);
    try discriminate.
  destruct (grow s max_size) as [s2 r2] eqn:G. injection E as <- _ _.
  assert (Hr : ring s2 = ring s).
  { unfold grow in G. destruct (max_size <=? cap s); injection G as <- _; reflexivity. }
  rewrite Hr, !Z.eqb_refl. reflexivity.
Qed.

Lemma model_trace_c19_grow_ok initial ops : c19_grow_ok (grow_view (tx_trace (tx_new initial) ops)) = true.
Proof. unfold c19_grow_ok. exact (grow_scan_model ops (tx_new initial)). Qed.

(* M2: src/stream_tx.rs — UserTx (ring buffer + flags + wakers) and UtpStreamWriteHalf
   (poll_write / poll_flush / poll_shutdown / Drop).  Model only. *)
From Utp Require Import Base.Prelude.

Record tx := {
  ring : list Z;            (* bytes held, oldest first *)
  cap : Z;                  (* ring capacity *)
  t_vsock_closed : bool;
  writer_dropped : bool;
  writer_shutdown : bool;
  t_disp_waker : bool;      (* dispatcher_waker.is_some() *)
  writer_waker : bool;      (* writer_waker.is_some() *)
  written_without_yield : Z;
  (* ghost *)
  g_written : list Z;       (* every byte ever accepted by poll_write, in order *)
  g_removed : Z;            (* bytes ever removed by truncate_front *)
}.

Definition tx_new (capacity : Z) : tx :=
  {| ring := []; cap := capacity; t_vsock_closed := false; writer_dropped := false;
     writer_shutdown := false; t_disp_waker := false; writer_waker := false;
     written_without_yield := 0; g_written := []; g_removed := 0 |}.

Inductive twake := TwDispatcher | TwWriter | TwSelf.  (* TwSelf: cx.waker().wake_by_ref() in poll_write *)

Definition YIELD_EVERY : Z := 8192.

Definition upd (s : tx) (r : list Z) (c : Z) (vc wd ws dw ww : bool) (wwy : Z) (gw : list Z) (gr : Z) : tx :=
  {| ring := r; cap := c; t_vsock_closed := vc; writer_dropped := wd; writer_shutdown := ws;
     t_disp_waker := dw; writer_waker := ww; written_without_yield := wwy;
     g_written := gw; g_removed := gr |}.

Inductive write_result := WrOk (n : Z) | WrPending | WrErrClosed | WrErrShutdown | WrErrDropped.

Definition poll_write (s : tx) (buf : list Z) : tx * write_result * list twake :=
  if YIELD_EVERY <? written_without_yield s then
    (upd s (ring s) (cap s) (t_vsock_closed s) (writer_dropped s) (writer_shutdown s)
         (t_disp_waker s) (writer_waker s) 0 (g_written s) (g_removed s), WrPending, [TwSelf])
  else if t_vsock_closed s then (s, WrErrClosed, [])
  else if writer_shutdown s then (s, WrErrShutdown, [])
  else if writer_dropped s then (s, WrErrDropped, [])
  else
    let room := cap s - Z.of_nat (length (ring s)) in
    let count := Z.min (Z.of_nat (length buf)) (Z.max room 0) in
    if count =? 0 then
      (upd s (ring s) (cap s) (t_vsock_closed s) (writer_dropped s) (writer_shutdown s)
           (t_disp_waker s) true 0 (g_written s) (g_removed s), WrPending, [])
    else
      let taken := firstn (Z.to_nat count) buf in
      (upd s (ring s ++ taken) (cap s) (t_vsock_closed s) (writer_dropped s) (writer_shutdown s)
           false (writer_waker s) (written_without_yield s + count)
           (g_written s ++ taken) (g_removed s),
       WrOk count, if t_disp_waker s then [TwDispatcher] else []).

Inductive unit_result := UrOk | UrPending | UrErr.

Definition poll_flush (s : tx) : tx * unit_result * list twake :=
  match ring s with
  | [] => (s, UrOk, [])
  | _ =>
    if t_vsock_closed s then (s, UrErr, [])
    else (upd s (ring s) (cap s) (t_vsock_closed s) (writer_dropped s) (writer_shutdown s)
              (t_disp_waker s) true (written_without_yield s) (g_written s) (g_removed s),
          UrPending, [])
  end.

Definition poll_shutdown (s : tx) : tx * unit_result * list twake :=
  match ring s with
  | _ :: _ =>
    if t_vsock_closed s then (s, UrErr, [])
    else (upd s (ring s) (cap s) (t_vsock_closed s) (writer_dropped s) (writer_shutdown s)
              (t_disp_waker s) true (written_without_yield s) (g_written s) (g_removed s),
          UrPending, [])
  | [] =>
    if t_vsock_closed s then (s, UrOk, [])
    else if writer_shutdown s then
      (upd s (ring s) (cap s) (t_vsock_closed s) (writer_dropped s) true
           (t_disp_waker s) true (written_without_yield s) (g_written s) (g_removed s),
       UrPending, [])
    else
      (* first call: the dispatcher is told (as mark_writer_dropped does); repair of D2 *)
      (upd s (ring s) (cap s) (t_vsock_closed s) (writer_dropped s) true
           false true (written_without_yield s) (g_written s) (g_removed s),
       UrPending, if t_disp_waker s then [TwDispatcher] else [])
  end.

(* Drop for UtpStreamWriteHalf -> mark_writer_dropped *)
Definition drop_writer (s : tx) : tx * list twake :=
  if writer_dropped s then (s, [])
  else (upd s (ring s) (cap s) (t_vsock_closed s) true (writer_shutdown s)
            false (writer_waker s) (written_without_yield s) (g_written s) (g_removed s),
        if t_disp_waker s then [TwDispatcher] else []).

(* ---- dispatcher side ---- *)
Definition mark_vsock_closed (s : tx) : tx * list twake :=
  (upd s (ring s) (cap s) true (writer_dropped s) (writer_shutdown s)
       (t_disp_waker s) false (written_without_yield s) (g_written s) (g_removed s),
   if writer_waker s then [TwWriter] else []).

Inductive trunc_result := TrOk | TrBug (skipped count : Z).

(* skip(count) happens before the check *)
Definition truncate_front (s : tx) (count : Z) : tx * trunc_result :=
  let skipped := Z.min count (Z.of_nat (length (ring s))) in
  let s' := upd s (skipn (Z.to_nat skipped) (ring s)) (cap s) (t_vsock_closed s) (writer_dropped s)
                (writer_shutdown s) (t_disp_waker s) (writer_waker s) (written_without_yield s)
                (g_written s) (g_removed s + skipped) in
  if skipped =? count then (s', TrOk) else (s', TrBug skipped count).

Definition grow (s : tx) (max_size : Z) : tx * option Z :=
  if max_size <=? cap s then (s, None)
  else
    let new_cap := Z.min (cap s * 2) max_size in
    (upd s (ring s) new_cap (t_vsock_closed s) (writer_dropped s) (writer_shutdown s)
         (t_disp_waker s) (writer_waker s) (written_without_yield s) (g_written s) (g_removed s),
     Some new_cap).

(* split_tx_queue_into_segments: `if tx_len == 0 { update_optional_waker(dispatcher_waker) }` *)
Definition register_dispatcher_if_empty (s : tx) : tx :=
  match ring s with
  | [] => upd s (ring s) (cap s) (t_vsock_closed s) (writer_dropped s) (writer_shutdown s)
              true (writer_waker s) (written_without_yield s) (g_written s) (g_removed s)
  | _ => s
  end.

(* the dispatcher's `writer_waker.take()` + wake after truncate_front / grow *)
Definition wake_writer (s : tx) : tx * list twake :=
  (upd s (ring s) (cap s) (t_vsock_closed s) (writer_dropped s) (writer_shutdown s)
       (t_disp_waker s) false (written_without_yield s) (g_written s) (g_removed s),
   if writer_waker s then [TwWriter] else []).

Inductive tx_op :=
| ToWrite (buf : list Z)
| ToFlush
| ToShutdown
| ToDropWriter
| ToMarkClosed
| ToTruncate (count : Z)
| ToGrow (max_size : Z)
| ToRegisterIfEmpty
| ToWakeWriter.

Inductive tx_out :=
| TxWrite (r : write_result)
| TxUnit (r : unit_result)
| TxTrunc (r : trunc_result)
| TxGrow (r : option Z)
| TxNone.

Definition tx_step (s : tx) (o : tx_op) : tx * tx_out * list twake :=
  match o with
  | ToWrite buf =>
      if writer_dropped s then (s, TxNone, [])   (* no write half to call *)
      else let '(s', r, w) := poll_write s buf in (s', TxWrite r, w)
  | ToFlush => if writer_dropped s then (s, TxNone, [])
               else let '(s', r, w) := poll_flush s in (s', TxUnit r, w)
  | ToShutdown => if writer_dropped s then (s, TxNone, [])
                  else let '(s', r, w) := poll_shutdown s in (s', TxUnit r, w)
  | ToDropWriter => let '(s', w) := drop_writer s in (s', TxNone, w)
  | ToMarkClosed => let '(s', w) := mark_vsock_closed s in (s', TxNone, w)
  | ToTruncate n => let '(s', r) := truncate_front s n in (s', TxTrunc r, [])
  | ToGrow m => let '(s', r) := grow s m in (s', TxGrow r, [])
  | ToRegisterIfEmpty => (register_dispatcher_if_empty s, TxNone, [])
  | ToWakeWriter => let '(s', w) := wake_writer s in (s', TxNone, w)
  end.

Fixpoint tx_run (s : tx) (ops : list tx_op) : tx :=
  match ops with [] => s | o :: r => let '(s', _, _) := tx_step s o in tx_run s' r end.

Record tx_obs := {
  to_out : tx_out; to_wakes : list twake; to_ring : list Z; to_cap : Z;
  to_flags : list bool;   (* vsock_closed, writer_dropped, writer_shutdown, disp_waker, writer_waker *)
}.

Fixpoint tx_trace (s : tx) (ops : list tx_op) : list tx_obs :=
  match ops with
  | [] => []
  | o :: r =>
      let '(s', out, w) := tx_step s o in
      {| to_out := out; to_wakes := w; to_ring := ring s'; to_cap := cap s';
         to_flags := [t_vsock_closed s'; writer_dropped s'; writer_shutdown s';
                      t_disp_waker s'; writer_waker s'] |} :: tx_trace s' r
  end.

(* ---- C19 as a boolean predicate over one observation and the configured sizes ---- *)
Definition c19_ob_ok (initial max_size : Z) (o : tx_obs) : bool :=
  (Z.of_nat (length (to_ring o)) <=? to_cap o) &&
  (to_cap o <=? Z.max initial max_size) && (initial <=? to_cap o) &&
  (* a write that stored nothing on a live connection left the writer waker registered *)
  (match to_out o with
   | TxWrite WrPending => match to_wakes o with
                          | [TwSelf] => true
                          | _ => nth 4 (to_flags o) false
                          end
   | TxWrite (WrOk n) => (0 <? n)
   | _ => true
   end).

Definition c19_ok (initial max_size : Z) (obs : list tx_obs) : bool :=
  forallb (c19_ob_ok initial max_size) obs.

(* ---- C19 "Growing the buffer from its initial to its maximum size never loses, duplicates or reorders
   the bytes it holds", as a predicate over what the correspondence prints after every operation: the
   result kind, the ring length and a hash of the ring content.  After a grow operation both are what they
   were after the previous operation. *)
Definition ring_hashZ (l : list Z) : Z :=
  fst (fold_left (fun hp b => ((fst hp + (b + 1) * snd hp) mod 1000000007, (snd hp * 31) mod 1000000007))
                 l (0, 1)).

Definition grow_view (obs : list tx_obs) : list (tx_out * Z * Z) :=
  map (fun o => (to_out o, Z.of_nat (length (to_ring o)), ring_hashZ (to_ring o))) obs.

Fixpoint c19_grow_scan (prev_len prev_hash : Z) (v : list (tx_out * Z * Z)) : bool :=
  match v with
  | [] => true
  | (out, len, h) :: r =>
      (match out with TxGrow _ => (len =? prev_len) && (h =? prev_hash) | _ => true end) &&
      c19_grow_scan len h r
  end.

(* a connection's ring starts empty *)
Definition c19_grow_ok (v : list (tx_out * Z * Z)) : bool := c19_grow_scan 0 0 v.

(* "A sent, undelivered segment exists" ([segs_out]) through the operations of Tx/Segments.v:
   only on_sent can make it true; acknowledging, popping, re-flagging (calc_pipe) never do, and
   enqueueing adds segments that were never sent. Used by the retransmission-timer invariant. *)
From Utp Require Import Base.Prelude Wire.SeqNr Tx.Segments Tx.Segments_Proofs.

Definition seg_sent_b (g : seg) : bool := match sg_sent g with NotSent => false | _ => true end.
Definition seg_out (g : seg) : bool := seg_sent_b g && negb (sg_delivered g).
Definition segs_out (l : list seg) : bool := existsb seg_out l.

(* every outstanding element of l' comes with an outstanding element of l *)
Definition out_sub (l' l : list seg) : Prop := segs_out l' = true -> segs_out l = true.

Lemma segs_out_app a b : segs_out (a ++ b) = segs_out a || segs_out b.
Proof. apply existsb_app. Qed.

Lemma segs_out_In l : segs_out l = true <-> exists g, In g l /\ seg_out g = true.
Proof. apply existsb_exists. Qed.

Lemma segs_out_incl l' l : (forall g, In g l' -> seg_out g = true -> In g l) -> out_sub l' l.
Proof.
  intros H K. apply segs_out_In in K. destruct K as (g & G1 & G2).
  apply segs_out_In. exists g. split; [apply H; assumption | exact G2].
Qed.

Lemma segs_out_skipn n l : out_sub (skipn n l) l.
Proof.
  apply segs_out_incl. intros g H _. rewrite <- (firstn_skipn n l). apply in_or_app. right; exact H.
Qed.

Lemma segs_out_firstn n l : out_sub (firstn n l) l.
Proof.
  apply segs_out_incl. intros g H _. rewrite <- (firstn_skipn n l). apply in_or_app. left; exact H.
Qed.

Lemma seg_out_mark_delivered g : seg_out (mark_delivered g) = false.
Proof. unfold seg_out, mark_delivered. cbn [sg_delivered]. apply andb_false_r. Qed.

(* apply_sack only marks segments delivered *)
Lemma apply_sack_out : forall l bits now a l' a',
  apply_sack l bits now a = (l', a') -> out_sub l' l.
Proof.
  induction l as [|s r IH]; intros bits now a l' a'; cbn [apply_sack].
  - intro H; injection H as <- _. intro K; exact K.
  - destruct bits as [|b bs]; [intro H; injection H as <- _; intro K; exact K|].
    destruct (negb (sg_delivered s) && b).
    + destruct (apply_sack r bs now _) as [r' a''] eqn:E. intro H; injection H as <- _.
      unfold out_sub, segs_out. cbn [existsb]. rewrite seg_out_mark_delivered. cbn [orb].
      intro K. apply (IH _ _ _ _ _ E) in K. unfold segs_out in K. rewrite K. apply orb_true_r.
    + destruct (apply_sack r bs now a) as [r' a''] eqn:E. intro H; injection H as <- _.
      unfold out_sub, segs_out. cbn [existsb]. intro K. apply orb_true_iff in K. apply orb_true_iff.
      destruct K as [K|K]; [left; exact K|right]. exact (IH _ _ _ _ _ E K).
Qed.

Lemma strip_delivered_out : forall l cnt bytes l' cnt' bytes',
  strip_delivered l cnt bytes = (l', cnt', bytes') -> out_sub l' l.
Proof.
  induction l as [|s r IH]; intros cnt bytes l' cnt' bytes'; cbn [strip_delivered].
  - intro H; injection H as <- _ _. intro K; exact K.
  - destruct (sg_delivered s).
    + intro H. apply IH in H. intro K. apply H in K. unfold segs_out in *. cbn [existsb].
      rewrite K. apply orb_true_r.
    + intro H; injection H as <- _ _. intro K; exact K.
Qed.

Lemma sack_phase_out t rest a1 su now ack sk l' a' dp lse :
  sack_phase t rest a1 su now ack sk = (l', a', dp, lse) -> out_sub l' rest.
Proof.
  unfold sack_phase. destruct rest as [|x xs]; [intro H; injection H as <- _ _ _; intro K; exact K|].
  destruct sk as [k|]; [|intro H; injection H as <- _ _ _; intro K; exact K].
  destruct (seq_gt su ack); [|intro H; injection H as <- _ _ _; intro K; exact K].
  set (rest := x :: xs). set (so := seq_sub (wadd16 ack 2) su).
  destruct (0 <=? so).
  - destruct (apply_sack (skipn (Z.to_nat so) rest) _ now _) as [tl' a''] eqn:E.
    intro H; injection H as <- _ _ _. apply apply_sack_out in E.
    intro K. rewrite segs_out_app in K. apply orb_true_iff in K. destruct K as [K|K].
    + exact (segs_out_firstn _ _ K).
    + exact (segs_out_skipn _ _ (E K)).
  - destruct (apply_sack rest _ now _) as [l2 a''] eqn:E.
    intro H; injection H as <- _ _ _. exact (apply_sack_out _ _ _ _ _ _ E).
Qed.

Lemma remove_up_to_ack_out t now ack sk t' r :
  remove_up_to_ack t now ack sk = (t', r) -> out_sub (ss_segs t') (ss_segs t).
Proof.
  unfold remove_up_to_ack.
  set (dc := if 0 <=? seq_sub ack (ss_snd_una t) then _ else 0%nat).
  destruct (sack_phase t (skipn dc (ss_segs t)) _ _ now ack sk) as [[[rest2 a2] dp] lse] eqn:E2.
  destruct (strip_delivered rest2 0 0) as [[rest3 cnt3] bytes3] eqn:E3.
  intro H; injection H as <- _. cbn [ss_segs].
  intro K. apply (strip_delivered_out _ _ _ _ _ _ E3) in K.
  apply (sack_phase_out _ _ _ _ _ _ _ _ _ _ _ E2) in K.
  exact (segs_out_skipn _ _ K).
Qed.

(* calc_pipe rewrites the lost / expired / sacks_after flags only *)
Lemma pipe_loop_out : forall l t hr th now a l' a',
  pipe_loop l t hr th now a = (l', a') -> map seg_out l' = map seg_out (map snd l).
Proof.
  induction l as [|[off s] r IH]; intros t hr th now a l' a'; cbn [pipe_loop].
  - intro H; injection H as <- _. reflexivity.
  - destruct (seg_last_sent s).
    + destruct (sg_delivered s) eqn:Ed.
      * destruct (pipe_loop r t hr th now _) as [r' a''] eqn:E. intro H; injection H as <- _.
        cbn [map snd]. f_equal. exact (IH _ _ _ _ _ _ _ E).
      * destruct (pipe_loop r t hr th now _) as [r' a''] eqn:E. intro H; injection H as <- _.
        cbn [map snd]. f_equal; [|exact (IH _ _ _ _ _ _ _ E)].
        unfold seg_out, seg_sent_b. cbn [sg_sent sg_delivered]. rewrite Ed. reflexivity.
    + destruct (pipe_loop r t hr th now a) as [r' a''] eqn:E. intro H; injection H as <- _.
      cbn [map snd]. f_equal. exact (IH _ _ _ _ _ _ _ E).
Qed.

Lemma segs_out_map l l' : map seg_out l' = map seg_out l -> segs_out l' = segs_out l.
Proof.
  revert l'; induction l as [|x xs IH]; intros [|y ys] H; cbn [map] in H; try discriminate; [reflexivity|].
  injection H as H1 H2. unfold segs_out. cbn [existsb]. rewrite H1. f_equal. apply IH. exact H2.
Qed.

Lemma calc_pipe_out t hr hd rtt now t' p rc :
  calc_pipe t hr hd rtt now = Some (t', p, rc) -> segs_out (ss_segs t') = segs_out (ss_segs t).
Proof.
  unfold calc_pipe. destruct (_ <? _); [discriminate|].
  set (n := Z.to_nat _).
  destruct (pipe_loop _ t hr _ now _) as [upd a] eqn:E. intro H; injection H as <- _ _.
  cbn [set_segs ss_segs]. apply pipe_loop_out in E.
  apply segs_out_map. rewrite map_app, map_rev, E, map_rev, enum_from_snd, <- !map_rev, rev_involutive.
  rewrite <- map_app, firstn_skipn. reflexivity.
Qed.

(* popping a probe *)
Lemma last_and_init_app {A} (l init : list A) x : last_and_init l = Some (init, x) -> l = init ++ [x].
Proof.
  unfold last_and_init. destruct (rev l) as [|y r] eqn:E; [discriminate|].
  intro H; injection H as <- <-. rewrite <- (rev_involutive l), E. reflexivity.
Qed.

Lemma pop_mtu_probe_out t q t' b : pop_mtu_probe t q = (t', b) -> out_sub (ss_segs t') (ss_segs t).
Proof.
  unfold pop_mtu_probe. destruct (last_and_init (ss_segs t)) as [[init x]|] eqn:E.
  - destruct (_ && _ && _); intro H; injection H as <- _; [|intro K; exact K].
    cbn [set_segs ss_segs]. apply last_and_init_app in E. rewrite E. intro K.
    rewrite segs_out_app, K. reflexivity.
  - intro H; injection H as <- _. intro K; exact K.
Qed.

Lemma pop_expired_out t to mr t' pe :
  pop_expired_mtu_probe t to mr = (t', pe) -> out_sub (ss_segs t') (ss_segs t).
Proof.
  unfold pop_expired_mtu_probe. destruct (last_and_init (ss_segs t)) as [[init x]|] eqn:E.
  - destruct (sg_delivered x); [intro H; injection H as <- _; intro K; exact K|].
    destruct (_ && _ && _); [|destruct (sg_probe x); intro H; injection H as <- _; intro K; exact K].
    intro H; injection H as <- _. cbn [set_segs ss_segs]. apply last_and_init_app in E. rewrite E.
    intro K. rewrite segs_out_app, K. reflexivity.
  - intro H; injection H as <- _. intro K; exact K.
Qed.

(* new segments were never sent *)
Lemma enqueue_out t len p : segs_out (ss_segs (enqueue t len p)) = segs_out (ss_segs t).
Proof.
  unfold enqueue. cbn [set_segs ss_segs]. rewrite segs_out_app. unfold segs_out at 2. cbn [existsb].
  unfold seg_out, seg_sent_b. cbn [sg_sent andb orb]. apply orb_false_r.
Qed.

(* nothing left to (re)send: nothing outstanding *)
Lemma filter_nil_forall {A} (p : A -> bool) l : filter p l = [] -> forall x, In x l -> p x = false.
Proof.
  induction l as [|y ys IH]; cbn [filter]; [intros _ x []|].
  destruct (p y) eqn:E; [discriminate|]. intros H x [<-|Hx]; [exact E | apply IH; assumption].
Qed.

Lemma iter_nil_no_out t : iter_for_sending t None = [] -> segs_out (ss_segs t) = false.
Proof.
  unfold iter_for_sending. cbn [skipn]. intro H.
  destruct (segs_out (ss_segs t)) eqn:K; [|reflexivity]. exfalso.
  apply segs_out_In in K. destruct K as (g & G1 & G2).
  assert (Hex : exists i, In (i, g) (enum_from 0 (ss_segs t))).
  { generalize 0%nat. revert G1. generalize (ss_segs t). induction l as [|y ys IH]; intros [] i.
    - subst. exists i. left; reflexivity.
    - destruct (IH H0 (S i)) as (j & J). exists j. right; exact J. }
  destruct Hex as (i & Hi).
  pose proof (filter_nil_forall _ _ H) as F.
  match type of F with forall x, In x (map ?mk ?items) -> _ => specialize (F (mk (i, g)) (in_map mk _ _ Hi)) end.
  cbn [fs_seg] in F. unfold seg_out in G2. apply andb_true_iff in G2. destruct G2 as [_ G2].
  rewrite G2 in F. discriminate.
Qed.

(* on the fingerprint side *)
Lemma segs_out_existsb {B} (f : seg -> B) (p : B -> bool) l :
  (forall g, p (f g) = seg_out g) -> existsb p (map f l) = segs_out l.
Proof.
  intro H. induction l as [|x xs IH]; [reflexivity|]. cbn [map existsb]. unfold segs_out. cbn [existsb].
  rewrite H. f_equal. exact IH.
Qed.

(* The single extraction command of the development.  ExtrOcamlBasic only:
   bool, option, list, prod, unit, sumbool map to OCaml's own types; nothing else
   is remapped (Z, positive, N, nat stay the extracted inductive datatypes). *)
From Coq Require Extraction.
From Coq Require Import ExtrOcamlBasic.
From Utp Require Import Base.Prelude Wire.SeqNr Rtt.Rtte.
From Utp Require Import Wire.Header Mtu.SegSizes.
From Utp Require Import Rx.Rx Tx.Segments Tx.Ring.
From Utp Require Import Cubic.F64 Cubic.Cubic Cubic.Libm.
From Utp Require Import Sock.Dispatcher Sock.DispObs.
From Utp Require Import Sock.DispHostile.
From Utp Require Import Conn.C10_Pred Conn.C02_Pred.
From Utp Require Import Conn.C17_Pred Conn.C03_Pred.
From Utp Require Import Conn.C05_Pred Conn.C06_Pred.
From Utp Require Import Conn.C07_Pred Conn.C07_Pred2 Conn.C18_Pred Conn.C09_Pred Conn.C09_Shift.
From Utp Require Import Pair.Pair Pair.C01_Pred2.
From Utp Require Import Conn.C04_Pred Conn.C0506_Pred2 Conn.C14C08_Pred Conn.C14_Pred2 Conn.C08_Pred2.
From Utp Require Import Conn.C04_Pred Conn.C0506_Pred2 Conn.C14C08_Pred.
From Utp Require Import Conn.C11_Pred Sock.DispC11_Pred Conn.C04_Pred2 Conn.C05_Pred3 Cubic.C15_Pred2 Conn.C18_Pred2 Conn.C06_Pred2 Pair.C02_PairPred Conn.C17_Pred2 Conn.C04_Guard Conn.C04_Consumed Conn.C06_Pred3 Conn.C02_Pred2.
From Utp Require Import Conn.C11_Pred Sock.DispC11_Pred Conn.C04_Pred2 Conn.C05_Pred3 Cubic.C15_Pred2 Conn.C18_Pred2 Conn.C06_Pred2 Sock.DispC13_Pred.
From Utp Require Import Conn.Recovery Conn.Msg Conn.VSockRec Conn.VSock Conn.VSockRun Conn.VObs.

Extraction Language OCaml.
Extraction "model"
  Z.add Z.mul Z.sub Z.div Z.modulo Z.compare Z.of_nat Z.to_nat Z.opp Z.eqb Z.ltb Z.leb
  seq_nr_offset seq_sub seq_cmp WRAP_TOLERANCE c09_obs_ok
  rtte_default rtte_trace rtte_cfg_ok c16_ok c16_exact_ok
  RTTE_MIN_RTO RTTE_MAX_RTO CLOCK_GRANULARITY RTTE_INITIAL_RTT
  rx_build rx_trace rx_run c04_ok
  segments_new seg_trace seg_run
  tx_new tx_trace tx_run c19_ok c19_grow_ok
  deserialize serialize msg_deserialize sack_new sack_deserialize c11_de_ok c11_msg_ok c11_ser_ok
  fevent_of fp_of_vsock ftrace
  vsock_new_cubic vtrace_cubic retransmission_timeout roundtrip_time cubic_window cubic_sshthresh
  ss_new ss_trace mtu_search c14_ok c14_search_ok segsizes_cfg_ok mtu_d3 c14_d3_ok
  IPV4_HEADER IPV6_HEADER UDP_HEADER
  c10_step_ok c10_bounded c10_kf2_class c10_closed_pending_class
  c02_write_wakes c02_drop_writer_wakes c02_shutdown_wakes c02_read_wakes c02_parked_ok c02_eof_wakes
  c02_zero_window_waker c02_timer_ok c02_timer_ok_g c02_rto_armed c02_no_silent_stall c02_prompt c02_d2_class c02_d8_class c02_d9_class c02_d14_class
  c17_synack_ok c17_fin_after_data_ok c17_fin_after_data_noerr c17_fin_number_step_ok c17_fin_seq_ok c17_peer_fin_ok
  c17_reset_ok c17_reset_trace_ok c03_ready_closed_ok c03_no_hang_ok c03_after_death_ok
  c05_window_ok c05_zero_window_ok c05_rto_single_ok c05_monitor_ok c05_zero_window_strict c05_d16_class
  c06_backoff_ok c06_cap_ok c06_emitted_live_ok c06_fast_retx_ok c06_stable_plen_ok c06_joint_ok c06_rp_exit_ok
  ACK_DELAY IMMEDIATE_ACK_EVERY_RMSS
  c07_immediate_ok c07_pre_monitor c07_delayed_ok c07_fires_ok c07_idle_silent_partial c07_window_update_ok
  c07_reasm_change_ok c07_trigger_ok c07_dist_ok c07_pre_monitor_g
  c18_nagle_ok c18_pre_monitor
  pair_new_cubic ptrace_cubic c01_dir_bad c01_dir_ok c01_pair_ok c01_pair_guarded c01_kf1_class c01_kf1_class_dir
  c01_d17_class c01_d17_class_dir dchk0 pkt_size hacc_add hacc0
  c01_kf1_class2 c01_kf1_class2_dir c01_kf1_popped_dir c01_pair_guarded2 pops_of popped_between
  c04_vsock_ack_ok c04_d19_class c06_no_resend_acked c05_rto_exit_ok c05_slow_start_ok
  c14_datagram_ok c14_segments_ok c08_deadline_ok c14_wire_ok c08_fires_ok
  c09_shift_ok c09_first_bad c09_within_tol c09_guard_trace_cubic c09_guard_first_bad_cubic drop_vsock poll_finished c03_post_drop_ok c03_drop_wakes_ok
  dstate_new dstep drun dtrace cleanup_accept_queue push_acceptor c12_step_ok c13_step_ok c12_syn_fresh_ok
  c11_emitted_ok c11_conn_types_ok c11_config_ok c11_dstep_ok c04_consumed_honest_ok
  c05_window_ok2 c05_rto_exit_ok2 c05_zero_window_ok_open c05_zero_window_strict_or_d16_open c05_monitor_core_ok c05_win_guard
  c15_obs_ok_b setmss_runs_ok
  c10_disp_step_ok c10_disp_bounds_ok c10_disp_trace_ok parse_raw dmsg_of_header handle_recv_raw rtrace
  c13_pending_ok c13_no_empty_entry_ok
  c18_off_all_segmented_ok c18_drain_sends_ok c18_buffered_segmented_ok c18_pre_ok
  c06_emitted_live_ok_g c06_no_resend_acked_g c06_fast_retx_ok_g
  c02_pair_settled_ok
  c02_rto_mode_armed c02_no_silent_stall_g c02_rto_armed_fin_g c02_prompt_write_g
  c17_peer_fin_ok2 c17_fin_covers_data_ok c04_vsock_ack_guarded c04_consumed_honest_guarded c04_d22_class c06_stable_plen_ok_p
  cubic_new cubic_trace c15_obs_ok c15_obs_core f64_view BETA_CUBIC C_CUBIC cbrt_cr.

(* The sending half of one poll with the extended invariant (VSock_PollAux.vs_x) and with the
   state of every error exit described: send_data, the recovery / new-data loops, send_tx_queue
   (including exactly what a restart after a popped MTU probe leaves behind) and
   split_tx_queue_into_segments.  The byte-accounting part is taken from VSock_Inv.v. *)
From Utp Require Import Base.Prelude Wire.SeqNr Wire.SeqNr_Proofs Wire.Header Rtt.Rtte Rtt.Rtte_Proofs
  Mtu.SegSizes Rx.Rx Rx.Rx_Proofs Tx.Ring Tx.Ring_Proofs Tx.Segments Tx.Segments_Proofs
  Conn.Recovery Conn.Msg Conn.VSockRec Conn.VSock Conn.VSockRun Conn.VObs Conn.C10_Pred
  Conn.VSock_LemmasTx Conn.VSock_Inv Conn.VSock_PollAux.

Section PollTx.
Context {CC : Type} (cci : cc_iface CC).
Notation vsock := (vsock CC).
Notation step := (@step CC).
Variable strict : bool.

(* what the sending half leaves alone *)
Definition tx_rel (s s' : vsock) : Prop :=
  txq_rel s s' /\ v_restart s' = v_restart s /\ v_ss s' = v_ss s /\ v_now s' = v_now s /\
  v_env_now s' = v_env_now s.

Lemma tx_rel_refl s : tx_rel s s.
Proof. split; [apply txq_rel_refl|]. repeat split. Qed.

Lemma tx_rel_trans a b c : tx_rel a b -> tx_rel b c -> tx_rel a c.
Proof.
  intros (A1&A2&A3&A4&A5) (B1&B2&B3&B4&B5). split; [eapply txq_rel_trans; eauto|].
  repeat split; congruence.
Qed.

Lemma ctl_tx_rel s s' : ctl_rel s s' -> tx_rel s s'.
Proof.
  intros ((Hc & Hf & Hr) & Hq & He). split; [apply same_core_txq; exact Hc|].
  destruct Hc as (C1&C2&C3&C4&C5&C6&C7&C8&C9&C10&C11&C12&C13&C14). auto.
Qed.

Definition TQX ti tm p q (s s' : vsock) : Prop := vs_x ti tm p q s' /\ ef strict s' /\ tx_rel s s'.

Lemma TQX_refl ti tm p q s : vs_x ti tm p q s -> ef strict s -> TQX ti tm p q s s.
Proof. intros. split; [assumption|]. split; [assumption|apply tx_rel_refl]. Qed.

Lemma TQX_trans ti tm p q a b c : TQX ti tm p q a b -> TQX ti tm p q b c -> TQX ti tm p q a c.
Proof. intros (_ & _ & H1) (K1 & K2 & K3). split; [exact K1|]. split; [exact K2|eapply tx_rel_trans; eauto]. Qed.

(* a state that differs only in fields neither the invariant nor tx_rel reads *)
Lemma TQX_ctl ti tm p q s s1 s2 : TQX ti tm p q s s1 -> ctl_rel s1 s2 -> TQX ti tm p q s s2.
Proof.
  intros (H1 & H2 & H3) Hc. pose proof Hc as ((Hcore & Hf & _) & _).
  split; [eapply x_same_core; eauto|]. split; [unfold ef in *; auto|].
  eapply tx_rel_trans; [exact H3|apply ctl_tx_rel; exact Hc].
Qed.

(* ------------------------------------------------------------------ send_data *)
Lemma send_data_shape (s : vsock) h f :
  match send_data s h f with
  | SOk s' r =>
      v_now s' = v_now s /\ v_env_now s' = v_env_now s /\
      (v_segs s' = v_segs s \/ v_segs s' = on_sent (v_segs s) (fs_idx f) (v_now s))
  | SErr s' e =>
      e = ErrBug BugOffsetBeyondBufferBounds \/ e = ErrBug BugRequestedLengthExceedsBufferBounds \/
      ctl_rel s s'
  | SPanic => True
  end.
Proof.
  unfold send_data.
  destruct (_ =? o_max_retx _); [right; right; apply ctl_refl|].
  destruct (fs_payload_offset f <? 0); [exact I|].
  destruct (_ <? fs_payload_offset f); [left; reflexivity|].
  destruct (_ <? fs_payload_offset f + _); [right; left; reflexivity|].
  destruct (next_send s _) as [s1 o] eqn:E.
  destruct (next_send_ctl _ _ _ _ E) as (Hc & _ & _).
  pose proof Hc as (((C1&C2&C3&C4&C5&C6&C7&C8&C9&C10&C11&C12&C13&C14) & _ & _) & _ & Cenv).
  destruct o.
  - unfold on_packet_sent, emit. destruct (seq_gt _ _); [destruct (seq_gt _ _)|]; vsimpl;
      rewrite C3, C12; auto.
  - vsimpl. auto.
  - auto.
  - right; right. exact Hc.
Qed.

Lemma send_data_x ti tm p q (s : vsock) h f :
  vs_x ti tm p q s -> ef strict s -> fs_ok s f ->
  spx strict (send_data s h f)
      (fun s' r => TQX ti tm p q s s' /\ (strict = true -> r <> SdEmsgsize))
      (vs_xe ti tm q).
Proof.
  intros Hx Hef Hok. pose proof Hx as [Hinv [Haux Hnow]].
  pose proof (VSock_Inv.send_data_spec strict ti tm p s h f Hinv Hef Hok) as Hsd.
  pose proof (send_data_shape s h f) as Hsh.
  destruct (send_data s h f) as [s' r|s' e|]; cbn [sp spx] in *; [| |exact Hsd].
  - destruct Hsd as (A1 & A2 & A3 & A4 & A5 & A6 & A7 & A8). destruct Hsh as (B1 & B2 & B3).
    split; [|exact A8]. split; [|split; [exact A2|split; [exact A3|auto]]].
    split; [exact A1|]. unfold sx. rewrite A5, B1. split; [|exact Hnow].
    destruct B3 as [-> | ->]; [exact Haux|]. eapply aux_ev; [apply on_sent_ev; lia|exact Haux].
  - split; [exact Hsd|]. destruct Hsh as [-> | [-> | Hc]]; [destruct Hsd|destruct Hsd|].
    eapply x_xe, x_same_core; [exact Hx|apply Hc].
Qed.

Lemma Forall_fs_ok_tx_rel (s s' : vsock) l : tx_rel s s' -> Forall (fs_ok s) l -> Forall (fs_ok s') l.
Proof. intros (H & _). apply Forall_fs_ok_tx. exact H. Qed.

(* ------------------------------------------------------------------ the two loops *)
Lemma recovery_loop_x ti tm p q h mss0 : forall items (s : vsock) st,
  vs_x ti tm p q s -> ef strict s -> Forall (fs_ok s) items ->
  spx strict (recovery_loop items s h mss0 st) (fun s' _ => TQX ti tm p q s s') (vs_xe ti tm q).
Proof.
  induction items as [|f rest IH]; intros s st Hx Hef Hok; cbn [recovery_loop].
  { cbn [spx]. apply TQX_refl; assumption. }
  inversion Hok as [|? ? Hf Hrest]; subst.
  destruct (negb _); [cbn [spx]; apply TQX_refl; assumption|].
  destruct (_ && negb (sg_lost _)); [apply IH; assumption|].
  destruct (_ && negb (sg_sacks_after _)); [cbn [spx]; apply TQX_refl; assumption|].
  pose proof (send_data_x ti tm p q s h f Hx Hef Hf) as Hsd.
  destruct (send_data s h f) as [s1 r|s1 e|]; cbn [spx] in Hsd |- *; [|exact Hsd|exact Hsd].
  destruct Hsd as (HT & _). pose proof HT as (Hx1 & Hef1 & Hr1).
  destruct r; cbn [spx allowed]; [|exact HT|split; [exact I|eapply x_xe; exact Hx1]].
  eapply spx_weaken; [apply IH; [assumption|assumption|eapply Forall_fs_ok_tx_rel; eauto]| |auto].
  intros s2 a H2. eapply TQX_trans; eauto.
Qed.

Lemma new_data_loop_x ti tm p q h : forall items (s : vsock) remaining,
  vs_x ti tm p q s -> ef strict s -> Forall (fs_ok s) items ->
  spx strict (new_data_loop items s h remaining)
      (fun s' tl => TQX ti tm p q s s' /\ (strict = true -> tl = None) /\
         (forall seq sz, tl = Some (seq, sz) -> exists f, In f items /\ sz = sg_size (fs_seg f)))
      (vs_xe ti tm q).
Proof.
  induction items as [|f rest IH]; intros s remaining Hx Hef Hok; cbn [new_data_loop].
  { cbn [spx]. split; [apply TQX_refl; assumption|]. split; [reflexivity|discriminate]. }
  inversion Hok as [|? ? Hf Hrest]; subst.
  destruct (_ <? _); [cbn [spx]; split; [apply TQX_refl; assumption|split; [reflexivity|discriminate]]|].
  pose proof (send_data_x ti tm p q s h f Hx Hef Hf) as Hsd.
  destruct (send_data s h f) as [s1 r|s1 e|]; cbn [spx] in Hsd |- *; [|exact Hsd|exact Hsd].
  destruct Hsd as (HT & Hne). pose proof HT as (Hx1 & Hef1 & Hr1).
  destruct r; cbn [spx].
  - eapply spx_weaken; [apply IH; [assumption|assumption|eapply Forall_fs_ok_tx_rel; eauto]| |auto].
    intros s2 a (H2 & H3 & H4). split; [eapply TQX_trans; eauto|]. split; [exact H3|].
    intros seq sz E. destruct (H4 _ _ E) as (f0 & Hin & Hsz). exists f0. split; [right; exact Hin|exact Hsz].
  - split; [exact HT|]. split; [reflexivity|discriminate].
  - split; [exact HT|]. split; [intro Hs; exfalso; apply (Hne Hs); reflexivity|].
    intros seq sz E. injection E as <- <-. exists f. split; [left; reflexivity|reflexivity].
Qed.

(* ------------------------------------------------------------------ the RTO reaction *)
Lemma x_set_recovery ti tm p q (s : vsock) r : vs_x ti tm p q s -> dup_ok r -> vs_x ti tm p q (set_recovery s r).
Proof. unfold vs_x, vs_inv_p, ring_rel, sx. vsimpl. tauto. Qed.

Lemma on_rto_reactions_x ti tm p q (s : vsock) :
  vs_x ti tm p q s -> ef strict s -> exists s2, on_rto_reactions cci s = Some s2 /\ TQX ti tm p q s s2.
Proof.
  intros Hx Hef. pose proof Hx as [Hinv Hsx].
  destruct (VSock_Inv.on_rto_reactions_spec cci strict ti tm p s Hinv Hef) as (s2 & E & (A1 & A2 & A3)).
  exists s2. split; [exact E|]. revert E. unfold on_rto_reactions.
  destruct (Rtte.on_rto_timeout (v_rtte s)) as [rt|]; [|discriminate].
  intro E; injection E as <-.
  split; [split; [exact A1|exact Hsx]|]. split; [exact A2|]. split; [exact A3|]. vsimpl. auto.
Qed.

Lemma Forall_take_skip_firstn {A} (P : A -> Prop) l (q1 q2 : A -> bool) n :
  Forall P l -> Forall P (take_while q1 (skip_while q2 (firstn n l))).
Proof.
  intros Hl. apply Forall_forall. intros x Hx. rewrite Forall_forall in Hl. apply Hl.
  assert (Htw : forall l0, In x (take_while q1 l0) -> In x l0).
  { induction l0 as [|y ys IHl]; cbn [take_while]; [tauto|]. destruct (q1 y); [|intros []].
    intros [->|Hi]; [left; reflexivity|right; auto]. }
  assert (Hsw : forall l0, In x (skip_while q2 l0) -> In x l0).
  { induction l0 as [|y ys IHl]; cbn [skip_while]; [tauto|]. destruct (q2 y); [right; auto|auto]. }
  apply Htw in Hx. apply Hsw in Hx.
  rewrite <- (firstn_skipn n l). apply in_or_app. left. exact Hx.
Qed.

(* ------------------------------------------------------------------ send_tx_queue, part 1: RTO *)
Lemma rto_branch_x ti tm p q (s : vsock) h :
  vs_x ti tm p q s -> ef strict s ->
  spx strict (rto_branch cci s h) (fun s' _ => TQX ti tm p q s s') (vs_xe ti tm q).
Proof.
  intros Hx Hef. pose proof (TQX_refl ti tm p q s Hx Hef) as H0. unfold rto_branch.
  destruct (timer_expired _ _); [|cbn [spx]; exact H0].
  pose proof (iter_fs_ok ti tm p s None (proj1 Hx)) as Hit.
  destruct (iter_for_sending (v_segs s) None) as [|f rest].
  - destruct (our_fin_if_unacked (v_state s)) as [fin|]; [|cbn [spx]; exact H0].
    destruct (_ =? fin); [|cbn [spx]; exact H0].
    set (s1 := set_last_sent_seq_nr s _).
    assert (H1 : TQX ti tm p q s s1) by exact H0.
    eapply spx_bind with (Q1 := fun s2 (_ : bool) => ctl_rel s1 s2).
    + eapply spx_weaken; [apply (maybe_send_fin_x strict)|intros s2 b [Hc _]; exact Hc|].
      intros s2 [[[Hcore _] _] _]. eapply x_xe, x_same_core; [exact (proj1 H1)|exact Hcore].
    + intros s2 sent Hc. pose proof (TQX_ctl _ _ _ _ _ _ _ H1 Hc) as H2.
      destruct sent; cbn [spx]; [|exact H2].
      destruct H2 as (A1 & A2 & A3).
      destruct (on_rto_reactions_x ti tm p q s2 A1 A2) as (s3 & -> & H3). cbn [spx].
      assert (H3' : TQX ti tm p q s s3) by (eapply TQX_trans; [split; [exact A1|split; [exact A2|exact A3]]|exact H3]).
      exact H3'.
  - inversion Hit as [|? ? Hf _]; subst.
    pose proof (send_data_x ti tm p q s h f Hx Hef Hf) as Hsd.
    destruct (send_data s h f) as [s1 r|s1 e|]; cbn [spx] in Hsd |- *; [|exact Hsd|exact Hsd].
    destruct Hsd as (HT & _). pose proof HT as (Hx1 & Hef1 & Hr1).
    destruct r; cbn [spx allowed]; [|exact HT|split; [exact I|eapply x_xe; exact Hx1]].
    assert (Hs2 : exists s2, (if negb (sg_probe (fs_seg f)) then on_rto_reactions cci s1 else Some s1) = Some s2 /\
                             TQX ti tm p q s s2).
    { destruct (negb _).
      - destruct (on_rto_reactions_x ti tm p q s1 Hx1 Hef1) as (s2 & E2 & H2).
        exists s2. split; [exact E2|eapply TQX_trans; eauto].
      - exists s1. split; [reflexivity|exact HT]. }
    destruct Hs2 as (s2 & -> & H2). cbn [spx]. exact H2.
Qed.

(* ------------------------------------------------------------------ part 2: recovery *)
Lemma TQX_set_recovering ti tm p q (s s1 : vsock) rc :
  TQX ti tm p q s s1 -> TQX ti tm p q s (set_recovering s1 rc).
Proof.
  intros (H1 & H2 & H3). unfold set_recovering. split.
  - apply x_set_recovery; [exact H1|]. unfold dup_ok; cbn [rv_phase]; exact I.
  - split; [exact H2|exact H3].
Qed.

Lemma rec_branch_x ti tm p q (s : vsock) h :
  vs_x ti tm p q s -> ef strict s ->
  spx strict (rec_branch s h) (fun s' _ => TQX ti tm p q s s') (vs_xe ti tm q).
Proof.
  intros Hx Hef. pose proof (TQX_refl ti tm p q s Hx Hef) as H0. unfold rec_branch.
  destruct (rv_phase (v_recovery s)) as [rp|d|rc]; try (cbn [spx]; exact H0).
  eapply spx_bind.
  { apply (recovery_loop_x ti tm p q); [exact Hx|exact Hef|].
    unfold rec_items. apply Forall_take_skip_firstn. eapply iter_fs_ok. exact (proj1 Hx). }
  intros s1 [st early] H1. unfold rec_after.
  match goal with |- spx _ (if early then SOk ?S true else _) _ _ => set (s2 := S) end.
  assert (H2 : TQX ti tm p q s s2) by (apply TQX_set_recovering; exact H1).
  destruct early; [cbn [spx]; exact H2|].
  match goal with |- spx _ (match our_fin_if_unacked (v_state ?S) with _ => _ end) _ _ => set (s3 := S) end.
  assert (H3 : TQX ti tm p q s s3).
  { unfold s3. destruct (rl_cwnd st <? _); [|exact H2]. destruct (rc_recalc rc); [exact H2|].
    destruct (0 <? _); exact H2. }
  destruct (our_fin_if_unacked (v_state s3)) as [our_fin|]; [|cbn [spx]; exact H3].
  destruct (_ =? wsub16 our_fin 1); [|cbn [spx]; exact H3].
  cbn [spx]. apply TQX_set_recovering. exact H3.
Qed.

(* ------------------------------------------------------------------ part 3: new data, probe pop *)
Lemma pop_mtu_probe_struct t sq t' :
  pop_mtu_probe t sq = (t', true) ->
  exists g, ss_segs t = ss_segs t' ++ [g] /\ live_probe g = true.
Proof.
  unfold pop_mtu_probe. destruct (last_and_init (ss_segs t)) as [[init g]|] eqn:E; [|discriminate].
  destruct (_ =? sq); cbn [andb]; [|discriminate].
  destruct (sg_probe g && negb (sg_delivered g)) eqn:El; [|discriminate].
  intro H; injection H as <-. exists g. split; [|exact El].
  cbn [Segments.set_segs ss_segs]. apply last_and_init_spec. exact E.
Qed.

Lemma iter_size_ok q m t st f :
  segs_aux q m (ss_segs t) -> In f (iter_for_sending t st) ->
  q (sg_size (fs_seg f)) \/ sg_size (fs_seg f) <= m.
Proof.
  intros (_ & _ & Hlp & Hnp) Hf.
  pose proof (iter_only_undelivered _ _ _ Hf) as Hnd.
  unfold iter_for_sending in Hf. apply filter_In in Hf. destruct Hf as [Hin _].
  apply in_map_iff in Hin. destruct Hin as ([i g] & <- & Hin). cbn [fs_seg] in *.
  apply enum_from_In in Hin. apply in_skipn in Hin.
  unfold lp_all, np_le in *. rewrite Forall_forall in Hlp, Hnp.
  destruct (sg_probe g) eqn:Ep.
  - left. apply Hlp; [exact Hin|]. unfold live_probe. rewrite Ep, Hnd. reflexivity.
  - right. apply Hnp; assumption.
Qed.

(* what a restart leaves behind: the popped probe had a size in q; the size handed to
   on_probe_failed is in q or at most min_ss; no live probe is left *)
Definition restart_post ti tm p (q : Z -> Prop) (s s' : vsock) : Prop :=
  v_restart s' = true /\ strict = false /\
  exists zp z, q zp /\ 0 <= z /\ (q z \/ z <= min_ss (v_ss s)) /\
    v_ss s' = disarm_cooldown (on_probe_failed (v_ss s) z) /\
    vs_x ti tm p (fun _ => False) s'.

Definition stq_post ti tm p q (s s' : vsock) : Prop :=
  TQX ti tm p q s s' \/
  (ef strict s' /\ txq_rel s s' /\ v_now s' = v_now s /\ v_env_now s' = v_env_now s /\
   restart_post ti tm p q s s').

Lemma stq_post_trans ti tm p q a b c :
  TQX ti tm p q a b -> stq_post ti tm p q b c -> stq_post ti tm p q a c.
Proof.
  intros H1 [H2|(A1 & A2 & A3 & A4 & A5)]; [left; eapply TQX_trans; eauto|right].
  destruct H1 as (_ & _ & (B1 & B2 & B3 & B4 & B5)).
  split; [exact A1|]. split; [eapply txq_rel_trans; eauto|]. split; [congruence|]. split; [congruence|].
  unfold restart_post in *. rewrite <- B3. exact A5.
Qed.

Lemma new_branch_x ti tm p q (s : vsock) h :
  vs_x ti tm p q s -> ef strict s ->
  spx strict (new_branch cci s h) (fun s' _ => stq_post ti tm p q s s') (vs_xe ti tm q).
Proof.
  intros Hx Hef. unfold new_branch.
  eapply spx_bind.
  { apply (new_data_loop_x ti tm p q); [exact Hx|exact Hef|]. unfold new_items. eapply iter_fs_ok. exact (proj1 Hx). }
  intros s1 tl (HT & Htl & Hsrc). unfold new_after.
  destruct tl as [[sq size]|]; [|cbn [spx]; left; exact HT].
  destruct (Hsrc _ _ eq_refl) as (f & Hin & ->). unfold new_items in Hin.
  pose proof (iter_size_ok q _ _ _ _ (proj1 (proj2 Hx)) Hin) as Hz.
  assert (Hz0 : 0 <= sg_size (fs_seg f)).
  { pose proof (iter_fs_ok ti tm p s (Some (wadd16 (v_last_sent_seq_nr s) 1)) (proj1 Hx)) as Hall.
    rewrite Forall_forall in Hall. apply (Hall f Hin). }
  destruct HT as (Hx1 & Hef1 & (Htq & Hr1 & Hss1 & Hnow1 & Henv1)).
  destruct (pop_mtu_probe (v_segs s1) sq) as [segs' popped] eqn:Epop.
  destruct popped; cbn [spx allowed].
  - right.
    pose proof Hx1 as [Hinv1 [Haux1 Hnow]].
    destruct (inv_parts _ _ _ _ Hinv1) as (I1 & I2 & I3 & I4 & I5 & I6 & I7 & I8).
    destruct (pop_mtu_probe_fields _ _ _ _ I2 Epop) as (P1 & P2 & P3).
    destruct (pop_mtu_probe_struct _ _ _ Epop) as (g & Eg & Hlive).
    split; [unfold ef, emsg_free in *; vsimpl; exact Hef1|].
    split; [eapply txq_rel_trans; [exact Htq|unfold txq_rel; vsimpl; repeat split]|].
    vsimpl. split; [exact Hnow1|]. split; [exact Henv1|].
    unfold restart_post. vsimpl. split; [reflexivity|].
    split; [destruct strict eqn:Es; [discriminate (Htl eq_refl)|reflexivity]|].
    exists (sg_size g), (sg_size (fs_seg f)).
    split.
    { destruct Haux1 as (_ & _ & Hlp & _). rewrite Eg in Hlp. apply lp_app in Hlp. destruct Hlp as [_ Hlp].
      inversion Hlp; subst. auto. }
    split; [exact Hz0|]. split; [exact Hz|]. split; [rewrite Hss1; reflexivity|].
    split.
    + eapply inv_update; [exact Hinv1|..]; vsimpl; try reflexivity; try assumption; auto.
      apply disarm_ss_ok. apply failed_ss_ok. exact I6.
    + unfold sx. vsimpl. split; [|exact Hnow].
      rewrite Eg in Haux1. pose proof (aux_pop _ _ _ _ Haux1) as Hnl.
      apply aux_prefix in Haux1. destruct Haux1 as (T1 & _ & _ & T4).
      apply aux_no_live; [exact T1|exact Hnl|].
      unfold on_probe_failed, disarm_cooldown; cbn [min_ss]. exact T4.
  - split; [destruct strict eqn:Es; [discriminate (Htl eq_refl)|reflexivity]|]. eapply x_xe; exact Hx1.
Qed.

(* ------------------------------------------------------------------ send_tx_queue *)
Lemma send_tx_queue_x ti tm p q (s : vsock) :
  vs_x ti tm p q s -> ef strict s ->
  spx strict (send_tx_queue cci s) (fun s' _ => stq_post ti tm p q s s') (vs_xe ti tm q).
Proof.
  intros Hx Hef. rewrite send_tx_queue_eq.
  destruct (v_transport_pending s); [cbn [spx]; left; apply TQX_refl; assumption|].
  eapply spx_bind; [apply (rto_branch_x ti tm p q); assumption|].
  intros s1 ret H1. unfold after_rto_k.
  destruct ret; [cbn [spx]; left; exact H1|].
  destruct (0 <? _); [cbn [spx]; left; exact H1|].
  destruct (ss_segs (v_segs s1)) as [|g0 gs] eqn:Egs; [cbn [spx]; left; exact H1|].
  pose proof H1 as (Hx1 & Hef1 & Hr1).
  eapply spx_bind; [apply (rec_branch_x ti tm p q); assumption|].
  intros s2 ret H2. pose proof (TQX_trans _ _ _ _ _ _ _ H1 H2) as H2'.
  destruct ret; [cbn [spx]; left; exact H2'|].
  pose proof H2 as (Hx2 & Hef2 & Hr2).
  eapply spx_weaken; [apply (new_branch_x ti tm p q); assumption| |auto].
  intros s3 u H3. eapply stq_post_trans; eauto.
Qed.

(* ------------------------------------------------------------------ split_tx_queue_into_segments *)
(* the size of a freshly cut MTU probe: above min_ss, at most the midpoint (+1) and max_ss *)
Definition PB (ss : segsizes) (z : Z) : Prop :=
  min_ss ss < z <= Z.min (min_ss ss + (max_ss ss - min_ss ss) / 2 + 1) (max_ss ss).

Lemma PB_ext ss ss' z : min_ss ss' = min_ss ss -> max_ss ss' = max_ss ss -> PB ss z -> PB ss' z.
Proof. unfold PB. intros -> ->. auto. Qed.

Lemma next_size_bound s : ss_ok s ->
  exists s' r, next_segment_size s = Some (s', r) /\ min_ss s' = min_ss s /\ max_ss s' = max_ss s /\
               min_ss s <= r <= Z.min (min_ss s + (max_ss s - min_ss s) / 2 + 1) (max_ss s).
Proof.
  intros [H1 H2]. unfold next_segment_size. destruct (cd_rem s =? 0).
  - unfold next_probe, np_sum2, np_sum1, np_half, np_diff; cbn [min_ss max_ss].
    replace ((0 <=? max_ss s - min_ss s) && (min_ss s + (max_ss s - min_ss s) / 2 <=? U16_MAX) &&
             (min_ss s + (max_ss s - min_ss s) / 2 + 1 <=? U16_MAX)) with true
      by (unfold U16_MAX in *; symmetry; lia).
    cbn [bind]. eexists _, _. split; [reflexivity|]. cbn [min_ss max_ss]. lia.
  - eexists _, _. split; [reflexivity|]. cbn [min_ss max_ss]. lia.
Qed.

Lemma no_live_snoc l g : no_live l -> live_probe g = false -> no_live (l ++ [g]).
Proof.
  intros H Hg. apply lp_app. split; [exact H|]. constructor; [|constructor]. rewrite Hg. discriminate.
Qed.

Lemma segment_loop_aux : forall fuel nagle ss segs remaining rwr ss' segs' rem',
  ss_ok ss -> segment_loop fuel nagle ss segs remaining rwr = Some (ss', segs', rem') ->
  Forall seg_time_ok (ss_segs segs) -> no_live (ss_segs segs) -> np_le (min_ss ss) (ss_segs segs) ->
  min_ss ss' = min_ss ss /\ max_ss ss' = max_ss ss /\
  segs_aux (PB ss) (min_ss ss) (ss_segs segs').
Proof.
  induction fuel as [|x fuel IH]; intros nagle ss segs remaining rwr ss' segs' rem' Hss; cbn [segment_loop].
  { intro H; injection H as <- <- _. intros. split; [reflexivity|]. split; [reflexivity|]. apply aux_no_live; assumption. }
  destruct ((0 <? remaining) && (0 <? rwr));
    [|intro H; injection H as <- <- _; intros; split; [reflexivity|]; split; [reflexivity|]; apply aux_no_live; assumption].
  destruct (next_size_bound ss Hss) as (ss1 & sz & -> & Hm & Hx & Hsz).
  assert (Hss1 : ss_ok ss1) by (unfold ss_ok in *; rewrite Hm, Hx; exact Hss).
  set (payload := Z.min (Z.min sz rwr) remaining).
  destruct (nagle && _ && _).
  { intro H; injection H as <- <- _. intros. split; [exact Hm|]. split; [exact Hx|]. apply aux_no_live; assumption. }
  destruct (Z.ltb_spec (mss ss1) payload) as [Hp|Hp].
  - intro H; injection H as <- <- _. intros Ht Hn Hnp. split; [exact Hm|]. split; [exact Hx|].
    unfold enqueue, Segments.set_segs; cbn [ss_segs].
    apply aux_enqueue; try assumption; cbn [sg_sent sg_size sg_probe]; try reflexivity.
    + intros _. unfold PB. unfold mss in Hp. unfold payload in *. lia.
    + discriminate.
  - intros H Ht Hn Hnp.
    destruct (IH nagle ss1 (enqueue segs payload false) (remaining - payload) (rwr - payload) ss' segs' rem' Hss1 H)
      as (A1 & A2 & A3).
    + unfold enqueue, Segments.set_segs; cbn [ss_segs]. apply Forall_app. split; [exact Ht|].
      constructor; [|constructor]. unfold seg_time_ok, seg_last_sent; cbn. exact I.
    + unfold enqueue, Segments.set_segs; cbn [ss_segs]. apply no_live_snoc; [exact Hn|]. reflexivity.
    + unfold enqueue, Segments.set_segs; cbn [ss_segs]. rewrite Hm. apply Forall_app. split; [exact Hnp|].
      constructor; [|constructor]. cbn [sg_size sg_probe]. intros _. unfold mss in Hp. lia.
    + split; [congruence|]. split; [congruence|]. rewrite Hm in A3.
      destruct A3 as (B1 & B2 & B3 & B4). split; [exact B1|]. split; [exact B2|]. split; [|exact B4].
      eapply lp_weaken; [|exact B3]. intros z. apply PB_ext; congruence.
Qed.

Lemma pop_expired_struct t to mr t' pe :
  pop_expired_mtu_probe t to mr = (t', pe) ->
  match pe with
  | PeExpired _ _ => exists g, ss_segs t = ss_segs t' ++ [g]
  | PeNotExpired => t' = t
  | PeEmpty => t' = t /\ (forall init g, ss_segs t = init ++ [g] -> live_probe g = false)
  end.
Proof.
  unfold pop_expired_mtu_probe. destruct (last_and_init (ss_segs t)) as [[init0 g0]|] eqn:E.
  - apply last_and_init_spec in E.
    assert (Hu : forall init g, ss_segs t = init ++ [g] -> g = g0).
    { intros init g Hg. rewrite E in Hg. apply app_inj_tail in Hg. symmetry. tauto. }
    destruct (sg_delivered g0) eqn:Ed.
    { intro H; injection H as <- <-. split; [reflexivity|]. intros init g Hg. rewrite (Hu _ _ Hg).
      unfold live_probe. rewrite Ed. apply andb_false_r. }
    destruct (to && sg_probe g0 && (mr <=? seg_retransmit_count g0)).
    { intro H; injection H as <- <-. exists g0. cbn [Segments.set_segs ss_segs]. exact E. }
    destruct (sg_probe g0) eqn:Ep; intro H; injection H as <- <-; [reflexivity|].
    split; [reflexivity|]. intros init g Hg. rewrite (Hu _ _ Hg). unfold live_probe. rewrite Ep. reflexivity.
  - intro H; injection H as <- <-. split; [reflexivity|]. intros init g Hg.
    unfold last_and_init in E. rewrite Hg, rev_app_distr in E. cbn in E. discriminate.
Qed.

Lemma aux_last_dead q m l :
  segs_aux q m l -> (forall init g, l = init ++ [g] -> live_probe g = false) -> no_live l.
Proof.
  intros (_ & B & _) Hl. destruct l as [|x xs] using rev_ind; [constructor|].
  rewrite removelast_app_ne in B by discriminate. cbn [removelast] in B. rewrite app_nil_r in B.
  apply no_live_snoc; [exact B|]. eapply Hl. reflexivity.
Qed.

(* the only error split can report is the Bug the invariant excludes *)
Lemma split_err (s s' : vsock) e :
  split_tx_queue_into_segments cci s = SErr s' e -> e = ErrBug BugInBufferComputations.
Proof.
  unfold split_tx_queue_into_segments.
  destruct (_ =? 0); [discriminate|].
  match goal with |- context [is_remote_fin_or_later (v_state ?S)] => generalize S end. intro s1.
  destruct (is_remote_fin_or_later (v_state s1)); [discriminate|].
  destruct (pop_expired_mtu_probe _ _ _) as [segs1 pe].
  assert (Hc : forall s2 : vsock,
    (if Z.of_nat (length (ring (v_tx s))) <? ss_len_bytes (v_segs s2)
     then SErr s2 (ErrBug BugInBufferComputations)
     else match segment_loop (ring (v_tx s2)) (o_nagle (v_opts s2)) (v_ss s2) (v_segs s2)
                  (Z.of_nat (length (ring (v_tx s))) - ss_len_bytes (v_segs s2)) (v_last_remote_window s2) with
          | None => SPanic
          | Some (ss', segs', remaining) =>
              SOk (set_unsegmented (VSockRec.set_segs (set_ss s2 ss') segs') remaining) tt
          end) = SErr s' e -> e = ErrBug BugInBufferComputations).
  { intro s2. destruct (_ <? _); [intro H; injection H as _ <-; reflexivity|].
    destruct (segment_loop _ _ _ _ _ _) as [[[a b] c]|]; discriminate. }
  destruct pe; [apply Hc|discriminate|apply Hc].
Qed.

Definition split_post ti tm q (s s' : vsock) : Prop :=
  vs_x ti tm 0 (fun z => q z \/ PB (v_ss s') z) s' /\ ef strict s' /\ split_rel s s' /\
  ss_mono (v_ss s) (v_ss s') /\ v_now s' = v_now s /\ v_env_now s' = v_env_now s.

Lemma split_aux ti tm q (s : vsock) :
  vs_x ti tm 0 q s ->
  match split_tx_queue_into_segments cci s with
  | SOk s' _ =>
      sx (fun z => q z \/ PB (v_ss s') z) s' /\ ss_mono (v_ss s) (v_ss s') /\
      v_now s' = v_now s /\ v_env_now s' = v_env_now s
  | _ => True
  end.
Proof.
  intros [Hinv [Haux Hnow]].
  destruct (inv_parts _ _ _ _ Hinv) as (I1 & I2 & I3 & I4 & I5 & I6 & I7 & I8).
  assert (Hq : forall ss, segs_aux q (min_ss (v_ss s)) (ss_segs (v_segs s)) ->
                 segs_aux (fun z => q z \/ PB ss z) (min_ss (v_ss s)) (ss_segs (v_segs s)))
    by (intros ss; apply aux_weaken; auto).
  unfold split_tx_queue_into_segments.
  destruct (_ =? 0).
  { unfold sx, ss_mono. vsimpl. split; [split; [apply Hq; exact Haux|exact Hnow]|]. split; [lia|auto]. }
  match goal with |- context [is_remote_fin_or_later (v_state ?S)] => set (s1 := S) end.
  assert (H1 : v_segs s1 = v_segs s /\ v_ss s1 = v_ss s /\ v_now s1 = v_now s /\ v_env_now s1 = v_env_now s).
  { unfold s1. destruct (_ && _); [|auto].
    destruct (grow (v_tx s) (o_tx_max (v_opts s))) as [tx1 g]. destruct g.
    - destruct (wake_writer tx1) as [tx2 w]. unfold add_wakes. vsimpl. auto.
    - vsimpl. auto. }
  clearbody s1. destruct H1 as (Hsg1 & Hss1 & Hnow1 & Henv1).
  destruct (is_remote_fin_or_later (v_state s1)).
  { unfold sx, ss_mono. rewrite Hsg1, Hss1, Hnow1, Henv1. split; [split; [apply Hq; exact Haux|exact Hnow]|]. split; [lia|auto]. }
  destruct (pop_expired_mtu_probe (v_segs s1) _ _) as [segs1 pe] eqn:Epe. rewrite Hsg1 in Epe.
  pose proof (pop_expired_struct _ _ _ _ _ Epe) as Hst.
  (* the common continuation *)
  assert (Hcont : forall s2 : vsock,
     ss_ok (v_ss s2) -> ss_mono (v_ss s) (v_ss s2) -> min_ss (v_ss s2) = min_ss (v_ss s) ->
     v_now s2 = v_now s -> v_env_now s2 = v_env_now s ->
     Forall seg_time_ok (ss_segs (v_segs s2)) -> no_live (ss_segs (v_segs s2)) ->
     np_le (min_ss (v_ss s2)) (ss_segs (v_segs s2)) ->
     match (if Z.of_nat (length (ring (v_tx s))) <? ss_len_bytes (v_segs s2)
            then SErr s2 (ErrBug BugInBufferComputations)
            else match segment_loop (ring (v_tx s2)) (o_nagle (v_opts s2)) (v_ss s2) (v_segs s2)
                         (Z.of_nat (length (ring (v_tx s))) - ss_len_bytes (v_segs s2))
                         (v_last_remote_window s2) with
                 | None => SPanic
                 | Some (ss', segs', remaining) =>
                     SOk (set_unsegmented (VSockRec.set_segs (set_ss s2 ss') segs') remaining) tt
                 end) with
     | SOk s' _ =>
         sx (fun z => q z \/ PB (v_ss s') z) s' /\ ss_mono (v_ss s) (v_ss s') /\
         v_now s' = v_now s /\ v_env_now s' = v_env_now s
     | _ => True
     end).
  { intros s2 Hok2 Hmono2 Hmin2 Hn2 He2 Ht2 Hnl2 Hnp2.
    destruct (_ <? _); [exact I|].
    destruct (segment_loop _ _ _ _ _ _) as [[[ss' segs'] rem']|] eqn:Esl; [|exact I].
    destruct (segment_loop_aux _ _ _ _ _ _ _ _ _ Hok2 Esl Ht2 Hnl2 Hnp2) as (A1 & A2 & A3).
    unfold sx, ss_mono in *. vsimpl. rewrite A1, A2.
    split; [split; [|lia]|split; [lia|auto]].
    eapply aux_weaken; [|exact A3]. intros z Hz. right. eapply PB_ext; [| |exact Hz]; congruence. }
  destruct pe as [rewind_to payload_size| |].
  - destruct Hst as (g & Eg).
    destruct (failed_ss_ok (v_ss s) payload_size I6) as (F1 & F2 & F3).
    rewrite Eg in Haux. pose proof (aux_pop _ _ _ _ Haux) as Hnl. apply aux_prefix in Haux.
    destruct Haux as (T1 & _ & _ & T4).
    apply Hcont; destruct (seq_gt _ _); vsimpl; rewrite ?Hss1, ?Hnow1, ?Henv1; unfold ss_mono; auto; try lia;
      try (rewrite F3; exact T4).
  - subst segs1. unfold sx, ss_mono. vsimpl. rewrite Hsg1, Hss1, Hnow1, Henv1.
    split; [split; [apply Hq; exact Haux|exact Hnow]|]. split; [lia|auto].
  - destruct Hst as (-> & Hdead).
    pose proof (aux_last_dead _ _ _ Haux Hdead) as Hnl. destruct Haux as (T1 & _ & _ & T4).
    apply Hcont; rewrite ?Hsg1, ?Hss1, ?Hnow1, ?Henv1; unfold ss_mono; auto; lia.
Qed.

Lemma split_x ti tm q (s : vsock) :
  vs_x ti tm 0 q s -> ef strict s ->
  spx strict (split_tx_queue_into_segments cci s) (fun s' _ => split_post ti tm q s s') (fun _ => False).
Proof.
  intros Hx Hef. pose proof (split_spec cci strict ti tm s (proj1 Hx) Hef) as Hsp.
  pose proof (split_aux ti tm q s Hx) as Hau. pose proof (split_err s) as Her.
  destruct (split_tx_queue_into_segments cci s) as [s' u|s' e|]; cbn [sp spx] in *; [| |exact Hsp].
  - destruct Hsp as (A1 & A2 & A3). destruct Hau as (B1 & B2 & B3 & B4).
    unfold split_post. split; [split; [exact A1|exact B1]|]. auto.
  - rewrite (Her s' e eq_refl) in Hsp. destruct Hsp.
Qed.

End PollTx.

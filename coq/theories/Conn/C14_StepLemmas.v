(* C14, connection level — list-level facts about the segment table (Tx/Segments.v) and the size
   state (Mtu/SegSizes.v) used by Conn/C14_Step.v:
   - [seg_le] / [sle] / [subseg]: what acknowledgement processing, the pipe computation and on_sent
     may do to the table (drop a prefix, mark delivered, rewrite the loss flags);
   - the table properties of C14 ([szC], [tok], [til], [NP], [PP], [nonew]) and their closure under
     these operations, under popping the last segment and under enqueue;
   - [segment_loop_c14]: what one run of the segmentation loop establishes. *)
From Utp Require Import Base.Prelude Wire.SeqNr Mtu.SegSizes Tx.Segments Tx.Segments_Proofs
  Tx.Segments_ProofsOut Conn.Recovery Conn.Msg Conn.VSockRec Conn.VSock.

(* ------------------------------------------------------------------ the relation *)
Definition seg_le (g' g : seg) : Prop :=
  sg_size g' = sg_size g /\ sg_abs g' = sg_abs g /\ sg_probe g' = sg_probe g /\
  (sg_delivered g = true -> sg_delivered g' = true).

Lemma seg_le_refl g : seg_le g g.
Proof. unfold seg_le. auto. Qed.

Lemma seg_le_trans a b c : seg_le a b -> seg_le b c -> seg_le a c.
Proof. unfold seg_le. intros (A1 & A2 & A3 & A4) (B1 & B2 & B3 & B4). repeat split; try congruence. auto. Qed.

Definition sle (l' l : list seg) : Prop := Forall2 seg_le l' l.

Lemma sle_refl l : sle l l.
Proof. induction l; constructor; auto using seg_le_refl. Qed.

Lemma sle_trans : forall a b c, sle a b -> sle b c -> sle a c.
Proof.
  intros a b c H. revert c. induction H as [|x y xs ys Hxy _ IH]; intros c Hc.
  - inversion Hc; subst. constructor.
  - inversion Hc as [|y' z ys' zs Hyz Hr]; subst. constructor; [eapply seg_le_trans; eauto|apply IH; exact Hr].
Qed.

Lemma sle_app a a' b b' : sle a' a -> sle b' b -> sle (a' ++ b') (a ++ b).
Proof. intros H1 H2. induction H1; cbn [app]; [exact H2|constructor; assumption]. Qed.

Lemma sle_skipn : forall k l' l, sle l' l -> sle (skipn k l') (skipn k l).
Proof.
  induction k as [|k IH]; intros l' l H; [exact H|].
  destruct H; cbn [skipn]; [constructor|apply IH; assumption].
Qed.

Lemma sle_length l' l : sle l' l -> length l' = length l.
Proof. intro H. induction H; cbn [length]; congruence. Qed.

Lemma sle_rev l' l : sle l' l -> sle (rev l') (rev l).
Proof.
  intro H. induction H; cbn [rev]; [constructor|].
  apply sle_app; [assumption|]. constructor; [assumption|constructor].
Qed.

Lemma sle_sum l' l : sle l' l -> sum_sizes l' = sum_sizes l.
Proof. intro H. induction H as [|x y xs ys (E & _) _ IH]; cbn [sum_sizes]; congruence. Qed.

Definition subseg (l' l : list seg) : Prop := exists k, sle l' (skipn k l).

Lemma subseg_refl l : subseg l l.
Proof. exists 0%nat. apply sle_refl. Qed.

Lemma sle_subseg l' l : sle l' l -> subseg l' l.
Proof. intro H. exists 0%nat. exact H. Qed.

Lemma skipn_skipn {A} : forall a b (l : list A), skipn a (skipn b l) = skipn (b + a) l.
Proof.
  intros a b. induction b as [|b IH]; intro l; [reflexivity|].
  destruct l; cbn [skipn plus]; [destruct a; reflexivity|apply IH].
Qed.

Lemma subseg_trans a b c : subseg a b -> subseg b c -> subseg a c.
Proof.
  intros [k1 H1] [k2 H2]. exists (k2 + k1)%nat. rewrite <- skipn_skipn.
  eapply sle_trans; [exact H1|]. apply sle_skipn. exact H2.
Qed.

Lemma subseg_skipn k l' l : subseg l' (skipn k l) -> subseg l' l.
Proof. intros [j H]. exists (k + j)%nat. rewrite <- skipn_skipn. exact H. Qed.

(* ------------------------------------------------------------------ pointwise properties *)
Lemma Forall_skipn' {A} (P : A -> Prop) : forall n l, Forall P l -> Forall P (skipn n l).
Proof. induction n as [|n IH]; intros l H; [exact H|]. destruct H; cbn [skipn]; [constructor|apply IH; assumption]. Qed.

Lemma Forall_sle (Q : seg -> Prop) :
  (forall g' g, seg_le g' g -> Q g -> Q g') -> forall l' l, sle l' l -> Forall Q l -> Forall Q l'.
Proof.
  intros HQ l' l H. induction H as [|x y xs ys Hxy _ IH]; intro F; [constructor|].
  inversion F; subst. constructor; [eapply HQ; eauto|apply IH; assumption].
Qed.

Lemma Forall_subseg (Q : seg -> Prop) :
  (forall g' g, seg_le g' g -> Q g -> Q g') -> forall l' l, subseg l' l -> Forall Q l -> Forall Q l'.
Proof.
  intros HQ l' l [k H] F. eapply Forall_sle; [exact HQ|exact H|]. apply Forall_skipn'. exact F.
Qed.

Definition szC (C : Z) (l : list seg) : Prop := Forall (fun g => sg_size g <= C) l.
Definition noup (l : list seg) : Prop := Forall (fun g => sg_probe g = true -> sg_delivered g = true) l.
Definition NP (e m : Z) (l : list seg) : Prop :=
  Forall (fun g => e <= sg_abs g -> sg_probe g = false -> sg_size g <= m) l.
Definition PP (e m : Z) (l : list seg) : Prop :=
  Forall (fun g => e <= sg_abs g -> sg_probe g = true -> m < sg_size g) l.
Definition nonew (e : Z) (l : list seg) : Prop := Forall (fun g => sg_abs g < e) l.

Lemma szC_subseg C l' l : subseg l' l -> szC C l -> szC C l'.
Proof. apply Forall_subseg. intros g' g (E1 & _) H. lia. Qed.

Lemma noup_subseg l' l : subseg l' l -> noup l -> noup l'.
Proof. apply Forall_subseg. intros g' g (_ & _ & E3 & E4) H P. apply E4, H. congruence. Qed.

Lemma NP_subseg e m l' l : subseg l' l -> NP e m l -> NP e m l'.
Proof. apply Forall_subseg. intros g' g (E1 & E2 & E3 & _) H A B. rewrite E1. apply H; congruence. Qed.

Lemma PP_subseg e m l' l : subseg l' l -> PP e m l -> PP e m l'.
Proof. apply Forall_subseg. intros g' g (E1 & E2 & E3 & _) H A B. rewrite E1. apply H; congruence. Qed.

Lemma nonew_subseg e l' l : subseg l' l -> nonew e l -> nonew e l'.
Proof. apply Forall_subseg. intros g' g (_ & E2 & _) H. lia. Qed.

Lemma NP_mono e m m' l : m <= m' -> NP e m l -> NP e m' l.
Proof. intros Hm. apply Forall_impl. intros g H A B. specialize (H A B). lia. Qed.

Lemma nonew_NP e m l : nonew e l -> NP e m l.
Proof. apply Forall_impl. intros g H A. lia. Qed.

Lemma nonew_PP e m l : nonew e l -> PP e m l.
Proof. apply Forall_impl. intros g H A. lia. Qed.

(* ------------------------------------------------------------------ the probe is the newest segment *)
Fixpoint tok (l : list seg) : Prop :=
  match l with
  | [] => True
  | g :: r => (sg_probe g = true -> sg_delivered g = false -> r = []) /\ tok r
  end.

Lemma tok_sle l' l : sle l' l -> tok l -> tok l'.
Proof.
  intro H. induction H as [|x y xs ys (E1 & E2 & E3 & E4) Hr IH]; cbn [tok]; [auto|].
  intros [H1 H2]. split; [|apply IH; exact H2].
  intros P D. assert (ys = []) as ->.
  { apply H1; [congruence|]. destruct (sg_delivered y); [|reflexivity]. rewrite E4 in D by reflexivity. discriminate. }
  inversion Hr. reflexivity.
Qed.

Lemma tok_skipn : forall k l, tok l -> tok (skipn k l).
Proof.
  induction k as [|k IH]; intros l H; [exact H|]. destruct l; cbn [skipn]; [exact I|].
  apply IH. exact (proj2 H).
Qed.

Lemma tok_subseg l' l : subseg l' l -> tok l -> tok l'.
Proof. intros [k H] T. eapply tok_sle; [exact H|]. apply tok_skipn. exact T. Qed.

Lemma noup_tok l : noup l -> tok l.
Proof.
  induction l as [|g r IH]; intro H; cbn [tok]; [exact I|]. inversion H; subst.
  split; [|apply IH; assumption]. intros P D. rewrite H2 in D by exact P. discriminate.
Qed.

Lemma noup_tok_snoc l x : noup l -> tok (l ++ [x]).
Proof.
  induction l as [|g r IH]; intro H; cbn [app tok].
  - split; [auto|exact I].
  - inversion H; subst. split; [|apply IH; assumption].
    intros P D. rewrite H2 in D by exact P. discriminate.
Qed.

Lemma tok_snoc_noup l x : tok (l ++ [x]) -> noup l.
Proof.
  induction l as [|g r IH]; cbn [app tok]; intro H; [constructor|].
  destruct H as [H1 H2]. constructor; [|apply IH; exact H2].
  intro P. destruct (sg_delivered g) eqn:D; [reflexivity|].
  specialize (H1 P eq_refl). destruct r; discriminate.
Qed.

Lemma noup_snoc l x : noup l -> (sg_probe x = true -> sg_delivered x = true) -> noup (l ++ [x]).
Proof. intros H Hx. apply Forall_app. split; [exact H|]. constructor; [exact Hx|constructor]. Qed.

Lemma tok_last_noup l x :
  tok (l ++ [x]) -> (sg_delivered x = true \/ sg_probe x = false) -> noup (l ++ [x]).
Proof.
  intros H Hx. apply noup_snoc; [eapply tok_snoc_noup; exact H|].
  intro P. destruct Hx as [Hx|Hx]; congruence.
Qed.

Lemma tok_noup_if l :
  tok l -> (forall init x, l = init ++ [x] -> sg_delivered x = true \/ sg_probe x = false) -> noup l.
Proof.
  intros Ht Hl. destruct l as [|g r]; [constructor|].
  destruct (@exists_last _ (g :: r)) as (init & x & E); [discriminate|].
  rewrite E in *. apply tok_last_noup; [exact Ht|]. eapply Hl. reflexivity.
Qed.

(* ------------------------------------------------------------------ the table ends at the offset *)
Fixpoint til (l : list seg) (off : Z) : Prop :=
  match l with
  | [] => True
  | g :: r => 1 <= sg_size g /\ sg_abs g + sum_sizes (g :: r) = off /\ til r off
  end.

Lemma til_sle l' l off : sle l' l -> til l off -> til l' off.
Proof.
  intro H. induction H as [|x y xs ys Hxy Hr IH]; cbn [til]; [auto|].
  intros (H1 & H2 & H3). pose proof (sle_sum _ _ Hr) as Es. destruct Hxy as (E1 & E2 & _).
  cbn [sum_sizes] in *. repeat split; [lia|lia|apply IH; exact H3].
Qed.

Lemma til_skipn : forall k l off, til l off -> til (skipn k l) off.
Proof.
  induction k as [|k IH]; intros l off H; [exact H|]. destruct l; cbn [skipn]; [exact I|].
  apply IH. exact (proj2 (proj2 H)).
Qed.

Lemma til_subseg l' l off : subseg l' l -> til l off -> til l' off.
Proof. intros [k H] T. eapply til_sle; [exact H|]. apply til_skipn. exact T. Qed.

Lemma til_sizes_nonneg l off : til l off -> 0 <= sum_sizes l.
Proof.
  induction l as [|g r IH]; cbn [til sum_sizes]; [lia|]. intros (H1 & _ & H3). specialize (IH H3). lia.
Qed.

Lemma til_nonew l off : til l off -> nonew off l.
Proof.
  induction l as [|g r IH]; intro H; [constructor|]. destruct H as (H1 & H2 & H3).
  constructor; [|apply IH; exact H3]. pose proof (til_sizes_nonneg _ _ H3). cbn [sum_sizes] in H2. lia.
Qed.

Lemma til_pop l x off : til (l ++ [x]) off -> til l (off - sg_size x).
Proof.
  induction l as [|g r IH]; cbn [app til]; [auto|].
  intros (H1 & H2 & H3). repeat split; [exact H1| |apply IH; exact H3].
  cbn [sum_sizes] in *. rewrite sum_sizes_app in H2. cbn [sum_sizes] in H2. lia.
Qed.

Lemma til_snoc l x off : til l off -> sg_abs x = off -> 1 <= sg_size x -> til (l ++ [x]) (off + sg_size x).
Proof.
  intros H Ha Hs. induction l as [|g r IH]; cbn [app til sum_sizes].
  - repeat split; lia.
  - destruct H as (H1 & H2 & H3). repeat split; [exact H1| |apply IH; exact H3].
    cbn [sum_sizes] in H2. rewrite sum_sizes_app. cbn [sum_sizes]. lia.
Qed.

(* ------------------------------------------------------------------ the operations *)
Lemma seg_le_mark g : seg_le (mark_delivered g) g.
Proof. unfold seg_le, mark_delivered. cbn. auto. Qed.

Lemma apply_sack_sle : forall l bits now a l' a',
  apply_sack l bits now a = (l', a') -> sle l' l.
Proof.
  induction l as [|s r IH]; intros bits now a l' a'; cbn [apply_sack].
  - intro H; injection H as <- _. constructor.
  - destruct bits as [|b bs]; [intro H; injection H as <- _; apply sle_refl|].
    destruct (negb (sg_delivered s) && b).
    + destruct (apply_sack r bs now _) as [r' a''] eqn:E. intro H; injection H as <- _.
      constructor; [apply seg_le_mark|exact (IH _ _ _ _ _ E)].
    + destruct (apply_sack r bs now a) as [r' a''] eqn:E. intro H; injection H as <- _.
      constructor; [apply seg_le_refl|exact (IH _ _ _ _ _ E)].
Qed.

Lemma sack_phase_sle t rest a1 su now ack sk l' a' dp lse :
  sack_phase t rest a1 su now ack sk = (l', a', dp, lse) -> sle l' rest.
Proof.
  unfold sack_phase. destruct rest as [|x xs]; [intro H; injection H as <- _ _ _; constructor|].
  destruct sk as [k|]; [|intro H; injection H as <- _ _ _; apply sle_refl].
  destruct (seq_gt su ack); [|intro H; injection H as <- _ _ _; apply sle_refl].
  set (rest := x :: xs). set (so := seq_sub (wadd16 ack 2) su).
  destruct (0 <=? so).
  - destruct (apply_sack (skipn (Z.to_nat so) rest) _ now _) as [tl' a''] eqn:E.
    intro H; injection H as <- _ _ _. apply apply_sack_sle in E.
    rewrite <- (firstn_skipn (Z.to_nat so) rest) at 2. apply sle_app; [apply sle_refl|exact E].
  - destruct (apply_sack rest _ now _) as [l2 a''] eqn:E.
    intro H; injection H as <- _ _ _. exact (apply_sack_sle _ _ _ _ _ _ E).
Qed.

Lemma skipn_app_length {A} (a b : list A) : skipn (length a) (a ++ b) = b.
Proof. induction a; cbn [length skipn app]; auto. Qed.

Lemma remove_up_to_ack_sub t now ack sk t' r :
  remove_up_to_ack t now ack sk = (t', r) ->
  subseg (ss_segs t') (ss_segs t) /\ ss_offset t' = ss_offset t.
Proof.
  unfold remove_up_to_ack.
  set (dc := if 0 <=? seq_sub ack (ss_snd_una t) then _ else 0%nat).
  destruct (sack_phase t (skipn dc (ss_segs t)) _ _ now ack sk) as [[[rest2 a2] dp] lse] eqn:E2.
  destruct (strip_delivered rest2 0 0) as [[rest3 cnt3] bytes3] eqn:E3.
  intro H; injection H as <- _. cbn [ss_segs ss_offset]. split; [|reflexivity].
  apply sack_phase_sle in E2.
  destruct (strip_delivered_spec _ _ _ _ _ _ E3) as (dropped & Hd & _).
  apply subseg_skipn with (k := dc).
  eapply subseg_trans; [|apply sle_subseg; exact E2].
  exists (length dropped). rewrite Hd, skipn_app_length. apply sle_refl.
Qed.

Lemma pipe_loop_sle : forall l t hr th now a l' a',
  pipe_loop l t hr th now a = (l', a') -> sle l' (map snd l).
Proof.
  induction l as [|[off s] r IH]; intros t hr th now a l' a'; cbn [pipe_loop].
  - intro H; injection H as <- _. constructor.
  - destruct (seg_last_sent s).
    + destruct (sg_delivered s) eqn:Ed.
      * destruct (pipe_loop r t hr th now _) as [r' a''] eqn:E. intro H; injection H as <- _.
        cbn [map snd]. constructor; [apply seg_le_refl|exact (IH _ _ _ _ _ _ _ E)].
      * destruct (pipe_loop r t hr th now _) as [r' a''] eqn:E. intro H; injection H as <- _.
        cbn [map snd]. constructor; [|exact (IH _ _ _ _ _ _ _ E)].
        unfold seg_le. cbv zeta. cbn [sg_size sg_abs sg_probe sg_delivered]. repeat split; auto. congruence.
    + destruct (pipe_loop r t hr th now a) as [r' a''] eqn:E. intro H; injection H as <- _.
      cbn [map snd]. constructor; [apply seg_le_refl|exact (IH _ _ _ _ _ _ _ E)].
Qed.

Lemma calc_pipe_sle t hr hd rtt now t' p rc :
  calc_pipe t hr hd rtt now = Some (t', p, rc) ->
  sle (ss_segs t') (ss_segs t) /\ ss_offset t' = ss_offset t.
Proof.
  unfold calc_pipe. destruct (_ <? _); [discriminate|].
  set (n := Z.to_nat _).
  destruct (pipe_loop _ t hr _ now _) as [upd a] eqn:E. intro H; injection H as <- _ _.
  cbn [set_segs ss_segs ss_offset]. split; [|reflexivity].
  apply pipe_loop_sle in E. rewrite map_rev, enum_from_snd in E. apply sle_rev in E.
  rewrite rev_involutive in E.
  rewrite <- (firstn_skipn n (ss_segs t)) at 2. apply sle_app; [exact E|apply sle_refl].
Qed.

Section RecCC.
Context {CC : Type} (cci : cc_iface CC).

Lemma recovery_on_ack_sle r h segs ls cc now rtt r' segs' cc' :
  recovery_on_ack cci r h segs ls cc now rtt = Some (r', segs', cc') ->
  sle (ss_segs segs') (ss_segs segs) /\ ss_offset segs' = ss_offset segs.
Proof.
  assert (Hsame : sle (ss_segs segs) (ss_segs segs) /\ ss_offset segs = ss_offset segs)
    by (split; [apply sle_refl|reflexivity]).
  unfold recovery_on_ack. cbn [rv_phase rv_supports_sack rv_last_ack].
  destruct (rv_phase r) as [rp|dup|rc].
  - destruct (seq_ge _ _); intro H; injection H as _ <- _; exact Hsame.
  - destruct (ss_segs segs) as [|g0 gs] eqn:Es; [intro H; injection H as _ <- _; rewrite Es; exact Hsame|].
    rewrite <- Es in *.
    match goal with |- match ?c with _ => _ end = _ -> _ => destruct c as [[dup' la']|] end; [|discriminate].
    destruct (dup' <? SACK_DUP_THRESH); [intro H; injection H as _ <- _; exact Hsame|].
    destruct (calc_pipe segs _ ls rtt now) as [[[sg pp] rcl]|] eqn:Ec; [|discriminate].
    intro H; injection H as _ <- _. exact (calc_pipe_sle _ _ _ _ _ _ _ _ Ec).
  - destruct (seq_ge _ _); intro H; injection H as _ <- _; exact Hsame.
Qed.
End RecCC.

Lemma update_nth_sle (f : seg -> seg) :
  (forall g, seg_le (f g) g) -> forall l n, sle (update_nth l n f) l.
Proof.
  intros Hf. induction l as [|x xs IH]; intros [|n]; cbn [update_nth].
  - constructor.
  - constructor.
  - constructor; [apply Hf|apply sle_refl].
  - constructor; [apply seg_le_refl|apply IH].
Qed.

Lemma on_sent_sle t i now :
  sle (ss_segs (on_sent t i now)) (ss_segs t) /\ ss_offset (on_sent t i now) = ss_offset t.
Proof.
  unfold on_sent, set_segs. cbn [ss_segs ss_offset]. split; [|reflexivity].
  apply update_nth_sle. intro g. unfold seg_le, seg_on_sent. cbn. auto.
Qed.

(* popping the last segment *)
Definition popped (t t' : segments) (x : seg) : Prop :=
  ss_segs t = ss_segs t' ++ [x] /\ ss_offset t' = ss_offset t - sg_size x /\
  sg_probe x = true /\ sg_delivered x = false.

Lemma pop_mtu_probe_cases t q t' b :
  pop_mtu_probe t q = (t', b) ->
  (b = false /\ t' = t) \/ (b = true /\ exists x, popped t t' x).
Proof.
  unfold pop_mtu_probe. destruct (last_and_init (ss_segs t)) as [[init x]|] eqn:E.
  - destruct (_ =? _); cbn [andb]; [|intro H; injection H as <- <-; left; auto].
    destruct (sg_probe x) eqn:P; cbn [andb]; [|intro H; injection H as <- <-; left; auto].
    destruct (sg_delivered x) eqn:D; cbn [negb]; intro H; injection H as <- <-; [left; auto|].
    right. split; [reflexivity|]. exists x. apply last_and_init_app in E.
    unfold popped, set_segs. cbn [ss_segs ss_offset]. auto.
  - intro H; injection H as <- <-. left; auto.
Qed.

Lemma pop_expired_cases t to mr t' pe :
  pop_expired_mtu_probe t to mr = (t', pe) ->
  match pe with
  | PeEmpty => t' = t /\ forall init x, ss_segs t = init ++ [x] -> sg_delivered x = true \/ sg_probe x = false
  | PeNotExpired => t' = t
  | PeExpired _ ps => exists x, popped t t' x /\ ps = sg_size x
  end.
Proof.
  unfold pop_expired_mtu_probe. destruct (last_and_init (ss_segs t)) as [[init x]|] eqn:E.
  - apply last_and_init_app in E.
    assert (Hl : forall i y, ss_segs t = i ++ [y] -> y = x).
    { intros i y Hy. rewrite E in Hy. apply app_inj_tail in Hy. symmetry. apply Hy. }
    destruct (sg_delivered x) eqn:D.
    { intro H; injection H as <- <-. split; [reflexivity|]. intros i y Hy. rewrite (Hl _ _ Hy). left; exact D. }
    destruct (to && sg_probe x && (mr <=? seg_retransmit_count x)) eqn:G.
    + intro H; injection H as <- <-. exists x. split; [|reflexivity].
      apply andb_true_iff in G. destruct G as [G _]. apply andb_true_iff in G. destruct G as [_ P].
      unfold popped, set_segs. cbn [ss_segs ss_offset]. auto.
    + destruct (sg_probe x) eqn:P; intro H; injection H as <- <-.
      * reflexivity.
      * split; [reflexivity|]. intros i y Hy. rewrite (Hl _ _ Hy). right; exact P.
  - intro H; injection H as <- <-. split; [reflexivity|].
    intros i y Hy. unfold last_and_init in E. rewrite Hy, rev_app_distr in E. discriminate.
Qed.

(* what a pop does to the table properties *)
Lemma popped_props t t' x C e m :
  popped t t' x ->
  (szC C (ss_segs t) -> szC C (ss_segs t')) /\
  (tok (ss_segs t) -> noup (ss_segs t')) /\
  (til (ss_segs t) (ss_offset t) -> til (ss_segs t') (ss_offset t')) /\
  (NP e m (ss_segs t) -> NP e m (ss_segs t')) /\
  (PP e m (ss_segs t) -> PP e m (ss_segs t')) /\
  (nonew e (ss_segs t) -> nonew e (ss_segs t')).
Proof.
  intros (E & Ho & _ & _). rewrite E, Ho. unfold szC, NP, PP, nonew.
  repeat split; try (intro H; apply Forall_app in H; exact (proj1 H)).
  - apply tok_snoc_noup.
  - apply til_pop.
Qed.

(* ------------------------------------------------------------------ the size state *)
Lemma next_size_bounds s s' r :
  min_ss s <= max_ss s -> next_segment_size s = Some (s', r) ->
  min_ss s' = min_ss s /\ max_ss s' = max_ss s /\ min_ss s <= r <= max_ss s.
Proof.
  intros Hle. unfold next_segment_size. destruct (cd_rem s =? 0).
  - unfold next_probe, np_sum2, np_sum1, np_half, np_diff. cbn [min_ss max_ss].
    destruct (_ && _ && _); cbn [bind]; [|discriminate].
    intro H; injection H as <- <-. cbn [min_ss max_ss]. repeat split; lia.
  - intro H; injection H as <- <-. cbn [min_ss max_ss]. repeat split; lia.
Qed.

(* one run of the segmentation loop, from a table without an undelivered probe *)
Lemma segment_loop_c14 C e : forall fuel nagle ss segs remaining rwr ss' segs' rem',
  1 <= min_ss ss <= max_ss ss -> max_ss ss <= C ->
  noup (ss_segs segs) -> til (ss_segs segs) (ss_offset segs) -> szC C (ss_segs segs) ->
  NP e (min_ss ss) (ss_segs segs) -> PP e (min_ss ss) (ss_segs segs) ->
  segment_loop fuel nagle ss segs remaining rwr = Some (ss', segs', rem') ->
  min_ss ss' = min_ss ss /\ max_ss ss' = max_ss ss /\
  tok (ss_segs segs') /\ til (ss_segs segs') (ss_offset segs') /\ szC C (ss_segs segs') /\
  NP e (min_ss ss) (ss_segs segs') /\ PP e (min_ss ss) (ss_segs segs').
Proof.
  induction fuel as [|x fuel IH]; intros nagle ss segs remaining rwr ss' segs' rem' Hss HC Hn Ht Hz Hnp Hpp;
    cbn [segment_loop].
  { intro H; injection H as <- <- <-. repeat split; auto using noup_tok. }
  destruct (Z.ltb_spec 0 remaining) as [Hr0|Hr0]; cbn [andb];
    [|intro H; injection H as <- <- <-; repeat split; auto using noup_tok].
  destruct (Z.ltb_spec 0 rwr) as [Hw0|Hw0];
    [|intro H; injection H as <- <- <-; repeat split; auto using noup_tok].
  destruct (next_segment_size ss) as [[ss1 sz]|] eqn:En; [|discriminate].
  destruct (next_size_bounds ss ss1 sz ltac:(lia) En) as (Hm & Hx & Hsz).
  set (payload := Z.min (Z.min sz rwr) remaining).
  assert (Hp : 1 <= payload <= sz) by (unfold payload; lia).
  destruct (nagle && _ && _).
  { intro H; injection H as <- <- <-. repeat split; auto using noup_tok. }
  unfold mss. rewrite Hm.
  assert (Hnew : forall b, b = (min_ss ss <? payload) ->
    ss_segs (enqueue segs payload b) = ss_segs segs ++
      [{| sg_size := payload; sg_abs := ss_offset segs; sg_delivered := false; sg_sent := NotSent;
          sg_probe := b; sg_lost := false; sg_expired := false; sg_sacks_after := false |}] /\
    ss_offset (enqueue segs payload b) = ss_offset segs + payload /\
    til (ss_segs (enqueue segs payload b)) (ss_offset (enqueue segs payload b)) /\
    szC C (ss_segs (enqueue segs payload b)) /\
    NP e (min_ss ss) (ss_segs (enqueue segs payload b)) /\
    PP e (min_ss ss) (ss_segs (enqueue segs payload b))).
  { intros b Hb. unfold enqueue, set_segs. cbn [ss_segs ss_offset].
    split; [reflexivity|]. split; [reflexivity|].
    split; [apply (til_snoc _ {| sg_size := payload; sg_abs := ss_offset segs; sg_delivered := false;
                                 sg_sent := NotSent; sg_probe := b; sg_lost := false; sg_expired := false;
                                 sg_sacks_after := false |}); cbn [sg_abs sg_size]; auto; lia|].
    split; [apply Forall_app; split; [exact Hz|constructor; [cbn [sg_size]; lia|constructor]]|].
    split; apply Forall_app; (split; [assumption|]); constructor; try constructor;
      cbn [sg_size sg_abs sg_probe]; intros _ Hb'; rewrite Hb in Hb'; lia. }
  destruct (Z.ltb_spec (min_ss ss) payload) as [Hpr|Hnp'].
  - (* the probe: the loop stops *)
    destruct (Hnew true) as (E1 & E2 & A1 & A2 & A3 & A4); [reflexivity|].
    intro H; injection H as <- <- <-. repeat split; auto.
    rewrite E1. apply noup_tok_snoc. exact Hn.
  - destruct (Hnew false) as (E1 & E2 & A1 & A2 & A3 & A4); [reflexivity|].
    intro H.
    destruct (IH nagle ss1 (enqueue segs payload false) (remaining - payload) (rwr - payload) ss' segs' rem')
      as (B1 & B2 & B3 & B4 & B5 & B6 & B7); try (rewrite ?Hm, ?Hx; assumption); try lia.
    + rewrite E1. apply noup_snoc; [exact Hn|]. cbn [sg_probe]. discriminate.
    + rewrite Hm in *. repeat split; auto; congruence.
Qed.

(* the items of the sending iterator are segments of the table *)
Lemma iter_seg_in t st f : In f (iter_for_sending t st) -> In (fs_seg f) (ss_segs t).
Proof.
  unfold iter_for_sending. intro H. apply filter_In in H. destruct H as [Hin _].
  apply in_map_iff in Hin. destruct Hin as ([i g] & <- & Hin). cbn [fs_seg].
  apply enum_from_In in Hin. revert Hin. generalize (match st with Some s => Z.to_nat (Z.max (seq_sub s (ss_snd_una t)) 0) | None => 0%nat end). intros n. revert n. generalize (ss_segs t). induction l as [|y ys IHl]; intros [|n] Hn; cbn [skipn] in Hn; auto; try contradiction. right. eapply IHl. exact Hn.
Qed.

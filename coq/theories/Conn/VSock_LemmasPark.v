(* Component-level invariants behind C02 "nobody stays parked on a condition that already holds":
   - [prx]: the user queue's byte counter is the sum of its items, and a registered reader waker
     means the queue is empty and the read half is not marked closed;
   - [ptx]: a registered writer waker means the write half is not marked closed.
   Both are kept by every operation of Rx/Rx.v resp. Tx/Ring.v (dispatcher side and application
   side), hence ([pk_reach]) by everything a poll does, hence by every event. *)
From Utp Require Import Base.Prelude Wire.SeqNr Wire.Header Rtt.Rtte Mtu.SegSizes Rx.Rx Rx.Rx_Proofs
  Tx.Ring Tx.Segments Conn.Recovery Conn.Msg Conn.VSockRec Conn.VSock Conn.VSockRun Conn.VObs
  Conn.VSock_Lemmas Conn.VSock_LemmasStep Conn.VSock_LemmasReach.

(* ------------------------------------------------------------------ Rx *)
Definition prx (r : rx) : Prop :=
  q_len_bytes r = sum_q_bytes (q r) /\
  (reader_waker r = true -> q r = [] /\ vsock_closed r = false).

Ltac rxs := cbn [ooq_data filled_front ooq_len ooq_len_bytes ooq_capacity q q_len_bytes q_capacity
  reader_dropped vsock_closed disp_waker reader_waker max_incoming_payload last_remaining_rx_window
  current is_eof g_base g_read set_ooq set_wakers set_flags pop_front_state] in *.

Lemma qitem_of_slot_len m : qitem_len_bytes (qitem_of_slot m) = slot_len_bytes m.
Proof. destruct m; reflexivity. Qed.

(* the flush loop: counters stay exact, flags untouched, and nothing moved iff fp did not grow *)
Lemma flush_loop_park : forall fuel s w fb fp s1 w1 fb1 fp1,
  flush_loop fuel s w fb fp = Some (s1, w1, fb1, fp1) ->
  (q_len_bytes s = sum_q_bytes (q s) -> q_len_bytes s1 = sum_q_bytes (q s1)) /\
  reader_waker s1 = reader_waker s /\ vsock_closed s1 = vsock_closed s /\
  disp_waker s1 = disp_waker s /\ reader_dropped s1 = reader_dropped s /\
  fp <= fp1 /\ (fp1 = fp -> q s1 = q s /\ q_len_bytes s1 = q_len_bytes s).
Proof.
  induction fuel as [|fuel IH]; intros s w fb fp s1 w1 fb1 fp1; cbn [flush_loop].
  - intro H; injection H as <- <- <- <-. repeat split; auto; lia.
  - destruct (filled_front s =? 0); [intro H; injection H as <- <- <- <-; repeat split; auto; lia|].
    destruct (ooq_data s) as [|m rest]; [discriminate|].
    destruct (w <? _); [intro H; injection H as <- <- <- <-; repeat split; auto; lia|].
    destruct (reader_dropped s) eqn:Erd; [intro H; injection H as <- <- <- <-; repeat split; auto; lia|].
    destruct (_ <? _); [discriminate|].
    intro H. apply IH in H. destruct H as (H1 & H2 & H3 & H4 & H5 & H6 & H7). rxs.
    split.
    { intro Hq. apply H1. rewrite sum_q_bytes_app. cbn [sum_q_bytes]. rewrite qitem_of_slot_len. lia. }
    repeat split; try assumption; try lia. congruence.
Qed.

Lemma rx_flush_park r r' fr w : rx_flush r = (r', fr, w) -> prx r -> prx r'.
Proof.
  unfold rx_flush, prx. intros H [Hq Hw].
  set (s0 := set_wakers r _ (reader_waker r) (last_remaining_rx_window r)) in *.
  destruct (flush_loop _ s0 _ 0 0) as [[[[s1 w1] fb] fp]|] eqn:E.
  - apply flush_loop_park in E. destruct E as (H1 & H2 & H3 & H4 & H5 & H6 & H7).
    subst s0. rxs. specialize (H1 Hq).
    destruct (0 <? fp) eqn:Efp; injection H as <- _ _; rxs.
    + split; [exact H1|discriminate].
    + split; [exact H1|]. assert (fp = 0) by lia. destruct (H7 H) as [K1 K2].
      rewrite H2, H3, K1. exact Hw.
  - injection H as <- _ _. subst s0. rxs. auto.
Qed.

Lemma ooq_add_remove_park r k p off r' a :
  ooq_add_remove r k p off = (r', a) ->
  q r' = q r /\ q_len_bytes r' = q_len_bytes r /\ reader_waker r' = reader_waker r /\
  vsock_closed r' = vsock_closed r.
Proof.
  unfold ooq_add_remove.
  destruct (ooq_is_full r); [intro H; injection H as <- _; auto|].
  destruct (_ <=? _); [intro H; injection H as <- _; auto|].
  destruct (match k, p with KData, [] => _ | KData, _ => _ | KFin, _ => _ | KOther, _ => _ end);
    [|intro H; injection H as <- _; auto].
  destruct (nth_error _ _); [|intro H; injection H as <- _; auto].
  destruct (negb _); [intro H; injection H as <- _; auto|].
  destruct (take_while_filled _) as [n b]. intro H; injection H as <- _. rxs. auto.
Qed.

Lemma rx_add_remove_park r k p off r' ar w : rx_add_remove r k p off = (r', ar, w) -> prx r -> prx r'.
Proof.
  unfold rx_add_remove. destruct (ooq_add_remove r k p off) as [s1 a] eqn:E.
  apply ooq_add_remove_park in E. destruct E as (E1 & E2 & E3 & E4).
  intros H Hp.
  assert (Hp1 : prx s1) by (unfold prx in *; rewrite E1, E2, E3, E4; exact Hp).
  destruct a; try (injection H as <- _ _; exact Hp1).
  destruct (_ && _); [|injection H as <- _ _; exact Hp1].
  destruct (rx_flush s1) as [[s2 fr] w2] eqn:Ef.
  apply (rx_flush_park _ _ _ _ Ef) in Hp1.
  destruct fr; injection H as <- _ _; exact Hp1.
Qed.

Lemma rx_mark_closed_park r r' w : rx_mark_vsock_closed r = (r', w) -> prx r -> prx r'.
Proof.
  unfold rx_mark_vsock_closed, prx. intros H Hp.
  destruct (vsock_closed r) eqn:Evc; injection H as <- _; [rewrite Evc; exact Hp|].
  rxs. split; [apply Hp|discriminate].
Qed.

Lemma rx_enqueue_error_park r r' w : rx_enqueue_error r = (r', w) -> prx r -> prx r'.
Proof.
  unfold rx_enqueue_error, prx. intros H [Hq Hw]; injection H as <- _. rxs.
  split; [|discriminate]. rewrite sum_q_bytes_app. cbn [sum_q_bytes qitem_len_bytes]. lia.
Qed.

Lemma rx_dop_park d r r' w : rx_dop d r r' w -> prx r -> prx r'.
Proof.
  intros H. destruct H.
  - eapply rx_flush_park; eassumption.
  - eapply rx_add_remove_park; eassumption.
  - eapply rx_mark_closed_park; eassumption.
  - eapply rx_enqueue_error_park; eassumption.
Qed.

(* application side *)
Lemma read_loop_park : forall fuel s room out s' out' dead err,
  read_loop fuel s room out = (s', out', dead, err) -> prx s -> prx s'.
Proof.
  induction fuel as [|fuel IH]; intros s room out s' out' dead err; cbn [read_loop].
  - intro H; injection H as <- _ _ _. auto.
  - destruct (room <=? 0); [intro H; injection H as <- _ _ _; auto|].
    destruct (current s) as [|c cs] eqn:Ec.
    + destruct (is_eof s); [intro H; injection H as <- _ _ _; auto|].
      destruct (q s) as [|item qrest] eqn:Eq.
      * destruct (vsock_closed s) eqn:Evc; intro H; injection H as <- _ _ _; [auto|].
        intros [Hq Hw]. unfold prx. rxs. rewrite Eq in *. auto.
      * intros H [Hq Hw].
        assert (Hrw : reader_waker s = false).
        { destruct (reader_waker s); [|reflexivity]. destruct (Hw eq_refl) as [K _]. congruence. }
        rewrite Eq in Hq. cbn [sum_q_bytes] in Hq.
        destruct item as [bs| |]; cbn [qitem_len_bytes] in *.
        -- eapply IH; [exact H|]. unfold prx. rxs. rewrite Hrw. split; [lia|discriminate].
        -- injection H as <- _ _ _. unfold prx. rxs. rewrite Hrw. split; [lia|discriminate].
        -- injection H as <- _ _ _. unfold prx. rxs. rewrite Hrw. split; [lia|discriminate].
    + intros H Hp. eapply IH; [exact H|]. unfold prx in *. rxs. exact Hp.
Qed.

Lemma rx_read_park r n r' res w : rx_read r n = (r', res, w) -> prx r -> prx r'.
Proof.
  unfold rx_read. destruct (read_loop _ r n []) as [[[s1 out] dead] err] eqn:E.
  intros H Hp. apply (read_loop_park _ _ _ _ _ _ _ _ E) in Hp.
  destruct err; [injection H as <- _ _; exact Hp|].
  destruct out.
  - destruct (is_eof s1); [injection H as <- _ _; exact Hp|].
    destruct dead; injection H as <- _ _; exact Hp.
  - injection H as <- _ _. unfold prx in *. rxs. exact Hp.
Qed.

Lemma rx_drop_reader_park r r' w : rx_drop_reader r = (r', w) -> prx r -> prx r'.
Proof. unfold rx_drop_reader, prx. intros H Hp; injection H as <- _. rxs. exact Hp. Qed.

Lemma rx_build_park a b : prx (rx_build a b).
Proof. unfold prx, rx_build. rxs. split; [reflexivity|discriminate]. Qed.

(* ------------------------------------------------------------------ Tx *)
Definition ptx (t : tx) : Prop := writer_waker t = true -> t_vsock_closed t = false.

Ltac txs := cbn [ring cap t_vsock_closed writer_dropped writer_shutdown t_disp_waker writer_waker
  written_without_yield g_written g_removed upd] in *.

Lemma tx_dop_park t t' w : tx_dop t t' w -> ptx t -> ptx t'.
Proof.
  unfold ptx. intros H Hp. destruct H.
  - unfold mark_vsock_closed in H. injection H as <- _. txs. discriminate.
  - unfold wake_writer in H. injection H as <- _. txs. discriminate.
  - unfold truncate_front in H. destruct (_ =? _); injection H as <- _; txs; exact Hp.
  - unfold grow in H. destruct (_ <=? _); injection H as <- _; txs; exact Hp.
  - unfold register_dispatcher_if_empty. destruct (ring t); txs; exact Hp.
Qed.

Lemma poll_write_park t buf t' r w : poll_write t buf = (t', r, w) -> ptx t -> ptx t'.
Proof.
  unfold poll_write, ptx. intros H Hp.
  destruct (_ <? written_without_yield t); [injection H as <- _ _; txs; exact Hp|].
  destruct (t_vsock_closed t) eqn:Ec; [injection H as <- _ _; rewrite Ec; exact Hp|].
  destruct (writer_shutdown t); [injection H as <- _ _; rewrite Ec; auto|].
  destruct (writer_dropped t); [injection H as <- _ _; rewrite Ec; auto|].
  destruct (_ =? 0); injection H as <- _ _; txs; rewrite ?Ec; auto.
Qed.

Lemma poll_flush_park t t' r w : poll_flush t = (t', r, w) -> ptx t -> ptx t'.
Proof.
  unfold poll_flush, ptx. intros H Hp. destruct (ring t); [injection H as <- _ _; exact Hp|].
  destruct (t_vsock_closed t) eqn:Ec; injection H as <- _ _; txs; rewrite ?Ec; auto.
Qed.

Lemma poll_shutdown_park t t' r w : poll_shutdown t = (t', r, w) -> ptx t -> ptx t'.
Proof.
  unfold poll_shutdown, ptx. intros H Hp. destruct (ring t).
  - destruct (t_vsock_closed t) eqn:Ec; [injection H as <- _ _; rewrite Ec; exact Hp|].
    destruct (writer_shutdown t); injection H as <- _ _; txs; rewrite ?Ec; auto.
  - destruct (t_vsock_closed t) eqn:Ec; injection H as <- _ _; txs; rewrite ?Ec; auto.
Qed.

Lemma drop_writer_park t t' w : drop_writer t = (t', w) -> ptx t -> ptx t'.
Proof.
  unfold drop_writer, ptx. destruct (writer_dropped t); intros H Hp; injection H as <- _; txs; exact Hp.
Qed.

Lemma tx_new_park c : ptx (tx_new c).
Proof. unfold ptx, tx_new. txs. discriminate. Qed.

(* ------------------------------------------------------------------ a registered application waker
   is either still registered or was fired *)
Lemma flush_fires_reader r r' fr w :
  rx_flush r = (r', fr, w) -> reader_waker r = true -> reader_waker r' = true \/ In WakeReader w.
Proof.
  unfold rx_flush. intros H Hw.
  set (s0 := set_wakers r _ (reader_waker r) (last_remaining_rx_window r)) in *.
  destruct (flush_loop _ s0 _ 0 0) as [[[[s1 w1] fb] fp]|] eqn:E.
  - apply flush_loop_park in E. destruct E as (_ & H2 & _).
    assert (Hs1 : reader_waker s1 = true) by (rewrite H2; subst s0; exact Hw).
    destruct (0 <? fp); injection H as <- _ <-.
    + right. rewrite Hs1. left; reflexivity.
    + left. cbn [set_wakers reader_waker]. exact Hs1.
  - injection H as <- _ _. left. subst s0. exact Hw.
Qed.

Lemma rx_dop_fires_reader d r r' w :
  rx_dop d r r' w -> reader_waker r = true -> reader_waker r' = true \/ In WakeReader w.
Proof.
  intros H Hw. destruct H.
  - eapply flush_fires_reader; eassumption.
  - rename H0 into Ha. unfold rx_add_remove in Ha. destruct (ooq_add_remove r k p off) as [s1 a] eqn:E.
    apply ooq_add_remove_park in E. destruct E as (_ & _ & E3 & _).
    destruct a; try (injection Ha as <- _ <-; left; congruence).
    destruct (_ && _); [|injection Ha as <- _ <-; left; congruence].
    destruct (rx_flush s1) as [[s2 fr] w2] eqn:Ef.
    assert (K : reader_waker s2 = true \/ In WakeReader w2)
      by (eapply flush_fires_reader; [exact Ef | congruence]).
    destruct fr; injection Ha as <- _ <-; exact K.
  - unfold rx_mark_vsock_closed in H0. destruct (vsock_closed r); injection H0 as <- <-.
    + left; exact Hw.
    + right. rewrite Hw. left; reflexivity.
  - unfold rx_enqueue_error in H0. injection H0 as <- <-. right. rewrite Hw. left; reflexivity.
Qed.

Lemma tx_dop_fires_writer t t' w :
  tx_dop t t' w -> writer_waker t = true -> writer_waker t' = true \/ In TwWriter w.
Proof.
  intros H Hw. destruct H.
  - unfold mark_vsock_closed in H. injection H as <- <-. right. rewrite Hw. left; reflexivity.
  - unfold wake_writer in H. injection H as <- <-. right. rewrite Hw. left; reflexivity.
  - unfold truncate_front in H. destruct (_ =? _); injection H as <- _; left; exact Hw.
  - unfold grow in H. destruct (_ <=? _); injection H as <- _; left; exact Hw.
  - left. unfold register_dispatcher_if_empty. destruct (ring t); exact Hw.
Qed.

Lemma in_rx_wakes w : In WakeReader w -> In VwReader (rx_wakes w).
Proof.
  unfold rx_wakes. intro H. apply in_flat_map. exists WakeReader. split; [exact H|left; reflexivity].
Qed.

Lemma in_tx_wakes w : In TwWriter w -> In VwWriter (tx_wakes w).
Proof.
  unfold tx_wakes. intro H. apply in_flat_map. exists TwWriter. split; [exact H|left; reflexivity].
Qed.

(* ------------------------------------------------------------------ the connection *)
Section WithCC.
Context {CC : Type} (cci : cc_iface CC).
Notation vsock := (vsock CC).

Definition pk (s : vsock) : Prop := prx (v_rx s) /\ ptx (v_tx s).

Lemma pk_reach : forall d t (s s' : vsock), reach d t s s' -> pk s -> pk s'.
Proof.
  intros d t s s' H. induction H; intros [Hr Ht]; unfold pk in *.
  - auto.
  - auto.
  - rewrite H, H0. auto.
  - rewrite H0. split; [eapply rx_dop_park; eassumption | exact Ht].
  - rewrite H0. split; [exact Hr | eapply tx_dop_park; eassumption].
  - rewrite H0, H1. auto.
Qed.

Lemma pk_vsock_new : forall mk c s, vsock_new cci mk c = Some s -> pk s.
Proof.
  intros mk c s H. unfold vsock_new in H.
  destruct (match (if vc_incoming c then None else _) with Some r => _ | None => _ end); [|discriminate].
  inversion H; subst. unfold pk. cbn [v_rx v_tx]. split; [apply rx_build_park | apply tx_new_park].
Qed.

Lemma pk_set_rx : forall (s : vsock) r, pk s -> prx r -> pk (set_rx s r).
Proof. intros s r [_ Ht] Hr. split; assumption. Qed.

Lemma pk_set_tx : forall (s : vsock) t, pk s -> ptx t -> pk (set_tx s t).
Proof. intros s t [Hr _] Ht. split; assumption. Qed.

Theorem pk_vstep : forall (s : vsock) o, pk s -> pk (vstep_state cci s o).
Proof.
  intros s o Hp. unfold vstep_state. destruct o; cbn [vstep].
  - exact Hp.
  - exact Hp.
  - destruct (poll cci (VSockRec.set_sends s script)) as [s' r] eqn:E. cbn [fst].
    apply poll_reach in E. eapply pk_reach; [exact E|]. exact Hp.
  - destruct (v_inbox_closed s); exact Hp.
  - exact Hp.
  - destruct (writer_dropped (v_tx s)); [exact Hp|].
    destruct (poll_write (v_tx s) buf) as [[tx1 r] w] eqn:E. cbn [fst].
    apply pk_set_tx; [exact Hp|]. eapply poll_write_park; [exact E | apply Hp].
  - destruct (writer_dropped (v_tx s)); [exact Hp|].
    destruct (poll_flush (v_tx s)) as [[tx1 r] w] eqn:E. cbn [fst].
    apply pk_set_tx; [exact Hp|]. eapply poll_flush_park; [exact E | apply Hp].
  - destruct (writer_dropped (v_tx s)); [exact Hp|].
    destruct (poll_shutdown (v_tx s)) as [[tx1 r] w] eqn:E. cbn [fst].
    apply pk_set_tx; [exact Hp|]. eapply poll_shutdown_park; [exact E | apply Hp].
  - destruct (reader_dropped (v_rx s)); [exact Hp|].
    destruct (rx_read (v_rx s) n) as [[rx1 r] w] eqn:E. cbn [fst].
    apply pk_set_rx; [exact Hp|]. eapply rx_read_park; [exact E | apply Hp].
  - destruct (reader_dropped (v_rx s)); [exact Hp|].
    destruct (rx_drop_reader (v_rx s)) as [rx1 w] eqn:E. cbn [fst].
    apply pk_set_rx; [exact Hp|]. eapply rx_drop_reader_park; [exact E | apply Hp].
  - destruct (drop_writer (v_tx s)) as [tx1 w] eqn:E. cbn [fst].
    apply pk_set_tx; [exact Hp|]. eapply drop_writer_park; [exact E | apply Hp].
Qed.

(* ------------------------------------------------------------------ fired or still registered *)
Definition wr (s : vsock) : Prop := reader_waker (v_rx s) = true \/ In VwReader (v_wakes s).
Definition ww (s : vsock) : Prop := writer_waker (v_tx s) = true \/ In VwWriter (v_wakes s).

Lemma wr_reach : forall d t (s s' : vsock), reach d t s s' -> wr s -> wr s'.
Proof.
  intros d t s s' H. induction H; unfold wr in *; intro K.
  - exact K.
  - auto.
  - rewrite H, H1. exact K.
  - rewrite H1. destruct K as [K|K]; [|right; apply in_or_app; right; exact K].
    destruct (rx_dop_fires_reader _ _ _ _ H K) as [K'|K']; [left; exact K'|].
    right. apply in_or_app. left. rewrite <- in_rev. apply in_rx_wakes. exact K'.
  - rewrite H0, H1. destruct K as [K|K]; [left; exact K | right; apply in_or_app; right; exact K].
  - rewrite H0. destruct K as [K|K]; [left; exact K|]. right.
    destruct H3 as [H3|[_ H3]]; rewrite H3; [exact K | right; exact K].
Qed.

Lemma ww_reach : forall d t (s s' : vsock), reach d t s s' -> ww s -> ww s'.
Proof.
  intros d t s s' H. induction H; unfold ww in *; intro K.
  - exact K.
  - auto.
  - rewrite H0, H1. exact K.
  - rewrite H0, H1. destruct K as [K|K]; [left; exact K | right; apply in_or_app; right; exact K].
  - rewrite H1. destruct K as [K|K]; [|right; apply in_or_app; right; exact K].
    destruct (tx_dop_fires_writer _ _ _ H K) as [K'|K']; [left; exact K'|].
    right. apply in_or_app. left. rewrite <- in_rev. apply in_tx_wakes. exact K'.
  - rewrite H1. destruct K as [K|K]; [left; exact K|]. right.
    destruct H3 as [H3|[_ H3]]; rewrite H3; [exact K | right; exact K].
Qed.

End WithCC.

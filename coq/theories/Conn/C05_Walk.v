(* A staged Hoare walk through VirtualSocket::poll for the polls that return Pending - whether at the end
   of the body or early, with the transport blocked.  Like PollStaged of Conn/VSock_LemmasStep.v, but
   - every function is entered with transport_pending = false and restart = false (the premises [ok0]),
   - the state of an EARLY Pending return (transport blocked) is described too: each stage predicate
     yields the final predicate Q when the transport flag is set.
   Stages: A0 at the start of an iteration, A up to process_all_incoming_messages, B1 after it, B2 from the
   flush to send_tx_queue, C from there to maybe_send_ack, D after it. *)
From Utp Require Import Base.Prelude Wire.SeqNr Wire.Header Rtt.Rtte Mtu.SegSizes Rx.Rx Tx.Ring
  Tx.Segments Conn.Recovery Conn.Msg Conn.VSockRec Conn.VSock Conn.VSockRun Conn.VObs
  Conn.VSock_Lemmas Conn.VSock_LemmasTx Conn.VSock_LemmasStep Conn.VSock_LemmasReach Conn.VSock_LemmasTimers
  Conn.VSock_LemmasPipe Conn.C17_StepLemmas.

Section WithCC.
Context {CC : Type} (cci : cc_iface CC).
Notation vsock := (vsock CC).

Definition stW (P : vsock -> Prop) {X} (m : step X) : Prop :=
  match m with SOk s' _ => P s' | _ => True end.

Definition ok0 (s : vsock) : Prop := v_transport_pending s = false /\ v_restart s = false.

Lemma split_keeps_tp (s : vsock) :
  stW (fun s' => v_transport_pending s' = v_transport_pending s) (split_tx_queue_into_segments cci s).
Proof.
  unfold split_tx_queue_into_segments. cbv zeta. destruct (_ =? 0); [reflexivity|].
  match goal with |- stW _ (if is_remote_fin_or_later (v_state ?x) then _ else _) =>
    assert (F : v_transport_pending x = v_transport_pending s); [|abs_as x F sx] end.
  { destruct (_ && _); [|auto]. destruct (grow _ _) as [tx1 g]. destruct g; [|auto].
    destruct (wake_writer tx1) as [tx2 w]. reflexivity. }
  destruct (is_remote_fin_or_later _); [exact F|].
  destruct (pop_expired_mtu_probe _ _ _) as [segs1 pe].
  assert (Hcont : forall (s2 : vsock) tl, v_transport_pending s2 = v_transport_pending s ->
    stW (fun s' => v_transport_pending s' = v_transport_pending s)
      (if tl <? ss_len_bytes (v_segs s2) then SErr s2 (ErrBug BugInBufferComputations)
       else match segment_loop (ring (v_tx s2)) (o_nagle (v_opts s2)) (v_ss s2) (v_segs s2)
                    (tl - ss_len_bytes (v_segs s2)) (v_last_remote_window s2) with
            | Some (ss', segs', remaining) =>
                SOk (set_unsegmented (VSockRec.set_segs (set_ss s2 ss') segs') remaining) tt
            | None => SPanic
            end)).
  { intros s2 tl F2. destruct (_ <? _); [exact I|].
    destruct (segment_loop _ _ _ _ _ _) as [[[ss' segs'] rem]|]; [exact F2|exact I]. }
  destruct pe.
  - apply Hcont. destruct (seq_gt _ _); exact F.
  - exact F.
  - apply Hcont. exact F.
Qed.

Lemma fw1_keeps_ok0 (s : vsock) : ok0 s -> ok0 (transition_to_fin_wait_1 s).
Proof. unfold ok0, transition_to_fin_wait_1. destruct (v_state s); auto. Qed.

Section PollWalk.
(* the stage predicates are indexed by the number of restarts so far *)
Variables A0 A B1 B2 B3 C D Q : nat -> vsock -> Prop.

Hypothesis H_start : forall k s, A0 k s -> A k (poll_start s).
Hypothesis H_syn : forall k s, A k s -> ok0 s -> stW (A k) (maybe_send_syn_ack s).
Hypothesis H_ack : forall k s, A k s -> ok0 s -> stW (A k) (send_ack s).
Hypothesis H_pim : forall k s, A k s -> ok0 s -> stW (B1 k) (process_all_incoming_messages cci s).
Hypothesis H_flush : forall k s rx1 fb w, B1 k s -> ok0 s ->
  rx_flush (v_rx s) = (rx1, FlOk fb, w) -> B2 k (add_wakes (set_rx s rx1) (rx_wakes w)).
Hypothesis H_split : forall k s, B2 k s -> ok0 s -> stW (B3 k) (split_tx_queue_into_segments cci s).
Hypothesis H_stq : forall k s, B3 k s -> ok0 s ->
  stW (fun s' => (v_restart s' = true -> A0 (S k) s') /\
                 (v_restart s' = false -> v_transport_pending s' = true -> Q k s') /\
                 (ok0 s' -> C k s'))
      (send_tx_queue cci s).
Hypothesis H_fw1 : forall k s, C k s -> ok0 s -> C k (transition_to_fin_wait_1 s).
Hypothesis H_fin : forall k s, C k s -> ok0 s -> stW (C k) (maybe_send_fin s).
Hypothesis H_msa : forall k s, C k s -> ok0 s -> stW (D k) (maybe_send_ack s).
Hypothesis E_A : forall k s, A k s -> v_transport_pending s = true -> Q k s.
Hypothesis E_B1 : forall k s, B1 k s -> v_transport_pending s = true -> Q k s.
Hypothesis E_C : forall k s, C k s -> v_transport_pending s = true -> Q k s.
Hypothesis E_D : forall k s, D k s -> v_transport_pending s = true -> Q k s.
Hypothesis H_tail : forall k s, D k s -> ok0 s ->
  state_is_closed (v_state s) (o_wait_for_last_ack (v_opts s)) = false -> Q k (poll_tail s).

Definition brW (k : nat) (r : body_res) : Prop :=
  match r with
  | BrReturn s' PollPending => Q k s'
  | BrRestart s' => A0 (S k) s'
  | _ => True
  end.

(* a stage that cannot request a restart *)
Lemma pend_W : forall kk X (P : vsock -> Prop) (m : step X) k s,
  v_restart s = false -> no_restart s m -> stW P m ->
  (forall s1, P s1 -> v_transport_pending s1 = true -> Q kk s1) ->
  (forall s1 a, P s1 -> ok0 s1 -> brW kk (k s1 a)) ->
  brW kk (pend m k).
Proof.
  intros kk X P m k s R0 Hn Hm He Hk. unfold pend, bail. specialize (Hn R0).
  destruct m as [s1 a|s1 e|]; try exact I.
  cbn [stW stU] in *. rewrite Hn.
  destruct (v_transport_pending s1) eqn:T.
  - cbn [brW]. apply He; assumption.
  - apply Hk; [exact Hm|split; assumption].
Qed.

Theorem poll_body_W : forall k s0, A0 k s0 -> brW k (poll_body cci s0).
Proof.
  intros k s0 HA. apply H_start in HA. unfold poll_body. fold (poll_start s0).
  assert (O0 : ok0 (poll_start s0)) by (split; reflexivity).
  generalize dependent (poll_start s0). clear s0. intros s0 HA O0.
  apply (pend_W k _ (A k) _ _ s0 (proj2 O0)).
  { apply no_restart_qb, maybe_send_syn_ack_qb. } { apply H_syn; assumption. } { apply E_A. }
  intros s1 _ HA1 O1.
  apply (pend_W k _ (A k) _ _ s1 (proj2 O1)).
  { destruct (immediate_ack_to_transmit s1); [apply no_restart_qb, send_ack_qb|intros _; exact (proj2 O1)]. }
  { destruct (immediate_ack_to_transmit s1); [apply H_ack; assumption|exact HA1]. }
  { apply E_A. }
  intros s2 _ HA2 O2.
  apply (pend_W k _ (B1 k) _ _ s2 (proj2 O2)).
  { intro Ra. pose proof (process_all_incoming_messages_pimr cci s2) as P'.
    destruct (process_all_incoming_messages cci s2); cbn [stU stR] in *; auto.
    destruct P' as (_ & _ & _ & _ & _ & P6 & _). congruence. }
  { apply H_pim; assumption. } { apply E_B1. }
  intros s3 _ HB3 O3.
  destruct (rx_flush (v_rx s3)) as [[rx1 fr] w] eqn:Efl. destruct fr as [fb|]; [|exact I].
  pose proof (H_flush k s3 rx1 fb w HB3 O3 Efl) as HB4.
  assert (O4 : ok0 (add_wakes (set_rx s3 rx1) (rx_wakes w))) by exact O3.
  set (s4 := add_wakes (set_rx s3 rx1) (rx_wakes w)) in *. clearbody s4.
  destruct (timer_expired _ _); [exact I|].
  (* split: bail *)
  unfold bail at 1.
  pose proof (H_split k s4 HB4 O4) as HB5.
  pose proof (no_restart_qb _ _ _ (split_tx_queue_into_segments_qb cci s4) (proj2 O4)) as R5.
  pose proof (split_keeps_tp s4) as T5.
  destruct (split_tx_queue_into_segments cci s4) as [s5 a5|s5 e5|]; try exact I.
  cbn [stW stU] in HB5, R5, T5. rewrite R5.
  assert (O5 : ok0 s5) by (split; [rewrite T5; apply O4|exact R5]).
  (* send_tx_queue: the only stage that may restart *)
  pose proof (H_stq k s5 HB5 O5) as H6.
  unfold pend at 1, bail at 1.
  destruct (send_tx_queue cci s5) as [s6 a6|s6 e6|]; try exact I.
  cbn [stW] in H6. destruct H6 as (H6r & H6p & H6c).
  destruct (v_restart s6) eqn:R6; [cbn [brW]; apply H6r; reflexivity|].
  destruct (v_transport_pending s6) eqn:T6; [cbn [brW]; apply H6p; reflexivity|].
  assert (O6 : ok0 s6) by (split; assumption).
  specialize (H6c O6).
  assert (HC7 : C k (if should_close_on_own_initiative s6 then transition_to_fin_wait_1 s6 else s6)).
  { destruct (should_close_on_own_initiative s6); [apply H_fw1|]; assumption. }
  assert (O7 : ok0 (if should_close_on_own_initiative s6 then transition_to_fin_wait_1 s6 else s6)).
  { destruct (should_close_on_own_initiative s6); [apply fw1_keeps_ok0|]; exact O6. }
  set (s7 := if should_close_on_own_initiative s6 then transition_to_fin_wait_1 s6 else s6) in *.
  clearbody s7.
  apply (pend_W k _ (C k) _ _ s7 (proj2 O7)).
  { apply no_restart_qb, maybe_send_fin_qb. } { apply H_fin; assumption. } { apply E_C. }
  intros s8 _ HC8 O8.
  apply (pend_W k _ (D k) _ _ s8 (proj2 O8)).
  { apply no_restart_qb, maybe_send_ack_qb. } { apply H_msa; assumption. } { apply E_D. }
  intros s9 _ HC9 O9.
  destruct (state_is_closed _ _) eqn:C9; [exact I|].
  assert (Hs : forall sx, sx = poll_tail s9 -> Q k sx).
  { intros sx ->. apply H_tail; assumption. }
  unfold poll_tail in Hs.
  destruct (next_timer_to_poll _) as [sx t]. destruct t; cbn [brW]; apply Hs; reflexivity.
Qed.

Theorem poll_loop_W : forall fuel k s s',
  A0 k s -> poll_loop cci fuel s = (s', PollPending) -> exists k', (k' < k + fuel)%nat /\ Q k' s'.
Proof.
  induction fuel as [|fuel IH]; intros k s s' HA H; cbn [poll_loop] in H; [discriminate|].
  pose proof (poll_body_W k s HA) as F.
  destruct (poll_body cci s) as [s1 r1|s1|]; cbn [brW] in *.
  - inversion H; subst. exists k. split; [lia|exact F].
  - destruct (IH (S k) s1 s' F H) as (k' & Hk & HQ). exists k'. split; [lia|exact HQ].
  - discriminate.
Qed.

End PollWalk.
End WithCC.

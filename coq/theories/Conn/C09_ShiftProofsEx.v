(* C09 trace shift: the initial state of the relabelled run, non-vacuity of the guard (concrete
   scenarios whose sequence numbers wrap inside the transfer), and a witness that outside the guard
   the relabelling does NOT commute (class D4: distances beyond WRAP_TOLERANCE get the wrong sign). *)
From Utp Require Import Base.Prelude Wire.SeqNr Wire.SeqNr_Proofs Wire.Header Rtt.Rtte Mtu.SegSizes Rx.Rx Tx.Ring
  Tx.Segments Conn.Recovery Conn.Msg Conn.VSockRec Conn.VSock Conn.VSockRun Conn.VObs Conn.C10_Pred
  Conn.VSock_Inv Conn.C09_Pred Conn.C09_Shift Conn.C09_ShiftProofsSeq Conn.C09_ShiftProofsSeg
  Conn.C09_ShiftProofsRec Conn.C09_ShiftProofsTx Conn.C09_ShiftProofsIn Conn.C09_ShiftProofsPoll.

Section New.
Variables da db dc : Z.
Context {CC : Type} (cci : cc_iface CC).

Lemma vsock_new_shift (mk_cc : Z -> Z -> CC) c :
  vsock_new cci mk_cc (shift_config da db dc c) =
  match vsock_new cci mk_cc c with Some s => Some (shift_vsock da db dc s) | None => None end.
Proof.
  unfold vsock_new. cbn [shift_config vc_incoming vc_ipv4 vc_link_mtu vc_rx_buf vc_tx_init vc_tx_max
    vc_nagle vc_max_retx vc_inactivity vc_wait_last_ack vc_mtu_probe_max_retx vc_isn vc_remote_seq
    vc_remote_conn_id vc_remote_wnd vc_remote_ts vc_syn_sent vc_now0].
  destruct (match (if vc_incoming c then None else Some (sat_sub (vc_now0 c) (vc_syn_sent c))) with
            | Some r => sample rtte_default r | None => Some rtte_default end) as [rtte0|]; [|reflexivity].
  destruct (vc_incoming c); rewrite ?sh16_wadd16, ?sh16_wsub16; reflexivity.
Qed.

(* the two runs of the metamorphic check, from their construction parameters: the second run is built
   from the relabelled parameters and fed the relabelled events *)
Theorem model_runs_shift_ok (mk_cc : Z -> Z -> CC) c ops s :
  vsock_new cci mk_cc c = Some s -> c09_guard_trace cci s ops = true ->
  exists s2, vsock_new cci mk_cc (shift_config da db dc c) = Some s2 /\
             c09_shift_ok da db dc (ftrace cci s ops) (ftrace cci s2 (map (shift_op da db) ops)) = true.
Proof.
  intros E G. exists (shift_vsock da db dc s). split.
  - now rewrite vsock_new_shift, E.
  - now apply model_trace_shift_ok.
Qed.
End New.

(* ------------------------------------------------------------------ non-vacuity *)
Definition ex_cfg (isn rseq : Z) : vconfig :=
  {| vc_incoming := false; vc_ipv4 := true; vc_link_mtu := 1500; vc_rx_buf := 1048576;
     vc_tx_init := 32768; vc_tx_max := 1048576; vc_nagle := false; vc_max_retx := 5;
     vc_inactivity := 10000000000; vc_wait_last_ack := true; vc_mtu_probe_max_retx := 1;
     vc_isn := isn; vc_remote_seq := rseq; vc_remote_conn_id := 7; vc_remote_wnd := 1048576;
     vc_remote_ts := 5; vc_syn_sent := 0; vc_now0 := 1000000 |}.

Definition ex_hdr (t : ptype) (seq ack : Z) (sk : option sackbits) : chdr :=
  {| ch_type := t; ch_conn_id := 0; ch_ts := 10; ch_ts_diff := 0; ch_wnd := 1048576;
     ch_seq := seq; ch_ack := ack; ch_sack := sk; ch_close_reason := None |}.

Definition ex_msg (t : ptype) (seq ack : Z) (len : nat) : msg :=
  {| m_hdr := ex_hdr t seq ack None; m_payload := repeat 7 len |}.

Definition ex_new (isn rseq : Z) : option (vsock unit) :=
  vsock_new (fixed_cc 100000) (fun _ _ => tt) (ex_cfg isn rseq).

Definition ex_sk (bits : list bool) : option sackbits :=
  Some {| sk_bits := bits ++ repeat false (64 - length bits); sk_len := 64 |}.

(* our numbers start at 65533 and the peer's at 65534: both wrap inside the transfer.
   3000 bytes are written and sent; the peer's data arrives in order and out of order and is
   acknowledged; a retransmission timeout; cumulative ACKs; more data, selective ACKs that start a
   fast recovery with one retransmission, the recovery point is reached; we shut down, our FIN is
   acknowledged, the peer's FIN arrives. *)
Definition ex_ops : list vop :=
  [VoWrite (repeat 1 3000); VoPoll [];
   VoDeliver (ex_msg ST_DATA 65534 65533 100); VoPoll [];
   VoDeliver (ex_msg ST_DATA 0 65533 100); VoPoll [];
   VoDeliver (ex_msg ST_DATA 65535 65534 100); VoPoll [];
   VoRead 1000;
   VoSetNow 3000000000; VoPoll [];
   VoDeliver (ex_msg ST_STATE 0 65535 0); VoPoll [];
   VoDeliver (ex_msg ST_STATE 0 0 0); VoPoll [];
   VoWrite (repeat 2 3000); VoPoll [];
   VoDeliver {| m_hdr := ex_hdr ST_STATE 0 0 (ex_sk [true;true]); m_payload := [] |}; VoPoll [];
   VoDeliver {| m_hdr := ex_hdr ST_STATE 0 0 (ex_sk [true;true;true]); m_payload := [] |}; VoPoll [];
   VoDeliver (ex_msg ST_STATE 0 4 0); VoPoll [];
   VoShutdown; VoPoll [];
   VoDeliver (ex_msg ST_STATE 0 5 0); VoPoll [];
   VoDeliver (ex_msg ST_FIN 1 5 0); VoPoll []].

Definition ex_guard (ops : list vop) : bool :=
  match ex_new 65533 65534 with
  | Some s => c09_guard_trace (fixed_cc 100000) s ops
  | None => false
  end.

(* the guard holds along the whole scenario, and the scenario does reach the wrap, a timeout, a fast
   recovery and both FINs *)
Definition ex_reaches (ops : list vop) : bool :=
  match ex_new 65533 65534 with
  | Some s =>
      let tr := ftrace (fixed_cc 100000) s ops in
      existsb (fun st => f_snd_una (fs_post st) <? f_snd_una (fs_pre st)) tr &&
      existsb (fun st => f_last_consumed (fs_post st) <? f_last_consumed (fs_pre st)) tr &&
      existsb (fun st => 0 <? f_rto_retx (fs_post st)) tr &&
      existsb (fun st => match f_recovery (fs_post st) with Recovering _ => true | _ => false end) tr &&
      existsb (fun st => match f_state (fs_post st) with FinWait1 _ => true | _ => false end) tr &&
      existsb (fun st => match f_state (fs_post st) with Closed => true | _ => false end) tr
  | None => false
  end.

Example guard_satisfiable : ex_guard ex_ops = true /\ ex_reaches ex_ops = true.
Proof. split; vm_compute; reflexivity. Qed.

(* the theorem applied to that scenario, with three unrelated shifts *)
Example c09_shift_ok_instance :
  match ex_new 65533 65534 with
  | Some s =>
      c09_shift_ok 4242 31000 99
        (ftrace (fixed_cc 100000) s ex_ops)
        (ftrace (fixed_cc 100000) (shift_vsock 4242 31000 99 s) (map (shift_op 4242 31000) ex_ops))
  | None => false
  end = true.
Proof.
  destruct (ex_new 65533 65534) as [s|] eqn:E; [|vm_compute in E; discriminate].
  apply model_trace_shift_ok.
  pose proof (proj1 guard_satisfiable) as G. unfold ex_guard in G. rewrite E in G. exact G.
Qed.

(* ------------------------------------------------------------------ outside the guard *)
(* two segments outstanding (snd_una = 65534) and an ACK for a number 30000 far outside the
   tolerance: the unshifted run ignores it (distance read as negative), the run shifted by 10 takes
   it as a cumulative ACK of everything (distance read as positive) and goes on to send new data.
   Class D4. *)
Definition bad_prefix : list vop :=
  [VoWrite (repeat 1 3000); VoPoll []; VoDeliver (ex_msg ST_STATE 65534 30000 0)].

(* number of datagrams the step emitted *)
Definition nsegs (r : vsock unit * vout * bool * bool) : nat :=
  match snd (fst (fst r)) with VrPoll _ pk _ _ => length pk | _ => O end.

Definition bad_s (s0 : vsock unit) : vsock unit :=
  fold_left (fun s o => fst (fst (fst (vstep (fixed_cc 100000) s o)))) bad_prefix s0.

Lemma bad_check_true :
  match ex_new 65533 65534 with
  | Some s0 =>
      negb (c09_guard_vstep (fixed_cc 100000) (bad_s s0) (VoPoll [])) &&
      negb (Nat.eqb (nsegs (vstep (fixed_cc 100000) (shift_vsock 10 0 0 (bad_s s0)) (shift_op 10 0 (VoPoll []))))
                    (nsegs (shift_vres 10 0 0 (vstep (fixed_cc 100000) (bad_s s0) (VoPoll [])))))
  | None => false
  end = true.
Proof. vm_compute. reflexivity. Qed.

Lemma shift_outside_guard_refuted :
  exists (s : vsock unit) (o : vop) (da db dc : Z),
    c09_guard_vstep (fixed_cc 100000) s o = false /\
    vstep (fixed_cc 100000) (shift_vsock da db dc s) (shift_op da db o) <>
    shift_vres da db dc (vstep (fixed_cc 100000) s o).
Proof.
  pose proof bad_check_true as B.
  destruct (ex_new 65533 65534) as [s0|]; [|discriminate B].
  apply andb_true_iff in B as [B1 B2].
  exists (bad_s s0), (VoPoll []), 10, 0, 0. split.
  - apply negb_true_iff in B1. exact B1.
  - intros H. apply negb_true_iff in B2. apply Nat.eqb_neq in B2. apply B2. exact (f_equal nsegs H).
Qed.

(* c02_prompt, the write half: a write accepted on a connection parked idle (Established, ring and
   segment table empty, inbox drained) followed by a poll at the same clock emits ST_DATA.
   The proof walks through poll_body of the model stage by stage up to the send_data of the first
   segment cut from the written bytes; everything after that only appends to the output. *)
From Utp Require Import Base.Prelude Wire.SeqNr Wire.SeqNr_Proofs Wire.Header Rtt.Rtte Rtt.Rtte_Proofs Mtu.SegSizes
  Rx.Rx Rx.Rx_Proofs Tx.Ring Tx.Ring_Proofs Tx.Segments Tx.Segments_Proofs Tx.Segments_ProofsOut
  Conn.Recovery Conn.Msg Conn.VSockRec Conn.VSock Conn.VSockRun Conn.VObs Conn.C10_Pred Conn.C02_Pred
  Conn.C02_Pred2 Conn.VSock_Inv Conn.VSock_LemmasFin Conn.VSock_LemmasTx Conn.VSock_Lemmas
  Conn.VSock_LemmasStep Conn.VSock_LemmasReach Conn.VSock_LemmasTimers Conn.VSock_LemmasPipe
  Conn.C02_SegLemmas2 Conn.C02_Lemmas2 Conn.C02_Stall2.

Ltac abs_as t F z := revert F; generalize t; intros z F.

(* the first item of the iterator, exactly *)
Lemma iter_head_exact : forall t st pre g post,
  ss_segs t = pre ++ g :: post -> (forall x, In x pre -> sg_delivered x = true) ->
  sg_delivered g = false ->
  (match st with Some s => Z.to_nat (Z.max (seq_sub s (ss_snd_una t)) 0) | None => 0%nat end <= length pre)%nat ->
  exists rest, iter_for_sending t st =
    {| fs_idx := length pre; fs_seq := wadd16 (ss_snd_una t) (Z.of_nat (length pre) mod M16);
       fs_payload_offset := sg_abs g - ss_removed t; fs_seg := g |} :: rest.
Proof.
  intros t st pre g post E Hpre Hg Hoff. unfold iter_for_sending.
  set (off := match st with Some s => _ | None => 0%nat end) in *.
  rewrite E, (skipn_app_le off pre (g :: post) Hoff), enum_from_app, map_app, filter_app.
  match goal with |- exists rest, filter ?p (map ?mk ?a) ++ _ = _ =>
    assert (Hn : filter p (map mk a) = []) end.
  { apply filter_all_false. intros x Hx. apply in_map_iff in Hx. destruct Hx as ([i y] & <- & Hin).
    cbn [fs_seg]. apply enum_from_In in Hin.
    assert (Hy : In y pre).
    { rewrite <- (firstn_skipn off pre). apply in_or_app. right; exact Hin. }
    rewrite (Hpre y Hy). reflexivity. }
  rewrite Hn. cbn [app enum_from map filter fs_seg]. rewrite Hg. cbn [negb].
  rewrite skipn_length. replace (off + (length pre - off))%nat with (length pre) by lia.
  eexists. reflexivity.
Qed.

(* the first segment cut from a table without in-flight segments *)
Lemma segment_loop_first : forall x fuel nagle ss ss1 sz segs rem rwr ss' segs' rem',
  0 < rem -> 0 < rwr -> ss_segs segs = [] -> next_segment_size ss = Some (ss1, sz) ->
  segment_loop (x :: fuel) nagle ss segs rem rwr = Some (ss', segs', rem') ->
  exists g l, ss_segs segs' = g :: l /\ sg_size g = Z.min (Z.min sz rwr) rem /\
    sg_abs g = ss_offset segs /\ sg_delivered g = false /\ sg_sent g = NotSent /\
    ss_removed segs' = ss_removed segs /\ ss_snd_una segs' = ss_snd_una segs.
Proof.
  intros x fuel nagle ss ss1 sz segs rem rwr ss' segs' rem' Hr Hw Es En H.
  cbn [segment_loop] in H.
  replace (0 <? rem) with true in H by (symmetry; apply Z.ltb_lt; exact Hr).
  replace (0 <? rwr) with true in H by (symmetry; apply Z.ltb_lt; exact Hw).
  cbn [andb] in H. rewrite En, Es in H. rewrite !andb_false_r in H.
  set (payload := Z.min (Z.min sz rwr) rem) in *.
  set (g := {| sg_size := payload; sg_abs := ss_offset segs; sg_delivered := false; sg_sent := NotSent;
               sg_probe := mss ss1 <? payload; sg_lost := false; sg_expired := false; sg_sacks_after := false |}).
  assert (Eq : forall b, ss_segs (enqueue segs payload b) = [ {| sg_size := payload; sg_abs := ss_offset segs;
                 sg_delivered := false; sg_sent := NotSent; sg_probe := b; sg_lost := false;
                 sg_expired := false; sg_sacks_after := false |} ]).
  { intro b. unfold enqueue. cbn [set_segs ss_segs]. rewrite Es. reflexivity. }
  destruct (mss ss1 <? payload) eqn:Ep.
  - injection H as _ <- _. eexists _, []. split; [apply Eq|]. repeat split.
  - apply segment_loop_app in H. destruct H as (l & L1 & _ & L3 & L4).
    eexists _, l. split; [rewrite L1, Eq; reflexivity|]. repeat split; assumption.
Qed.

Section WithCC.
Context {CC : Type} (cci : cc_iface CC).
Notation vsock := (vsock CC).

(* ------------------------------------------------------------------ the combinators on SOk *)
Lemma bail_ok_eq : forall A (s : vsock) (a : A) (k : vsock -> A -> body_res),
  v_restart s = false -> bail (SOk s a) k = k s a.
Proof. intros A s a k R. unfold bail. rewrite R. reflexivity. Qed.

Lemma pend_ok_eq : forall A (s : vsock) (a : A) (k : vsock -> A -> body_res),
  v_restart s = false -> v_transport_pending s = false -> pend (SOk s a) k = k s a.
Proof. intros A s a k R T. unfold pend, bail. rewrite R, T. reflexivity. Qed.

(* ------------------------------------------------------------------ after a Pending poll with a
   writable transport: closed, or the inbox is drained and its channel open *)
Theorem poll_pending_ibe : forall (s s' : vsock),
  poll cci s = (s', PollPending) -> v_transport_pending s' = false -> SC s' \/ IBE s'.
Proof.
  intros s s' H Hnp.
  set (P := fun a : vsock => SC a \/ IBE a).
  assert (Hq : forall a b : vsock, qb a b -> P a -> P b).
  { intros a b (_ & _ & _ & _ & _ & Q6 & Q7 & _ & _ & _ & Q11 & _) [K|K]; [left; auto|].
    right. unfold IBE in *. rewrite Q6, Q7. exact K. }
  assert (HS : tail_shape P s').
  { apply (poll_S cci (fun _ => True) (fun _ => True) P P P P) with (s := s); try exact H; auto.
    - intros a _. destruct (maybe_send_syn_ack a); cbn [stC]; auto.
    - intros a _. destruct (send_ack a); cbn [stC]; auto.
    - intros a _. pose proof (process_all_incoming_messages_post cci a) as Post.
      destruct (process_all_incoming_messages cci a) as [b u| |]; cbn [stC]; auto.
      intro Tp. destruct (Post b u eq_refl) as [K|[K|K]]; [left; exact K|congruence|right; exact K].
    - intros a Ha. pose proof (split_tx_queue_into_segments_qb cci a) as Q.
      destruct (split_tx_queue_into_segments cci a); cbn [stU stR] in *; auto. apply (Hq a); assumption.
    - intros a Ha _. pose proof (send_tx_queue_txf cci a) as X. pose proof (VSock_Lemmas.send_tx_queue_frame cci a) as F.
      destruct (send_tx_queue cci a) as [b u| |]; cbn [stU stR step_frame] in *; auto.
      split; [auto|]. intros _ _.
      destruct X as (_ & _ & _ & _ & X5 & X6 & X7 & _). destruct F as (F1 & _).
      destruct Ha as [K|K]; [left; unfold SC in *; rewrite X7, F1; exact K|].
      right. unfold IBE in *. rewrite X5, X6. exact K.
    - intros a Ha. apply (Hq a); [apply transition_to_fin_wait_1_qb|exact Ha].
    - intros a Ha. pose proof (maybe_send_fin_qb a) as Q.
      destruct (maybe_send_fin a); cbn [stC stR] in *; auto. intros _. apply (Hq a); assumption.
    - intros a Ha. pose proof (maybe_send_ack_qb a) as Q.
      destruct (maybe_send_ack a); cbn [stC stR] in *; auto. intros _. apply (Hq a); assumption.
    - intro a. apply no_restart_qb, maybe_send_syn_ack_qb.
    - intro a. apply no_restart_qb, send_ack_qb.
    - intros a Ra. pose proof (process_all_incoming_messages_pimr cci a) as P'.
      destruct (process_all_incoming_messages cci a); cbn [stU stR] in *; auto.
      destruct P' as (_ & _ & _ & _ & _ & P6 & _). congruence.
    - intro a. apply no_restart_qb, split_tx_queue_into_segments_qb.
    - apply transition_to_fin_wait_1_restart.
    - intro a. apply no_restart_qb, maybe_send_fin_qb.
    - intro a. apply no_restart_qb, maybe_send_ack_qb. }
  destruct HS as [HS|(sb & Hb & _ & _ & Cl & ->)]; [congruence|].
  destruct Hb as [K|K]; [unfold SC in K; congruence|].
  right. unfold IBE, poll_tail, next_timer_to_poll, arm_in, add_wakes in *.
  repeat break_match; try (inversion Heqp; subst); vsimpl_goal; exact K.
Qed.

(* ------------------------------------------------------------------ sending with an empty script *)
Lemma next_send_nil : forall (s : vsock) size,
  v_sends s = [] -> (forall m, v_emsg_limit s = Some m -> size <= m) -> next_send s size = (s, TSent).
Proof.
  intros s size Hs Hl. unfold next_send. rewrite Hs.
  destruct (v_emsg_limit s) as [m|] eqn:El; [|reflexivity].
  specialize (Hl m eq_refl). destruct (Z.ltb_spec m size); [lia|reflexivity].
Qed.

Lemma send_data_sent : forall (s : vsock) h f,
  v_sends s = [] -> (forall m, v_emsg_limit s = Some m -> 20 + sg_size (fs_seg f) <= m) ->
  seg_retransmit_count (fs_seg f) <> o_max_retx (v_opts s) ->
  0 <= fs_payload_offset f -> 0 <= sg_size (fs_seg f) ->
  fs_payload_offset f + sg_size (fs_seg f) <= Z.of_nat (length (ring (v_tx s))) ->
  exists s', send_data s h f = SOk s' SdSent.
Proof.
  intros s h f Hs Hl Hr Ho Hz Hb. unfold send_data.
  destruct (Z.eqb_spec (seg_retransmit_count (fs_seg f)) (o_max_retx (v_opts s))); [contradiction|].
  destruct (Z.ltb_spec (fs_payload_offset f) 0); [lia|].
  destruct (Z.ltb_spec (Z.of_nat (length (ring (v_tx s)))) (fs_payload_offset f)); [lia|].
  destruct (Z.ltb_spec (Z.of_nat (length (ring (v_tx s)))) (fs_payload_offset f + sg_size (fs_seg f))); [lia|].
  rewrite (next_send_nil s _ Hs Hl). eexists. reflexivity.
Qed.

(* ------------------------------------------------------------------ the part of poll_body after send_tx_queue *)
Definition after_stq (s : vsock) (_ : unit) : body_res :=
    let s := if should_close_on_own_initiative s then transition_to_fin_wait_1 s else s in
    pend (maybe_send_fin s) (fun s _ =>
    pend (maybe_send_ack s) (fun s _ =>
    if state_is_closed (v_state s) (o_wait_for_last_ack (v_opts s)) then
      BrReturn (just_before_death s None) PollReadyOk
    else
      let s := if is_local_fin_or_later (v_state s)
               then set_t_inactivity s (timer_arm (v_t_inactivity s) (v_now s)
                                          SHUTDOWN_FINAL_CHANCE_DELAY false)
               else s in
      let '(s, t) := next_timer_to_poll s in
      let s := match t with
               | Some instant => arm_in s (sat_sub instant (v_now s))
               | None => s
               end in
      BrReturn s PollPending)).

Lemma after_stq_frame : forall s0 s6 : vsock, VSock_LemmasFin.pframe s0 s6 -> VSock_LemmasFin.bframe s0 (after_stq s6 tt).
Proof.
  intros s0 s6 F6. unfold after_stq.
  assert (F7 : VSock_LemmasFin.pframe s0 (if should_close_on_own_initiative s6 then transition_to_fin_wait_1 s6 else s6)).
  { destruct (should_close_on_own_initiative s6); [eapply VSock_LemmasFin.pframe_trans; [exact F6|apply VSock_LemmasFin.transition_frame]|exact F6]. }
  eapply VSock_LemmasFin.pend_frame; [exact F7|apply VSock_LemmasFin.maybe_send_fin_frame|]. intros s8 _ F8.
  eapply VSock_LemmasFin.pend_frame; [exact F8|apply VSock_LemmasFin.maybe_send_ack_frame|]. intros s9 _ F9.
  destruct (state_is_closed _ _).
  { cbn [VSock_LemmasFin.bframe]. eapply VSock_LemmasFin.pframe_trans; [exact F9|apply VSock_LemmasFin.just_before_death_frame]. }
  match goal with |- context [next_timer_to_poll ?x] => assert (F10 : VSock_LemmasFin.pframe s0 x); [|abs_as x F10 s10] end.
  { destruct (is_local_fin_or_later (v_state s9)); [|exact F9].
    eapply VSock_LemmasFin.pframe_trans; [exact F9|apply VSock_LemmasFin.pframe_set_t_inactivity]. }
  unfold next_timer_to_poll. destruct (v_transport_pending s10).
  - destruct (v_t_inactivity s10); cbn [VSock_LemmasFin.bframe]; [|exact F10].
    eapply VSock_LemmasFin.pframe_trans; [exact F10|apply VSock_LemmasFin.arm_in_frame].
  - assert (F11 : VSock_LemmasFin.pframe s0 (set_t_recovery_pipe s10 None)).
    { eapply VSock_LemmasFin.pframe_trans; [exact F10|]. unfold VSock_LemmasFin.pframe, VSock_LemmasFin.pframe0, VSock_LemmasFin.syn_rel. vsimpl_goal.
      repeat split; try reflexivity; try (exists []; reflexivity). destruct (v_state s10); auto. }
    match goal with |- VSock_LemmasFin.bframe _ (BrReturn match ?t with _ => _ end _) => destruct t end; cbn [VSock_LemmasFin.bframe].
    + eapply VSock_LemmasFin.pframe_trans; [|apply VSock_LemmasFin.arm_in_frame]. exact F11.
    + exact F11.
Qed.

End WithCC.

Section WithCC2.
Context {CC : Type} (cci : cc_iface CC).
Notation vsock := (vsock CC).

(* ------------------------------------------------------------------ segmentation of an idle connection *)
Definition spl (s s' : vsock) : Prop :=
  ring (v_tx s') = ring (v_tx s) /\ v_state s' = v_state s /\ v_t_retransmit s' = v_t_retransmit s /\
  v_rto_retransmissions s' = v_rto_retransmissions s /\ v_recovery s' = v_recovery s /\ v_cc s' = v_cc s /\
  v_last_remote_window s' = v_last_remote_window s /\ v_last_sent_seq_nr s' = v_last_sent_seq_nr s /\
  v_now s' = v_now s /\ v_sends s' = v_sends s /\ v_emsg_limit s' = v_emsg_limit s /\ v_opts s' = v_opts s /\
  v_restart s' = v_restart s /\ v_transport_pending s' = v_transport_pending s.

Lemma split_idle : forall s : vsock,
  v_state s = Established -> ss_segs (v_segs s) = [] -> seg_inv (v_segs s) -> ss_ok (v_ss s) ->
  ring (v_tx s) <> [] -> 0 < v_last_remote_window s ->
  match split_tx_queue_into_segments cci s with
  | SOk s' _ => exists g l ss1 sz,
    ss_segs (v_segs s') = g :: l /\
    next_segment_size (v_ss s) = Some (ss1, sz) /\
    sg_size g = Z.min (Z.min sz (v_last_remote_window s)) (Z.of_nat (length (ring (v_tx s)))) /\
    sg_abs g = ss_removed (v_segs s) /\ sg_delivered g = false /\ sg_sent g = NotSent /\
    ss_removed (v_segs s') = ss_removed (v_segs s) /\ ss_snd_una (v_segs s') = ss_snd_una (v_segs s) /\
    spl s s'
  | _ => False
  end.
Proof.
  intros s Est Es Hsi Hss Hr Hw. unfold split_tx_queue_into_segments.
  assert (Hlen : 0 < Z.of_nat (length (ring (v_tx s)))) by (destruct (ring (v_tx s)); [contradiction|cbn [length]; lia]).
  destruct (Z.eqb_spec (Z.of_nat (length (ring (v_tx s)))) 0); [lia|].
  match goal with |- context [is_remote_fin_or_later (v_state ?x)] => set (s1 := x) end.
  assert (F1 : v_segs s1 = v_segs s /\ v_ss s1 = v_ss s /\ spl s s1).
  { subst s1. unfold spl. destruct (_ && _); [|repeat split].
    unfold grow. destruct (_ <=? _); [repeat split|]. cbn [wake_writer]. unfold add_wakes. repeat split. }
  clearbody s1. destruct F1 as (F1 & F2 & F3).
  assert (F3' := F3). destruct F3' as (G1 & G2 & G3 & G4 & G5 & G6 & G7 & G8 & G9 & G10 & G11 & G12 & G13 & G14).
  rewrite G2, Est. cbn [is_remote_fin_or_later].
  unfold pop_expired_mtu_probe. rewrite F1, Es. cbn [last_and_init rev].
  assert (Hsi' := Hsi). destruct Hsi as (I1 & I2 & I3 & I4 & I5). rewrite Es in I1. cbn [sum_sizes] in I1.
  rewrite I1. destruct (Z.ltb_spec (Z.of_nat (length (ring (v_tx s)))) 0); [lia|].
  rewrite F2, G1, G7, G12.
  destruct (segment_loop_spec (ring (v_tx s)) (o_nagle (v_opts s)) (v_ss s) (v_segs s)
              (Z.of_nat (length (ring (v_tx s))) - 0) (v_last_remote_window s) Hss
              Hsi' ltac:(lia))
    as (ss' & segs' & rem' & E & _).
  rewrite E.
  destruct (next_size_ok (v_ss s) Hss) as (ss1 & sz & En & _).
  destruct (ring (v_tx s)) as [|x fuel] eqn:Ering; [contradiction|].
  assert (Hpos : 0 < Z.of_nat (length (x :: fuel)) - 0) by lia.
  destruct (segment_loop_first _ _ _ _ _ _ _ _ _ _ _ _ Hpos Hw Es En E)
    as (g & l & L1 & L2 & L3 & L4 & L5 & L6 & L7).
  exists g, l, ss1, sz. vsimpl_goal.
  split; [exact L1|]. split; [exact En|]. split; [rewrite L2; f_equal; lia|].
  split; [rewrite L3, I2, I1; lia|]. split; [exact L4|]. split; [exact L5|]. split; [exact L6|]. split; [exact L7|].
  unfold spl. vsimpl_goal. repeat split; first [assumption | congruence].
Qed.

(* ------------------------------------------------------------------ send_tx_queue with one fresh segment first *)
Definition first_item (s : vsock) (g : seg) : for_sending :=
  {| fs_idx := 0; fs_seq := wadd16 (ss_snd_una (v_segs s)) (Z.of_nat 0 mod M16);
     fs_payload_offset := sg_abs g - ss_removed (v_segs s); fs_seg := g |}.

Lemma stq_emits_first : forall (s : vsock) g l,
  ss_segs (v_segs s) = g :: l -> sg_delivered g = false -> sg_sent g = NotSent ->
  v_transport_pending s = false -> timer_expired (v_t_retransmit s) (v_now s) = false ->
  v_rto_retransmissions s <= 0 -> is_recovering (v_recovery s) = false ->
  seq_sub (wadd16 (v_last_sent_seq_nr s) 1) (ss_snd_una (v_segs s)) <= 0 ->
  seq_sub (v_last_sent_seq_nr s) (ss_snd_una (v_segs s)) + 1 <= 0 ->
  0 <= sg_size g -> sg_size g <= v_last_remote_window s -> sg_size g <= cc_window cci (v_cc s) ->
  v_sends s = [] -> (forall m, v_emsg_limit s = Some m -> 20 + sg_size g <= m) ->
  o_max_retx (v_opts s) <> 0 ->
  0 <= sg_abs g - ss_removed (v_segs s) ->
  sg_abs g - ss_removed (v_segs s) + sg_size g <= Z.of_nat (length (ring (v_tx s))) ->
  match send_tx_queue cci s with
  | SOk s' _ | SErr s' _ =>
      exists l', v_out s' = l' ++ data_pkt s (outgoing_header s) (first_item s g) :: v_out s
  | SPanic => True
  end.
Proof.
  intros s g l Es Hd Hns Tp Ex Hrto Hrec Hoff Htake Hz Hlrw Hcw Hsends Hlim Hmax Ho Hb.
  rewrite send_tx_queue_eq, Tp.
  set (h := outgoing_header s). unfold rto_branch. rewrite Ex. cbn [sbind].
  unfold after_rto_k. destruct (Z.ltb_spec 0 (v_rto_retransmissions s)); [lia|].
  rewrite Es. rewrite (rec_branch_norec s h Hrec). cbn [sbind].
  unfold new_branch.
  destruct (iter_head_exact (v_segs s) (Some (wadd16 (v_last_sent_seq_nr s) 1)) [] g l Es
              ltac:(intros x []) Hd ltac:(cbn [length]; lia)) as (rest & Eit).
  fold (new_items s) in Eit. cbn [length] in Eit. fold (first_item s g) in Eit. rewrite Eit.
  cbn [new_data_loop]. cbn [first_item fs_seg].
  assert (Hrem : new_remaining cci s = Z.max 0 (Z.min (cc_window cci (v_cc s)) (v_last_remote_window s))).
  { unfold new_remaining, remaining_cwnd. unfold is_recovering in Hrec.
    destruct (rv_phase (v_recovery s)); try discriminate;
      (unfold sat_sub; f_equal; unfold calc_flight_size;
       replace (Z.to_nat (Z.max (seq_sub (v_last_sent_seq_nr s) (ss_snd_una (v_segs s)) + 1) 0)) with 0%nat by lia;
       cbn [firstn flight_sum]; lia). }
  destruct (Z.ltb_spec (new_remaining cci s) (sg_size g)) as [L|L]; [rewrite Hrem in L; lia|].
  destruct (send_data_sent s h (first_item s g) Hsends Hlim) as (s1 & E1).
  { cbn [first_item fs_seg]. unfold seg_retransmit_count. rewrite Hns. intro K. apply Hmax. symmetry. exact K. }
  { exact Ho. } { exact Hz. } { exact Hb. }
  fold (first_item s g). rewrite E1.
  pose proof (send_data_spec s h (first_item s g)) as D. rewrite E1 in D.
  destruct D as (_ & D2 & _).
  pose proof (VSock_LemmasFin.new_data_loop_frame rest s1 h
                (new_remaining cci s - sg_size (fs_seg (first_item s g)))) as F.
  destruct (new_data_loop rest s1 h _) as [s2 tl|s2 e|]; cbn [sbind VSock_LemmasFin.sframe] in *; auto.
  - destruct F as [(_ & _ & _ & _ & _ & _ & (l2 & F7) & _) _].
    unfold new_after. destruct tl as [[sq sz']|]; [|exists l2; rewrite F7, D2; reflexivity].
    destruct (pop_mtu_probe _ _) as [segs' popped]. destruct popped; vsimpl_goal;
      exists l2; rewrite F7, D2; reflexivity.
  - destruct F as [(_ & _ & _ & _ & _ & _ & (l2 & F7) & _) _]. exists l2. rewrite F7, D2. reflexivity.
Qed.

End WithCC2.

Section WithCC3.
Context {CC : Type} (cci : cc_iface CC).
Notation vsock := (vsock CC).

Lemma paim_idle_eq : forall s : vsock,
  v_inbox s = [] -> v_inbox_closed s = false -> is_recovering (v_recovery s) = false ->
  process_all_incoming_messages cci s = SOk (set_inbox_waker s true) tt.
Proof.
  intros s Hi Hc Hr. rewrite paim_eq. rewrite Hi. cbn [app recv_loop].
  rewrite Hi, Hc. cbn [sbind fst]. unfold paim_rest.
  cbn [on_ack_result_default ar_acked_segments ar_newly_sacked_segments Z.ltb Z.compare orb sbind].
  unfold is_recovering in Hr. change (v_recovery (set_inbox_waker s true)) with (v_recovery s).
  destruct (rv_phase (v_recovery s)); [reflexivity|reflexivity|discriminate].
Qed.

Lemma data_pkt_shape : forall (s : vsock) h g,
  0 <= sg_abs g - ss_removed (v_segs s) ->
  sg_abs g - ss_removed (v_segs s) + sg_size g <= Z.of_nat (length (ring (v_tx s))) -> 0 <= sg_size g ->
  ch_type (p_hdr (data_pkt s h (first_item s g))) = ST_DATA /\
  Z.of_nat (length (p_payload (data_pkt s h (first_item s g)))) = sg_size g.
Proof.
  intros s h g Ho Hb Hz. split; [reflexivity|].
  unfold data_pkt, data_payload, first_item. cbn [p_payload fs_seg fs_payload_offset].
  rewrite firstn_length, skipn_length. lia.
Qed.

(* one iteration of the poll of a connection that holds freshly written bytes only *)
Lemma prompt_body : forall x0 : vsock,
  v_state x0 = Established -> ss_segs (v_segs x0) = [] -> seg_inv (v_segs x0) -> ss_ok (v_ss x0) ->
  rx_inv (v_rx x0) -> ring (v_tx x0) <> [] ->
  v_inbox x0 = [] -> v_inbox_closed x0 = false ->
  0 < v_last_remote_window x0 ->
  Z.min (max_ss (v_ss x0)) (Z.of_nat (length (ring (v_tx x0)))) <= cc_window cci (v_cc x0) ->
  v_rto_retransmissions x0 = 0 -> is_recovering (v_recovery x0) = false ->
  timer_expired (v_t_retransmit x0) (v_env_now x0) = false ->
  timer_expired (v_t_inactivity x0) (v_env_now x0) = false ->
  v_cbu x0 < IMMEDIATE_ACK_EVERY_RMSS * mss (v_ss x0) ->
  seq_sub (wadd16 (v_last_sent_seq_nr x0) 1) (ss_snd_una (v_segs x0)) <= 0 ->
  seq_sub (v_last_sent_seq_nr x0) (ss_snd_una (v_segs x0)) + 1 <= 0 ->
  v_sends x0 = [] ->
  (forall m, v_emsg_limit x0 = Some m -> 20 + max_ss (v_ss x0) <= m) ->
  o_max_retx (v_opts x0) <> 0 ->
  match poll_body cci x0 with
  | BrReturn s' _ | BrRestart s' =>
      exists l p l0, v_out s' = l ++ p :: l0 /\ ch_type (p_hdr p) = ST_DATA /\ 1 <= Z.of_nat (length (p_payload p))
  | BrPanic => True
  end.
Proof.
  intros x0 Est Es Hsi Hss Hrx Hring Hi Hc Hw Hcw Hrto Hrec Ext Exi Hcbu Hoff Htake Hsends Hlim Hmax.
  rewrite poll_body_decomp.
  set (xa := body_start x0).
  assert (Esyn : maybe_send_syn_ack xa = SOk (set_t_syn_ack_resend xa None) tt).
  { unfold maybe_send_syn_ack. change (v_state xa) with (v_state x0). rewrite Est. reflexivity. }
  rewrite Esyn. rewrite pend_ok_eq by reflexivity.
  set (xb := set_t_syn_ack_resend xa None). unfold body_rest.
  assert (Eimm : immediate_ack_to_transmit xb = false).
  { unfold immediate_ack_to_transmit. change (v_ss xb) with (v_ss x0). change (v_cbu xb) with (v_cbu x0).
    apply Z.leb_gt. exact Hcbu. }
  rewrite Eimm. rewrite pend_ok_eq by reflexivity.
  rewrite (paim_idle_eq xb Hi Hc Hrec). rewrite pend_ok_eq by reflexivity.
  set (xc := set_inbox_waker xb true).
  destruct (rx_flush (v_rx xc)) as [[rx1 fr] w] eqn:Ef.
  change (v_rx xc) with (v_rx x0) in Ef.
  destruct (rx_flush_spec _ _ _ _ Hrx Ef) as (_ & (fb & -> & _) & _).
  set (xd := add_wakes (set_rx xc rx1) (rx_wakes w)).
  change (timer_expired (v_t_inactivity xd) (v_now xd)) with (timer_expired (v_t_inactivity x0) (v_env_now x0)).
  rewrite Exi.
  pose proof (split_idle cci xd Est Es Hsi Hss Hring Hw) as Sp.
  destruct (split_tx_queue_into_segments cci xd) as [xe u| |]; try contradiction.
  destruct Sp as (g & l & ss1 & sz & L1 & En & L2 & L3 & L4 & L5 & L6 & L7 & Spl).
  destruct Spl as (G1 & G2 & G3 & G4 & G5 & G6 & G7 & G8 & G9 & G10 & G11 & G12 & G13 & G14).
  rewrite bail_ok_eq by (rewrite G13; reflexivity).
  change (v_tx xd) with (v_tx x0) in *. change (v_last_remote_window xd) with (v_last_remote_window x0) in *.
  change (v_segs xd) with (v_segs x0) in *. change (v_ss xd) with (v_ss x0) in *.
  destruct (next_size_ok (v_ss x0) Hss) as (ss1' & sz' & En' & _ & _ & Hsz).
  rewrite En in En'. injection En' as <- <-.
  assert (Hsize : 1 <= sg_size g /\ sg_size g <= Z.of_nat (length (ring (v_tx x0))) /\
                  sg_size g <= v_last_remote_window x0 /\ sg_size g <= max_ss (v_ss x0)).
  { assert (0 < Z.of_nat (length (ring (v_tx x0)))) by (destruct (ring (v_tx x0)); [contradiction|cbn [length]; lia]).
    unfold ss_ok in Hss. rewrite L2. lia. }
  destruct Hsize as (Z1 & Z2 & Z3 & Z4).
  pose proof (stq_emits_first cci xe g l L1 L4 L5) as Em.
  assert (Habs : sg_abs g - ss_removed (v_segs xe) = 0) by lia.
  specialize (Em ltac:(rewrite G14; reflexivity)).
  specialize (Em ltac:(rewrite G3, G9; exact Ext)).
  specialize (Em ltac:(rewrite G4; change (v_rto_retransmissions xd) with (v_rto_retransmissions x0); lia)).
  specialize (Em ltac:(rewrite G5; exact Hrec)).
  specialize (Em ltac:(rewrite G8, L7; exact Hoff)).
  specialize (Em ltac:(rewrite G8, L7; exact Htake)).
  specialize (Em ltac:(lia)).
  specialize (Em ltac:(rewrite G7; exact Z3)).
  specialize (Em ltac:(rewrite G6; change (v_cc xd) with (v_cc x0); lia)).
  specialize (Em ltac:(rewrite G10; exact Hsends)).
  specialize (Em ltac:(rewrite G11; intros m Hm; specialize (Hlim m Hm); lia)).
  specialize (Em ltac:(rewrite G12; exact Hmax)).
  specialize (Em ltac:(lia)).
  specialize (Em ltac:(rewrite G1; lia)).
  destruct (data_pkt_shape xe (outgoing_header xe) g ltac:(lia) ltac:(rewrite G1; lia) ltac:(lia)) as [P1 P2].
  set (p := data_pkt xe (outgoing_header xe) (first_item xe g)) in *.
  change (pend (send_tx_queue cci xe) _) with (pend (send_tx_queue cci xe) after_stq).
  assert (Hfin : forall sx : vsock, (exists l', v_out sx = l' ++ p :: v_out xe) ->
            exists l p0 l0, v_out sx = l ++ p0 :: l0 /\ ch_type (p_hdr p0) = ST_DATA /\ 1 <= Z.of_nat (length (p_payload p0))).
  { intros sx (l' & E). exists l', p, (v_out xe). split; [exact E|]. split; [exact P1|lia]. }
  assert (Hpf : forall sa sb : vsock, VSock_LemmasFin.pframe sa sb -> (exists l', v_out sa = l' ++ p :: v_out xe) ->
            exists l', v_out sb = l' ++ p :: v_out xe).
  { intros sa sb [(_ & _ & _ & _ & _ & _ & (l2 & F7) & _) _] (l1 & E). exists (l2 ++ l1).
    rewrite F7, E, app_assoc. reflexivity. }
  unfold pend, bail.
  destruct (send_tx_queue cci xe) as [s6 u6|s6 e6|]; [| |exact I].
  - destruct (v_restart s6); [apply Hfin; exact Em|].
    destruct (v_transport_pending s6); [apply Hfin; exact Em|].
    destruct u6. pose proof (after_stq_frame s6 s6 (VSock_LemmasFin.pframe_refl s6)) as Fa.
    destruct (after_stq s6 tt) as [s' r'|s'|]; cbn [VSock_LemmasFin.bframe] in Fa; [| |exact I];
      apply Hfin; apply (Hpf s6 s' Fa Em).
  - unfold die. apply Hfin. apply (Hpf s6 _ (VSock_LemmasFin.just_before_death_frame s6 (Some e6)) Em).
Qed.

End WithCC3.

(* ------------------------------------------------------------------ the trace theorem *)
From Utp Require Import Conn.VSock_PollAux Conn.VSock_Poll.

Lemma poll_write_ok : forall t buf t' n w,
  poll_write t buf = (t', WrOk n, w) ->
  ring t' = ring t ++ firstn (Z.to_nat n) buf /\ 1 <= n <= Z.of_nat (length buf).
Proof.
  intros t buf t' n w H. unfold poll_write in H.
  destruct (YIELD_EVERY <? _); [discriminate|].
  destruct (t_vsock_closed t); [discriminate|].
  destruct (writer_shutdown t); [discriminate|].
  destruct (writer_dropped t); [discriminate|].
  destruct (Z.eqb_spec (Z.min (Z.of_nat (length buf)) (Z.max (cap t - Z.of_nat (length (ring t))) 0)) 0) as [E|E];
    [discriminate|].
  injection H as <- <- _. cbn [ring upd]. split; [reflexivity|]. lia.
Qed.

Section Trace.
Context {CC : Type} (cci : cc_iface CC).
Hypothesis Hcc : cc_total cci.
Variables ti tm : Z.
Notation vsock := (vsock CC).

Definition PI (s : vsock) (a : c10_acc) : Prop :=
  tinv ti tm s /\ ca_lim a = v_emsg_limit s /\ o_max_retx (v_opts s) <> 0.

Lemma vstep_emsg_limit : forall (s : vsock) o,
  v_emsg_limit (vstep_state cci s o) = match o with VoSetLimit m => m | _ => v_emsg_limit s end.
Proof.
  intros s o. unfold vstep_state. destruct o; cbn [vstep].
  - reflexivity.
  - reflexivity.
  - destruct (poll cci (VSockRec.set_sends s script)) as [s' r] eqn:E. cbn [fst].
    destruct (VSock_LemmasFin.poll_loop_frame0 cci 64 (poll_init (VSockRec.set_sends s script)))
      as (_ & _ & _ & _ & P5 & _).
    rewrite poll_unfold in E. rewrite E in P5. exact P5.
  - destruct (v_inbox_closed s); reflexivity.
  - reflexivity.
  - destruct (writer_dropped (v_tx s)); [reflexivity|]. destruct (poll_write _ _) as [[tx1 r] w]. reflexivity.
  - destruct (writer_dropped (v_tx s)); [reflexivity|]. destruct (poll_flush _) as [[tx1 r] w]. reflexivity.
  - destruct (writer_dropped (v_tx s)); [reflexivity|]. destruct (poll_shutdown _) as [[tx1 r] w]. reflexivity.
  - destruct (reader_dropped (v_rx s)); [reflexivity|]. destruct (rx_read _ _) as [[rx1 r] w]. reflexivity.
  - destruct (reader_dropped (v_rx s)); [reflexivity|]. destruct (rx_drop_reader _) as [rx1 w]. reflexivity.
  - destruct (drop_writer _) as [tx1 w]. reflexivity.
Qed.

Lemma PI_step : forall (s : vsock) a o,
  PI s a -> op_clock_ok o -> poll_finished (vstep_out cci s o) = false ->
  PI (vstep_state cci s o) (c10_acc_next a (fstep_of cci s o)).
Proof.
  intros s a o (T & L & M) Ho Hl.
  pose proof (vstep_x cci false Hcc ti tm s o T Ho (op_ef_false s o)) as Hs.
  pose proof (vstep_emsg_limit s o) as El.
  pose proof (vstep_keeps cci s o) as (K1 & _).
  unfold vstep_state, vstep_out in *.
  destruct (vstep cci s o) as [[[s' out] dw] sw] eqn:Ev. cbn [fst snd] in *.
  split; [eapply out_ok_next; eauto|]. split; [|rewrite K1; exact M].
  unfold c10_acc_next. rewrite fstep_of_event. rewrite El.
  destruct o; cbn [fevent_of ca_lim]; try exact L. reflexivity.
Qed.

End Trace.

Section Trace2.
Context {CC : Type} (cci : cc_iface CC).
Hypothesis Hcc : cc_total cci.
Variables ti tm : Z.
Notation vsock := (vsock CC).

(* the poll after the write *)
Lemma prompt_write_poll : forall (s1 : vsock) tx1 n w buf s3 r,
  tinv ti tm s1 -> tinv ti tm (set_tx s1 tx1) ->
  IBE s1 -> v_state s1 = Established -> ss_segs (v_segs s1) = [] -> ring (v_tx s1) = [] ->
  poll_write (v_tx s1) buf = (tx1, WrOk n, w) ->
  0 < v_last_remote_window s1 ->
  Z.min (max_ss (v_ss s1)) n <= cc_window cci (v_cc s1) ->
  v_rto_retransmissions s1 = 0 -> is_recovering (v_recovery s1) = false ->
  timer_expired (v_t_retransmit s1) (v_env_now s1) = false ->
  timer_expired (v_t_inactivity s1) (v_env_now s1) = false ->
  v_cbu s1 < IMMEDIATE_ACK_EVERY_RMSS * mss (v_ss s1) ->
  seq_sub (wadd16 (v_last_sent_seq_nr s1) 1) (ss_snd_una (v_segs s1)) <= 0 ->
  seq_sub (v_last_sent_seq_nr s1) (ss_snd_una (v_segs s1)) + 1 <= 0 ->
  (forall m, v_emsg_limit s1 = Some m -> 20 + max_ss (v_ss s1) <= m) ->
  o_max_retx (v_opts s1) <> 0 ->
  poll cci (VSockRec.set_sends (set_tx s1 tx1) []) = (s3, r) ->
  exists l p l0, v_out s3 = l ++ p :: l0 /\ ch_type (p_hdr p) = ST_DATA /\ 1 <= Z.of_nat (length (p_payload p)).
Proof.
  intros s1 tx1 n w buf s3 r T1 T2 [Hi Hc] Est Es Hring Hw Hlrw Hcw Hrto Hrec Ext Exi Hcbu Hoff Htake Hlim Hmax Hp.
  destruct (poll_write_ok _ _ _ _ _ Hw) as [Hr1 Hn]. rewrite Hring in Hr1. cbn [app] in Hr1.
  set (s2 := set_tx s1 tx1) in *.
  (* the poll does not panic *)
  assert (Hnp : r <> PollPanic).
  { destruct T2 as [Hx Hclk].
    pose proof (poll_x cci false Hcc ti tm (VSockRec.set_sends s2 [])) as Px.
    rewrite Hp in Px.
    assert (Hx' : vs_x ti tm 0 qT (VSockRec.set_sends s2 [])).
    { eapply x_same_core; [exact Hx|]. unfold same_core. vsimpl_goal. repeat split. }
    specialize (Px Hx' Hclk ltac:(intro K; discriminate K)).
    destruct (ret_ok_result false ti tm _ _ _ Px) as [K _]. exact K. }
  destruct T1 as [[Hinv _] _].
  destruct (inv_parts _ _ _ _ Hinv) as (I1 & I2 & _ & _ & _ & I6 & _).
  rewrite poll_unfold in Hp.
  set (x0 := poll_init (VSockRec.set_sends s2 [])) in *.
  assert (Hlen : Z.of_nat (length (ring (v_tx x0))) = n).
  { change (ring (v_tx x0)) with (ring tx1). rewrite Hr1, firstn_length. lia. }
  pose proof (prompt_body cci x0 Est Es I2 I6 I1) as B.
  specialize (B ltac:(change (ring (v_tx x0)) with (ring tx1); rewrite Hr1;
                      destruct (firstn (Z.to_nat n) buf) eqn:Ef; [|discriminate];
                      apply (f_equal (@length _)) in Ef; rewrite firstn_length in Ef; cbn [length] in Ef; lia)).
  specialize (B Hi Hc Hlrw ltac:(rewrite Hlen; exact Hcw) Hrto Hrec Ext Exi Hcbu Hoff Htake eq_refl Hlim Hmax).
  rewrite (poll_loop_S cci 63 x0) in Hp.
  destruct (poll_body cci x0) as [s' r'|s'|].
  - injection Hp as <- _. exact B.
  - destruct B as (l & p & l0 & B1 & B2 & B3).
    destruct (VSock_LemmasFin.poll_loop_frame0 cci 63 s') as (_ & _ & _ & _ & _ & _ & (l2 & P7) & _).
    rewrite Hp in P7. cbn [fst] in P7. exists (l2 ++ l), p, l0. rewrite P7, B1, app_assoc. auto.
  - injection Hp as _ <-. congruence.
Qed.

End Trace2.

Section Trace3.
Context {CC : Type} (cci : cc_iface CC).
Hypothesis Hcc : cc_total cci.
Variables ti tm : Z.
Notation vsock := (vsock CC).

Lemma emits_in : forall (s3 : vsock) r p l l0 w a,
  v_out s3 = l ++ p :: l0 -> ch_type (p_hdr p) = ST_DATA -> 1 <= Z.of_nat (length (p_payload p)) ->
  emits (FrPoll r (map fpacket_of (rev (v_out s3))) w a)
        (fun q => match ch_type (fq_hdr q) with ST_DATA => 1 <=? fq_plen q | _ => false end) = true.
Proof.
  intros s3 r p l l0 w a H H0 H1. cbn [emits]. apply existsb_exists. exists (fpacket_of p). split.
  - apply in_map. rewrite <- in_rev. rewrite H. apply in_or_app. right. left. reflexivity.
  - cbn [fpacket_of fq_hdr fq_plen]. rewrite H0. apply Z.leb_le. exact H1.
Qed.

Lemma fstep_of_write_dropped : forall (s : vsock) buf,
  writer_dropped (v_tx s) = true -> fs_result (fstep_of cci s (VoWrite buf)) = FrNone.
Proof. intros s buf H. unfold fstep_of. cbn [vstep]. rewrite H. reflexivity. Qed.

Lemma fstep_of_write : forall (s : vsock) buf tx1 r w,
  writer_dropped (v_tx s) = false -> poll_write (v_tx s) buf = (tx1, r, w) ->
  fs_result (fstep_of cci s (VoWrite buf)) = FrWrite r /\
  fs_now (fstep_of cci s (VoWrite buf)) = v_env_now s /\
  vstep_state cci s (VoWrite buf) = set_tx s tx1.
Proof.
  intros s buf tx1 r w H E. unfold fstep_of, vstep_state. cbn [vstep]. rewrite H, E. repeat split.
Qed.

Lemma prompt_write_check : forall cfg (s : vsock) a o0 o1 o2,
  PI ti tm s a -> op_clock_ok o0 -> op_clock_ok o1 ->
  poll_finished (vstep_out cci s o0) = false ->
  poll_finished (vstep_out cci (vstep_state cci s o0) o1) = false ->
  (if prompt_window cfg (c10_acc_next a (fstep_of cci s o0)) (fstep_of cci s o0)
        (fstep_of cci (vstep_state cci s o0) o1)
        (fstep_of cci (vstep_state cci (vstep_state cci s o0) o1) o2) &&
      idle_seq_ok (fs_pre (fstep_of cci (vstep_state cci s o0) o1)) &&
      no_imm_ack (fs_pre (fstep_of cci (vstep_state cci s o0) o1))
   then match fs_event (fstep_of cci (vstep_state cci s o0) o1),
              fs_result (fstep_of cci (vstep_state cci s o0) o1) with
        | FeWrite _, FrWrite (WrOk n) =>
            if can_send_new (fs_now (fstep_of cci (vstep_state cci s o0) o1)) n
                            (fs_pre (fstep_of cci (vstep_state cci s o0) o1))
            then emits_data (fstep_of cci (vstep_state cci (vstep_state cci s o0) o1) o2) else true
        | _, _ => true
        end
   else true) = true.
Proof.
  intros cfg s a o0 o1 o2 HP Ho0 Ho1 Hl0 Hl1.
  pose proof (PI_step cci Hcc ti tm s a o0 HP Ho0 Hl0) as HP1.
  remember (vstep_state cci s o0) as s1 eqn:Es1. remember (c10_acc_next a (fstep_of cci s o0)) as a1 eqn:Ea1.
  pose proof (PI_step cci Hcc ti tm s1 a1 o1 HP1 Ho1 Hl1) as HP2.
  remember (vstep_state cci s1 o1) as s2 eqn:Es2.
  match goal with |- (if ?g then _ else _) = true => destruct g eqn:G end; [|reflexivity].
  apply andb_true_iff in G. destruct G as [G Gack]. apply andb_true_iff in G. destruct G as [G Gseq].
  unfold prompt_window in G. repeat (apply andb_true_iff in G; destruct G as [G ?]).
  rename H into Glim, H0 into Gnow, H1 into Gplain. rename G into Gpark.
  rewrite fstep_of_pre in *.
  destruct o1; try (rewrite fstep_of_event; reflexivity).
  (* the write *)
  rewrite fstep_of_event. cbn [fevent_of].
  destruct (writer_dropped (v_tx s1)) eqn:Ewd.
  { rewrite (fstep_of_write_dropped s1 buf Ewd). reflexivity. }
  destruct (poll_write (v_tx s1) buf) as [[tx1 wr] w] eqn:Ew.
  destruct (fstep_of_write s1 buf tx1 wr w Ewd Ew) as (W1 & W2 & W3).
  rewrite W1, W2. rewrite W3 in Es2. subst s2.
  destruct wr as [n| | | |]; try reflexivity.
  destruct (can_send_new (v_env_now s1) n (fp_of_vsock cci s1)) eqn:Cs; [|reflexivity].
  (* st0 is a Pending poll *)
  unfold parked_idle in Gpark.
  destruct o0; try (rewrite fstep_of_event in Gpark; discriminate Gpark).
  destruct (poll cci (VSockRec.set_sends s script)) as [s1' r0] eqn:E0.
  destruct (vstep_poll cci s script s1' r0 E0) as [V1 _]. rewrite V1 in Es1. subst s1'.
  rewrite (fstep_of_poll cci s script s1 r0 E0) in Gpark. cbn [fs_event fs_result fs_post] in Gpark.
  destruct r0; try discriminate Gpark.
  unfold idle_established, is_established, tx_idle in Gpark.
  apply andb_true_iff in Gpark; destruct Gpark as [Gpark Gw].
  apply andb_true_iff in Gpark; destruct Gpark as [Gpark Gtp].
  apply andb_true_iff in Gpark; destruct Gpark as [Gest Gidle].
  apply andb_true_iff in Gidle; destruct Gidle as [Glen Gsegs].
  cbn [fp_of_vsock f_state f_tx_len f_segs f_transport_pending] in *.
  assert (Est : v_state s1 = Established) by (destruct (v_state s1); try discriminate; reflexivity).
  assert (Hring : ring (v_tx s1) = []).
  { apply Z.eqb_eq in Glen. destruct (ring (v_tx s1)); [reflexivity|cbn [length] in Glen; lia]. }
  assert (Es : ss_segs (v_segs s1) = []) by (destruct (ss_segs (v_segs s1)); [reflexivity|discriminate]).
  apply negb_true_iff in Gtp.
  assert (Hibe : IBE s1).
  { destruct (poll_pending_ibe cci _ _ E0 Gtp) as [K|K]; [|exact K].
    unfold SC in K. rewrite Est in K. discriminate. }
  (* st2 is a plain poll *)
  unfold plain_poll in Gplain.
  destruct o2; try (rewrite fstep_of_event in Gplain; discriminate Gplain).
  rewrite fstep_of_event in Gplain. cbn [fevent_of] in Gplain.
  destruct script0; [|discriminate Gplain].
  destruct (poll cci (VSockRec.set_sends (set_tx s1 tx1) [])) as [s3 r] eqn:E2.
  unfold emits_data. rewrite (fstep_of_poll cci _ [] s3 r E2). cbn [fs_result].
  (* the guards *)
  unfold can_send_new in Cs. repeat (apply andb_true_iff in Cs; destruct Cs as [Cs ?]).
  cbn [fp_of_vsock f_last_remote_window f_max_ss f_cc_window f_rto_retx f_recovery f_t_retransmit f_t_inactivity] in *.
  unfold idle_seq_ok in Gseq. apply andb_true_iff in Gseq. destruct Gseq as [Gs1 Gs2].
  unfold no_imm_ack in Gack.
  cbn [fp_of_vsock f_last_sent_seq_nr f_snd_una f_cbu f_mss] in *.
  destruct HP1 as (T1 & L1 & M1). destruct HP2 as (T2 & _ & _).
  destruct (prompt_write_poll cci Hcc ti tm s1 tx1 n w buf s3 r T1 T2 Hibe Est Es Hring Ew) as (l & p & l0 & Q1 & Q2 & Q3);
    try assumption.
  - apply Z.leb_le in Cs. lia.
  - apply Z.leb_le. assumption.
  - apply Z.eqb_eq. assumption.
  - unfold is_recovering. destruct (rv_phase (v_recovery s1)); [reflexivity|reflexivity|discriminate].
  - apply negb_true_iff. assumption.
  - apply negb_true_iff. assumption.
  - apply Z.ltb_lt. exact Gack.
  - apply Z.leb_le. exact Gs1.
  - apply Z.leb_le. exact Gs2.
  - intros m Hm. rewrite L1, Hm in Glim. apply Z.leb_le in Glim.
    cbn [fp_of_vsock f_max_ss] in Glim. change (v_ss (set_tx s1 tx1)) with (v_ss s1) in Glim.
    unfold UTP_HEADER in Glim. exact Glim.
  - eapply emits_in; eassumption.
Qed.

Theorem c02_prompt_write_from_trace : forall cfg ops (s : vsock) a,
  PI ti tm s a -> Forall op_clock_ok ops -> c02_prompt_write_from cfg a (ftrace cci s ops) = true.
Proof.
  intros cfg. induction ops as [|o0 rest IH]; intros s a HP Hoc; [reflexivity|].
  inversion Hoc as [|? ? Ho0 Hrest]; subst.
  rewrite ftrace_cons'.
  destruct (poll_finished (vstep_out cci s o0)) eqn:F0; [reflexivity|].
  pose proof (PI_step cci Hcc ti tm s a o0 HP Ho0 F0) as HP1.
  specialize (IH (vstep_state cci s o0) (c10_acc_next a (fstep_of cci s o0)) HP1 Hrest).
  destruct rest as [|o1 rest1]; [reflexivity|].
  inversion Hrest as [|? ? Ho1 Hrest1]; subst.
  rewrite ftrace_cons' in *.
  destruct (poll_finished (vstep_out cci (vstep_state cci s o0) o1)) eqn:F1; [reflexivity|].
  destruct rest1 as [|o2 rest2]; [reflexivity|].
  rewrite ftrace_cons' in *.
  cbn [c02_prompt_write_from] in *.
  apply andb_true_iff. split; [|exact IH].
  apply prompt_write_check; assumption.
Qed.

End Trace3.

Section FromNew2.
Context {CC : Type} (cci : cc_iface CC).
Hypothesis Hcc : cc_total cci.

(* the write half of c02_prompt (with the guards idle_seq_ok / no_imm_ack) on every model trace from a
   fresh connection with a valid configuration and max_segment_retransmissions >= 1 *)
Theorem c02_prompt_write_g_trace : forall cfg (mk : Z -> Z -> CC) c (s0 : vsock CC) ops,
  vconfig_ok c = true -> 1 <= vc_max_retx c -> Forall op_clock_ok ops ->
  vsock_new cci mk c = Some s0 -> c02_prompt_write_g cfg (ftrace cci s0 ops) = true.
Proof.
  intros cfg mk c s0 ops Hok Hmr Hoc H0.
  destruct (vsock_new_x cci mk c Hok) as (s0' & E & Ht & Hl).
  rewrite H0 in E. injection E as <-.
  unfold c02_prompt_write_g. apply (c02_prompt_write_from_trace cci Hcc (vc_tx_init c) (vc_tx_max c)); [|exact Hoc].
  split; [exact Ht|]. split; [rewrite Hl; reflexivity|].
  unfold vsock_new in H0.
  destruct (match (if vc_incoming c then None else _) with Some r => _ | None => _ end); [|discriminate].
  injection H0 as <-. cbn [v_opts o_max_retx]. lia.
Qed.

End FromNew2.

(* C07 — witness scenarios (constant-window congestion controller, Conn/C10_Proofs.wtrace):
   the guards of the every-trace theorems are met on reachable traces, and the assumed-and-monitored
   precondition c07_pre_monitor is FALSE on a reachable trace of the model (D4 class: more than
   WRAP_TOLERANCE sequence numbers consumed across the 16-bit wrap without an ACK in between). *)
From Utp Require Import Base.Prelude Wire.SeqNr Wire.Header Rx.Rx Conn.Recovery Conn.Msg Conn.VSockRec
  Conn.VSock Conn.VSockRun Conn.VObs Conn.VSock_Inv Conn.C10_Pred Conn.C10_Proofs
  Conn.C07_Pred Conn.C07_Pred2.

Definition c07_cfg1 : vconfig := wcfg 1048576.

(* ---- silence when idle: the guard holds at the first and at the third step ---- *)
Definition c07_idle_ops : list vop := [VoPoll []; VoSetNow 2000000; VoPoll []].

Lemma c07_idle_nonvacuous :
  exists w cfg ops,
    vconfig_ok cfg = true /\ Forall op_msg_ok ops /\
    existsb (fun st => c07_idle_pre (fs_now st) (fs_pre st) && c07_poll_done st && c07_wnd_status_same st)
            (wtrace w cfg ops) = true /\
    c07_idle_silent_partial cfg (wtrace w cfg ops) = true.
Proof.
  exists 1000, c07_cfg1, c07_idle_ops.
  split; [vm_compute; reflexivity|]. split; [repeat constructor|].
  split; vm_compute; reflexivity.
Qed.

(* ---- triggers: in-order data, its duplicate, an out-of-order arrival (stored), the gap fill, a FIN ---- *)
Definition c07_trig_ops : list vop :=
  [VoDeliver (wmsg ST_DATA 1 100 10); VoPoll []; VoDeliver (wmsg ST_DATA 1 100 10); VoPoll [];
   VoDeliver (wmsg ST_DATA 3 100 10); VoPoll []; VoDeliver (wmsg ST_DATA 2 100 10); VoPoll [];
   VoDeliver (wmsg ST_FIN 4 100 0); VoPoll []].

Definition c07_fire (h : chdr) (st : fstep) : bool :=
  c07_poll_done st &&
  c07_is_trigger (f_state (fs_pre st)) (f_last_consumed (fs_pre st)) (fp_ooq_empty (fs_pre st)) h.

Definition c07_status_changed (st : fstep) : bool :=
  c07_poll_done st && negb (Bool.eqb (fp_ooq_empty (fs_pre st)) (fp_ooq_empty (fs_post st))).

Lemma c07_trig_ops_ok : Forall op_msg_ok c07_trig_ops.
Proof.
  unfold c07_trig_ops. repeat (constructor; [first [exact I | cbn; discriminate | cbn; reflexivity]|]).
  constructor.
Qed.

(* step 4: the duplicate; step 6: out-of-order data stored (status changes); step 8: the gap fill
   (trigger and status change); step 10: the FIN *)
Lemma c07_trigger_nonvacuous :
  exists w cfg ops,
    vconfig_ok cfg = true /\ Forall op_msg_ok ops /\
    c07_trigger_ok cfg (wtrace w cfg ops) = true /\
    forallb (c07_reasm_change_ok cfg) (wtrace w cfg ops) = true /\
    match nth_error (wtrace w cfg ops) 3 with
    | Some st => c07_fire (m_hdr (wmsg ST_DATA 1 100 10)) st = true | None => False end /\
    match nth_error (wtrace w cfg ops) 5 with
    | Some st => c07_status_changed st = true | None => False end /\
    match nth_error (wtrace w cfg ops) 7 with
    | Some st => c07_fire (m_hdr (wmsg ST_DATA 2 100 10)) st = true /\ c07_status_changed st = true
    | None => False end /\
    match nth_error (wtrace w cfg ops) 9 with
    | Some st => c07_fire (m_hdr (wmsg ST_FIN 4 100 0)) st = true | None => False end.
Proof.
  exists 1000, c07_cfg1, c07_trig_ops.
  split; [vm_compute; reflexivity|]. split; [exact c07_trig_ops_ok|].
  split; [vm_compute; reflexivity|]. split; [vm_compute; reflexivity|].
  split; [vm_compute; reflexivity|]. split; [vm_compute; reflexivity|].
  split; [vm_compute; split; reflexivity|]. vm_compute; reflexivity.
Qed.

(* ---- c07_pre_monitor is false of the model ---- *)
Definition c07_wrap_cfg : vconfig :=
  {| vc_incoming := false; vc_ipv4 := true; vc_link_mtu := 1500; vc_rx_buf := 1048576;
     vc_tx_init := 32768; vc_tx_max := 1048576; vc_nagle := true; vc_max_retx := 5;
     vc_inactivity := 10000000000; vc_wait_last_ack := true; vc_mtu_probe_max_retx := 1;
     vc_isn := 100; vc_remote_seq := 65000; vc_remote_conn_id := 7; vc_remote_wnd := 1048576;
     vc_remote_ts := 5; vc_syn_sent := 0; vc_now0 := 1000000 |}.

(* n one-byte ST_DATA in sequence *)
Fixpoint c07_delivers (n : nat) (seq : Z) : list vop :=
  match n with
  | O => []
  | S n' => VoDeliver (wmsg ST_DATA seq 100 1) :: c07_delivers n' (wadd16 seq 1)
  end.

Lemma c07_delivers_ok : forall n seq, Forall op_msg_ok (c07_delivers n seq).
Proof.
  induction n as [|n IH]; intros seq; cbn [c07_delivers]; constructor; [|apply IH].
  cbn. discriminate.
Qed.

(* 1030 one-byte packets 65000, 65001, ... 493 arrive and are processed by one poll; 1030 < 2*mss = 1056
   bytes, so no immediate ACK; 42 ms later the delayed-ACK timer has expired, the next poll sends
   nothing and turns the timer off: ack_to_transmit (a SeqNr comparison with WRAP_TOLERANCE = 1024)
   sees last_consumed = 493 BEHIND last_sent_ack_nr = 64999. *)
Definition c07_wrap_ops : list vop :=
  c07_delivers 1030 65000 ++ [VoPoll []; VoSetNow 42000000; VoPoll []].

Definition c07_ack_lost (st : fstep) : bool :=
  c07_poll_done st && (0 <? f_cbu (fs_post st)) &&
  match f_t_ack_delay (fs_pre st) with Some e => e <=? fs_now st | None => false end &&
  match f_t_ack_delay (fs_post st) with None => true | Some _ => false end &&
  match c07_pkts st with [] => true | _ :: _ => false end.

Lemma c07_pre_monitor_refuted_witness :
  exists w cfg ops,
    vconfig_ok cfg = true /\ Forall op_msg_ok ops /\
    forallb (c07_pre_monitor cfg) (wtrace w cfg ops) = false /\
    (* consequence: unacknowledged bytes, the delayed-ACK timer expired, and the poll sends nothing and
       disarms the timer *)
    existsb c07_ack_lost (wtrace w cfg ops) = true /\
    (* the step-local C07 predicates all hold on this trace: they are guarded by c07_pre *)
    forallb (c07_delayed_ok cfg) (wtrace w cfg ops) = true /\
    forallb (c07_fires_ok cfg) (wtrace w cfg ops) = true /\
    forallb (c07_immediate_ok cfg) (wtrace w cfg ops) = true.
Proof.
  exists 1048576, c07_wrap_cfg, c07_wrap_ops.
  split; [vm_compute; reflexivity|].
  split; [unfold c07_wrap_ops; apply Forall_app; split; [apply c07_delivers_ok | repeat constructor]|].
  split; [vm_compute; reflexivity|]. split; [vm_compute; reflexivity|].
  split; [vm_compute; reflexivity|]. split; vm_compute; reflexivity.
Qed.

(* ---- the exact-distance form holds where c07_pre fails, and its guard is met ---- *)
Lemma c07_dist_nonvacuous :
  exists w cfg ops,
    vconfig_ok cfg = true /\ 0 <= vc_remote_seq cfg < M16 /\ Forall op_msg_ok ops /\
    forallb (c07_pre_monitor cfg) (wtrace w cfg ops) = false /\
    forallb (c07_dist_ok cfg) (wtrace w cfg ops) = true /\
    forallb (c07_pre_monitor_g cfg) (wtrace w cfg ops) = true /\
    existsb (fun st => c07_live st && (0 <? f_cbu (fs_post st)) && (f_cbu (fs_post st) <? M16))
            (wtrace w cfg ops) = true.
Proof.
  exists 1048576, c07_wrap_cfg, c07_wrap_ops.
  split; [vm_compute; reflexivity|]. split; [vm_compute; split; [discriminate | reflexivity]|].
  split; [unfold c07_wrap_ops; apply Forall_app; split; [apply c07_delivers_ok | repeat constructor]|].
  split; [vm_compute; reflexivity|]. split; [vm_compute; reflexivity|].
  split; vm_compute; reflexivity.
Qed.

Lemma c07_pre_monitor_g_nonvacuous :
  exists w cfg ops,
    vconfig_ok cfg = true /\ 0 <= vc_remote_seq cfg < M16 /\ Forall op_msg_ok ops /\
    forallb (c07_pre_monitor_g cfg) (wtrace w cfg ops) = true /\
    existsb (fun st => c07_poll_done st && (0 <? f_cbu (fs_post st)) && (f_cbu (fs_post st) <=? WRAP_TOLERANCE))
            (wtrace w cfg ops) = true.
Proof.
  exists 1000, c07_cfg1, c07_trig_ops.
  split; [vm_compute; reflexivity|]. split; [vm_compute; split; [discriminate | reflexivity]|].
  split; [exact c07_trig_ops_ok|]. split; vm_compute; reflexivity.
Qed.

(* C17 — the forms of the trace predicates c17_peer_fin_ok, c17_fin_seq_ok (Conn/C17_Pred.v)
   that are theorems of every model trace (Conn/C17_Trace.v), the guards they need, and one new step predicate
   that sees the defect D6.
   Model only: no proofs here. *)
From Utp Require Import Base.Prelude Wire.SeqNr Wire.Header Rtt.Rtte Mtu.SegSizes Rx.Rx Tx.Ring
  Tx.Segments Conn.Recovery Conn.Msg Conn.VSockRec Conn.VSock Conn.VSockRun Conn.VObs
  Conn.C17_Pred.

(* ------------------------------------------------------------------ (d) the peer's FIN, corrected *)
(* c17_peer_fin_ok as written is FALSE of the model (c17_peer_fin_ok_refuted): the clause for out-of-sequence
   FINs demands that the reader's queue and the reassembly queue do not move at all, but every poll flushes
   what an EARLIER poll consumed and could not hand over (the reader's queue was full then).  What is true:
   the number of slots held out of order stays, bytes only move from the reassembly queue to the reader's
   queue, and nothing moves when nothing was waiting to be flushed (f_rx_ff = 0).  A poll that panics is
   not judged (its post-state is the state the restart loop started from; C10 is about panics). *)
Definition oos_fin (lc : Z) (h : chdr) : bool :=
  ptype_eqb (ch_type h) ST_FIN && negb (ch_seq h =? wadd16 lc 1).

Definition peer_fin_poll_body (pending : list chdr) (st : fstep) : bool :=
  let pre := fs_pre st in
  let post := fs_post st in
  match pending with
  | [] => true
  | _ =>
    if is_data_state (f_state pre) && forallb (oos_fin (f_last_consumed pre)) pending
    then
      (f_last_consumed post =? f_last_consumed pre) && negb (is_remote_fin_or_later (f_state post)) &&
      (f_rx_len post - f_rx_ff post =? f_rx_len pre - f_rx_ff pre) &&
      (f_rx_qbytes post + f_rx_len_bytes post =? f_rx_qbytes pre + f_rx_len_bytes pre) &&
      (if f_rx_ff pre =? 0
       then (f_rx_qbytes post =? f_rx_qbytes pre) && (f_rx_len post =? f_rx_len pre) else true)
    else
      match pending, f_state pre with
      | [h], Established =>
          if ptype_eqb (ch_type h) ST_FIN && (ch_seq h =? wadd16 (f_last_consumed pre) 1) then
            (f_last_consumed post =? ch_seq h) &&
            (match f_state post with
             | LastAck f r => (f =? f_seq_nr pre) && (r =? ch_seq h)
             | Closed => true
             | _ => false
             end) &&
            (if f_transport_pending post then true
             else match fs_result st with
                  | FrPoll PollPending pk _ _ => existsb (fun p => pkt_ack p =? ch_seq h) pk
                  | _ => true
                  end)
          else true
      | _, _ => true
      end
  end.

Definition is_panic_result (r : fresult) : bool :=
  match r with FrPoll PollPanic _ _ _ => true | _ => false end.

Definition peer_fin_poll_ok2 (pending : list chdr) (st : fstep) : bool :=
  if is_panic_result (fs_result st) then true else peer_fin_poll_body pending st.

(* the walk of peer_fin_scan with the judgement of one poll as a parameter *)
Fixpoint peer_fin_scan_gen (J : list chdr -> fstep -> bool) (tr : list fstep) (pending : option (list chdr))
  : bool :=
  match tr with
  | [] => true
  | st :: r =>
      match fs_event st with
      | FeDeliver h _ =>
          peer_fin_scan_gen J r (match pending with Some l => Some (l ++ [h]) | None => None end)
      | FeCloseInbox => peer_fin_scan_gen J r None
      | FePoll _ =>
          (match pending with Some l => J l st | None => true end) &&
          peer_fin_scan_gen J r (if f_transport_pending (fs_post st) then None
                                 else match pending with Some _ => Some [] | None => None end)
      | _ => peer_fin_scan_gen J r pending
      end
  end.

Definition c17_peer_fin_ok2 (cfg : vconfig) (tr : list fstep) : bool :=
  peer_fin_scan_gen peer_fin_poll_ok2 tr (Some []).

(* the guard under which the predicate AS WRITTEN holds: no poll panics, and no poll starts with consumed
   slots still waiting in the reassembly queue *)
Definition c17_peer_fin_guard_step (st : fstep) : bool :=
  match fs_event st with
  | FePoll _ => negb (is_panic_result (fs_result st)) && (f_rx_ff (fs_pre st) =? 0)
  | _ => true
  end.

Definition c17_peer_fin_guarded (cfg : vconfig) (tr : list fstep) : bool :=
  if forallb c17_peer_fin_guard_step tr then c17_peer_fin_ok cfg tr else true.

(* ------------------------------------------------------------------ (c) FIN only after all data, every poll *)
(* D6 (confirmed on the real code, Conn/C17_Trace.v c17_fin_seq_ok_refuted): an MTU probe that expires (or is
   refused with EMSGSIZE) AFTER our FIN was numbered is popped and its bytes are cut again into smaller
   segments; the second of them takes the FIN's sequence number.  c17_fin_after_data_ok only judges the
   poll that numbers the FIN; this predicate judges every poll that ends with our FIN numbered and
   unacknowledged on own initiative (FinWait1): the send buffer is fully segmented and no segment is unsent. *)
Definition c17_fin_covers_data_ok (cfg : vconfig) (st : fstep) : bool :=
  match fs_event st, fs_result st with
  | FePoll _, FrPoll _ _ _ _ =>
      if c17_not_err_send (fs_result st) then
        match f_state (fs_post st) with
        | FinWait1 _ =>
            (f_tx_len (fs_post st) =? f_seg_len_bytes (fs_post st)) &&
            forallb (fun g => negb (fg_sent_kind g =? 0) || fg_delivered g) (f_segs (fs_post st))
        | _ => true
        end
      else true
  | _, _ => true
  end.

(* ------------------------------------------------------------------ (c) FIN numbering: the parts *)
(* every FIN of the own-initiative prefix carries one number (the first clause of fin_scan alone) *)
Fixpoint fin_same_scan (pk : list fpacket) (fin : option Z) : bool :=
  match pk with
  | [] => true
  | p :: r =>
      if pkt_is ST_FIN p then
        (match fin with Some f => pkt_seq p =? f | None => true end) && fin_same_scan r (Some (pkt_seq p))
      else fin_same_scan r fin
  end.

Definition c17_fin_same_ok (cfg : vconfig) (tr : list fstep) : bool :=
  fin_same_scan (all_pkts (own_prefix tr)) None.

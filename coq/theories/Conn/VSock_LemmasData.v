(* Reusable frame lemmas about sub-functions of the connection model, and the receive glue of
   process_incoming_message for ST_DATA (C01, T2 lifted to the connection): an incoming data
   packet touches the receiver exactly as `rx_add_remove (v_rx s) KData payload
   (seq_sub seq (last_consumed + 1))` does, and last_consumed advances by the returned count. *)
From Utp Require Import Base.Prelude Wire.SeqNr Wire.Header Rtt.Rtte Mtu.SegSizes Rx.Rx Tx.Ring
  Tx.Segments Conn.Recovery Conn.Msg Conn.VSockRec Conn.VSock.

Arguments SOk {CC A}. Arguments SErr {CC A}. Arguments SPanic {CC A}.
Arguments TblDrop {CC}. Arguments TblErr {CC}. Arguments TblContinue {CC}.

Section Frames.
Context {CC : Type} (cci : cc_iface CC).
Notation vsock := (vsock CC).

(* the fields that carry bytes *)
Definition same_data (s s' : vsock) : Prop :=
  v_rx s' = v_rx s /\ v_tx s' = v_tx s /\ v_segs s' = v_segs s /\ v_last_consumed s' = v_last_consumed s.

Lemma same_data_refl s : same_data s s.
Proof. unfold same_data; auto. Qed.
Lemma same_data_trans a b c : same_data a b -> same_data b c -> same_data a c.
Proof. unfold same_data. intros (A1 & A2 & A3 & A4) (B1 & B2 & B3 & B4). repeat split; congruence. Qed.

Lemma next_send_data (s : vsock) size s1 o : next_send s size = (s1, o) -> same_data s s1.
Proof.
  unfold next_send, same_data. destruct (v_sends s) as [|o0 r].
  - destruct (v_emsg_limit s) as [m|]; [destruct (m <? size)|]; intro H; injection H as <- _; repeat split.
  - destruct o0; destruct (v_emsg_limit s) as [m|]; try destruct (m <? size); intro H; injection H as <- _;
      vsimpl; repeat split.
Qed.

Lemma send_control_packet_data (s : vsock) h s' b : send_control_packet s h = SOk s' b -> same_data s s'.
Proof.
  unfold send_control_packet. destruct (v_transport_pending s); [intro H; injection H as <- _; apply same_data_refl|].
  destruct (next_send s _) as [s1 o] eqn:E. pose proof (next_send_data _ _ _ _ E) as (A1 & A2 & A3 & A4).
  destruct o; try discriminate; intro H; injection H as <- _; unfold same_data, on_packet_sent, emit; vsimpl; auto.
Qed.

Lemma send_ack_data (s : vsock) s' b : send_ack s = SOk s' b -> same_data s s'.
Proof. unfold send_ack. apply send_control_packet_data. Qed.

Lemma state_table_data (s : vsock) h :
  match state_table s h with
  | TblDrop s' | TblErr s' _ | TblContinue s' => same_data s s'
  end.
Proof.
  unfold state_table, same_data, restart_remote_inactivity_timer.
  destruct (ch_type h); destruct (v_state s);
    repeat match goal with
    | |- context [if ?c then _ else _] => destruct c
    end; vsimpl; auto.
Qed.

(* ------------------------------------------------------------------ the receive glue *)
Lemma pim_data_glue (s : vsock) (m : msg) s' res :
  ch_type (m_hdr m) = ST_DATA ->
  process_incoming_message cci s m = SOk s' res ->
  (v_rx s' = v_rx s /\ v_last_consumed s' = v_last_consumed s) \/
  (let off := seq_sub (ch_seq (m_hdr m)) (wadd16 (v_last_consumed s) 1) in
   0 <= off /\
   exists rx1 ar w, rx_add_remove (v_rx s) KData (m_payload m) off = (rx1, UarOk ar, w) /\
     v_rx s' = rx1 /\
     v_last_consumed s' = match ar with
                          | ArConsumed n _ => wadd16 (v_last_consumed s) (n mod M16)
                          | _ => v_last_consumed s
                          end).
Proof.
  intros Hty. unfold process_incoming_message.
  pose proof (state_table_data s (m_hdr m)) as Hst.
  destruct (state_table s (m_hdr m)) as [s1|s1 e|s1]; [|discriminate|].
  { intro H; injection H as <- _. destruct Hst as (A1 & _ & _ & A4). left. auto. }
  destruct Hst as (A1 & A2 & A3 & A4).
  destruct (remove_up_to_ack (v_segs s1) (v_now s1) (ch_ack (m_hdr m)) (ch_sack (m_hdr m))) as [segs1 r0].
  destruct (match is_recovering (v_recovery s1), ar_new_rtt r0 with
            | false, Some rtt => sample (v_rtte s1) rtt
            | _, _ => Some (v_rtte s1) end) as [rtte1|]; [|discriminate].
  destruct (cc_on_ack cci _ (v_now s1) (ar_acked_bytes r0) (roundtrip_time rtte1)) as [cc3|]; [|discriminate].
  destruct (recovery_on_ack cci (v_recovery s1) (m_hdr m) segs1 (v_last_sent_seq_nr s1) cc3 (v_now s1)
              (roundtrip_time rtte1)) as [[[rec1 segs2] cc4]|]; [|discriminate].
  rewrite Hty. vsimpl.
  rewrite A1, A4.
  destruct (Z.ltb_spec (seq_sub (ch_seq (m_hdr m)) (wadd16 (v_last_consumed s) 1)) 0) as [Hneg|Hoff].
  { intro H; injection H as <- _. left. unfold force_immediate_ack; vsimpl. auto. }
  destruct (rx_add_remove (v_rx s) KData (m_payload m) _) as [[rx1 ar] w] eqn:Era.
  destruct ar as [r|]; [|discriminate].
  destruct (add_err r) eqn:Eerr; [discriminate|].
  right. split; [exact Hoff|]. exists rx1, r, w. split; [reflexivity|].
  revert H. 
  match goal with |- context [if ?c then _ else _] => destruct c end.
  - match goal with |- context [send_ack ?S] => destruct (send_ack S) as [s6 b|s6 e|] eqn:Esa end;
      cbn [sbind]; try discriminate.
    intro H; injection H as <- _.
    destruct (send_ack_data _ _ _ Esa) as (B1 & _ & _ & B4). rewrite B1, B4.
    destruct r; unfold force_immediate_ack, add_wakes, restart_remote_inactivity_timer; vsimpl; rewrite ?A4; auto.
  - intro H; injection H as <- _.
    destruct r; unfold add_wakes, restart_remote_inactivity_timer; vsimpl; rewrite ?A4; auto.
Qed.

End Frames.

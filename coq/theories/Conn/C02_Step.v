(* C02 — the step predicates of Conn/C02_Pred.v as THEOREMS about every step of the model
   (forall state satisfying a proved invariant, forall event) and about every trace from vsock_new. *)
From Utp Require Import Base.Prelude Wire.SeqNr Wire.Header Rtt.Rtte Mtu.SegSizes Rx.Rx Rx.Rx_Proofs
  Tx.Ring Tx.Segments Conn.Recovery Conn.Msg Conn.VSockRec Conn.VSock Conn.VSockRun Conn.VObs
  Conn.C10_Pred Conn.C02_Pred Conn.VSock_Inv Conn.C10_Proofs Conn.C02_Proofs
  Conn.VSock_Lemmas Conn.VSock_LemmasStep Conn.VSock_LemmasReach
  Conn.VSock_LemmasPark Tx.Segments_ProofsOut Conn.VSock_LemmasTimers Conn.VSock_LemmasPipe
  Conn.VSock_LemmasEof Conn.C07_Pred Conn.C07_Proofs Conn.VSock_LemmasZw Mtu.SegSizes_Proofs.

Section WithCC.
Context {CC : Type} (cci : cc_iface CC).
Notation vsock := (vsock CC).

(* ================================================================== c02_parked_ok *)
(* after EVERY event: a registered reader waker implies an empty user queue and a read half that is
   not marked closed; a registered writer waker implies a write half that is not marked closed *)
Lemma pk_parked_fp : forall cfg (st : fstep) (s' : vsock),
  fs_post st = fp_of_vsock cci s' -> pk s' -> c02_parked_ok cfg st = true.
Proof.
  intros cfg st s' E [[Hq Hr] Ht]. unfold c02_parked_ok. rewrite E.
  cbn [fp_of_vsock f_rx_reader_waker f_rx_qbytes f_rx_closed f_tx_writer_waker f_tx_closed].
  apply andb_true_intro. split.
  - destruct (reader_waker (v_rx s')) eqn:Erw; [|reflexivity].
    destruct (Hr eq_refl) as [K1 K2]. rewrite Hq, K1, K2. reflexivity.
  - destruct (writer_waker (v_tx s')) eqn:Eww; [|reflexivity]. rewrite (Ht Eww). reflexivity.
Qed.

Theorem c02_parked_ok_step : forall cfg (s : vsock) o,
  pk s -> pk (vstep_state cci s o) /\ c02_parked_ok cfg (fstep_of cci s o) = true.
Proof.
  intros cfg s o Hp. pose proof (pk_vstep cci s o Hp) as Hp'. split; [exact Hp'|].
  eapply pk_parked_fp; [apply fstep_of_post | exact Hp'].
Qed.

Theorem c02_parked_ok_trace : forall cfg mk c (s0 : vsock) ops,
  vsock_new cci mk c = Some s0 -> forallb (c02_parked_ok cfg) (ftrace cci s0 ops) = true.
Proof.
  intros cfg mk c s0 ops H0.
  apply (ftrace_forallb cci pk).
  - intros s o Hp. apply c02_parked_ok_step; exact Hp.
  - intros s o Hp. apply pk_vstep; exact Hp.
  - eapply pk_vsock_new; exact H0.
Qed.

(* ================================================================== application events *)
(* the component theorems of C02_Proofs.v, for every event of the alphabet *)
Theorem c02_write_wakes_step : forall cfg (s : vsock) o, c02_write_wakes cfg (fstep_of cci s o) = true.
Proof.
  intros cfg s o. destruct o; try (unfold c02_write_wakes; rewrite fstep_of_event; reflexivity).
  exact (C02_Proofs.write_wakes_ok cci cfg s buf).
Qed.

Theorem c02_drop_writer_wakes_step : forall cfg (s : vsock) o,
  c02_drop_writer_wakes cfg (fstep_of cci s o) = true.
Proof.
  intros cfg s o. destruct o; try (unfold c02_drop_writer_wakes; rewrite fstep_of_event; reflexivity).
  exact (C02_Proofs.drop_writer_wakes_ok cci cfg s).
Qed.

Theorem c02_shutdown_wakes_step : forall cfg (s : vsock) o,
  c02_shutdown_wakes cfg (fstep_of cci s o) = true.
Proof.
  intros cfg s o.
  destruct o; try (unfold c02_shutdown_wakes, shutdown_idle_guard; rewrite fstep_of_event; reflexivity).
  exact (C02_Proofs.shutdown_wakes_ok cci cfg s).
Qed.

Theorem c02_read_wakes_step : forall cfg (s : vsock) o, c02_read_wakes cfg (fstep_of cci s o) = true.
Proof.
  intros cfg s o. destruct o; try (unfold c02_read_wakes; rewrite fstep_of_event; reflexivity).
  - apply (C02_Proofs.read_wakes_ok cci cfg s (VoRead n)). left. eexists; reflexivity.
  - apply (C02_Proofs.read_wakes_ok cci cfg s VoDropReader). right. reflexivity.
Qed.

Lemma forallb_ftrace_all : forall (P : fstep -> bool),
  (forall (s : vsock) o, P (fstep_of cci s o) = true) ->
  forall ops (s : vsock), forallb P (ftrace cci s ops) = true.
Proof.
  intros P H ops s. apply (ftrace_forallb cci (fun _ => True)); auto.
Qed.

Theorem c02_write_wakes_trace : forall cfg ops (s : vsock),
  forallb (c02_write_wakes cfg) (ftrace cci s ops) = true.
Proof. intros cfg. apply forallb_ftrace_all. apply c02_write_wakes_step. Qed.

Theorem c02_drop_writer_wakes_trace : forall cfg ops (s : vsock),
  forallb (c02_drop_writer_wakes cfg) (ftrace cci s ops) = true.
Proof. intros cfg. apply forallb_ftrace_all. apply c02_drop_writer_wakes_step. Qed.

Theorem c02_shutdown_wakes_trace : forall cfg ops (s : vsock),
  forallb (c02_shutdown_wakes cfg) (ftrace cci s ops) = true.
Proof. intros cfg. apply forallb_ftrace_all. apply c02_shutdown_wakes_step. Qed.

Theorem c02_read_wakes_trace : forall cfg ops (s : vsock),
  forallb (c02_read_wakes cfg) (ftrace cci s ops) = true.
Proof. intros cfg. apply forallb_ftrace_all. apply c02_read_wakes_step. Qed.

(* ================================================================== c02_eof_wakes *)
(* the poll that accepts the peer's in-sequence FIN and leaves the reassembly queue empty has moved
   the EOF marker to the user queue; a reader that was parked has been woken *)
Theorem c02_eof_wakes_step : forall cfg (s : vsock) o,
  pk s -> rxi s -> c02_eof_wakes cfg (fstep_of cci s o) = true.
Proof.
  intros cfg s o Hpk Hrx. unfold c02_eof_wakes.
  destruct (eof_flush_guard (fstep_of cci s o)) eqn:G; [|reflexivity].
  unfold eof_flush_guard in G.
  destruct o; try (rewrite fstep_of_event in G; discriminate G).
  destruct (poll cci (VSockRec.set_sends s script)) as [s' r] eqn:E.
  rewrite (fstep_of_poll cci s script s' r E) in *.
  cbn [fs_event fs_result fs_pre fs_post] in *.
  destruct r; try discriminate G.
  cbn [fp_of_vsock f_rx_reader_waker f_rx_reader_dropped f_state f_rx_ff f_rx_len] in G.
  repeat (apply andb_true_iff in G; destruct G as [G ?]).
  rename H into Glen, H0 into Gff, H1 into Gla, H2 into Gfin, H3 into Gdrop.
  (* the EOF is in the user queue *)
  assert (Hh : hh (VSockRec.set_sends s script)).
  { split; [exact Hrx|]. intro K. change (v_state (VSockRec.set_sends s script)) with (v_state s) in K.
    apply negb_true_iff in Gfin. destruct (v_state s); discriminate. }
  apply (poll_hh cci _ _ Hh) in E as Hh'. destruct Hh' as [_ Hq].
  assert (Hla : isLA (v_state s') = true) by (destruct (v_state s'); try discriminate; reflexivity).
  specialize (Hq Hla).
  assert (Hqn : q (v_rx s') <> []) by (destruct Hq as [Hq|Hq]; [lia | exact Hq]).
  pose proof (poll_reach cci _ _ _ E) as R.
  assert (Hpk' : pk s') by (eapply pk_reach; [exact R | exact Hpk]).
  assert (Hrw : reader_waker (v_rx s') = false).
  { destruct (reader_waker (v_rx s')) eqn:K; [|reflexivity].
    destruct Hpk' as [[_ Hp] _]. destruct (Hp K) as [Hp1 _]. contradiction. }
  assert (W : wr (poll_init (VSockRec.set_sends s script))) by (left; exact G).
  apply (wr_reach _ _ _ _ R) in W. destruct W as [W|W]; [congruence|].
  unfold woke_reader. apply existsb_exists. exists VwReader. split; [rewrite <- in_rev; exact W | reflexivity].
Qed.

Theorem c02_eof_wakes_trace : forall cfg mk c (s0 : vsock) ops,
  0 < vc_rx_buf c -> vsock_new cci mk c = Some s0 ->
  forallb (c02_eof_wakes cfg) (ftrace cci s0 ops) = true.
Proof.
  intros cfg mk c s0 ops Hb H0.
  apply (ftrace_forallb cci (fun s => pk s /\ rxi s)).
  - intros s o [H1 H2]. apply c02_eof_wakes_step; assumption.
  - intros s o [H1 H2]. split; [apply pk_vstep; exact H1 | apply rxi_vstep; exact H2].
  - split; [eapply pk_vsock_new; exact H0 | eapply rxi_vsock_new; [exact Hb | exact H0]].
Qed.

(* ================================================================== c02_zero_window_waker *)
(* FALSE of the model as it stands (known finding D9, witness in C02_Proofs.v); true of every step
   outside the D9 class "the segment size grew after the receive half was built" *)
Definition c02_zero_window_waker_or_d9 (c : vconfig) (st : fstep) : bool :=
  c02_zero_window_waker c st || c02_d9_class c st.

Theorem c02_zero_window_waker_step : forall c (s : vsock) o,
  rxi s -> mss_pos s -> rxconst (vc_rx_buf c) (floor_of (ss_config_of c)) s -> vc_rx_buf c < M32 ->
  c02_zero_window_waker_or_d9 c (fstep_of cci s o) = true.
Proof.
  intros c s o Hrx Hm Hc Hq. unfold c02_zero_window_waker_or_d9, c02_zero_window_waker, c02_d9_class.
  destruct (zero_window_guard (fstep_of cci s o)) eqn:G; [|reflexivity].
  cbn [andb]. destruct (f_rx_disp_waker (fs_post (fstep_of cci s o))) eqn:Ew; [reflexivity|].
  cbn [negb orb andb].
  destruct (Z.ltb_spec (floor_of (ss_config_of c)) (f_mss (fs_post (fstep_of cci s o)))) as [Hlt|Hge];
    [reflexivity|exfalso].
  unfold zero_window_guard in G.
  destruct o; try (rewrite fstep_of_event in G; discriminate G).
  destruct (poll cci (VSockRec.set_sends s script)) as [s' r] eqn:E.
  rewrite (fstep_of_poll cci s script s' r E) in *.
  cbn [fs_event fs_result fs_post] in *.
  destruct r; try discriminate G.
  cbn [fp_of_vsock f_transport_pending f_last_sent_window f_state f_rx_len f_rx_qbytes
       f_rx_reader_dropped f_rx_closed f_rx_disp_waker f_mss] in *.
  repeat (apply andb_true_iff in G; destruct G as [G ?]).
  apply negb_true_iff in G.
  assert (Hd : disp_waker (v_rx s') = true).
  { apply (zero_window_registered cci (vc_rx_buf c) (floor_of (ss_config_of c)) (VSockRec.set_sends s script) s').
    - split; assumption.
    - exact Hc.
    - exact Hq.
    - exact E.
    - exact G.
    - apply Z.eqb_eq. assumption.
    - apply negb_true_iff. assumption.
    - apply Z.eqb_eq. assumption.
    - apply negb_true_iff. assumption.
    - exact Hge. }
  congruence.
Qed.

Theorem c02_zero_window_waker_trace : forall mk c (s0 : vsock) ops,
  0 < vc_rx_buf c < M32 -> vsock_new cci mk c = Some s0 ->
  forallb (c02_zero_window_waker_or_d9 c) (ftrace cci s0 ops) = true.
Proof.
  intros mk c s0 ops Hb H0.
  apply (ftrace_forallb cci (fun s => rxi s /\ mss_pos s /\
                                      rxconst (vc_rx_buf c) (floor_of (ss_config_of c)) s)).
  - intros s o (H1 & H2 & H3). apply c02_zero_window_waker_step; try assumption. lia.
  - intros s o (H1 & H2 & H3). split; [apply rxi_vstep; exact H1|].
    split; [apply mss_pos_vstep; exact H2 | apply rxconst_vstep; exact H3].
  - split; [apply (rxi_vsock_new cci mk c s0); [lia | exact H0]|].
    split; [eapply mss_pos_vsock_new; exact H0|].
    pose proof (rxconst_vsock_new cci mk c s0 H0) as K.
    destruct (new_shape (ss_config_of c)) as (Hs & _). unfold mss in K.
    unfold ss_config_of in *. rewrite Hs in K. exact K.
Qed.

(* ================================================================== c02_rto_armed *)
(* the two disjuncts of [outstanding] *)
Definition data_outstanding (f : vfp) : bool :=
  existsb (fun g => (0 <? fg_sent_kind g) && negb (fg_delivered g)) (f_segs f).

Definition fin_outstanding (f : vfp) : bool :=
  match our_fin_if_unacked (f_state f) with
  | Some fin => f_last_sent_seq_nr f =? fin
  | None => false
  end.

Lemma outstanding_split : forall f, outstanding f = data_outstanding f || fin_outstanding f.
Proof. reflexivity. Qed.

(* the data half of c02_rto_armed: a sent, undelivered segment keeps the retransmission timer armed *)
Definition c02_rto_armed_data (c : vconfig) (st : fstep) : bool :=
  match fs_event st, fs_result st with
  | FePoll _, FrPoll PollPending _ _ _ =>
      let f := fs_post st in
      if negb (f_transport_pending f) && data_outstanding f
      then match f_t_retransmit f with Some _ => true | None => false end
      else true
  | _, _ => true
  end.

Lemma data_outstanding_fp : forall (s : vsock),
  data_outstanding (fp_of_vsock cci s) = segs_out (ss_segs (v_segs s)).
Proof.
  intros s. unfold data_outstanding. cbn [fp_of_vsock f_segs].
  apply segs_out_existsb. intros g. unfold fseg_of, seg_out, seg_sent_b. cbn [fg_sent_kind fg_delivered].
  destruct (sg_sent g); reflexivity.
Qed.

Lemma ti_timer_fp : forall (s : vsock),
  ti s -> data_outstanding (fp_of_vsock cci s) = true ->
  match f_t_retransmit (fp_of_vsock cci s) with Some _ => true | None => false end = true.
Proof.
  intros s (_ & _ & Hrd) H. rewrite data_outstanding_fp in H. specialize (Hrd H).
  cbn [fp_of_vsock f_t_retransmit]. destruct (v_t_retransmit s); [reflexivity|congruence].
Qed.

(* after EVERY poll (whatever its result, transport pending or not) *)
Theorem c02_rto_armed_data_step : forall cfg (s : vsock) o,
  ti s -> ti (vstep_state cci s o) /\ c02_rto_armed_data cfg (fstep_of cci s o) = true.
Proof.
  intros cfg s o Hti. pose proof (ti_vstep cci s o Hti) as Hti'. split; [exact Hti'|].
  unfold c02_rto_armed_data. rewrite fstep_of_event, fstep_of_result, fstep_of_post.
  destruct (fevent_of o); try reflexivity.
  destruct (fresult_of _); try reflexivity. destruct r; try reflexivity.
  destruct (negb _ && data_outstanding _) eqn:G; [|reflexivity].
  apply andb_true_iff in G. destruct G as [_ G]. apply ti_timer_fp; assumption.
Qed.

(* the predicate of Conn/C02_Pred.v itself, whenever our FIN is not the outstanding thing *)
Theorem c02_rto_armed_step_nofin : forall cfg (s : vsock) o,
  ti s -> fin_outstanding (fs_post (fstep_of cci s o)) = false ->
  c02_rto_armed cfg (fstep_of cci s o) = true.
Proof.
  intros cfg s o Hti Hf. pose proof (ti_vstep cci s o Hti) as Hti'.
  unfold c02_rto_armed. rewrite outstanding_split, Hf, orb_false_r.
  rewrite fstep_of_event, fstep_of_result, fstep_of_post.
  destruct (fevent_of o); try reflexivity.
  destruct (fresult_of _); try reflexivity. destruct r; try reflexivity.
  destruct (negb _ && data_outstanding _) eqn:G; [|reflexivity].
  apply andb_true_iff in G. destruct G as [_ G]. apply ti_timer_fp; assumption.
Qed.

Theorem c02_rto_armed_data_trace : forall cfg mk c (s0 : vsock) ops,
  vsock_new cci mk c = Some s0 -> forallb (c02_rto_armed_data cfg) (ftrace cci s0 ops) = true.
Proof.
  intros cfg mk c s0 ops H0.
  apply (ftrace_forallb cci ti).
  - intros s o Hp. apply c02_rto_armed_data_step; exact Hp.
  - intros s o Hp. apply ti_vstep; exact Hp.
  - eapply ti_vsock_new; exact H0.
Qed.

(* ================================================================== c02_timer_ok *)
Definition is_self (w : vwake) : bool := match w with VwSelf => true | _ => false end.

(* c02_timer_ok, as a function of the state a Pending poll leaves behind *)
Definition timer_post_ok (s' : vsock) : bool :=
  let f := fp_of_vsock cci s' in
  let now := v_env_now s' in
  match opt_min4 f, v_arm_in s' with
  | Some e, Some d =>
      (0 <=? d) && (d <=? sat_sub e now) &&
      (match f_recovery f with Recovering _ => true | _ => d =? sat_sub e now end) &&
      (if d =? 0 then existsb is_self (rev (v_wakes s')) else true)
  | Some _, None => false
  | None, Some d => match f_recovery f with Recovering _ => (0 <=? d) | _ => false end
  | None, None => true
  end.

Lemma timer_ok_poll : forall cfg (s : vsock) sc s',
  poll cci (VSockRec.set_sends s sc) = (s', PollPending) ->
  c02_timer_ok cfg (fstep_of cci s (VoPoll sc)) =
  if v_transport_pending s' then true else timer_post_ok s'.
Proof.
  intros cfg s sc s' E. rewrite (fstep_of_poll cci s sc s' _ E). unfold c02_timer_ok, timer_post_ok.
  cbn [fs_event fs_result fs_post fs_now]. reflexivity.
Qed.

(* pure arithmetic of the timer tail: P is the recovery-pipe timer, rec = phase is Recovering *)
Lemma tail_arith : forall (A R I P Sy : option Z) (now : Z) (rec : bool),
  (P = None \/ rec = true) ->
  match opt_min A (opt_min R (opt_min I (opt_min P Sy))), opt_min A (opt_min R (opt_min I Sy)) with
  | Some inst, Some e =>
      sat_sub inst now <= sat_sub e now /\ (rec = true \/ sat_sub inst now = sat_sub e now)
  | Some inst, None => rec = true
  | None, Some _ => False
  | None, None => True
  end.
Proof.
  intros A R I P Sy now rec H. unfold opt_min, sat_sub.
  destruct A, R, I, P, Sy; destruct H as [H|H]; try discriminate; try (subst rec); auto; try lia;
    destruct rec; try (split; [lia|]; first [left; reflexivity | right; lia]); auto.
Qed.

Lemma existsb_self_cons : forall l, existsb is_self (rev (VwSelf :: l)) = true.
Proof.
  intros l. cbn [rev]. rewrite existsb_app. cbn [existsb is_self]. apply orb_true_r.
Qed.

Lemma timer_tail_ok : forall (sb : vsock),
  v_transport_pending sb = false -> v_arm_in sb = None -> v_now sb = v_env_now sb ->
  (PN sb \/ REC sb) -> timer_post_ok (poll_tail sb) = true.
Proof.
  intros sb Tp Arm Now K. unfold poll_tail.
  match goal with |- context [next_timer_to_poll ?x] => set (s1 := x) end.
  assert (H1 : v_transport_pending s1 = false /\ v_arm_in s1 = None /\ v_now s1 = v_env_now s1 /\
               v_t_recovery_pipe s1 = v_t_recovery_pipe sb /\ v_recovery s1 = v_recovery sb).
  { subst s1. destruct (is_local_fin_or_later _); vsimpl_goal; auto. }
  clearbody s1. destruct H1 as (Tp1 & Arm1 & Now1 & Pp1 & Rc1).
  assert (K1 : v_t_recovery_pipe s1 = None \/ is_recovering (v_recovery s1) = true).
  { unfold PN, REC in K. rewrite Pp1, Rc1. exact K. }
  clear K Pp1 Rc1 Tp Arm Now sb.
  unfold next_timer_to_poll. rewrite Tp1.
  pose proof (tail_arith (v_t_ack_delay s1) (v_t_retransmit s1) (v_t_inactivity s1)
                (v_t_recovery_pipe s1) (v_t_syn_ack_resend s1) (v_now s1)
                (is_recovering (v_recovery s1)) K1) as Ar.
  destruct (opt_min (v_t_ack_delay s1) (opt_min (v_t_retransmit s1) (opt_min (v_t_inactivity s1)
              (opt_min (v_t_recovery_pipe s1) (v_t_syn_ack_resend s1))))) as [inst|] eqn:Et.
  - unfold arm_in, add_wakes. vsimpl_goal.
    assert (Hd : 0 <= sat_sub inst (v_now s1)) by (unfold sat_sub; lia).
    destruct (sat_sub inst (v_now s1) <=? 0) eqn:Ez; unfold timer_post_ok, opt_min4;
      cbn [fp_of_vsock f_t_ack_delay f_t_retransmit f_t_inactivity f_t_syn_ack_resend f_recovery];
      vsimpl_goal;
      destruct (opt_min (v_t_ack_delay s1) (opt_min (v_t_retransmit s1) (opt_min (v_t_inactivity s1)
                  (v_t_syn_ack_resend s1)))) as [e|];
      unfold is_recovering in Ar; rewrite <- ?Now1;
      destruct (rv_phase (v_recovery s1)); cbn [rev app];
      try (destruct Ar as [Ar1 Ar2]; destruct Ar2 as [Ar2|Ar2]; try discriminate);
      try discriminate;
      rewrite ?existsb_self_cons;
      repeat (apply andb_true_intro; split); try lia; try reflexivity;
      try (cbn [Z.eqb]; rewrite existsb_app; cbn [existsb is_self]; apply orb_true_r);
      try (destruct (Z.eqb_spec (sat_sub inst (v_now s1)) 0); [lia|reflexivity]).
  - unfold timer_post_ok, opt_min4.
    cbn [fp_of_vsock f_t_ack_delay f_t_retransmit f_t_inactivity f_t_syn_ack_resend f_recovery].
    vsimpl_goal. rewrite Arm1.
    destruct (opt_min (v_t_ack_delay s1) (opt_min (v_t_retransmit s1) (opt_min (v_t_inactivity s1)
                (v_t_syn_ack_resend s1)))); [contradiction|reflexivity].
Qed.

(* the predicate, for every poll that starts with the recovery-pipe timer idle *)
(* pipe_idle, c02_timer_ok_g: Conn/C02_Pred.v *)

Theorem c02_timer_ok_step : forall cfg (s : vsock) o,
  ti s -> pipe_idle (fp_of_vsock cci s) = true -> c02_timer_ok cfg (fstep_of cci s o) = true.
Proof.
  intros cfg s o Hti Hpi.
  destruct o; try (unfold c02_timer_ok; rewrite fstep_of_event; reflexivity).
  destruct (poll cci (VSockRec.set_sends s script)) as [s' r] eqn:E.
  destruct r; try (rewrite (fstep_of_poll cci s script s' _ E); reflexivity).
  rewrite (timer_ok_poll cfg s script s' E).
  destruct (v_transport_pending s') eqn:Tp; [reflexivity|].
  assert (Hpn : PN (VSockRec.set_sends s script)).
  { unfold PN, pipe_idle in *. cbn [fp_of_vsock f_t_recovery_pipe] in Hpi.
    change (v_t_recovery_pipe (VSockRec.set_sends s script)) with (v_t_recovery_pipe s).
    destruct (v_t_recovery_pipe s); [discriminate|reflexivity]. }
  destruct (poll_pipe_tail cci (VSockRec.set_sends s script) s' Hti Hpn E Tp) as (sb & _ & A & W & K & Tb & ->).
  apply timer_tail_ok; assumption.
Qed.

Theorem c02_timer_ok_g_step : forall cfg (s : vsock) o,
  ti s -> c02_timer_ok_g cfg (fstep_of cci s o) = true.
Proof.
  intros cfg s o Hti. unfold c02_timer_ok_g. rewrite fstep_of_pre.
  destruct (pipe_idle (fp_of_vsock cci s)) eqn:Hpi; [|reflexivity].
  apply c02_timer_ok_step; assumption.
Qed.

Theorem c02_timer_ok_g_trace : forall cfg mk c (s0 : vsock) ops,
  vsock_new cci mk c = Some s0 -> forallb (c02_timer_ok_g cfg) (ftrace cci s0 ops) = true.
Proof.
  intros cfg mk c s0 ops H0.
  apply (ftrace_forallb cci ti).
  - intros s o Hp. apply c02_timer_ok_g_step; exact Hp.
  - intros s o Hp. apply ti_vstep; exact Hp.
  - eapply ti_vsock_new; exact H0.
Qed.

(* between polls: a writable transport at the end of the last poll means an idle pipe timer, so the
   guard can also be read off the transport flag *)
Definition pq (s : vsock) : Prop := v_transport_pending s = false -> v_t_recovery_pipe s = None.

Lemma poll_tail_pipe : forall (sb : vsock),
  v_transport_pending sb = false -> v_t_recovery_pipe (poll_tail sb) = None.
Proof.
  intros sb Tp. unfold poll_tail, next_timer_to_poll.
  match goal with |- context [v_transport_pending ?x] =>
    assert (E : v_transport_pending x = false) by (destruct (is_local_fin_or_later _); exact Tp);
    rewrite E end.
  unfold arm_in, add_wakes. repeat break_match; reflexivity.
Qed.

Lemma vstep_nonpoll_pq : forall (s : vsock) o,
  match o with VoPoll _ => True | _ =>
    v_transport_pending (vstep_state cci s o) = v_transport_pending s /\
    v_t_recovery_pipe (vstep_state cci s o) = v_t_recovery_pipe s
  end.
Proof.
  intros s o. unfold vstep_state. destruct o.
  - cbn [vstep fst]; split; exact eq_refl.
  - cbn [vstep fst]; split; exact eq_refl.
  - exact I.
  - cbn [vstep]. destruct (v_inbox_closed s); cbn [fst]; split; exact eq_refl.
  - cbn [vstep fst]; split; exact eq_refl.
  - cbn [vstep]. destruct (writer_dropped _); [|destruct (poll_write _ _) as [[tx1 r] w]];
      cbn [fst]; split; exact eq_refl.
  - cbn [vstep]. destruct (writer_dropped _); [|destruct (poll_flush _) as [[tx1 r] w]];
      cbn [fst]; split; exact eq_refl.
  - cbn [vstep]. destruct (writer_dropped _); [|destruct (poll_shutdown _) as [[tx1 r] w]];
      cbn [fst]; split; exact eq_refl.
  - cbn [vstep]. destruct (reader_dropped _); [|destruct (rx_read _ _) as [[rx1 r] w]];
      cbn [fst]; split; exact eq_refl.
  - cbn [vstep]. destruct (reader_dropped _); [|destruct (rx_drop_reader _) as [rx1 w]];
      cbn [fst]; split; exact eq_refl.
  - cbn [vstep]. destruct (drop_writer _) as [tx1 w]; cbn [fst]; split; exact eq_refl.
Qed.

Lemma pq_vstep_live : forall (s : vsock) o,
  pq s -> poll_finished (vstep_out cci s o) = false -> pq (vstep_state cci s o).
Proof.
  intros s o Hp Hl. pose proof (vstep_nonpoll_pq s o) as K.
  destruct o; try (destruct K as [K1 K2]; unfold pq; rewrite K1, K2; exact Hp).
  destruct (poll cci (VSockRec.set_sends s script)) as [s' r] eqn:E.
  destruct (vstep_poll cci s script s' r E) as [V1 V2]. rewrite V1. rewrite V2 in Hl.
  destruct r; try discriminate. intro Tp.
  apply poll_pending_inv in E; [|exact Tp].
  destruct E as (sa & sb & b & _ & _ & _ & _ & _ & _ & Tb & ->). apply poll_tail_pipe. exact Tb.
Qed.

Lemma pq_vsock_new : forall mk c s, vsock_new cci mk c = Some s -> pq s.
Proof.
  intros mk c s H. unfold vsock_new in H.
  destruct (match (if vc_incoming c then None else _) with Some r => _ | None => _ end); [|discriminate].
  inversion H; subst. intros _. reflexivity.
Qed.

Definition c02_timer_ok_p (c : vconfig) (st : fstep) : bool :=
  if negb (f_transport_pending (fs_pre st)) then c02_timer_ok c st else true.

Theorem c02_timer_ok_p_step : forall cfg (s : vsock) o,
  ti s -> pq s -> c02_timer_ok_p cfg (fstep_of cci s o) = true.
Proof.
  intros cfg s o Hti Hpq. unfold c02_timer_ok_p. rewrite fstep_of_pre.
  cbn [fp_of_vsock f_transport_pending]. destruct (v_transport_pending s) eqn:Tp; [reflexivity|].
  cbn [negb]. apply c02_timer_ok_step; [exact Hti|].
  unfold pipe_idle. cbn [fp_of_vsock f_t_recovery_pipe]. rewrite (Hpq Tp). reflexivity.
Qed.

Theorem c02_timer_ok_p_trace : forall cfg mk c (s0 : vsock) ops,
  vsock_new cci mk c = Some s0 -> forallb (c02_timer_ok_p cfg) (ftrace cci s0 ops) = true.
Proof.
  intros cfg mk c s0 ops H0.
  apply (ftrace_forallb_live cci (fun s => ti s /\ pq s)).
  - intros s o [H1 H2]. apply c02_timer_ok_p_step; assumption.
  - intros s o [H1 H2] Hl. split; [apply ti_vstep; exact H1 | apply pq_vstep_live; assumption].
  - split; [eapply ti_vsock_new; exact H0 | eapply pq_vsock_new; exact H0].
Qed.

End WithCC.

(* ------------------------------------------------------------------ c02_timer_ok without the guard
   is FALSE of the model: a poll that ends with the transport blocked keeps the recovery-pipe timer
   it armed (next_timer_to_poll clears it only when the transport is writable); when the next poll
   leaves recovery, the stale timer is still the one the sleep is armed for, although the
   connection is no longer Recovering.
   Scenario (constant window 1000, nagle off): write 528 bytes, poll (segment 101 sent), four
   duplicate ACKs, both halves dropped, poll [Sent; Pending] (fast retransmission, pipe timer armed,
   the FIN blocks), the ACK of 101, poll: sleep armed for 750 us = the stale pipe timer; the
   earliest of the four visible timers is 200 ms away. *)
Definition timer_cfg : vconfig :=
  {| vc_incoming := false; vc_ipv4 := true; vc_link_mtu := 1500; vc_rx_buf := 1048576;
     vc_tx_init := 32768; vc_tx_max := 1048576; vc_nagle := false; vc_max_retx := 5;
     vc_inactivity := 10000000000; vc_wait_last_ack := true; vc_mtu_probe_max_retx := 1;
     vc_isn := 100; vc_remote_seq := 1; vc_remote_conn_id := 7; vc_remote_wnd := 1048576;
     vc_remote_ts := 5; vc_syn_sent := 0; vc_now0 := 1000000 |}.

Definition timer_dup : msg := wmsg ST_STATE 1 100 0.

Definition timer_ops : list vop :=
  [VoWrite (repeat 0 (Z.to_nat 528)); VoPoll [];
   VoDeliver timer_dup; VoDeliver timer_dup; VoDeliver timer_dup; VoDeliver timer_dup;
   VoDropReader; VoDropWriter;
   VoPoll [TSent; TPending]; VoDeliver (wmsg ST_STATE 1 101 0); VoPoll []].

Lemma timer_ok_stale_pipe_refuted :
  exists w cfg ops,
    vconfig_ok cfg = true /\ Forall op_msg_ok ops /\
    forallb (c02_timer_ok cfg) (wtrace w cfg ops) = false /\
    (* the failing step starts with the pipe timer armed and the transport flag set *)
    forallb (c02_timer_ok_g cfg) (wtrace w cfg ops) = true /\
    forallb (c02_timer_ok_p cfg) (wtrace w cfg ops) = true /\
    (* and the guards are met by the other polls of the scenario *)
    existsb (fun st => pipe_idle (fs_pre st) &&
                       match fs_result st with FrPoll PollPending _ _ _ => true | _ => false end)
            (wtrace w cfg ops) = true.
Proof.
  exists 1000, timer_cfg, timer_ops.
  split; [vm_compute; reflexivity|]. split; [repeat constructor|].
  split; [vm_compute; reflexivity|]. split; [vm_compute; reflexivity|].
  split; vm_compute; reflexivity.
Qed.

(* ------------------------------------------------------------------ the guards are met by
   reachable states (the theorems above are not vacuous) *)
Definition zw_ops : list vop :=
  [VoPoll []; VoDeliver (wmsg ST_DATA 1 100 528); VoDeliver (wmsg ST_DATA 2 100 528); VoPoll [];
   VoRead 3000; VoPoll []].

(* receive buffer of two segments, two full segments delivered: the window advertised is zero, the
   MSS is the creation-time one, the dispatcher waker IS registered *)
Lemma zero_window_guard_nonvacuous :
  exists w cfg ops,
    vconfig_ok cfg = true /\ Forall op_msg_ok ops /\
    existsb (fun st => zero_window_guard st && negb (c02_d9_class cfg st)) (wtrace w cfg ops) = true /\
    forallb (c02_zero_window_waker cfg) (wtrace w cfg ops) = true.
Proof.
  exists 1056, (wcfg 1056), zw_ops.
  split; [vm_compute; reflexivity|]. split.
  { repeat constructor; cbv [op_msg_ok msg_ok wmsg m_hdr ch_type m_payload]; vm_compute; discriminate. }
  split; vm_compute; reflexivity.
Qed.

(* data outstanding, our FIN not: the case c02_rto_armed_step_nofin covers (witness of D14) *)
Lemma rto_armed_nofin_nonvacuous :
  exists w cfg ops,
    vconfig_ok cfg = true /\ Forall op_msg_ok ops /\
    existsb (fun st => data_outstanding (fs_post st) && negb (fin_outstanding (fs_post st)) &&
                       negb (f_transport_pending (fs_post st)) &&
                       match fs_result st with FrPoll PollPending _ _ _ => true | _ => false end)
            (wtrace w cfg ops) = true /\
    forallb (c02_rto_armed cfg) (wtrace w cfg ops) = true.
Proof.
  exists 1056, d14_cfg, d14_ops.
  split; [vm_compute; reflexivity|]. split; [repeat constructor|].
  split; vm_compute; reflexivity.
Qed.

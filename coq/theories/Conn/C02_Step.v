(* C02 — the step predicates of Conn/C02_Pred.v as THEOREMS about every step of the model
   (forall state satisfying a proved invariant, forall event) and about every trace from vsock_new. *)
From Utp Require Import Base.Prelude Wire.SeqNr Wire.Header Rtt.Rtte Mtu.SegSizes Rx.Rx Rx.Rx_Proofs
  Tx.Ring Tx.Segments Conn.Recovery Conn.Msg Conn.VSockRec Conn.VSock Conn.VSockRun Conn.VObs
  Conn.C10_Pred Conn.C02_Pred Conn.VSock_Lemmas Conn.VSock_LemmasStep Conn.VSock_LemmasReach
  Conn.VSock_LemmasPark.

Section WithCC.
Context {CC : Type} (cci : cc_iface CC).
Notation vsock := (vsock CC).

(* ================================================================== c02_parked_ok *)
(* after EVERY event: a registered reader waker implies an empty user queue and a read half that is
   not marked closed; a registered writer waker implies a write half that is not marked closed *)
Lemma pk_parked_fp : forall cfg (st : fstep) (s' : vsock),
  fs_post st = fp_of_vsock cci s' -> pk s' -> c02_parked_ok cfg st = true.
Proof.
  intros cfg st s' E [[Hq Hr] Ht]. unfold c02_parked_ok. rewrite E.
  cbn [fp_of_vsock f_rx_reader_waker f_rx_qbytes f_rx_closed f_tx_writer_waker f_tx_closed].
  apply andb_true_intro. split.
  - destruct (reader_waker (v_rx s')) eqn:Erw; [|reflexivity].
    destruct (Hr eq_refl) as [K1 K2]. rewrite Hq, K1, K2. reflexivity.
  - destruct (writer_waker (v_tx s')) eqn:Eww; [|reflexivity]. rewrite (Ht Eww). reflexivity.
Qed.

Theorem c02_parked_ok_step : forall cfg (s : vsock) o,
  pk s -> pk (vstep_state cci s o) /\ c02_parked_ok cfg (fstep_of cci s o) = true.
Proof.
  intros cfg s o Hp. pose proof (pk_vstep cci s o Hp) as Hp'. split; [exact Hp'|].
  eapply pk_parked_fp; [apply fstep_of_post | exact Hp'].
Qed.

Theorem c02_parked_ok_trace : forall cfg mk c (s0 : vsock) ops,
  vsock_new cci mk c = Some s0 -> forallb (c02_parked_ok cfg) (ftrace cci s0 ops) = true.
Proof.
  intros cfg mk c s0 ops H0.
  apply (ftrace_forallb cci pk).
  - intros s o Hp. apply c02_parked_ok_step; exact Hp.
  - intros s o Hp. apply pk_vstep; exact Hp.
  - eapply pk_vsock_new; exact H0.
Qed.

End WithCC.

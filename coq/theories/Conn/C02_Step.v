(* C02 — the step predicates of Conn/C02_Pred.v as THEOREMS about every step of the model
   (forall state satisfying a proved invariant, forall event) and about every trace from vsock_new. *)
From Utp Require Import Base.Prelude Wire.SeqNr Wire.Header Rtt.Rtte Mtu.SegSizes Rx.Rx Rx.Rx_Proofs
  Tx.Ring Tx.Segments Conn.Recovery Conn.Msg Conn.VSockRec Conn.VSock Conn.VSockRun Conn.VObs
  Conn.C10_Pred Conn.C02_Pred Conn.VSock_Lemmas Conn.VSock_LemmasStep Conn.VSock_LemmasReach
  Conn.VSock_LemmasPark Tx.Segments_ProofsOut Conn.VSock_LemmasTimers.

Section WithCC.
Context {CC : Type} (cci : cc_iface CC).
Notation vsock := (vsock CC).

(* ================================================================== c02_parked_ok *)
(* after EVERY event: a registered reader waker implies an empty user queue and a read half that is
   not marked closed; a registered writer waker implies a write half that is not marked closed *)
Lemma pk_parked_fp : forall cfg (st : fstep) (s' : vsock),
  fs_post st = fp_of_vsock cci s' -> pk s' -> c02_parked_ok cfg st = true.
Proof.
  intros cfg st s' E [[Hq Hr] Ht]. unfold c02_parked_ok. rewrite E.
  cbn [fp_of_vsock f_rx_reader_waker f_rx_qbytes f_rx_closed f_tx_writer_waker f_tx_closed].
  apply andb_true_intro. split.
  - destruct (reader_waker (v_rx s')) eqn:Erw; [|reflexivity].
    destruct (Hr eq_refl) as [K1 K2]. rewrite Hq, K1, K2. reflexivity.
  - destruct (writer_waker (v_tx s')) eqn:Eww; [|reflexivity]. rewrite (Ht Eww). reflexivity.
Qed.

Theorem c02_parked_ok_step : forall cfg (s : vsock) o,
  pk s -> pk (vstep_state cci s o) /\ c02_parked_ok cfg (fstep_of cci s o) = true.
Proof.
  intros cfg s o Hp. pose proof (pk_vstep cci s o Hp) as Hp'. split; [exact Hp'|].
  eapply pk_parked_fp; [apply fstep_of_post | exact Hp'].
Qed.

Theorem c02_parked_ok_trace : forall cfg mk c (s0 : vsock) ops,
  vsock_new cci mk c = Some s0 -> forallb (c02_parked_ok cfg) (ftrace cci s0 ops) = true.
Proof.
  intros cfg mk c s0 ops H0.
  apply (ftrace_forallb cci pk).
  - intros s o Hp. apply c02_parked_ok_step; exact Hp.
  - intros s o Hp. apply pk_vstep; exact Hp.
  - eapply pk_vsock_new; exact H0.
Qed.

(* ================================================================== c02_rto_armed *)
(* the two disjuncts of [outstanding] *)
Definition data_outstanding (f : vfp) : bool :=
  existsb (fun g => (0 <? fg_sent_kind g) && negb (fg_delivered g)) (f_segs f).

Definition fin_outstanding (f : vfp) : bool :=
  match our_fin_if_unacked (f_state f) with
  | Some fin => f_last_sent_seq_nr f =? fin
  | None => false
  end.

Lemma outstanding_split : forall f, outstanding f = data_outstanding f || fin_outstanding f.
Proof. reflexivity. Qed.

(* the data half of c02_rto_armed: a sent, undelivered segment keeps the retransmission timer armed *)
Definition c02_rto_armed_data (c : vconfig) (st : fstep) : bool :=
  match fs_event st, fs_result st with
  | FePoll _, FrPoll PollPending _ _ _ =>
      let f := fs_post st in
      if negb (f_transport_pending f) && data_outstanding f
      then match f_t_retransmit f with Some _ => true | None => false end
      else true
  | _, _ => true
  end.

Lemma data_outstanding_fp : forall (s : vsock),
  data_outstanding (fp_of_vsock cci s) = segs_out (ss_segs (v_segs s)).
Proof.
  intros s. unfold data_outstanding. cbn [fp_of_vsock f_segs].
  apply segs_out_existsb. intros g. unfold fseg_of, seg_out, seg_sent_b. cbn [fg_sent_kind fg_delivered].
  destruct (sg_sent g); reflexivity.
Qed.

Lemma ti_timer_fp : forall (s : vsock),
  ti s -> data_outstanding (fp_of_vsock cci s) = true ->
  match f_t_retransmit (fp_of_vsock cci s) with Some _ => true | None => false end = true.
Proof.
  intros s (_ & _ & Hrd) H. rewrite data_outstanding_fp in H. specialize (Hrd H).
  cbn [fp_of_vsock f_t_retransmit]. destruct (v_t_retransmit s); [reflexivity|congruence].
Qed.

(* after EVERY poll (whatever its result, transport pending or not) *)
Theorem c02_rto_armed_data_step : forall cfg (s : vsock) o,
  ti s -> ti (vstep_state cci s o) /\ c02_rto_armed_data cfg (fstep_of cci s o) = true.
Proof.
  intros cfg s o Hti. pose proof (ti_vstep cci s o Hti) as Hti'. split; [exact Hti'|].
  unfold c02_rto_armed_data. rewrite fstep_of_event, fstep_of_result, fstep_of_post.
  destruct (fevent_of o); try reflexivity.
  destruct (fresult_of _); try reflexivity. destruct r; try reflexivity.
  destruct (negb _ && data_outstanding _) eqn:G; [|reflexivity].
  apply andb_true_iff in G. destruct G as [_ G]. apply ti_timer_fp; assumption.
Qed.

(* the predicate of Conn/C02_Pred.v itself, whenever our FIN is not the outstanding thing *)
Theorem c02_rto_armed_step_nofin : forall cfg (s : vsock) o,
  ti s -> fin_outstanding (fs_post (fstep_of cci s o)) = false ->
  c02_rto_armed cfg (fstep_of cci s o) = true.
Proof.
  intros cfg s o Hti Hf. pose proof (ti_vstep cci s o Hti) as Hti'.
  unfold c02_rto_armed. rewrite outstanding_split, Hf, orb_false_r.
  rewrite fstep_of_event, fstep_of_result, fstep_of_post.
  destruct (fevent_of o); try reflexivity.
  destruct (fresult_of _); try reflexivity. destruct r; try reflexivity.
  destruct (negb _ && data_outstanding _) eqn:G; [|reflexivity].
  apply andb_true_iff in G. destruct G as [_ G]. apply ti_timer_fp; assumption.
Qed.

Theorem c02_rto_armed_data_trace : forall cfg mk c (s0 : vsock) ops,
  vsock_new cci mk c = Some s0 -> forallb (c02_rto_armed_data cfg) (ftrace cci s0 ops) = true.
Proof.
  intros cfg mk c s0 ops H0.
  apply (ftrace_forallb cci ti).
  - intros s o Hp. apply c02_rto_armed_data_step; exact Hp.
  - intros s o Hp. apply ti_vstep; exact Hp.
  - eapply ti_vsock_new; exact H0.
Qed.

End WithCC.

(* C07 — acknowledgement timeliness: the property clauses as boolean predicates over one
   step of a connection trace (Conn/VObs.v).  Model only: no proofs in this file.
   Every predicate has the shape  if <guard> then <claim> else true. *)
From Utp Require Import Base.Prelude Wire.SeqNr Wire.Header Rtt.Rtte Mtu.SegSizes Rx.Rx Tx.Ring
  Tx.Segments Conn.Recovery Conn.Msg Conn.VSockRec Conn.VSock Conn.VSockRun Conn.VObs.

(* the step is a poll that returned Pending and left the transport writable
   (this_poll.transport_pending = false): the poll ran to its end *)
Definition c07_poll_done (st : fstep) : bool :=
  match fs_event st, fs_result st with
  | FePoll _, FrPoll PollPending _ _ _ => negb (f_transport_pending (fs_post st))
  | _, _ => false
  end.

Definition c07_pkts (st : fstep) : list fpacket :=
  match fs_result st with FrPoll _ pk _ _ => pk | _ => [] end.

(* The property's constants are written as literals here (twice the segment size, 40 ms in ns):
   the theorems about these predicates hold only while the model's IMMEDIATE_ACK_EVERY_RMSS and
   ACK_DELAY (re-read from the compiled crate on every run) have these values. *)

(* immediate ACK: after such a poll fewer than 2*mss consumed bytes are unacknowledged
   (every immediate-ACK trigger raises the counter to >= 2*mss or to usize::MAX, so none is
   left pending without a clock advance) *)
Definition c07_immediate_ok (cfg : vconfig) (st : fstep) : bool :=
  if c07_poll_done st then
    f_cbu (fs_post st) <? 2 * f_mss (fs_post st)
  else true.

(* assumed-and-monitored precondition of the delayed-ACK clause: unacknowledged consumed bytes
   imply that the ack number to send is ahead of the last one sent, as the tolerance-limited
   sequence comparison sees it (false only if last_consumed ran more than WRAP_TOLERANCE ahead
   across the u16 wrap, see D4) *)
Definition c07_pre (fp : vfp) : bool :=
  if 0 <? f_cbu fp then seq_gt (f_last_consumed fp) (f_last_sent_ack_nr fp) else true.

Definition c07_pre_monitor (cfg : vconfig) (st : fstep) : bool :=
  if c07_poll_done st then c07_pre (fs_post st) else true.

(* delayed ACK: unacknowledged consumed bytes => the delayed-ACK timer is armed, expires within
   40 ms of this poll, and (no packet sent in this poll) not later than it did before *)
Definition c07_delayed_ok (cfg : vconfig) (st : fstep) : bool :=
  if c07_poll_done st && c07_pre (fs_post st) && (0 <? f_cbu (fs_post st)) then
    match f_t_ack_delay (fs_post st) with
    | Some e =>
        (e <=? fs_now st + 40000000) &&
        match c07_pkts st, f_t_ack_delay (fs_pre st) with
        | [], Some e0 => e <=? e0
        | _, _ => true
        end
    | None => false
    end
  else true.

(* a poll at/after the expiry of the delayed-ACK timer sends a packet (every packet carries the
   current ack number), or there was nothing to acknowledge and the timer is turned off *)
Definition c07_fires_ok (cfg : vconfig) (st : fstep) : bool :=
  if c07_poll_done st then
    match f_t_ack_delay (fs_pre st) with
    | Some e0 =>
        if e0 <=? fs_now st then
          match c07_pkts st with
          | [] => negb (seq_gt (f_last_consumed (fs_post st)) (f_last_sent_ack_nr (fs_post st)))
                  && match f_t_ack_delay (fs_post st) with None => true | Some _ => false end
          | _ :: _ => true
          end
        else true
    | None => true
    end
  else true.

(* ---- silence when idle: PARTIAL — evaluated on every implementation trace, no theorem yet
   (c07_silent_when_idle is not proved; missing: the forward run of poll_body from an idle state
   and `a completed poll leaves the inbox empty`).  Trace level: whether the inbox can hold a message is not part of
   the fingerprint, it is tracked from the events) ---- *)
Definition timer_quiet (t : option Z) (now : Z) : bool :=
  match t with Some e => now <? e | None => true end.

(* guard on the fingerprint before the poll *)
Definition c07_idle_pre (now : Z) (fp : vfp) : bool :=
  match f_state fp with Established => true | _ => false end &&
  match f_segs fp with [] => true | _ => false end &&
  (f_tx_len fp =? 0) && (f_cbu fp =? 0) && (0 <? f_mss fp) &&
  (f_last_consumed fp =? f_last_sent_ack_nr fp) &&
  timer_quiet (f_t_retransmit fp) now && timer_quiet (f_t_inactivity fp) now &&
  timer_quiet (f_t_ack_delay fp) now &&
  negb (f_tx_writer_shutdown fp) && negb (f_rx_reader_dropped fp && f_tx_writer_dropped fp) &&
  negb (f_transport_pending fp).

(* the zero/non-zero status of the advertised window did not change in this poll
   (a change is the window-update trigger, which must send) *)
Definition c07_wnd_status_same (st : fstep) : bool :=
  Bool.eqb (f_last_sent_window (fs_pre st) =? 0) (f_last_sent_window (fs_post st) =? 0).

(* state of the trace walk: may the inbox be non-empty / closed? *)
Fixpoint c07_idle_walk (inbox_dirty : bool) (tr : list fstep) : bool :=
  match tr with
  | [] => true
  | st :: rest =>
      match fs_event st with
      | FeDeliver _ _ | FeCloseInbox => c07_idle_walk true rest
      | FePoll _ =>
          (if negb inbox_dirty && c07_idle_pre (fs_now st) (fs_pre st) && c07_poll_done st
              && c07_wnd_status_same st
           then match c07_pkts st with [] => true | _ => false end
           else true)
          && c07_idle_walk (if c07_poll_done st then false else inbox_dirty) rest
      | _ => c07_idle_walk inbox_dirty rest
      end
  end.

Definition c07_idle_silent_partial (cfg : vconfig) (tr : list fstep) : bool := c07_idle_walk false tr.

(* the window an ACK sent now would advertise, from the fingerprint (VirtualSocket::rx_window) *)
Definition fp_rx_window (f : vfp) : Z :=
  let rem := if f_rx_reader_dropped f then 0 else sat_sub (f_rx_last_remaining f) (f_rx_len_bytes f) in
  let wnd := rem mod M32 in
  if wnd <? f_mss f then 0 else wnd - (wnd mod f_mss f).

(* window re-opens from zero (or closes to zero): a poll that ran to its end leaves the window last
   advertised and the window it would advertise now on the same side of zero - the update was sent in
   this very poll, without any clock advance - until the peer's FIN has been seen *)
Definition c07_window_update_ok (cfg : vconfig) (st : fstep) : bool :=
  if c07_poll_done st && negb (is_remote_fin_or_later (f_state (fs_post st))) then
    Bool.eqb (fp_rx_window (fs_post st) =? 0) (f_last_sent_window (fs_post st) =? 0)
  else true.

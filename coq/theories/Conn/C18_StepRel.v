(* C18 at the level of a whole poll — what each function of poll_body does to
   (segs, last_remote_window, ss, inbox, opts, unsegmented):
   [keepr] nothing (control packets, timers, transitions), [stx] the send path (re-flag, or pop the
   probe that was too long and restart), [pimrel] incoming messages (remove, re-flag),
   [kfl] flags only. *)
From Utp Require Import Base.Prelude Wire.SeqNr Wire.Header Rtt.Rtte Mtu.SegSizes
  Rx.Rx Tx.Ring Tx.Segments Tx.Segments_Proofs Conn.Recovery Conn.Msg Conn.VSockRec Conn.VSock
  Conn.VSockRun Conn.VObs Conn.VSock_Lemmas Conn.VSock_LemmasStep Conn.VSock_LemmasReach
  Conn.C18_Pred Conn.C18_Proofs Conn.C18_StepLemmas.

(* ================================================================== 4. the functions of poll_body *)
Section WithCC.
Context {CC : Type} (cci : cc_iface CC).
Notation vsock := (vsock CC).

(* what the send path never touches *)
Definition kx (s s' : vsock) : Prop :=
  v_last_remote_window s' = v_last_remote_window s /\ v_inbox s' = v_inbox s /\
  v_opts s' = v_opts s /\ v_unsegmented s' = v_unsegmented s.

Lemma kx_refl s : kx s s.
Proof. repeat split. Qed.
Lemma kx_trans a b c : kx a b -> kx b c -> kx a c.
Proof. intros (A1 & A2 & A3 & A4) (B1 & B2 & B3 & B4). repeat split; congruence. Qed.

(* nothing of the segmentation state changes (control packets, timers, state transitions) *)
Definition keep (s s' : vsock) : Prop :=
  kx s s' /\ v_ss s' = v_ss s /\ v_segs s' = v_segs s.
Definition keepr (s s' : vsock) : Prop := keep s s' /\ v_restart s' = v_restart s.

Lemma keep_refl s : keep s s.
Proof. repeat split. Qed.
Lemma keep_trans a b c : keep a b -> keep b c -> keep a c.
Proof. intros (A1 & A2 & A3) (B1 & B2 & B3). split; [eapply kx_trans; eauto|]. split; congruence. Qed.
Lemma keepr_refl s : keepr s s.
Proof. split; [apply keep_refl|reflexivity]. Qed.
Lemma keepr_trans a b c : keepr a b -> keepr b c -> keepr a c.
Proof. intros (A1 & A2) (B1 & B2). split; [eapply keep_trans; eauto|congruence]. Qed.

(* only flags of segments change *)
Definition kfl (s s' : vsock) : Prop :=
  kx s s' /\ v_ss s' = v_ss s /\ tfl seg_eq (v_segs s) (v_segs s').

Lemma kfl_refl s : kfl s s.
Proof. split; [apply kx_refl|]. split; [reflexivity|apply tfl_refl, seg_eq_refl]. Qed.
Lemma kfl_trans a b c : kfl a b -> kfl b c -> kfl a c.
Proof.
  intros (A1 & A2 & A3) (B1 & B2 & B3). split; [eapply kx_trans; eauto|]. split; [congruence|].
  eapply tfl_trans; eauto using seg_eq_trans.
Qed.
Lemma keep_kfl s s' : keep s s' -> kfl s s'.
Proof. intros (A1 & A2 & A3). split; [exact A1|]. split; [exact A2|]. rewrite A3. apply tfl_refl, seg_eq_refl. Qed.

(* the send path: flags change, or the probe that was too long is popped and the poll restarts *)
Inductive stx : vsock -> vsock -> Prop :=
| stx_refl : forall s, stx s s
| stx_trans : forall a b c, stx a b -> stx b c -> stx a c
| stx_flag : forall s s', kfl s s' -> v_restart s' = v_restart s -> stx s s'
| stx_pop : forall s s', kx s s' -> mss (v_ss s') = mss (v_ss s) -> v_restart s' = true ->
    tpop (v_segs s) (v_segs s') -> stx s s'.

Lemma keepr_stx s s' : keepr s s' -> stx s s'.
Proof. intros (A & B). apply stx_flag; [apply keep_kfl; exact A | exact B]. Qed.

Lemma stx_restart s s' : stx s s' ->
  (v_restart s = true -> v_restart s' = true) /\ (v_restart s' = false -> kfl s s').
Proof.
  intro H. induction H as [s|a b c _ [IH1 IH1'] _ [IH2 IH2']|s s' K R|s s' K M R P].
  - split; [auto|]. intros _. apply kfl_refl.
  - split; [auto|]. intros Rc.
    assert (Rb : v_restart b = false).
    { destruct (v_restart b) eqn:E; [|reflexivity]. rewrite (IH2 eq_refl) in Rc. discriminate. }
    eapply kfl_trans; eauto.
  - split; [congruence|]. intros _. exact K.
  - split; [auto|]. congruence.
Qed.

Notation stk := (stR keepr).
Notation sts := (stR stx).

Lemma stk_sts : forall A (s : vsock) (m : step A), stk s m -> sts s m.
Proof. intros A s m H. destruct m; cbn [stR] in *; auto using keepr_stx. Qed.

Ltac keepr_leaf := unfold keepr, keep, kx; repeat split; exact eq_refl.
Ltac keepr_via H := eapply keepr_trans; [exact H | keepr_leaf].

Lemma next_send_keepr : forall (s : vsock) n s1 o, next_send s n = (s1, o) -> keepr s s1.
Proof.
  intros s n s1 o H. unfold next_send in H.
  repeat break_match_hyp H; inversion H; subst; try inversion Heqp; subst; keepr_leaf.
Qed.

Lemma send_control_packet_keepr : forall (s : vsock) h, stk s (send_control_packet s h).
Proof.
  intros s h. unfold send_control_packet.
  destruct (v_transport_pending s); [apply keepr_refl|].
  destruct (next_send s _) as [s1 o] eqn:E. apply next_send_keepr in E.
  destruct o; cbn [stR]; auto; unfold on_packet_sent, emit; keepr_via E.
Qed.

Lemma send_ack_keepr : forall (s : vsock), stk s (send_ack s).
Proof. intros s. unfold send_ack. apply send_control_packet_keepr. Qed.

Lemma maybe_send_fin_keepr : forall (s : vsock), stk s (maybe_send_fin s).
Proof.
  intros s. unfold maybe_send_fin.
  destruct (v_transport_pending s); [apply keepr_refl|].
  destruct (our_fin_if_unacked (v_state s)); [|apply keepr_refl].
  destruct (negb _); [apply keepr_refl|].
  apply (stR_sbind keepr keepr_trans); [apply send_control_packet_keepr|].
  intros s1 [|]; cbn [stR]; [keepr_leaf | apply keepr_refl].
Qed.

Lemma maybe_send_ack_keepr : forall (s : vsock), stk s (maybe_send_ack s).
Proof.
  intros s. unfold maybe_send_ack.
  pose proof (send_ack_keepr s) as G.
  destruct (immediate_ack_to_transmit s); [exact G|].
  destruct (should_send_window_update s); [exact G|].
  destruct (timer_expired _ _).
  - destruct (ack_to_transmit s); [exact G|]. cbn [stR]. keepr_leaf.
  - destruct (0 <? v_cbu s); cbn [stR]; keepr_leaf.
Qed.

Lemma maybe_send_syn_ack_keepr : forall (s : vsock), stk s (maybe_send_syn_ack s).
Proof.
  intros s. unfold maybe_send_syn_ack.
  assert (G : forall c, stk s
     (if c =? o_max_retx (v_opts s) then SErr s ErrMaxSynAckRetransmissionsReached
      else sbind (send_ack s) (fun s1 sent =>
        if sent then SOk (set_t_syn_ack_resend (set_state s1 (SynAckSent (c + 1)))
               (timer_arm (v_t_syn_ack_resend s1) (v_now s1) SYNACK_RESEND_INTERNAL true)) tt
        else SOk s1 tt))).
  { intros c. destruct (_ =? _); [apply keepr_refl|].
    apply (stR_sbind keepr keepr_trans); [apply send_ack_keepr|].
    intros s1 [|]; cbn [stR]; [keepr_leaf | apply keepr_refl]. }
  destruct (v_state s); try (cbn [stR]; keepr_leaf).
  - apply G.
  - destruct (timer_expired _ _); [apply G | apply keepr_refl].
Qed.

Lemma transition_to_fin_wait_1_keepr : forall (s : vsock), keepr s (transition_to_fin_wait_1 s).
Proof.
  intros s. unfold transition_to_fin_wait_1. destruct (v_state s); first [apply keepr_refl | keepr_leaf].
Qed.

Lemma rx_flush_keepr : forall (s : vsock) rx1 w, keepr s (add_wakes (set_rx s rx1) w).
Proof. intros. unfold add_wakes. keepr_leaf. Qed.

Lemma poll_start_keep : forall (s : vsock), keep s (poll_start s).
Proof. intros s. unfold poll_start, keep, kx. repeat split; exact eq_refl. Qed.

Lemma mark_both_closed_keepr : forall (s : vsock), keepr s (mark_both_closed s).
Proof.
  intros s. unfold mark_both_closed.
  destruct (rx_mark_vsock_closed (v_rx s)) as [rx1 w1]. destruct (mark_vsock_closed (v_tx s)) as [tx1 w2].
  unfold add_wakes. keepr_leaf.
Qed.

Lemma just_before_death_keepr : forall (s : vsock) e, keepr s (just_before_death s e).
Proof.
  intros s e. unfold just_before_death.
  match goal with |- context [mark_both_closed ?x] =>
    assert (F1 : keepr s x); [|revert F1; generalize x; intros s1 F1] end.
  { destruct e; [|apply keepr_refl].
    destruct (rx_enqueue_error _) as [rx1 w]. unfold add_wakes. keepr_leaf. }
  pose proof (keepr_trans _ _ _ F1 (mark_both_closed_keepr s1)) as F3.
  revert F3. generalize (mark_both_closed s1). intros s2 F3. clear F1.
  destruct e; [|exact F3].
  destruct (negb _); [|exact F3].
  match goal with |- context [send_control_packet ?x ?h] =>
    pose proof (send_control_packet_keepr x h) as F4; destruct (send_control_packet x h) end;
    cbn [stR] in F4.
  - eapply keepr_trans; [exact F3|]. eapply keepr_trans; [|exact F4]. keepr_leaf.
  - eapply keepr_trans; [exact F3|]. eapply keepr_trans; [|exact F4]. keepr_leaf.
  - eapply keepr_trans; [exact F3|]. keepr_leaf.
Qed.

Lemma poll_tail_keepr : forall (s : vsock), keepr s (poll_tail s).
Proof.
  intros s. unfold poll_tail.
  match goal with |- context [next_timer_to_poll ?x] =>
    assert (F1 : keepr s x); [|revert F1; generalize x; intros s1 F1] end.
  { destruct (is_local_fin_or_later _); [keepr_leaf | apply keepr_refl]. }
  eapply keepr_trans; [exact F1|].
  unfold next_timer_to_poll. destruct (v_transport_pending s1).
  - destruct (v_t_inactivity s1) as [i|]; [|apply keepr_refl].
    unfold arm_in, add_wakes. destruct (_ <=? 0); keepr_leaf.
  - match goal with |- context [match ?o with Some _ => _ | None => _ end] => destruct o as [i|] end.
    + unfold arm_in, add_wakes. destruct (_ <=? 0); keepr_leaf.
    + keepr_leaf.
Qed.

(* ------------------------------------------------------------------ the data path *)
Ltac stx_leaf := apply keepr_stx; keepr_leaf.
Ltac stx_via H := eapply stx_trans; [exact H | stx_leaf].

Lemma send_data_stx : forall (s : vsock) h f, sts s (send_data s h f).
Proof.
  intros s h f. unfold send_data.
  destruct (_ =? o_max_retx _); [apply stx_refl|].
  destruct (_ <? 0); [exact I|].
  destruct (_ <? fs_payload_offset f); [apply stx_refl|].
  destruct (_ <? _ + _); [apply stx_refl|].
  destruct (next_send s _) as [s1 o] eqn:E. apply next_send_keepr, keepr_stx in E.
  destruct o; cbn [stR]; auto; try (unfold on_packet_sent, emit; stx_via E).
  eapply stx_trans; [exact E|].
  assert (K : forall sx : vsock, v_segs sx = on_sent (v_segs s1) (fs_idx f) (v_now s1) ->
              kx s1 sx -> v_ss sx = v_ss s1 -> v_restart sx = v_restart s1 -> stx s1 sx).
  { intros sx E1 E2 E3 E4. apply stx_flag; [|exact E4]. split; [exact E2|]. split; [exact E3|].
    rewrite E1. apply on_sent_tfl. }
  unfold on_packet_sent, emit.
  destruct (seq_gt _ _); try destruct (seq_gt _ _); apply K; try exact eq_refl; unfold kx; repeat split; exact eq_refl.
Qed.

Lemma on_rto_reactions_keepr : forall (s s1 : vsock), on_rto_reactions cci s = Some s1 -> keepr s s1.
Proof.
  intros s s1 H. unfold on_rto_reactions in H.
  destruct (Rtte.on_rto_timeout _); inversion H; subst. keepr_leaf.
Qed.

Lemma recovery_loop_stx : forall items (s : vsock) h mss0 st,
  sts s (recovery_loop items s h mss0 st).
Proof.
  induction items as [|f rest IH]; intros s h mss0 st; cbn [recovery_loop].
  - apply stx_refl.
  - destruct (negb _); [apply stx_refl|].
    destruct (_ && negb (sg_lost _)); [apply IH|].
    destruct (_ && negb (sg_sacks_after _)); [apply stx_refl|].
    pose proof (send_data_stx s h f) as F.
    destruct (send_data s h f) as [s1 r|s1 e|]; cbn [stR] in *; auto.
    destruct r; cbn [stR]; auto.
    eapply (stR_weaken stx stx_trans); [exact F | apply IH].
Qed.

Lemma new_data_loop_stx : forall items (s : vsock) h remaining,
  sts s (new_data_loop items s h remaining).
Proof.
  induction items as [|f rest IH]; intros s h remaining; cbn [new_data_loop].
  - apply stx_refl.
  - destruct (_ <? _); [apply stx_refl|].
    pose proof (send_data_stx s h f) as F.
    destruct (send_data s h f) as [s1 r|s1 e|]; cbn [stR] in *; auto.
    destruct r; cbn [stR]; auto.
    eapply (stR_weaken stx stx_trans); [exact F | apply IH].
Qed.

Lemma set_recovering_stx : forall (s : vsock) rc, stx s (set_recovering s rc).
Proof. intros. unfold set_recovering. stx_leaf. Qed.

Lemma send_tx_queue_stx : forall (s : vsock), sts s (send_tx_queue cci s).
Proof.
  intros s. unfold send_tx_queue.
  destruct (v_transport_pending s); [apply stx_refl|].
  apply (stR_sbind stx stx_trans).
  - destruct (timer_expired _ _); [|apply stx_refl].
    destruct (iter_for_sending _ _) as [|f l].
    + destruct (our_fin_if_unacked _); [|cbn [stR]; stx_leaf].
      destruct (_ =? _); [|cbn [stR]; stx_leaf].
      apply (stR_weaken stx stx_trans) with (s := set_last_sent_seq_nr s (wsub16 (v_last_sent_seq_nr s) 1));
        [stx_leaf|].
      apply (stR_sbind stx stx_trans); [apply stk_sts, maybe_send_fin_keepr|].
      intros s1 a. destruct a; [|apply stx_refl].
      destruct (on_rto_reactions cci s1) eqn:E; [|exact I]. apply on_rto_reactions_keepr, keepr_stx in E.
      cbn [stR]. stx_via E.
    + pose proof (send_data_stx s (outgoing_header s) f) as Hd.
      destruct (send_data _ _ f) as [s1 r|s1 e|]; cbn [stR] in *; auto.
      destruct r; cbn [stR]; auto.
      cbv zeta.
      match goal with |- stR _ _ (match ?o with _ => _ end) => destruct o as [s2|] eqn:E end; [|exact I].
      assert (F2 : stx s1 s2).
      { destruct (negb _); [apply keepr_stx, on_rto_reactions_keepr; exact E|injection E as <-; apply stx_refl]. }
      cbn [stR]. pose proof (stx_trans _ _ _ Hd F2) as F3. stx_via F3.
  - intros s1 ret. destruct ret; [apply stx_refl|].
    destruct (0 <? _); [apply stx_refl|]. destruct (ss_segs _); [apply stx_refl|].
    apply (stR_sbind stx stx_trans).
    + destruct (rv_phase _); try apply stx_refl.
      apply (stR_sbind stx stx_trans); [apply recovery_loop_stx|].
      intros s2 [st early]. cbv beta iota zeta.
      destruct early; [apply set_recovering_stx|].
      match goal with |- stR _ _ (match our_fin_if_unacked (v_state ?y) with _ => _ end) =>
        assert (F3 : stx s2 y); [|revert F3; generalize y; intros sy F3] end.
      { eapply stx_trans; [apply set_recovering_stx|].
        destruct (_ <? _); [|apply stx_refl]. destruct (rc_recalc _); [stx_leaf|].
        destruct (0 <? _); [stx_leaf|apply stx_refl]. }
      destruct (our_fin_if_unacked _); [destruct (_ =? _)|]; cbn [stR]; auto.
      eapply stx_trans; [exact F3|]. unfold set_recovering. stx_leaf.
    + intros s2 ret. destruct ret; [apply stx_refl|].
      apply (stR_sbind stx stx_trans); [apply new_data_loop_stx|].
      intros s3 tl. destruct tl as [[sq sz]|]; [|apply stx_refl].
      destruct (pop_mtu_probe _ _) as [segs' popped] eqn:Ep.
      destruct (pop_mtu_probe_spec _ _ _ _ Ep) as [[-> P]|[-> _]]; cbn [stR]; [|apply stx_refl].
      apply stx_pop.
      * unfold kx. repeat split; exact eq_refl.
      * cbn [v_ss set_restart set_ss]. rewrite mss_disarm_cooldown, mss_on_probe_failed. reflexivity.
      * exact eq_refl.
      * exact P.
Qed.


(* ------------------------------------------------------------------ incoming messages *)
Definition pimrel (s s' : vsock) : Prop :=
  v_opts s' = v_opts s /\ mss (v_ss s) <= mss (v_ss s') /\ trm (v_segs s) (v_segs s') /\
  v_unsegmented s' = v_unsegmented s.

Lemma pimrel_refl s : pimrel s s.
Proof. split; [reflexivity|]. split; [lia|]. split; [apply trm_refl|reflexivity]. Qed.
Lemma pimrel_trans a b c : pimrel a b -> pimrel b c -> pimrel a c.
Proof.
  intros (A1 & A2 & A3 & A4) (B1 & B2 & B3 & B4). split; [congruence|]. split; [lia|].
  split; [eapply trm_trans; eauto|congruence].
Qed.
Lemma kfl_pimrel s s' : kfl s s' -> pimrel s s'.
Proof.
  intros ((_ & _ & O & U) & S & T). split; [exact O|]. split; [rewrite S; lia|].
  split; [apply tfl_trm, tfl_eq_le; exact T|exact U].
Qed.
Lemma keepr_pimrel s s' : keepr s s' -> pimrel s s'.
Proof. intros [K _]. apply kfl_pimrel, keep_kfl. exact K. Qed.

Notation stp := (stR pimrel).
Notation stf := (stR kfl).

Lemma stk_stp : forall A (s : vsock) (m : step A), stk s m -> stp s m.
Proof. intros A s m H. destruct m; cbn [stR] in *; auto using keepr_pimrel. Qed.
Lemma stk_stf : forall A (s : vsock) (m : step A), stk s m -> stf s m.
Proof. intros A s m H. destruct m; cbn [stR] in *; auto. destruct H as [K _]; apply keep_kfl; exact K. destruct H as [K _]; apply keep_kfl; exact K. Qed.
Lemma stf_stp : forall A (s : vsock) (m : step A), stf s m -> stp s m.
Proof. intros A s m H. destruct m; cbn [stR] in *; auto using kfl_pimrel. Qed.

Lemma state_table_keepr : forall (s : vsock) h,
  match state_table s h with TblDrop s1 | TblErr s1 _ | TblContinue s1 => keepr s s1 end.
Proof.
  intros s h. unfold state_table, restart_remote_inactivity_timer.
  repeat break_match; first [apply keepr_refl | keepr_leaf].
Qed.

(* same opts/unsegmented, mss not lower, table as given *)
Lemma pimrel_mk : forall (s s' : vsock), v_opts s' = v_opts s -> mss (v_ss s) <= mss (v_ss s') ->
  trm (v_segs s) (v_segs s') -> v_unsegmented s' = v_unsegmented s -> pimrel s s'.
Proof. intros. unfold pimrel. auto. Qed.

Lemma process_incoming_message_pimrel : forall (s : vsock) m,
  stp s (process_incoming_message cci s m).
Proof.
  intros s m. unfold process_incoming_message.
  pose proof (state_table_keepr s (m_hdr m)) as T.
  destruct (state_table s (m_hdr m)) as [s1|s1 e|s1]; cbn [stR] in *; auto using keepr_pimrel.
  apply keepr_pimrel in T. revert T. generalize s1. clear s1. intros s1 T.
  destruct (remove_up_to_ack _ _ _ _) as [segs1 res] eqn:Er. apply remove_up_to_ack_trm in Er.
  destruct (match is_recovering _, _ with | false, Some rtt => _ | _, _ => _ end) as [rtte1|]; [|exact I].
  destruct (cc_on_ack _ _ _ _ _) as [cc3|]; [|exact I].
  destruct (recovery_on_ack _ _ _ _ _ _ _ _) as [[[rec1 segs2] cc4]|] eqn:Ea; [|exact I].
  apply recovery_on_ack_tfl in Ea.
  match goal with |- context [seq_sub _ (wadd16 (v_last_consumed ?x) 1)] =>
    assert (F2 : pimrel s x); [|revert F2; generalize x; intros s2 F2] end.
  { eapply pimrel_trans; [exact T|]. apply pimrel_mk; try exact eq_refl.
    - cbn [v_ss set_recovery set_last_remote_window set_last_remote_timestamp set_cc set_rtte set_ss].
      apply mss_on_payload_delivered.
    - cbn [v_segs set_recovery set_last_remote_window set_last_remote_timestamp set_cc set_rtte set_ss VSockRec.set_segs].
      eapply trm_trans; [exact Er|]. apply tfl_trm, tfl_eq_le. exact Ea. }
  clear T Er Ea.
  destruct (ch_type (m_hdr m)); try exact F2.
  - (* ST_DATA *)
    destruct (_ <? 0); [cbn [stR]; eapply pimrel_trans; [exact F2|]; apply keepr_pimrel; unfold force_immediate_ack; keepr_leaf|].
    match goal with |- context [rx_add_remove (v_rx ?x)] =>
      assert (F3 : pimrel s x); [|revert F3; generalize x; intros s3 F3] end.
    { eapply pimrel_trans; [exact F2|]. apply pimrel_mk; try exact eq_refl; [|apply trm_refl].
      cbn [v_ss set_cc set_ss]. apply mss_on_payload_delivered. }
    clear F2.
    destruct (rx_add_remove _ _ _ _) as [[rx1 ar] w].
    assert (F4 : pimrel s (add_wakes (set_rx s3 rx1) (rx_wakes w))).
    { eapply pimrel_trans; [exact F3|]. apply keepr_pimrel. unfold add_wakes. keepr_leaf. }
    revert F4. generalize (add_wakes (set_rx s3 rx1) (rx_wakes w)). intros s4 F4. clear F3.
    destruct ar as [r|]; [|exact I].
    destruct (add_err r); [exact F4|].
    match goal with |- context [send_ack (force_immediate_ack ?x)] =>
      assert (F5 : pimrel s x); [|revert F5; generalize x; intros s5 F5] end.
    { eapply pimrel_trans; [exact F4|]. apply keepr_pimrel. unfold restart_remote_inactivity_timer.
      destruct r; first [apply keepr_refl | keepr_leaf]. }
    clear F4.
    destruct (_ || _); [|exact F5].
    apply (stR_weaken pimrel pimrel_trans) with (s := force_immediate_ack s5).
    { eapply pimrel_trans; [exact F5|]. apply keepr_pimrel. unfold force_immediate_ack. keepr_leaf. }
    apply (stR_sbind pimrel pimrel_trans); [apply stk_stp, send_ack_keepr|].
    intros s7 _. apply pimrel_refl.
  - (* ST_FIN *)
    destruct (_ && _); [|cbn [stR]; eapply pimrel_trans; [exact F2|]; apply keepr_pimrel; unfold force_immediate_ack; keepr_leaf].
    match goal with |- context [rx_add_remove (v_rx ?x)] =>
      assert (F3 : pimrel s x); [|revert F3; generalize x; intros s4 F3] end.
    { eapply pimrel_trans; [exact F2|]. apply keepr_pimrel. unfold force_immediate_ack. keepr_leaf. }
    clear F2.
    destruct (rx_add_remove _ _ _ _) as [[rx1 ar] w].
    assert (F4 : pimrel s (add_wakes (set_rx s4 rx1) (rx_wakes w))).
    { eapply pimrel_trans; [exact F3|]. apply keepr_pimrel. unfold add_wakes. keepr_leaf. }
    revert F4. generalize (add_wakes (set_rx s4 rx1) (rx_wakes w)). intros s5 F4. clear F3.
    destruct ar as [r|]; [|exact I].
    destruct (add_err r); [exact F4|].
    destruct (mark_vsock_closed _) as [tx1 w2]. cbn [stR].
    eapply pimrel_trans; [exact F4|]. apply keepr_pimrel. unfold add_wakes. keepr_leaf.
Qed.

(* the arm of the receive loop that runs when the inbox is empty *)
Lemma recv_base_keepr : forall (s : vsock) (acc : on_ack_result),
  stk s (if v_inbox_closed s
         then sbind (maybe_send_fin (transition_to_fin_wait_1 s))
                    (fun s2 _ => SOk (set_state s2 Closed) (acc, true))
         else SOk (set_inbox_waker s true) (acc, false)).
Proof.
  intros s acc. destruct (v_inbox_closed s); [|cbn [stR]; keepr_leaf].
  apply (stR_weaken keepr keepr_trans) with (s := transition_to_fin_wait_1 s);
    [apply transition_to_fin_wait_1_keepr|].
  apply (stR_sbind keepr keepr_trans); [apply maybe_send_fin_keepr|].
  intros s2 _. cbn [stR]. keepr_leaf.
Qed.

Lemma recv_loop_pimrel : forall fuel (s : vsock) acc, stp s (recv_loop cci fuel s acc).
Proof.
  induction fuel as [|x fuel IH]; intros s acc.
  - cbn [recv_loop]. destruct (v_inbox s); [apply stk_stp, recv_base_keepr | exact I].
  - cbn [recv_loop]. destruct (v_inbox s) as [|m rest]; [apply stk_stp, recv_base_keepr|].
    apply (stR_weaken pimrel pimrel_trans) with (s := set_inbox s rest); [apply pimrel_mk; try exact eq_refl; [apply Z.le_refl|apply trm_refl]|].
    apply (stR_sbind pimrel pimrel_trans).
    + apply process_incoming_message_pimrel.
    + intros s1 r. destruct (_ || _); [apply pimrel_refl|]. apply IH.
Qed.

Lemma recv_loop_idle : forall fuel (s : vsock) acc, v_inbox s = [] -> stk s (recv_loop cci fuel s acc).
Proof.
  intros fuel s acc E. destruct fuel; cbn [recv_loop]; rewrite E; apply recv_base_keepr.
Qed.

(* the bookkeeping after the receive loop: flags only *)
Lemma pa_tail_kfl : forall (s1 : vsock) (res : on_ack_result * bool),
  stf s1
    (let '(r, _) := res in
      let s2 :=
        if (0 <? ar_acked_segments r) || (0 <? ar_newly_sacked_segments r) then
          let s' := set_rto_retransmissions s1 0 in
          match ss_segs (v_segs s'), our_fin_if_unacked (v_state s') with
          | [], None => set_t_inactivity (set_t_retransmit s' None) None
          | _, _ =>
              restart_remote_inactivity_timer
                (set_t_retransmit s' (timer_arm (v_t_retransmit s') (v_now s')
                                        (retransmission_timeout (v_rtte s')) true))
          end
        else s1 in
      let s3o : step unit :=
        if 0 <? ar_acked_segments r then
          let s2 := acked_counts_as_sent s2 in
          let '(tx1, tr) := truncate_front (v_tx s2) (ar_acked_bytes r) in
          match tr with
          | TrBug _ _ => SErr (set_tx s2 tx1) (ErrBug BugTruncateFront)
          | TrOk => let '(tx2, w) := wake_writer tx1 in
                    SOk (add_wakes (set_tx s2 tx2) (tx_wakes w)) tt
          end
        else SOk s2 tt in
      sbind s3o (fun s3 _ =>
        match rv_phase (v_recovery s3) with
        | Recovering rc =>
            match calc_pipe (v_segs s3) (rc_high_rxt rc) (v_last_sent_seq_nr s3)
                            (roundtrip_time (v_rtte s3)) (v_now s3) with
            | None => SPanic
            | Some (segs', pipe, recalc) =>
                SOk (set_recovering (set_segs s3 segs')
                       {| rc_recovery_point := rc_recovery_point rc; rc_high_rxt := rc_high_rxt rc;
                          rc_total_retx := rc_total_retx rc; rc_pipe := pipe; rc_recalc := recalc;
                          rc_cwnd := rc_cwnd rc |}) tt
            end
        | _ => SOk s3 tt
        end)).
Proof.
  intros s1 [r early]. cbv beta iota zeta.
  match goal with |- context [acked_counts_as_sent ?x] =>
    assert (F2 : keepr s1 x); [|revert F2; generalize x; intros s2 F2] end.
  { unfold restart_remote_inactivity_timer.
    repeat break_match; first [apply keepr_refl | keepr_leaf]. }
  apply (stR_weaken kfl kfl_trans) with (s := s2); [apply keep_kfl; exact (proj1 F2)|].
  apply (stR_sbind kfl kfl_trans).
  - destruct (0 <? _); [|apply kfl_refl].
    assert (F2' : keepr s2 (acked_counts_as_sent s2)).
    { unfold acked_counts_as_sent. destruct (seq_gt _ _ && seq_lt _ _); [keepr_leaf | apply keepr_refl]. }
    apply (stR_weaken kfl kfl_trans) with (s := acked_counts_as_sent s2); [apply keep_kfl; exact (proj1 F2')|].
    generalize (acked_counts_as_sent s2). intro s2'.
    destruct (truncate_front _ _) as [tx1 tr].
    destruct tr; [|cbn [stR]; apply keep_kfl; unfold keep, kx; repeat split; exact eq_refl].
    destruct (wake_writer tx1) as [tx2 w]. cbn [stR].
    apply keep_kfl. unfold add_wakes, keep, kx. repeat split; exact eq_refl.
  - intros s3 _. destruct (rv_phase _); try apply kfl_refl.
    destruct (calc_pipe _ _ _ _ _) as [[[segs' pipe] recalc]|] eqn:Ec; [|exact I].
    apply calc_pipe_tfl in Ec. cbn [stR]. unfold set_recovering.
    split; [unfold kx; repeat split; exact eq_refl|]. split; [exact eq_refl|]. exact Ec.
Qed.

Lemma process_all_incoming_messages_pimrel : forall (s : vsock),
  stp s (process_all_incoming_messages cci s).
Proof.
  intros s. unfold process_all_incoming_messages.
  apply (stR_sbind pimrel pimrel_trans); [apply recv_loop_pimrel|].
  intros s1 res. apply stf_stp. apply (pa_tail_kfl s1 res).
Qed.

(* no message: nothing but flags changes *)
Lemma process_all_incoming_messages_idle : forall (s : vsock),
  v_inbox s = [] -> stf s (process_all_incoming_messages cci s).
Proof.
  intros s E. unfold process_all_incoming_messages.
  apply (stR_sbind kfl kfl_trans); [apply stk_stf, recv_loop_idle; exact E|].
  intros s1 res. apply (pa_tail_kfl s1 res).
Qed.

End WithCC.

(* C07 — the trigger side of the immediate ACK, as boolean predicates over the steps of a connection
   trace (Conn/VObs.v).  Model only: no proofs in this file.

   The property text: "in the same poll (no clock advance) an ACK is emitted ... when, after an ST_DATA was
   processed, the reassembly queue holds out-of-order data or held some before it; when the packet was a
   duplicate (offset < 0); when it was a FIN".  Every packet carries the current ack number, so "an ACK is
   emitted" is observed as "the poll emitted at least one packet".  The claim is made for polls that ran
   to their end (Pending, transport writable: C07_Pred.c07_poll_done). *)
From Utp Require Import Base.Prelude Wire.SeqNr Wire.Header Rtt.Rtte Mtu.SegSizes Rx.Rx Tx.Ring
  Tx.Segments Conn.Recovery Conn.Msg Conn.VSockRec Conn.VSock Conn.VSockRun Conn.VObs Conn.C07_Pred.

(* the handshake is over (maybe_send_syn_ack does nothing any more) *)
Definition c07_hs_done (st : vstate) : bool :=
  match st with SynReceived | SynAckSent _ => false | _ => true end.

(* the state/validity table at the top of process_incoming_message lets an ST_DATA / ST_FIN with this
   header through to the common part (it is not dropped and raises no error); lc = last_consumed_remote_seq_nr *)
Definition c07_tbl_continues (st : vstate) (lc : Z) (h : chdr) : bool :=
  match ch_type h with
  | ST_DATA =>
      match st with
      | Established | FinWait1 _ | FinWait2 => true
      | LastAck our_fin remote_fin => (ch_ack h =? our_fin) || negb (seq_gt (ch_seq h) remote_fin)
      | _ => false
      end
  | ST_FIN =>
      match st with
      | Established | FinWait1 _ | FinWait2 => ch_seq h =? wadd16 lc 1
      | LastAck _ _ => true
      | _ => false
      end
  | _ => false
  end.

(* the message is an immediate-ACK trigger, judged on the state in which it is processed:
   a FIN; an ST_DATA that is a duplicate (offset < 0); an ST_DATA arriving while the reassembly queue
   holds out-of-order data (gap fill, or one more out-of-order arrival) *)
Definition c07_is_trigger (st : vstate) (lc : Z) (ooq_empty : bool) (h : chdr) : bool :=
  c07_hs_done st && c07_tbl_continues st lc h &&
  match ch_type h with
  | ST_FIN => true
  | ST_DATA => (seq_sub (ch_seq h) (wadd16 lc 1) <? 0) || negb ooq_empty
  | _ => false
  end.

(* OutOfOrderQueue::is_empty on the fingerprint: filled_front == len *)
Definition fp_ooq_empty (f : vfp) : bool := f_rx_ff f =? f_rx_len f.

(* ---- step-local: out-of-order data stored, or the last gap filled.  A poll that ran to its end and
   changed the empty/non-empty status of the reassembly queue emitted a packet (the ACK that the arrival
   forces is sent from process_incoming_message itself). ---- *)
Definition c07_reasm_change_ok (cfg : vconfig) (st : fstep) : bool :=
  if c07_poll_done st && negb (Bool.eqb (fp_ooq_empty (fs_pre st)) (fp_ooq_empty (fs_post st)))
  then match c07_pkts st with [] => false | _ :: _ => true end
  else true.

(* ---- trace level: the first message waiting in the inbox is a trigger.  What the inbox holds is not
   part of the fingerprint; it is tracked from the events: empty at creation and after every poll that ran
   to its end; its head is known once a message is delivered into an empty inbox; unknown after a poll
   that stopped early (it consumed an unknown prefix) or after the channel was closed. ---- *)
Inductive c07_inbox := CiEmpty | CiHead (h : chdr) | CiUnknown.

Definition c07_trigger_claim (ib : c07_inbox) (st : fstep) : bool :=
  match ib with
  | CiHead h =>
      if c07_poll_done st &&
         c07_is_trigger (f_state (fs_pre st)) (f_last_consumed (fs_pre st)) (fp_ooq_empty (fs_pre st)) h
      then match c07_pkts st with [] => false | _ :: _ => true end
      else true
  | _ => true
  end.

Fixpoint c07_trigger_walk (ib : c07_inbox) (tr : list fstep) : bool :=
  match tr with
  | [] => true
  | st :: rest =>
      match fs_event st with
      | FeDeliver h _ => c07_trigger_walk (match ib with CiEmpty => CiHead h | x => x end) rest
      | FeCloseInbox => c07_trigger_walk CiUnknown rest
      | FePoll _ =>
          c07_trigger_claim ib st
          && c07_trigger_walk (if c07_poll_done st then CiEmpty
                               else match ib with CiEmpty => CiEmpty | _ => CiUnknown end) rest
      | _ => c07_trigger_walk ib rest
      end
  end.

Definition c07_trigger_ok (cfg : vconfig) (tr : list fstep) : bool := c07_trigger_walk CiEmpty tr.

(* ---- the monitored precondition c07_pre, exactly.  c07_pre (C07_Pred.v) is FALSE of the model when more
   than WRAP_TOLERANCE sequence numbers were consumed across the 16-bit wrap since the last packet went
   out (D4 class, Props/C07.c07_pre_monitor_refuted).  What holds of every reachable state: the true
   modular distance of last_consumed from last_sent_ack_nr is between 1 and consumed_but_unacked_bytes
   (every consumed ST_DATA carries at least one byte), as long as the trace goes on ... ---- *)
Definition c07_live (st : fstep) : bool :=
  match fs_result st with
  | FrPoll PollPending _ _ _ => true
  | FrPoll _ _ _ _ => false
  | _ => true
  end.

Definition c07_dist_ok (cfg : vconfig) (st : fstep) : bool :=
  let f := fs_post st in
  if c07_live st && (0 <? f_cbu f) && (f_cbu f <? M16) then
    let d := wsub16 (f_last_consumed f) (f_last_sent_ack_nr f) in
    (1 <=? d) && (d <=? f_cbu f)
  else true.

(* ... hence c07_pre itself whenever at most WRAP_TOLERANCE bytes are unacknowledged (every connection whose
   mss is at most 512, for instance: a completed poll leaves fewer than 2*mss) *)
Definition c07_pre_monitor_g (cfg : vconfig) (st : fstep) : bool :=
  if c07_poll_done st && (f_cbu (fs_post st) <=? WRAP_TOLERANCE) then c07_pre (fs_post st) else true.

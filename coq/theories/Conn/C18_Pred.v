(* C18 — Nagle coalescing: the property clauses as boolean predicates over one step of a
   connection trace (Conn/VObs.v).  Model only: no proofs in this file. *)
From Utp Require Import Base.Prelude Wire.SeqNr Wire.Header Rtt.Rtte Mtu.SegSizes Rx.Rx Tx.Ring
  Tx.Segments Conn.Recovery Conn.Msg Conn.VSockRec Conn.VSock Conn.VSockRun Conn.VObs.

Definition nonempty {A} (l : list A) : bool := match l with [] => false | _ => true end.

(* Walk over the segment table after the poll.  A segment is NEW when its absolute offset is
   at or beyond the table's next-byte offset before the poll (segments are appended there).
   Nagle rule, observable form: a new segment that has a predecessor in the table (earlier
   data still unacknowledged when it was cut) is at least one full segment (the mss before the
   poll; mss never decreases), or the peer's window was the limit: the bytes segmented in this
   poll up to and including it use up the peer's whole window. *)
Fixpoint c18_walk (off0 m0 w : Z) (prev : bool) (l : list fseg) : bool :=
  match l with
  | [] => true
  | g :: rest =>
      (if prev && (off0 <=? fg_abs g)
       then (m0 <=? fg_size g) || (w <=? fg_abs g + fg_size g - off0) else true)
      && c18_walk off0 m0 w true rest
  end.

(* assumed-and-monitored: the table tiles the stream below its next-byte offset
   (component invariant seg_inv of Tx/Segments_Proofs.v, not lifted to the connection here) *)
Definition c18_pre (fp : vfp) : bool :=
  forallb (fun g => fg_abs g <? f_seg_offset fp) (f_segs fp).

(* the newest segment before the poll is not an undelivered MTU probe (if it is, the poll may
   pop it and re-cut its bytes from below the old next-byte offset: not judged) *)
Definition c18_no_probe_last (fp : vfp) : bool :=
  match rev (f_segs fp) with
  | g :: _ => negb (fg_probe g && negb (fg_delivered g))
  | [] => true
  end.

Definition c18_nagle_fp (nagle : bool) (pre post : vfp) : bool :=
  if nagle && c18_pre pre && c18_no_probe_last pre
  then c18_walk (f_seg_offset pre) (f_mss pre) (f_last_remote_window post) false (f_segs post)
  else true.

Definition c18_is_poll (st : fstep) : bool :=
  match fs_event st with FePoll _ => true | _ => false end.

Definition c18_nagle_ok (cfg : vconfig) (st : fstep) : bool :=
  if c18_is_poll st then c18_nagle_fp (vc_nagle cfg) (fs_pre st) (fs_post st) else true.

Definition c18_pre_monitor (cfg : vconfig) (st : fstep) : bool := c18_pre (fs_post st).

(* C17, trace level: c17_peer_fin_ok and c17_fin_seq_ok (Conn/C17_Pred.v) against EVERY trace of the model.
     c17_peer_fin_ok   FALSE as written (c17_peer_fin_ok_refuted: a poll flushes what an earlier poll consumed);
                       the corrected form c17_peer_fin_ok2 (Conn/C17_Pred2.v) is a theorem of every trace from
                       vsock_new on a valid configuration (c17_peer_fin_ok2_trace), and so is the predicate as
                       written under the monitored guard "no poll panics, no poll starts with consumed slots
                       waiting in the reassembly queue" (c17_peer_fin_guarded_trace).
     c17_fin_seq_ok    was FALSE of the model: defect D6, confirmed on the real code and repaired (see the end of
                       the file: the former witnesses are regression theorems).  A proof for every trace is open. *)
From Utp Require Import Base.Prelude Wire.SeqNr Wire.Header Wire.Header_Proofs Rtt.Rtte Mtu.SegSizes
  Rx.Rx Rx.Rx_Proofs Tx.Ring Tx.Segments Conn.Recovery Conn.Msg Conn.VSockRec Conn.VSock Conn.VSockRun Conn.VObs
  Conn.VSock_Lemmas Conn.VSock_LemmasStep Conn.VSock_LemmasTx Conn.VSock_LemmasFin Conn.C17_Pred Conn.C17_Proofs
  Conn.C17_StepLemmas Conn.C17_Step Conn.C07_Proofs Conn.C17_Pred2 Conn.C17_TraceLemmas.

Section WithCC.
Context {CC : Type} (cci : cc_iface CC).
Notation vsock := (vsock CC).

(* ================================================================== (d) out-of-sequence FINs only *)
Definition IA (s0 s : vsock) : Prop :=
  is_data_state (v_state s) = true /\ v_inbox_closed s = false /\
  v_last_consumed s = v_last_consumed s0 /\
  forallb (oos_fin (v_last_consumed s0)) (map m_hdr (v_inbox s)) = true /\
  rxrel (v_rx s0) (v_rx s).

Lemma IA_RX s0 (s s' : vsock) : RX s s' -> IA s0 s -> IA s0 s'.
Proof.
  intros (A1 & A2 & A3 & A4 & A5 & _) (B1 & B2 & B3 & B4 & B5).
  split; [eapply strel_data_state; eauto|]. split; [congruence|]. split; [congruence|].
  split; [rewrite A2; exact B4|eapply rxrel_trans; eauto].
Qed.

Lemma IA_msg s0 (s : vsock) m rest : IA s0 s -> v_inbox s = m :: rest ->
  match process_incoming_message cci (set_inbox s rest) m with
  | SOk s' _ | SErr s' _ => IA s0 s'
  | SPanic => True
  end.
Proof.
  intros (B1 & B2 & B3 & B4 & B5) Hin. rewrite Hin in B4. cbn [map forallb] in B4.
  apply andb_true_iff in B4. destruct B4 as [Bm Brest].
  unfold oos_fin in Bm. apply andb_true_iff in Bm. destruct Bm as [Bt Bs].
  apply ptype_eqb_iff in Bt. apply negb_true_iff, Z.eqb_neq in Bs.
  rewrite (peer_fin_out_of_sequence cci (set_inbox s rest) m Bt).
  - split; [exact B1|]. split; [exact B2|]. split; [exact B3|]. split; [exact Brest|exact B5].
  - change (v_state (set_inbox s rest)) with (v_state s).
    destruct (v_state s); try discriminate; eauto.
  - unfold in_seq. change (v_last_consumed (set_inbox s rest)) with (v_last_consumed s). rewrite B3. exact Bs.
Qed.

Lemma IA_closed s0 (s : vsock) : IA s0 s -> v_inbox_closed s = true -> IA s0 (set_state s Closed).
Proof. intros (_ & B2 & _) H. congruence. Qed.

Theorem peer_fin_oos_poll (s : vsock) sc s' r :
  is_data_state (v_state s) = true -> v_inbox_closed s = false ->
  forallb (oos_fin (v_last_consumed s)) (map m_hdr (v_inbox s)) = true ->
  poll cci (VSockRec.set_sends s sc) = (s', r) -> IA s s'.
Proof.
  intros H1 H2 H3 E.
  apply (poll_Inv cci (IA s) (IA_RX s) (IA_msg s) (IA_closed s) _ _ _ E).
  split; [exact H1|]. split; [exact H2|]. split; [reflexivity|]. split; [exact H3|apply rxrel_refl].
Qed.

(* ================================================================== (d) one FIN, in sequence, in Established *)
Definition IB (X F : Z) (s : vsock) : Prop :=
  v_last_consumed s = X /\ (v_state s = LastAck F X \/ v_state s = Closed) /\
  v_inbox s = [] /\ v_inbox_closed s = false /\
  (v_cbu s = USIZE_MAX \/ exists p, In p (v_out s) /\ ch_ack (p_hdr p) = X).

Lemma IB_RX X F (s s' : vsock) : RX s s' -> IB X F s -> IB X F s'.
Proof.
  intros (A1 & A2 & A3 & A4 & A5 & l & A6 & A7 & A8) (B1 & B2 & B3 & B4 & B5).
  split; [congruence|]. split.
  { destruct B2 as [B2|B2]; rewrite B2 in A4; rewrite (strel_local_fin _ _ A4 eq_refl); auto. }
  split; [congruence|]. split; [congruence|].
  destruct l as [|p l'].
  - rewrite A8 by reflexivity. cbn [app] in A6. rewrite A6. exact B5.
  - right. exists p. split; [rewrite A6; left; reflexivity|].
    inversion A7 as [|? ? (Hp & _) _]; subst. congruence.
Qed.

Lemma IB_msg X F (s : vsock) m rest : IB X F s -> v_inbox s = m :: rest ->
  match process_incoming_message cci (set_inbox s rest) m with
  | SOk s' _ | SErr s' _ => IB X F s'
  | SPanic => True
  end.
Proof. intros (_ & _ & B3 & _) H. congruence. Qed.

Lemma IB_closed X F (s : vsock) : IB X F s -> v_inbox_closed s = true -> IB X F (set_state s Closed).
Proof. intros (_ & _ & _ & B4 & _) H. congruence. Qed.

(* the in-sequence FIN in Established, whatever process_incoming_message returns *)
Lemma pim_fin_inseq (s : vsock) m :
  v_state s = Established -> ch_type (m_hdr m) = ST_FIN -> in_seq s (m_hdr m) ->
  match process_incoming_message cci s m with
  | SOk s' _ | SErr s' _ =>
      v_state s' = LastAck (v_seq_nr s) (ch_seq (m_hdr m)) /\ v_last_consumed s' = ch_seq (m_hdr m) /\
      v_cbu s' = USIZE_MAX /\ v_out s' = v_out s /\ v_inbox s' = v_inbox s /\
      v_inbox_closed s' = v_inbox_closed s
  | SPanic => True
  end.
Proof.
  intros Hs Ht Hi. unfold process_incoming_message. cbv zeta.
  destruct (transition_table s (m_hdr m)) as (_&_&_&_&_&_&_&_&_&_&_&R11&_).
  rewrite (R11 Ht Hs Hi). rewrite Hs. cbn [is_remote_fin_or_later negb].
  destruct (remove_up_to_ack _ _ _ _) as [segs1 res].
  match goal with |- context [match ?o with Some rtte1 => _ | None => SPanic end] => destruct o as [rtte1|] end;
    [|exact I].
  destruct (cc_on_ack _ _ _ _ _) as [cc3|]; [|exact I].
  destruct (recovery_on_ack _ _ _ _ _ _ _ _) as [[[rec1 segs2] cc4]|]; [|exact I].
  rewrite Ht.
  match goal with |- context [set_last_consumed (force_immediate_ack ?x) _] =>
    assert (F : v_state x = LastAck (v_seq_nr s) (ch_seq (m_hdr m)) /\
                v_last_consumed x = v_last_consumed s /\ v_out x = v_out s /\
                v_inbox x = v_inbox s /\ v_inbox_closed x = v_inbox_closed s) by (vsimpl; repeat split);
    revert F; generalize x; intros s2 (F1 & F3 & F4 & F5 & F6) end.
  unfold in_seq in Hi. rewrite F3, <- Hi, seq_sub_refl. cbn [Z.leb Z.compare andb].
  destruct (rx_add_remove _ _ _ _) as [[rx1 ar] w]. destruct ar as [ra|]; [|exact I].
  destruct (add_err ra).
  - unfold add_wakes, force_immediate_ack. vsimpl. repeat split; assumption.
  - unfold mark_vsock_closed, add_wakes, force_immediate_ack. vsimpl. repeat split; assumption.
Qed.

Lemma recv_loop_cons x fuel (s : vsock) acc m rest :
  v_inbox s = m :: rest ->
  recv_loop cci (x :: fuel) s acc =
  sbind (process_incoming_message cci (set_inbox s rest) m) (fun s1 r =>
    let acc1 := result_update acc r in
    if state_is_closed (v_state s1) (o_wait_for_last_ack (v_opts s1)) || v_transport_pending s1
    then SOk s1 (acc1, false)
    else recv_loop cci fuel s1 acc1).
Proof. intro H. cbn [recv_loop]. rewrite H. reflexivity. Qed.

Lemma process_all_fin (s1 : vsock) m :
  v_state s1 = Established -> v_inbox s1 = [m] -> v_inbox_closed s1 = false ->
  ch_type (m_hdr m) = ST_FIN -> in_seq s1 (m_hdr m) ->
  stI (IB (ch_seq (m_hdr m)) (v_seq_nr s1)) (process_all_incoming_messages cci s1).
Proof.
  intros Hs Hin Hc Ht Hi. set (X := ch_seq (m_hdr m)). set (F := v_seq_nr s1).
  rewrite process_all_eq. rewrite Hin. cbn [app]. rewrite (recv_loop_cons _ _ _ _ m [] Hin).
  apply (stI_bind (IB X F)).
  - apply (stI_bind (IB X F)).
    + pose proof (pim_fin_inseq (set_inbox s1 []) m Hs Ht Hi) as P.
      destruct (process_incoming_message cci (set_inbox s1 []) m) as [s' r|s' e|]; cbn [stI]; [| |exact I];
        destruct P as (P1 & P2 & P3 & P4 & P5 & P6);
        (split; [exact P2|]; split; [left; exact P1|]; split; [exact P5|]; split; [rewrite P6; exact Hc|];
         left; exact P3).
    + intros s' r H'. cbv zeta. destruct (_ || _); [exact H'|].
      apply (recv_loop_Inv cci (IB X F) (IB_RX X F) (IB_msg X F) (IB_closed X F)). exact H'.
  - intros s' res H'. eapply (stRX_stI (IB X F) (IB_RX X F)); [exact H'|apply pa_tail_RX].
Qed.

Theorem peer_fin_inseq_poll (s : vsock) sc m s' r :
  v_state s = Established -> v_inbox s = [m] -> v_inbox_closed s = false ->
  immediate_ack_to_transmit s = false ->
  ch_type (m_hdr m) = ST_FIN -> in_seq s (m_hdr m) ->
  poll cci (VSockRec.set_sends s sc) = (s', r) -> r <> PollPanic ->
  IB (ch_seq (m_hdr m)) (v_seq_nr s) s'.
Proof.
  intros Hs Hin Hc Himm Ht Hi. set (X := ch_seq (m_hdr m)). set (F := v_seq_nr s).
  unfold poll. set (s0 := set_arm_in (set_wakes (set_out (VSockRec.set_sends s sc) []) []) None).
  change (poll_loop cci 64 s0) with
    (match poll_body cci s0 with
     | BrReturn s' r => (s', r) | BrRestart s' => poll_loop cci 63 s' | BrPanic => (s0, PollPanic) end).
  rewrite poll_body_decomp.
  assert (Hsyn : maybe_send_syn_ack (body_start s0) = SOk (set_t_syn_ack_resend (body_start s0) None) tt).
  { unfold maybe_send_syn_ack. change (v_state (body_start s0)) with (v_state s). rewrite Hs. reflexivity. }
  rewrite Hsyn. set (s1 := set_t_syn_ack_resend (body_start s0) None).
  unfold pend at 1, bail at 1.
  change (v_restart s1) with false. change (v_transport_pending s1) with false. cbv beta iota.
  unfold body_rest.
  change (immediate_ack_to_transmit s1) with (immediate_ack_to_transmit s). rewrite Himm.
  unfold pend at 1, bail at 1.
  change (v_restart s1) with false. change (v_transport_pending s1) with false. cbv beta iota.
  match goal with |- context [pend (process_all_incoming_messages cci s1) ?k] =>
    change k with (fun (s : vsock) (_ : unit) => body_mid cci body_back s) end.
  assert (HB : brI (IB X F) (pend (process_all_incoming_messages cci s1)
                                      (fun (s : vsock) (_ : unit) => body_mid cci body_back s))).
  { apply (pend_I (IB X F) (IB_RX X F)).
    - apply (process_all_fin s1 m); assumption.
    - intros s3 _ H3. apply (body_mid_back_Inv cci (IB X F) (IB_RX X F)). exact H3. }
  destruct (pend (process_all_incoming_messages cci s1) _) as [s'' r''|s''|]; cbn [brI] in HB.
  - intro H; injection H as <- <-. intros _. exact HB.
  - intros H _.
    pose proof (poll_loop_Inv cci (IB X F) (IB_RX X F) (IB_msg X F) (IB_closed X F) 63 s'' HB) as P.
    rewrite H in P. exact P.
  - intro H; injection H as _ <-. intro N. contradiction.
Qed.

(* ================================================================== the judgement of one poll *)
Lemma existsb_pkts (P : fpacket -> bool) (l : list packet) p :
  In p l -> P (fpacket_of p) = true -> existsb P (map fpacket_of (rev l)) = true.
Proof.
  intros Hin Hp. apply existsb_exists. exists (fpacket_of p). split; [|exact Hp].
  apply in_map. apply in_rev. rewrite rev_involutive. exact Hin.
Qed.

Lemma ss_ok_mss (s : vsock) : LB 0 s -> 1 <= mss (v_ss s) /\ mss (v_ss s) < U16_MAX.
Proof. intros (_ & (H1 & H2) & _). unfold mss. lia. Qed.

Lemma peer_fin_poll_check_ok (s : vsock) sc s' r l :
  LB 0 s -> v_inbox_closed s = false -> map m_hdr (v_inbox s) = l ->
  immediate_ack_to_transmit s = false ->
  poll cci (VSockRec.set_sends s sc) = (s', r) ->
  peer_fin_poll_ok2 l (fstep_of cci s (VoPoll sc)) = true.
Proof.
  intros Hlb Hc Hm Himm E. rewrite (fstep_of_poll cci s sc s' r E). unfold peer_fin_poll_ok2.
  cbn [fs_result].
  cbn [fresult_of is_panic_result].
  assert (HB : r <> PollPanic ->
    peer_fin_poll_body l
      {| fs_now := v_env_now s'; fs_pre := fp_of_vsock cci s; fs_event := FePoll sc;
         fs_result := FrPoll r (map fpacket_of (rev (v_out s'))) (rev (v_wakes s')) (v_arm_in s');
         fs_disp_woken := false; fs_self_woken := false; fs_post := fp_of_vsock cci s' |} = true);
    [|destruct r; try reflexivity; apply HB; discriminate].
  intro Hnp. unfold peer_fin_poll_body. cbn [fs_pre fs_post fs_result].
  destruct l as [|h l']; [reflexivity|].
  cbn [fp_of_vsock f_state f_last_consumed f_rx_len f_rx_ff f_rx_qbytes f_rx_len_bytes f_seq_nr
       f_transport_pending].
  destruct (is_data_state (v_state s) && forallb (oos_fin (v_last_consumed s)) (h :: l')) eqn:Eg.
  - (* out-of-sequence FINs only *)
    apply andb_true_iff in Eg. destruct Eg as [Ed Ef]. rewrite <- Hm in Ef.
    destruct (peer_fin_oos_poll s sc s' r Ed Hc Ef E) as (A1 & A2 & A3 & A4 & A5).
    destruct A5 as (_ & _ & R3 & R4 & R5 & _).
    rewrite A3, Z.eqb_refl. cbn [andb].
    assert (Hnr : is_remote_fin_or_later (v_state s') = false)
      by (destruct (v_state s'); try discriminate; reflexivity).
    rewrite Hnr. cbn [negb andb].
    replace (ooq_len (v_rx s') - filled_front (v_rx s') =? ooq_len (v_rx s) - filled_front (v_rx s)) with true
      by (symmetry; apply Z.eqb_eq; exact R3).
    replace (q_len_bytes (v_rx s') + ooq_len_bytes (v_rx s') =? q_len_bytes (v_rx s) + ooq_len_bytes (v_rx s))
      with true by (symmetry; apply Z.eqb_eq; exact R4).
    cbn [andb]. destruct (Z.eqb_spec (filled_front (v_rx s)) 0) as [E0|N0]; [|reflexivity].
    destruct (R5 E0) as (_ & X2 & X3). rewrite X2, X3, !Z.eqb_refl. reflexivity.
  - destruct l' as [|h2 l'']; [|reflexivity].
    destruct (v_state s) eqn:Es; try reflexivity.
    destruct (ptype_eqb (ch_type h) ST_FIN && (ch_seq h =? wadd16 (v_last_consumed s) 1)) eqn:Ei; [|reflexivity].
    apply andb_true_iff in Ei. destruct Ei as [Et Eq]. apply ptype_eqb_iff in Et. apply Z.eqb_eq in Eq.
    destruct (v_inbox s) as [|m rest] eqn:Hin; [discriminate|].
    destruct rest as [|m2 rest]; [|discriminate]. cbn [map] in Hm. injection Hm as Hh.
    rewrite <- Hh in Et, Eq.
    pose proof (peer_fin_inseq_poll s sc m s' r Es Hin Hc Himm Et Eq E Hnp) as (B1 & B2 & B3 & B4 & B5).
    rewrite <- Hh. rewrite B1, Z.eqb_refl. cbn [andb].
    assert (Hst : match v_state s' with
                  | LastAck f r0 => (f =? v_seq_nr s) && (r0 =? ch_seq (m_hdr m))
                  | Closed => true | _ => false end = true).
    { destruct B2 as [-> | ->]; [rewrite !Z.eqb_refl|]; reflexivity. }
    rewrite Hst. cbn [andb].
    destruct (v_transport_pending s') eqn:T; [reflexivity|].
    destruct r; try reflexivity.
    destruct B5 as [B5|(p & Hp & Ha)].
    + exfalso. destruct (ss_ok_mss s Hlb) as [M1 _].
      destruct (c07_no_pending_immediate_ack_lemma cci (VSockRec.set_sends s sc) s' M1 E T) as (_ & _ & C).
      assert (Hlb' : LB 0 s').
      { pose proof (poll_LB cci (VSockRec.set_sends s sc)) as P. rewrite E in P. apply P. exact Hlb. }
      destruct (ss_ok_mss s' Hlb') as [_ M2]. unfold USIZE_MAX, M64, U16_MAX, M16 in *. lia.
    + eapply existsb_pkts; [exact Hp|]. unfold pkt_ack. cbn [fpacket_of fq_hdr]. apply Z.eqb_eq. exact Ha.
Qed.

(* ================================================================== the trace walk *)
(* what the walk's `pending` knows about the model's inbox; no immediate ACK is owed when a poll starts *)
Definition PInv (s : vsock) (pending : option (list chdr)) : Prop :=
  LB 0 s /\
  match pending with
  | Some l => v_inbox_closed s = false /\ map m_hdr (v_inbox s) = l /\ immediate_ack_to_transmit s = false
  | None => True
  end.

Lemma vstep_nonpoll_imm (s : vsock) o :
  match o with
  | VoPoll _ => True
  | _ => immediate_ack_to_transmit (vstep_state cci s o) = immediate_ack_to_transmit s
  end.
Proof.
  unfold vstep_state, immediate_ack_to_transmit. destruct o; try exact I; cbn [vstep].
  - reflexivity.
  - reflexivity.
  - destruct (v_inbox_closed s); reflexivity.
  - reflexivity.
  - destruct (writer_dropped _); [|destruct (poll_write _ _) as [[tx1 r] w]]; reflexivity.
  - destruct (writer_dropped _); [|destruct (poll_flush _) as [[tx1 r] w]]; reflexivity.
  - destruct (writer_dropped _); [|destruct (poll_shutdown _) as [[tx1 r] w]]; reflexivity.
  - destruct (reader_dropped _); [|destruct (rx_read _ _) as [[rx1 r] w]]; reflexivity.
  - destruct (reader_dropped _); [|destruct (rx_drop_reader _) as [rx1 w]]; reflexivity.
  - destruct (drop_writer _) as [tx1 w]; reflexivity.
Qed.

Lemma PInv_other (s : vsock) o pending :
  match o with VoPoll _ | VoDeliver _ | VoCloseInbox => False | _ => True end ->
  PInv s pending -> PInv (vstep_state cci s o) pending.
Proof.
  intros Ho [Hlb Hp]. split; [apply vstep_LB; exact Hlb|].
  destruct pending as [l|]; [|exact I]. destruct Hp as (P1 & P2 & P3).
  pose proof (vstep_other cci s o) as V. pose proof (vstep_nonpoll_imm s o) as Vi.
  destruct o; try contradiction; destruct V as (V1 & V2 & _); rewrite V1, V2, Vi; auto.
Qed.

Lemma peer_fin_scan_gen_poll J pending st rest :
  (exists sc, fs_event st = FePoll sc) ->
  peer_fin_scan_gen J (st :: rest) pending =
  (match pending with Some l => J l st | None => true end) &&
  peer_fin_scan_gen J rest (if f_transport_pending (fs_post st) then None
                            else match pending with Some _ => Some [] | None => None end).
Proof. intros [sc H]. cbn [peer_fin_scan_gen]. rewrite H. reflexivity. Qed.

Theorem peer_fin_scan2_model : forall ops (s : vsock) pending,
  PInv s pending -> peer_fin_scan_gen peer_fin_poll_ok2 (ftrace cci s ops) pending = true.
Proof.
  induction ops as [|o ops IH]; intros s pending Hi; [reflexivity|].
  rewrite ftrace_cons.
  pose proof (vstep_other cci s o) as Ho.
  assert (Hoth : match o with VoPoll _ | VoDeliver _ | VoCloseInbox => False | _ => True end ->
                 poll_finished (snd (fst (fst (vstep cci s o)))) = false ->
                 (forall sc, fevent_of o <> FePoll sc) -> (forall h n, fevent_of o <> FeDeliver h n) ->
                 fevent_of o <> FeCloseInbox ->
                 peer_fin_scan_gen peer_fin_poll_ok2
                   (fstep_of cci s o :: (if poll_finished (snd (fst (fst (vstep cci s o)))) then []
                                         else ftrace cci (vstep_state cci s o) ops)) pending = true).
  { intros H1 H2 N1 N2 N3. rewrite H2. cbn [peer_fin_scan_gen]. rewrite fstep_of_event.
    destruct (fevent_of o) eqn:Ev; try (exfalso; eapply N1; reflexivity); try (exfalso; eapply N2; reflexivity);
      try (exfalso; apply N3; reflexivity); apply IH; apply PInv_other; assumption. }
  destruct o; try (destruct Ho as (_ & _ & O3); apply Hoth; [exact I|exact O3|discriminate|discriminate|discriminate]).
  - (* poll *)
    destruct (poll cci (VSockRec.set_sends s script)) as [s' r] eqn:E.
    rewrite peer_fin_scan_gen_poll by (exists script; apply fstep_of_event).
    destruct Hi as [Hlb Hp].
    assert (Hj : match pending with Some l => peer_fin_poll_ok2 l (fstep_of cci s (VoPoll script)) | None => true end
                 = true).
    { destruct pending as [l|]; [|reflexivity]. destruct Hp as (P1 & P2 & P3).
      eapply peer_fin_poll_check_ok; eauto. }
    rewrite Hj. cbn [andb].
    assert (Hf : snd (fst (fst (vstep cci s (VoPoll script)))) = VrPoll r (rev (v_out s')) (rev (v_wakes s')) (v_arm_in s')).
    { cbn [vstep]. rewrite E. reflexivity. }
    rewrite Hf. unfold poll_finished. destruct r; try reflexivity.
    assert (Hs : vstep_state cci s (VoPoll script) = s').
    { unfold vstep_state. cbn [vstep]. rewrite E. reflexivity. }
    rewrite Hs. apply IH.
    rewrite (fstep_of_poll cci s script s' _ E). cbn [fs_post fp_of_vsock f_transport_pending].
    assert (Hlb' : LB 0 s').
    { pose proof (poll_LB cci (VSockRec.set_sends s script)) as P. rewrite E in P. apply P. exact Hlb. }
    split; [exact Hlb'|].
    destruct (v_transport_pending s') eqn:T; [exact I|].
    destruct pending as [l|]; [|exact I]. destruct Hp as (P1 & _ & _).
    split; [|split].
    + pose proof (poll_G0 cci _ _ _ E) as P. cbn [pG0] in P. destruct P as ((_ & _ & _ & P4 & _) & _).
      rewrite P4. exact P1.
    + rewrite (poll_pending_drained cci _ _ E T). reflexivity.
    + destruct (ss_ok_mss s Hlb) as [M1 _].
      destruct (c07_no_pending_immediate_ack_lemma cci (VSockRec.set_sends s script) s' M1 E T) as (C & _).
      exact C.
  - (* deliver *)
    cbn [peer_fin_scan_gen]. rewrite fstep_of_event. cbn [fevent_of].
    assert (Hf : poll_finished (snd (fst (fst (vstep cci s (VoDeliver m))))) = false).
    { cbn [vstep]. destruct (v_inbox_closed s); reflexivity. }
    rewrite Hf. apply IH. destruct Hi as [Hlb Hp]. split; [apply vstep_LB; exact Hlb|].
    destruct pending as [l|]; [|exact I]. destruct Hp as (P1 & P2 & P3).
    pose proof (vstep_nonpoll_imm s (VoDeliver m)) as Vi. cbv beta iota in Vi. rewrite Vi.
    unfold vstep_state. cbn [vstep]. rewrite P1. cbn [fst]. vsimpl. split; [exact P1|]. split; [|exact P3].
    rewrite map_app, P2. reflexivity.
  - (* close *)
    cbn [peer_fin_scan_gen]. rewrite fstep_of_event. cbn [fevent_of].
    assert (Hf : poll_finished (snd (fst (fst (vstep cci s VoCloseInbox)))) = false) by reflexivity.
    rewrite Hf. apply IH. destruct Hi as [Hlb _]. split; [apply vstep_LB; exact Hlb|exact I].
Qed.

Lemma vsock_new_fields mk c (s0 : vsock) :
  vsock_new cci mk c = Some s0 -> v_inbox s0 = [] /\ v_inbox_closed s0 = false /\ v_cbu s0 = 0.
Proof.
  unfold vsock_new.
  destruct (match (if vc_incoming c then None else _) with Some r => _ | None => _ end); [|discriminate].
  intro H; injection H as <-. repeat split.
Qed.

Theorem c17_peer_fin_ok2_trace : forall mk c cfg (s0 : vsock) ops,
  C10_Pred.vconfig_ok c = true -> vsock_new cci mk c = Some s0 ->
  c17_peer_fin_ok2 cfg (ftrace cci s0 ops) = true.
Proof.
  intros mk c cfg s0 ops Hc Hn. unfold c17_peer_fin_ok2. apply peer_fin_scan2_model.
  pose proof (vsock_new_LB cci mk c s0 Hc Hn) as Hlb.
  destruct (vsock_new_fields mk c s0 Hn) as (F1 & F2 & F3).
  split; [exact Hlb|]. split; [exact F2|]. split; [rewrite F1; reflexivity|].
  unfold immediate_ack_to_transmit. rewrite F3. destruct (ss_ok_mss s0 Hlb) as [M _].
  unfold IMMEDIATE_ACK_EVERY_RMSS. lia.
Qed.

(* ---- the predicate as written, under the monitored guard ---- *)
Lemma peer_fin_scan_is_gen : forall tr pending,
  peer_fin_scan tr pending = peer_fin_scan_gen peer_fin_poll_ok tr pending.
Proof.
  induction tr as [|st r IH]; intro pending; [reflexivity|].
  cbn [peer_fin_scan peer_fin_scan_gen]. destruct (fs_event st); rewrite ?IH; reflexivity.
Qed.

Lemma peer_fin_poll_ok_of2 l st :
  c17_peer_fin_guard_step st = true -> (exists sc, fs_event st = FePoll sc) ->
  peer_fin_poll_ok2 l st = true -> peer_fin_poll_ok l st = true.
Proof.
  intros Hg [sc Hev]. unfold c17_peer_fin_guard_step in Hg. rewrite Hev in Hg.
  apply andb_true_iff in Hg. destruct Hg as [Hnp Hff]. apply negb_true_iff in Hnp.
  unfold peer_fin_poll_ok2. rewrite Hnp. unfold peer_fin_poll_body, peer_fin_poll_ok, oos_fin.
  cbv zeta. rewrite Hff.
  destruct l as [|h l']; [auto|].
  destruct (is_data_state _ && forallb _ (h :: l')); [|auto].
  intro H. repeat (apply andb_true_iff in H; destruct H as [H ?]).
  apply andb_true_iff in H0. destruct H0 as [Ha Hb].
  rewrite H, H3, Ha, Hb. reflexivity.
Qed.

Lemma peer_fin_scan_guarded : forall tr pending,
  forallb c17_peer_fin_guard_step tr = true ->
  peer_fin_scan_gen peer_fin_poll_ok2 tr pending = true ->
  peer_fin_scan_gen peer_fin_poll_ok tr pending = true.
Proof.
  induction tr as [|st r IH]; intros pending Hg H; [reflexivity|].
  cbn [forallb] in Hg. apply andb_true_iff in Hg. destruct Hg as [Hg1 Hg2].
  cbn [peer_fin_scan_gen] in *. destruct (fs_event st) eqn:Ev; try (apply IH; assumption).
  apply andb_true_iff in H. destruct H as [H1 H2]. apply andb_true_iff. split; [|apply IH; assumption].
  destruct pending as [l|]; [|reflexivity]. apply peer_fin_poll_ok_of2; eauto.
Qed.

Theorem c17_peer_fin_guarded_trace : forall mk c cfg (s0 : vsock) ops,
  C10_Pred.vconfig_ok c = true -> vsock_new cci mk c = Some s0 ->
  c17_peer_fin_guarded cfg (ftrace cci s0 ops) = true.
Proof.
  intros mk c cfg s0 ops Hc Hn. unfold c17_peer_fin_guarded.
  destruct (forallb c17_peer_fin_guard_step (ftrace cci s0 ops)) eqn:Hg; [|reflexivity].
  unfold c17_peer_fin_ok. rewrite peer_fin_scan_is_gen. apply peer_fin_scan_guarded; [exact Hg|].
  exact (c17_peer_fin_ok2_trace mk c cfg s0 ops Hc Hn).
Qed.

End WithCC.

(* ================================================================== witnesses *)
Definition tr_cfg (nagle : bool) (pmr rxb : Z) : vconfig :=
  {| vc_incoming := false; vc_ipv4 := true; vc_link_mtu := 1500; vc_rx_buf := rxb;
     vc_tx_init := 32768; vc_tx_max := 1048576; vc_nagle := nagle; vc_max_retx := 5;
     vc_inactivity := 10000000000; vc_wait_last_ack := true; vc_mtu_probe_max_retx := pmr;
     vc_isn := 100; vc_remote_seq := 1; vc_remote_conn_id := 7; vc_remote_wnd := 1048576;
     vc_remote_ts := 0; vc_syn_sent := 1000000000; vc_now0 := 1000000000 |}.

Definition tr_msg (t : ptype) (seq ack : Z) (pl : list Z) : msg :=
  {| m_hdr := {| ch_type := t; ch_conn_id := 0; ch_ts := 6; ch_ts_diff := 0; ch_wnd := 1048576;
                 ch_seq := seq; ch_ack := ack; ch_sack := None; ch_close_reason := None |};
     m_payload := pl |}.

Definition tr_run (cfg : vconfig) (ops : list vop) : list fstep :=
  match vsock_new (fixed_cc 4096) (fun _ _ => tt) cfg with
  | Some s0 => ftrace (fixed_cc 4096) s0 ops
  | None => []
  end.

(* ---- D6 (found by this proof effort, confirmed on the real code, repaired in /repo 4d912d4 + f62adfc).  An MTU
   probe given up AFTER our FIN was numbered - popped because it expired (first form) or because the path
   answered EMSGSIZE to its retransmission by the new-data loop (second form) - was cut again and its second
   part took the FIN's sequence number: an ST_DATA with the FIN's number on the wire (Nagle off), or, with
   the default options, the last bytes never sent and Ready(Ok) after the peer acknowledged the FIN.
   Repairs: the expiry flag handed to pop_expired_mtu_probe is off once our FIN is numbered, and
   unsent_data_exists counts an undelivered MTU probe, so the FIN is not numbered behind a probe that may
   still be given up.  The four former witnesses are regressions: every predicate of C17 holds on them. *)
Definition d6_ops : list vop :=
  [VoWrite (repeat 7 1519); VoPoll []; VoDropReader; VoDropWriter; VoPoll []; VoSetNow 1400000000; VoPoll []].

Definition d6_loss_ops : list vop :=
  [VoWrite (repeat 7 1519); VoPoll []; VoDeliver (tr_msg ST_STATE 1 101 []); VoPoll [];
   VoDropReader; VoDropWriter; VoPoll [];
   VoSetNow 1200000000; VoPoll []; VoSetNow 1600000000; VoPoll [];
   VoDeliver (tr_msg ST_STATE 1 102 []); VoPoll [];
   VoDeliver (tr_msg ST_STATE 1 103 []); VoPoll []].

Definition d6e_ops (lim : Z) : list vop :=
  [VoWrite (repeat 7 1519); VoPoll []; VoDropReader; VoDropWriter; VoPoll []; VoSetLimit (Some lim);
   VoSetNow 1400000000; VoPoll []; VoDeliver (tr_msg ST_STATE 1 101 []); VoPoll []].

Definition d6e_loss_ops : list vop :=
  d6e_ops 1000 ++ [VoDeliver (tr_msg ST_STATE 1 102 []); VoPoll []; VoDeliver (tr_msg ST_STATE 1 103 []); VoPoll []].

Definition d6_reg (cfg : vconfig) (ops : list vop) : bool :=
  let tr := tr_run cfg ops in
  C10_Pred.vconfig_ok cfg && negb (match tr with [] => true | _ => false end) &&
  c17_fin_seq_ok cfg tr && forallb (c17_fin_covers_data_ok cfg) tr &&
  forallb (c17_fin_number_step_ok cfg) tr && forallb (c17_fin_after_data_noerr cfg) tr &&
  c17_fin_same_ok cfg tr &&
  (* no ST_DATA of the trace carries the number of an ST_FIN of the trace *)
  forallb (fun p => negb (pkt_is ST_DATA p) ||
                    negb (existsb (fun q => pkt_is ST_FIN q && (pkt_seq q =? pkt_seq p)) (all_pkts tr)))
          (all_pkts tr).

Definition d6_regression_b : bool :=
  d6_reg (tr_cfg false 0 1048576) d6_ops && d6_reg (tr_cfg false 1 1048576) (d6e_ops 548).

Theorem c17_fin_seq_regression : d6_regression_b = true.
Proof. vm_compute. reflexivity. Qed.

Definition d6_loss_regression_b : bool :=
  d6_reg (tr_cfg true 1 1048576) d6_loss_ops && d6_reg (tr_cfg true 1 1048576) d6e_loss_ops.

Theorem c17_fin_covers_data_regression : d6_loss_regression_b = true.
Proof. vm_compute. reflexivity. Qed.

(* ---- c17_peer_fin_ok as written is FALSE of the model: a receive buffer of 2000 bytes; two ST_DATA of 1500
   bytes: the first is handed to the reader's queue, the second is consumed but cannot be (500 bytes free);
   the reader reads 1500 bytes; an out-of-sequence FIN arrives; the next poll drops it AND flushes the
   waiting 1500 bytes: f_rx_qbytes goes 0 -> 1500, f_rx_len 1 -> 0.  The corrected form holds. *)
Definition pf_ops : list vop :=
  [VoDeliver (tr_msg ST_DATA 1 100 (repeat 5 1500)); VoPoll [];
   VoDeliver (tr_msg ST_DATA 2 100 (repeat 5 1500)); VoPoll [];
   VoRead 1500; VoDeliver (tr_msg ST_FIN 10 100 []); VoPoll []].

Definition pf_refuted_b : bool :=
  let cfg := tr_cfg true 1 2000 in
  let tr := tr_run cfg pf_ops in
  negb (c17_peer_fin_ok cfg tr) && C10_Pred.vconfig_ok cfg && c17_peer_fin_ok2 cfg tr &&
  negb (forallb c17_peer_fin_guard_step tr) &&
  match rev tr with
  | st :: _ => (f_rx_qbytes (fs_pre st) =? 0) && (f_rx_qbytes (fs_post st) =? 1500) &&
               (f_rx_ff (fs_pre st) =? 1) && (f_rx_len (fs_pre st) =? 1) && (f_rx_len (fs_post st) =? 0) &&
               (f_last_consumed (fs_post st) =? 2)
  | [] => false
  end.

Theorem c17_peer_fin_refuted_shape : pf_refuted_b = true.
Proof. vm_compute. reflexivity. Qed.

Theorem c17_peer_fin_ok_refuted :
  exists cfg ops s0,
    C10_Pred.vconfig_ok cfg = true /\
    vsock_new (fixed_cc 4096) (fun _ _ => tt) cfg = Some s0 /\
    c17_peer_fin_ok cfg (ftrace (fixed_cc 4096) s0 ops) = false.
Proof.
  exists (tr_cfg true 1 2000), pf_ops.
  destruct (vsock_new (fixed_cc 4096) (fun _ _ => tt) (tr_cfg true 1 2000)) as [s0|] eqn:E;
    [|vm_compute in E; discriminate].
  exists s0. split; [reflexivity|]. split; [reflexivity|].
  pose proof c17_peer_fin_refuted_shape as H. unfold pf_refuted_b, tr_run in H. cbv zeta in H. rewrite E in H.
  repeat (apply andb_true_iff in H; destruct H as [H _]).
  apply negb_true_iff in H. exact H.
Qed.

(* the guard of c17_peer_fin_guarded is met by a reachable trace on which both clauses are engaged: an
   out-of-sequence FIN, then the FIN in sequence (LastAck 101 1, acknowledged at once) *)
Definition pf_guard_b : bool :=
  let cfg := tr_cfg true 1 1048576 in
  let tr := tr_run cfg [VoDeliver (tr_msg ST_FIN 10 100 []); VoPoll [];
                        VoDeliver (tr_msg ST_FIN 1 100 []); VoPoll []] in
  forallb c17_peer_fin_guard_step tr && c17_peer_fin_ok cfg tr && c17_peer_fin_ok2 cfg tr &&
  match rev tr with
  | st :: _ => match f_state (fs_post st), fs_result st with
               | LastAck 101 1, FrPoll PollPending (p :: _) _ _ => pkt_ack p =? 1
               | _, _ => false
               end
  | [] => false
  end.

Example c17_peer_fin_guard_satisfiable : pf_guard_b = true.
Proof. vm_compute. reflexivity. Qed.

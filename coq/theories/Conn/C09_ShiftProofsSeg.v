(* C09 trace shift, layer 1: the Segments table and Recovery::on_ack commute with the relabelling
   of our sequence numbers under the comparison guards of Conn/C09_Shift.v. *)
From Utp Require Import Base.Prelude Wire.SeqNr Wire.SeqNr_Proofs Wire.Header Tx.Segments
  Conn.Recovery Conn.Msg Conn.C09_Pred Conn.C09_Shift Conn.C09_ShiftProofsSeq.

Ltac ssimpl := cbn [shift_segments ss_segs ss_len_bytes ss_offset ss_removed ss_sack_depth
                    ss_last_sack_empty ss_snd_una] in *.

Lemma enqueue_shift d t n p : enqueue (shift_segments d t) n p = shift_segments d (enqueue t n p).
Proof. reflexivity. Qed.

Lemma on_sent_shift d t i now : on_sent (shift_segments d t) i now = shift_segments d (on_sent t i now).
Proof. reflexivity. Qed.

Lemma pop_mtu_probe_shift d t q : u16_ok q = true ->
  pop_mtu_probe (shift_segments d t) (sh16 d q) =
  (shift_segments d (fst (pop_mtu_probe t q)), snd (pop_mtu_probe t q)).
Proof.
  intros Hq. unfold pop_mtu_probe. ssimpl.
  rewrite sh16_wadd16, sh16_wsub16, sh16_eqb by (try apply u16_ok_wsub16; assumption).
  destruct (last_and_init (ss_segs t)) as [[ini s]|]; [|reflexivity].
  destruct ((_ =? q) && sg_probe s && negb (sg_delivered s)); reflexivity.
Qed.

Lemma pop_expired_shift d t to mr :
  pop_expired_mtu_probe (shift_segments d t) to mr =
  (shift_segments d (fst (pop_expired_mtu_probe t to mr)),
   shift_pe d (snd (pop_expired_mtu_probe t to mr))).
Proof.
  unfold pop_expired_mtu_probe. ssimpl.
  destruct (last_and_init (ss_segs t)) as [[ini s]|]; [|reflexivity].
  destruct (sg_delivered s); [reflexivity|].
  destruct (to && sg_probe s && (mr <=? seg_retransmit_count s)).
  - cbn [fst snd shift_pe]. now rewrite sh16_wadd16, sh16_wsub16.
  - destruct (sg_probe s); reflexivity.
Qed.

Lemma sack_phase_shift d t rest a1 u now ack sk :
  match rest with
  | [] => true
  | _ :: _ => match sk with
              | Some _ => cmp_ok u ack && (if seq_gt u ack then cmp_ok (wadd16 ack 2) u else true)
              | None => true
              end
  end = true ->
  sack_phase (shift_segments d t) rest a1 (sh16 d u) now (sh16 d ack) sk =
  sack_phase t rest a1 u now ack sk.
Proof.
  intros G. unfold sack_phase. destruct rest as [|x r]; [reflexivity|].
  destruct sk as [k|]; [|reflexivity].
  apply andb_true_iff in G as [G1 G2]. rewrite (cmp_ok_seq_gt d u ack G1).
  destruct (seq_gt u ack); [|reflexivity].
  rewrite sh16_wadd16, (cmp_ok_seq_sub d _ _ G2). reflexivity.
Qed.

Lemma remove_up_to_ack_shift d t now ack sk : g_remove_up_to_ack t ack sk = true ->
  remove_up_to_ack (shift_segments d t) now (sh16 d ack) sk =
  (shift_segments d (fst (remove_up_to_ack t now ack sk)), snd (remove_up_to_ack t now ack sk)).
Proof.
  unfold g_remove_up_to_ack. intros G. apply andb_true_iff in G as [G1 G2].
  unfold remove_up_to_ack. ssimpl. rewrite (cmp_ok_seq_sub d _ _ G1).
  cbv zeta in G2.
  set (offset := seq_sub ack (ss_snd_una t)) in *.
  set (dc := if 0 <=? offset then Z.to_nat (Z.min (offset + 1) (len_z (ss_segs t))) else 0%nat) in *.
  rewrite sh16_wadd16.
  rewrite sack_phase_shift by exact G2.
  destruct (sack_phase t (skipn dc (ss_segs t)) _ _ now ack sk) as [[[rest2 a2] depth] lse].
  destruct (strip_delivered rest2 0 0) as [[rest3 cnt3] bytes3].
  cbn [fst snd]. unfold shift_segments; cbn [ss_segs ss_len_bytes ss_offset ss_removed ss_sack_depth
    ss_last_sack_empty ss_snd_una]. now rewrite sh16_wadd16.
Qed.

Lemma calc_flight_size_shift d t ls : g_calc_flight_size t ls = true ->
  calc_flight_size (shift_segments d t) (sh16 d ls) = calc_flight_size t ls.
Proof.
  unfold g_calc_flight_size, calc_flight_size. intros G. ssimpl. now rewrite (cmp_ok_seq_sub d _ _ G).
Qed.

Lemma filter_map_shift_fs d (P : for_sending -> bool) l :
  (forall f, P (shift_fs d f) = P f) ->
  filter P (map (shift_fs d) l) = map (shift_fs d) (filter P l).
Proof.
  intros HP. induction l as [|x r IH]; [reflexivity|].
  cbn [map filter]. rewrite HP. destruct (P x); cbn [map]; now rewrite IH.
Qed.

Definition shift_start (d : Z) (st : option Z) : option Z :=
  match st with Some s => Some (sh16 d s) | None => None end.

Lemma iter_for_sending_shift d t st : g_iter_for_sending t st = true ->
  iter_for_sending (shift_segments d t) (shift_start d st) =
  map (shift_fs d) (iter_for_sending t st).
Proof.
  unfold g_iter_for_sending, iter_for_sending. intros G. ssimpl.
  assert (E : match shift_start d st with
              | Some s => Z.to_nat (Z.max (seq_sub s (sh16 d (ss_snd_una t))) 0)
              | None => 0%nat end =
              match st with
              | Some s => Z.to_nat (Z.max (seq_sub s (ss_snd_una t)) 0)
              | None => 0%nat end).
  { destruct st as [s|]; [|reflexivity]. cbn [shift_start]. now rewrite (cmp_ok_seq_sub d _ _ G). }
  rewrite E. clear E.
  set (off := match st with Some s => _ | None => _ end).
  rewrite <- filter_map_shift_fs by reflexivity.
  f_equal. rewrite map_map. apply map_ext. intros [i s]. unfold shift_fs; cbn [fs_idx fs_seq fs_payload_offset fs_seg].
  now rewrite sh16_wadd16.
Qed.

Lemma iter_for_sending_shift_none d t :
  iter_for_sending (shift_segments d t) None = map (shift_fs d) (iter_for_sending t None).
Proof. apply (iter_for_sending_shift d t None). reflexivity. Qed.

Lemma pipe_loop_shift d t hr th now : forall l a,
  forallb (fun p : nat * seg => cmp_ok (wadd16 (ss_snd_una t) (Z.of_nat (fst p) mod M16)) hr) l = true ->
  pipe_loop l (shift_segments d t) (sh16 d hr) th now a = pipe_loop l t hr th now a.
Proof.
  induction l as [|[off s] r IH]; intros a G; [reflexivity|].
  cbn [forallb fst] in G. apply andb_true_iff in G as [G1 G2].
  cbn [pipe_loop]. ssimpl.
  destruct (seg_last_sent s) as [ls|].
  - destruct (sg_delivered s).
    + now rewrite IH.
    + rewrite sh16_wadd16, (cmp_ok_seq_le d _ _ G1). now rewrite IH.
  - now rewrite IH.
Qed.

Lemma forallb_rev {A} (p : A -> bool) l : forallb p (rev l) = forallb p l.
Proof.
  destruct (forallb p l) eqn:E.
  - apply forallb_forall. intros x Hx. apply in_rev in Hx. revert x Hx. now apply forallb_forall.
  - destruct (forallb p (rev l)) eqn:E2; [|reflexivity].
    assert (forallb p l = true); [|congruence].
    apply forallb_forall. intros x Hx. apply in_rev in Hx. revert x Hx. now apply forallb_forall.
Qed.

Definition shift_pipe_res (d : Z) (r : option (segments * Z * option Z)) : option (segments * Z * option Z) :=
  match r with Some (t', p, rc) => Some (shift_segments d t', p, rc) | None => None end.

Lemma calc_pipe_shift d t hr hd rtt now : g_calc_pipe t hr hd = true ->
  calc_pipe (shift_segments d t) (sh16 d hr) (sh16 d hd) rtt now =
  shift_pipe_res d (calc_pipe t hr hd rtt now).
Proof.
  unfold g_calc_pipe. intros G. apply andb_true_iff in G as [G1 G2]. cbv zeta in G2.
  unfold calc_pipe. ssimpl. rewrite (cmp_ok_seq_sub d _ _ G1).
  set (take := Z.min (Z.max (seq_sub hd (ss_snd_una t)) 0) (len_z (ss_segs t))) in *.
  destruct (len_z (ss_segs t) <? take); [reflexivity|].
  rewrite pipe_loop_shift by (now rewrite forallb_rev).
  destruct (pipe_loop _ t hr _ now _) as [upd a]. reflexivity.
Qed.

(* ---- Recovery ---- *)
Section Rec.
Context {CC : Type} (cci : cc_iface CC).
Variables da db : Z.

Definition shift_rec_res (r : option (recovery * segments * CC)) : option (recovery * segments * CC) :=
  match r with
  | Some (r', t', c) => Some (shift_recovery da r', shift_segments da t', c)
  | None => None
  end.

Lemma count_sack_shift h prev :
  count_sack_duplicates (shift_in_hdr da db h) prev = count_sack_duplicates h prev.
Proof. reflexivity. Qed.

Lemma count_non_sack_shift h prev la :
  match la with Some (_, a) => eq_ok a (ch_ack h) | None => true end = true ->
  count_non_sack_duplicates (shift_in_hdr da db h) prev (shift_last_ack da la) =
  (fst (count_non_sack_duplicates h prev la), shift_last_ack da (snd (count_non_sack_duplicates h prev la))).
Proof.
  intros G. unfold count_non_sack_duplicates. destruct la as [[w a]|]; [|reflexivity].
  cbn [shift_last_ack shift_in_hdr ch_type ch_ack ch_wnd].
  apply andb_true_iff in G as [Ga Gh]. rewrite (sh16_eqb da a (ch_ack h) Ga Gh).
  destruct (ptype_eqb (ch_type h) ST_STATE && (a =? ch_ack h) && negb (negb (w =? ch_wnd h))); reflexivity.
Qed.

Lemma recovery_on_ack_shift r h segs ls cc now rtt :
  g_recovery_on_ack r h segs ls = true ->
  recovery_on_ack cci (shift_recovery da r) (shift_in_hdr da db h) (shift_segments da segs) (sh16 da ls)
                  cc now rtt =
  shift_rec_res (recovery_on_ack cci r h segs ls cc now rtt).
Proof.
  unfold g_recovery_on_ack, recovery_on_ack. intros G.
  cbn [shift_recovery rv_supports_sack rv_last_ack rv_phase shift_in_hdr ch_sack ch_ack]. ssimpl.
  destruct (rv_phase r) as [rp|dup|rc]; cbn [shift_rphase].
  - rewrite (cmp_ok_seq_ge da _ _ G). destruct (seq_ge (ch_ack h) rp); reflexivity.
  - destruct (ss_segs segs) as [|x l] eqn:Es; [reflexivity|].
    apply andb_true_iff in G as [G1 G2].
    fold (shift_in_hdr da db h).
    rewrite count_sack_shift, (count_non_sack_shift h dup (rv_last_ack r) G1).
    set (counted' := if rv_supports_sack r || _ then _ else _).
    set (counted := if rv_supports_sack r || _ then _ else _).
    assert (E : counted' = match counted with Some (dd, la) => Some (dd, shift_last_ack da la) | None => None end).
    { unfold counted, counted'. destruct (rv_supports_sack r || _).
      - destruct (count_sack_duplicates h dup); reflexivity.
      - now destruct (count_non_sack_duplicates h dup (rv_last_ack r)). }
    rewrite E. clear E counted'. destruct counted as [[dd la]|]; [|reflexivity].
    destruct (dd <? SACK_DUP_THRESH); [reflexivity|].
    rewrite sh16_wsub16.
    rewrite (calc_pipe_shift da segs _ _ rtt now G2).
    destruct (calc_pipe segs _ ls rtt now) as [[[segs' pipe] recalc]|]; reflexivity.
  - apply andb_true_iff in G as [G1 G2].
    cbn [rc_recovery_point]. rewrite (cmp_ok_seq_ge da _ _ G1).
    destruct (seq_ge (ch_ack h) (rc_recovery_point rc)); [|reflexivity].
    cbn [rc_cwnd]. fold (shift_segments da segs). rewrite (calc_flight_size_shift da segs ls G2). reflexivity.
Qed.

Lemma recovery_on_rto_shift r ls :
  recovery_on_rto_timeout (shift_recovery da r) (sh16 da ls) =
  shift_recovery da (recovery_on_rto_timeout r ls).
Proof. unfold recovery_on_rto_timeout. cbn [shift_recovery rv_phase]. destruct (rv_phase r); reflexivity. Qed.

Lemma remaining_cwnd_shift r w : remaining_cwnd (shift_recovery da r) w = remaining_cwnd r w.
Proof. unfold remaining_cwnd. cbn [shift_recovery rv_phase]. destruct (rv_phase r); reflexivity. Qed.

Lemma is_recovering_shift r : is_recovering (shift_recovery da r) = is_recovering r.
Proof. unfold is_recovering. cbn [shift_recovery rv_phase]. destruct (rv_phase r); reflexivity. Qed.

End Rec.

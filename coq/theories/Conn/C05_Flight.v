(* C05, window clause: list-level facts about the flight computation and the for-sending iterator.
   - [FLp l n]: undelivered payload of the first n segments; monotone, insensitive to the sent-status;
   - [iter_prefix]: what a prefix of the iterator adds up to, in terms of FLp;
   - sequence-number arithmetic within the wrap tolerance. *)
From Utp Require Import Base.Prelude Wire.SeqNr Wire.SeqNr_Proofs Wire.Header Tx.Segments Tx.Segments_Proofs
  Conn.Recovery Conn.Msg Conn.VSockRec Conn.VSock Conn.VSock_LemmasTx Conn.C05_Proofs.

(* ------------------------------------------------------------------ arithmetic *)
Lemma seq_sub_succ_le a b : 0 <= a < M16 -> 0 <= b < M16 -> seq_sub (wadd16 a 1) b <= seq_sub a b + 1.
Proof.
  unfold seq_sub, seq_nr_offset, wadd16, wsub16, WRAP_TOLERANCE, M16. intros Ha Hb.
  repeat match goal with |- context [if ?c then _ else _] => destruct c eqn:? end; lia.
Qed.

Lemma seq_sub_mod a b k :
  0 <= a < M16 -> 0 <= b < M16 -> -1024 <= k <= 1024 -> (a - b - k) mod M16 = 0 -> seq_sub a b = k.
Proof.
  intros Ha Hb Hk Hm. unfold seq_sub. apply offset_true_distance_pair; auto; unfold WRAP_TOLERANCE; lia.
Qed.

Lemma wadd16_range a b : 0 <= wadd16 a b < M16.
Proof. unfold wadd16, M16. lia. Qed.

Lemma wsub16_range a b : 0 <= wsub16 a b < M16.
Proof. unfold wsub16, M16. lia. Qed.

(* ------------------------------------------------------------------ flight of a prefix *)
Definition FLp (l : list seg) (n : nat) : Z := flight_sum (firstn n l).

Definition lnn (l : list seg) : Prop := Forall (fun g => 0 <= sg_size g) l.

Lemma flight_sum_app a b : flight_sum (a ++ b) = flight_sum a + flight_sum b.
Proof. induction a as [|x xs IH]; cbn [app flight_sum]; lia. Qed.

Lemma flight_sum_nn l : lnn l -> 0 <= flight_sum l.
Proof. induction 1 as [|g r Hg _ IH]; cbn [flight_sum]; [lia|]. destruct (sg_delivered g); lia. Qed.

Lemma lnn_app a b : lnn (a ++ b) <-> lnn a /\ lnn b.
Proof. unfold lnn. apply Forall_app. Qed.

Lemma lnn_skipn n l : lnn l -> lnn (skipn n l).
Proof. intro H. rewrite <- (firstn_skipn n l) in H. apply lnn_app in H. apply H. Qed.

Lemma lnn_firstn n l : lnn l -> lnn (firstn n l).
Proof. intro H. rewrite <- (firstn_skipn n l) in H. apply lnn_app in H. apply H. Qed.

Lemma firstn_plus {A} : forall n m (l : list A), firstn (n + m) l = firstn n l ++ firstn m (skipn n l).
Proof.
  induction n as [|n IH]; intros m l; [reflexivity|].
  destruct l as [|x xs]; cbn [plus firstn skipn app]; [destruct m; reflexivity|]. rewrite IH. reflexivity.
Qed.

Lemma FLp_mono l n m : lnn l -> (n <= m)%nat -> FLp l n <= FLp l m.
Proof.
  intros Hl Hnm. unfold FLp.
  replace m with (n + (m - n))%nat by lia. rewrite firstn_plus, flight_sum_app.
  pose proof (flight_sum_nn (firstn (m - n) (skipn n l)) (lnn_firstn _ _ (lnn_skipn _ _ Hl))). lia.
Qed.

Lemma FLp_nn l n : lnn l -> 0 <= FLp l n.
Proof. intro H. apply flight_sum_nn, lnn_firstn, H. Qed.

Lemma FLp_skipn l o n : flight_sum (firstn n (skipn o l)) = FLp l (o + n) - FLp l o.
Proof. unfold FLp. rewrite firstn_plus, flight_sum_app. lia. Qed.

Lemma flight_sum_dview l l' : map dview l = map dview l' -> flight_sum l = flight_sum l'.
Proof.
  revert l'. induction l as [|x xs IH]; intros [|y ys] H; cbn [map] in H; try discriminate; [reflexivity|].
  injection H as A1 A2 A3 A4.
  cbn [flight_sum]. rewrite (IH _ A4), A1, A3. reflexivity.
Qed.

Lemma FLp_dview l l' n : map dview l = map dview l' -> FLp l n = FLp l' n.
Proof.
  intro H. unfold FLp. apply flight_sum_dview. rewrite <- !firstn_map, H. reflexivity.
Qed.

Lemma FLp_app l x n : (n <= length l)%nat -> FLp (l ++ x) n = FLp l n.
Proof. intro H. unfold FLp. rewrite firstn_app. replace (n - length l)%nat with 0%nat by lia. cbn [firstn]. rewrite app_nil_r. reflexivity. Qed.

Lemma FLp_0 l : FLp l 0 = 0.
Proof. reflexivity. Qed.

(* an undelivered segment sits at index i *)
Definition und_at (l : list seg) (i : nat) : Prop :=
  exists g, nth_error l i = Some g /\ sg_delivered g = false.

Lemma und_at_lt l i : und_at l i -> (i < length l)%nat.
Proof. intros (g & H & _). apply nth_error_Some. congruence. Qed.

Lemma und_at_dview l l' i : map dview l = map dview l' -> und_at l i -> und_at l' i.
Proof.
  intros H (g & Hn & Hd).
  assert (E : nth_error (map dview l') i = Some (dview g)) by (rewrite <- H, nth_error_map, Hn; reflexivity).
  rewrite nth_error_map in E. destruct (nth_error l' i) as [g'|] eqn:Eg; [|discriminate].
  cbn [option_map] in E. injection E as E1 E2 E3. exists g'. split; [exact Eg|]. congruence.
Qed.

Lemma und_at_app l x i : und_at l i -> und_at (l ++ x) i.
Proof. intros (g & Hn & Hd). exists g. split; [|exact Hd]. rewrite nth_error_app1; [exact Hn|]. apply nth_error_Some. congruence. Qed.

Lemma und_at_init l g i : (i < length l)%nat -> und_at (l ++ [g]) i -> und_at l i.
Proof. intros Hi (g' & Hn & Hd). exists g'. split; [|exact Hd]. rewrite nth_error_app1 in Hn; assumption. Qed.

(* an undelivered segment between o and a makes the flight grow *)
Lemma FLp_und_lt l o a i :
  lnn l -> (o <= i)%nat -> (i < a)%nat -> und_at l i -> (forall g, nth_error l i = Some g -> 1 <= sg_size g) ->
  FLp l o < FLp l a.
Proof.
  intros Hl Hoi Hia (g & Hn & Hd) Hsz. specialize (Hsz g Hn).
  assert (H1 : FLp l o <= FLp l i) by (apply FLp_mono; assumption).
  assert (H2 : FLp l (S i) <= FLp l a) by (apply FLp_mono; [assumption|lia]).
  assert (H3 : FLp l (S i) = FLp l i + sg_size g).
  { unfold FLp. replace (S i) with (i + 1)%nat by lia. rewrite firstn_plus, flight_sum_app.
    assert (E : firstn 1 (skipn i l) = [g]).
    { clear - Hn. revert i Hn. induction l as [|x xs IH]; intros [|i] Hn; cbn in *; try discriminate.
      - injection Hn as ->. reflexivity.
      - apply IH. exact Hn. }
    rewrite E. cbn [flight_sum]. rewrite Hd. lia. }
  lia.
Qed.

(* ------------------------------------------------------------------ the iterator, by prefixes *)
Definition mkf (t : segments) : nat * seg -> for_sending :=
  fun '(i, s) => {| fs_idx := i; fs_seq := wadd16 (ss_snd_una t) (Z.of_nat i mod M16);
                    fs_payload_offset := sg_abs s - ss_removed t; fs_seg := s |}.

Definition undf (f : for_sending) : bool := negb (sg_delivered (fs_seg f)).

Definition iter_off (t : segments) (start : option Z) : nat :=
  match start with
  | Some s => Z.to_nat (Z.max (seq_sub s (ss_snd_una t)) 0)
  | None => O
  end.

Lemma iter_for_sending_eq t start :
  iter_for_sending t start =
  filter undf (map (mkf t) (enum_from (iter_off t start) (skipn (iter_off t start) (ss_segs t)))).
Proof. reflexivity. Qed.

(* strictly increasing list of indices *)
Fixpoint sinc (l : list nat) : Prop :=
  match l with
  | a :: (b :: _) as r => (a < b)%nat /\ sinc r
  | _ => True
  end.

Lemma sinc_cons a l : sinc (a :: l) <-> (match l with b :: _ => (a < b)%nat | [] => True end) /\ sinc l.
Proof.
  destruct l as [|b l']; [cbn; tauto|].
  change (sinc (a :: b :: l')) with ((a < b)%nat /\ sinc (b :: l')). tauto.
Qed.

Lemma sinc_app a b : sinc (a ++ b) -> sinc a /\ sinc b.
Proof.
  induction a as [|x xs IH]; cbn [app]; [intro H; split; [exact I|exact H]|].
  intro H. apply sinc_cons in H. destruct H as [H1 H2]. destruct (IH H2) as [I1 I2].
  split; [|exact I2]. apply sinc_cons. split; [|exact I1].
  destruct xs as [|y ys]; [exact I|]. exact H1.
Qed.

Lemma sinc_app_last a x b y : sinc ((a ++ [x]) ++ y :: b) -> (x < y)%nat.
Proof.
  induction a as [|z zs IH]; cbn [app]; intro H.
  - apply H.
  - apply sinc_cons in H. apply IH. apply H.
Qed.

Lemma iter_prefix t : forall l o sent rest,
  filter undf (map (mkf t) (enum_from o l)) = sent ++ rest ->
  exists n, (n <= length l)%nat /\ fs_bytes sent = flight_sum (firstn n l) /\
    (sent = [] -> n = 0%nat) /\
    (forall pre f, sent = pre ++ [f] -> (fs_idx f + 1 = o + n)%nat) /\
    (forall f post, sent = f :: post -> (o <= fs_idx f)%nat /\ flight_sum (firstn (fs_idx f - o) l) = 0) /\
    sinc (map fs_idx sent) /\
    (forall f post, rest = f :: post -> (o + n <= fs_idx f)%nat /\
                                        flight_sum (firstn (fs_idx f - o) l) = flight_sum (firstn n l)).
Proof.
  induction l as [|x xs IH]; intros o sent rest H.
  - cbn in H. destruct sent; [|discriminate]. destruct rest; [|discriminate].
    exists 0%nat. cbn. repeat split; auto; try (intros; discriminate); try lia.
    intros pre f E. destruct pre; discriminate.
  - cbn [enum_from map filter] in H. unfold undf at 1 in H. cbn [mkf fs_seg] in H.
    destruct (sg_delivered x) eqn:Ed; cbn [negb] in H.
    + (* x delivered: skipped *)
      destruct (IH _ _ _ H) as (n & Hn & Hb & Hnil & Hlast & Hhd & Hs & Hr).
      destruct sent as [|f0 sent'].
      * exists 0%nat. cbn [firstn flight_sum fs_bytes length]. repeat split; auto; try lia; try (intros; discriminate).
        -- intros pre f E. destruct pre; discriminate.
        -- specialize (Hr f post H0). lia.
        -- specialize (Hr f post H0). rewrite (Hnil eq_refl) in Hr. destruct Hr as [Hr1 Hr2].
           replace (fs_idx f - o)%nat with (S (fs_idx f - S o)) by lia. cbn [firstn flight_sum]. rewrite Ed.
           cbn [firstn flight_sum] in Hr2. lia.
      * exists (S n). cbn [firstn flight_sum length]. rewrite Ed.
        split; [lia|]. split; [lia|]. split; [discriminate|].
        split; [intros pre f E; specialize (Hlast pre f E); lia|].
        split.
        { intros f post E. destruct (Hhd f post E) as [A1 A2]. split; [lia|].
          replace (fs_idx f - o)%nat with (S (fs_idx f - S o)) by lia. cbn [firstn flight_sum]. rewrite Ed. lia. }
        split; [exact Hs|].
        intros f post E. destruct (Hr f post E) as [A1 A2]. split; [lia|].
        replace (fs_idx f - o)%nat with (S (fs_idx f - S o)) by lia. cbn [firstn flight_sum]. rewrite Ed. lia.
    + (* x undelivered: the next item *)
      destruct sent as [|f0 sent'].
      * exists 0%nat. cbn [firstn flight_sum fs_bytes length]. repeat split; auto; try lia; try (intros; discriminate).
        -- intros pre f E. destruct pre; discriminate.
        -- cbn [app] in H. rewrite <- H in H0. injection H0 as <- _. cbn [fs_idx]. lia.
        -- cbn [app] in H. rewrite <- H in H0. injection H0 as <- _. cbn [fs_idx]. rewrite Nat.sub_diag. reflexivity.
      * cbn [app] in H. injection H as Hf0 H.
        destruct (IH _ _ _ H) as (n & Hn & Hb & Hnil & Hlast & Hhd & Hs & Hr).
        exists (S n). cbn [firstn flight_sum length fs_bytes]. rewrite Ed, <- Hf0. cbn [fs_seg fs_idx].
        split; [lia|]. split; [lia|]. split; [discriminate|].
        split.
        { intros pre f E. destruct pre as [|p0 pre'].
          - cbn [app] in E. injection E as E1 E2. subst sent'. rewrite (Hnil eq_refl). rewrite <- E1. cbn [fs_idx]. lia.
          - cbn [app] in E. injection E as E1 E2. specialize (Hlast pre' f E2). lia. }
        split.
        { intros f post E. injection E as <- _. cbn [fs_idx]. split; [lia|]. rewrite Nat.sub_diag. reflexivity. }
        split.
        { cbn [map]. apply sinc_cons. split; [|exact Hs].
          destruct sent' as [|f1 s1]; [exact I|]. cbn [map]. destruct (Hhd f1 s1 eq_refl) as [A _]. cbn [fs_idx]. lia. }
        intros f post E. destruct (Hr f post E) as [A1 A2]. split; [lia|].
        replace (fs_idx f - o)%nat with (S (fs_idx f - S o)) by lia. cbn [firstn flight_sum]. rewrite Ed. lia.
Qed.

(* ------------------------------------------------------------------ more list facts *)
Lemma last_default' {A} : forall (l : list A) x d d', last (x :: l) d = last (x :: l) d'.
Proof. induction l as [|y ys IH]; intros x d d'; [reflexivity|]. cbn [last]. apply (IH y d d'). Qed.

Lemma last_cons_ne {A} (y : A) l d : l <> [] -> last (y :: l) d = last l d.
Proof. destruct l; [congruence|reflexivity]. Qed.

Lemma last_app_cons {A} : forall (a : list A) x b d, last (a ++ x :: b) d = last (x :: b) d.
Proof.
  induction a as [|y ys IH]; intros x b d; [reflexivity|].
  cbn [app]. rewrite last_cons_ne by (destruct ys; discriminate). apply IH.
Qed.

Lemma last_map {A B} (f : A -> B) : forall l d, last (map f l) (f d) = f (last l d).
Proof.
  induction l as [|x xs IH]; intro d; [reflexivity|].
  cbn [map]. destruct xs as [|y ys]; [reflexivity|]. cbn [map last] in *. apply (IH d).
Qed.

Lemma sinc_le_last : forall l d, sinc l -> Forall (fun i => (i <= last l d)%nat) l.
Proof.
  induction l as [|x xs IH]; intros d H; [constructor|].
  apply sinc_cons in H. destruct H as [H1 H2].
  destruct xs as [|y ys]; [constructor; [cbn; lia|constructor]|].
  specialize (IH d H2). change (last (x :: y :: ys) d) with (last (y :: ys) d).
  constructor; [|exact IH]. inversion IH; subst. lia.
Qed.

Lemma sinc_app_intro : forall a b d,
  sinc a -> sinc b -> (a = [] \/ match b with [] => True | y :: _ => (last a d < y)%nat end) -> sinc (a ++ b).
Proof.
  induction a as [|x xs IH]; intros b d Ha Hb Hl; [exact Hb|].
  cbn [app]. apply sinc_cons. apply sinc_cons in Ha. destruct Ha as [Ha1 Ha2].
  destruct Hl as [Hl|Hl]; [discriminate|].
  split.
  - destruct xs as [|y ys]; cbn [app]; [destruct b; [exact I|exact Hl]|exact Ha1].
  - apply (IH b d Ha2 Hb). destruct xs as [|y ys]; [left; reflexivity|right].
    destruct b; [exact I|]. exact Hl.
Qed.

(* seq_nr_offset always returns a value congruent to the difference *)
Lemma seq_sub_congr a b : 0 <= a < M16 -> 0 <= b < M16 -> (a - b - seq_sub a b) mod M16 = 0.
Proof.
  unfold seq_sub, seq_nr_offset, wsub16, WRAP_TOLERANCE, M16. intros Ha Hb.
  repeat match goal with |- context [if ?c then _ else _] => destruct c eqn:? end; lia.
Qed.
